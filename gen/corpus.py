#!/usr/bin/env python3
"""Generates the compiled program corpus: /verif/spec/progs/corpus.json (ASTs read by TLC) and the cargo
packages /verif/harness/corpus*/ (one Rust module per program variant). Deterministic; the output is committed.

usage: gen/corpus.py [--shards N]
"""
import json, os, sys, copy, random
sys.path.insert(0, os.path.dirname(os.path.abspath(__file__)))
import dsl, render, programs, variants

ROOT = os.path.dirname(os.path.dirname(os.path.abspath(__file__)))
SHARDS = 8


def push_conv(ty, i, cmap):
    """Rust expression converting JSON column row[i] into the column type."""
    if ty == "int":
        if cmap == "str":
            return f'format!("s{{}}", row[{i}].as_i64().unwrap())'
        if cmap == "u64":
            return f"((row[{i}].as_i64().unwrap() + 7) * 1000003) as u64"
        return f"row[{i}].as_i64().unwrap() as i32"
    if ty == "opt":
        return f'(if row[{i}]["tag"].is_str("some") {{ Some(row[{i}]["v"].as_i64().unwrap() as i32) }} else {{ None }})'
    if ty == "max_i32":
        return f"row[{i}].as_i64().unwrap() as i32"
    if ty == "dual_i32":
        return f"Dual(row[{i}].as_i64().unwrap() as i32)"
    if ty == "set_i32":
        return f"Set(row[{i}].as_array().unwrap().iter().map(|v| v.as_i64().unwrap() as i32).collect())"
    return f'panic!("verif harness: cannot push a value of lattice type {ty}")'


PRELUDE = """#![allow(unused_imports, unused_variables, unused_mut, dead_code, non_snake_case, unused_parens, clippy::all)]
use ascent::lattice::bounded_set::BoundedSet;
use ascent::lattice::constant_propagation::ConstPropagation;
use ascent::lattice::set::Set;
use ascent::lattice::Product;
use ascent::{Dual, Lattice};
use vh_lite::{rows_json, Driven, Value};
"""


def module_source(modname, prog, var):
    """Rust source of one program variant (see variants.py for what `var` may contain)."""
    v = variants.VARIANTS[var]
    p2, cmap = variants.transform(prog, var)
    decls, macros, rules = render.render_program_items(p2, cmap)
    return render.render_consts(p2, cmap) + variants.assemble(modname, p2, var, cmap, decls, macros, rules, push_conv)


def main():
    shards = SHARDS
    if "--shards" in sys.argv:
        shards = int(sys.argv[sys.argv.index("--shards") + 1])
    progs = []
    index = []          # (prog name, variant, module name, shard)
    for name, d in programs.P.items():
        ast = dsl.parse(name, d["text"])
        ast["tags"] = sorted(d["tags"])
        ast["bound"] = d["bound"]
        ast["dom"] = d["dom"]
        progs.append(ast)
    os.makedirs(os.path.join(ROOT, "spec", "progs"), exist_ok=True)
    with open(os.path.join(ROOT, "spec", "progs", "corpus.json"), "w") as f:
        json.dump(progs, f, indent=None, separators=(",", ":"))
    mods = []
    for ast in progs:
        for var in variants.variants_for(ast):
            mods.append((ast, var))
    # longest-processing-time style distribution: round robin over shards in program order keeps sizes even
    # programs with BYODS providers get crates of their own (one per provider): a provider that does not compile for
    # some access pattern must not take the rest of the corpus down with it
    ds_crates = {"ds10": shards, "ds11": shards + 1, "ds12": shards + 2}
    per = [[] for _ in range(shards + 3)]
    i = 0
    for (ast, var) in mods:
        tag = next((t for t in ds_crates if t in ast["tags"]), None)
        if tag:
            per[ds_crates[tag]].append((ast, var))
        else:
            per[i % shards].append((ast, var))
            i += 1
    members = []
    for s, lst in enumerate(per):
        crate = f"corpus{s}"
        members.append(crate)
        d = os.path.join(ROOT, "harness", crate)
        os.makedirs(os.path.join(d, "src"), exist_ok=True)
        with open(os.path.join(d, "Cargo.toml"), "w") as f:
            f.write(f"""[package]
name = "{crate}"
version = "0.1.0"
edition = "2021"

[dependencies]
ascent = {{ workspace = true }}
ascent-byods-rels = {{ workspace = true }}
vh-lite = {{ workspace = true }}

[features]
# C09: the whole crate can be rebuilt with ascent's segment-codegen feature (thorough tier)
segment = ["ascent/segment-codegen"]
""")
        main_rs = [PRELUDE, "use vh_lite::{read_cases, drive, drive_group, quiet_panics, Out};", ""]
        table = []
        for ast, var in lst:
            modname = f"{ast['name']}__{var}"
            index.append({"prog": ast["name"], "var": var, "mod": modname, "crate": crate})
            with open(os.path.join(d, "src", modname + ".rs"), "w") as f:
                f.write(PRELUDE + module_source(modname, ast, var))
            main_rs.append(f"mod {modname};")
            table.append(f'      "{modname}" => {modname}::make,')
        main_rs.append("""
fn lookup(name: &str) -> fn() -> Box<dyn Driven> {
   match name {
""" + "\n".join(table) + """
      _ => panic!("no such program variant in this shard: {}", name),
   }
}

fn main() {
   quiet_panics();
   let mut out = Out::open();
   let cases = read_cases();
   let mut i = 0;
   while i < cases.len() {
      let case = &cases[i];
      let m = format!("{}__{}", case["prog"].as_str().unwrap(), case["var"].as_str().unwrap());
      if let Some(g) = case["group"].as_i64() {
         // cases of one group run simultaneously
         let mut grp = vec![];
         while i < cases.len() && cases[i]["group"].as_i64() == Some(g) {
            let m = format!("{}__{}", cases[i]["prog"].as_str().unwrap(), cases[i]["var"].as_str().unwrap());
            grp.push((cases[i].clone(), lookup(&m)));
            i += 1;
         }
         drive_group(&grp, &mut out);
      } else {
         drive(case, &mut out, lookup(&m));
         i += 1;
      }
   }
   out.flush();
}
""")
        with open(os.path.join(d, "src", "main.rs"), "w") as f:
            f.write("\n".join(main_rs))
    with open(os.path.join(ROOT, "gen", "corpus_index.json"), "w") as f:
        json.dump({"modules": index, "shards": shards, "ds_shards": [shards, shards + 1, shards + 2]}, f, indent=1)
    # workspace members
    ws = os.path.join(ROOT, "harness", "Cargo.toml")
    txt = open(ws).read()
    import re
    m = re.search(r"members = \[(.*?)\]", txt, re.S)
    cur = [x.strip().strip('"') for x in m.group(1).split(",") if x.strip()]
    cur = [c for c in cur if not re.match(r"corpus\d+$", c)] + members
    txt = txt[:m.start()] + "members = [" + ", ".join(f'"{c}"' for c in cur) + "]" + txt[m.end():]
    open(ws, "w").write(txt)
    print(f"{len(progs)} programs, {len(mods)} modules in {shards} shards")


if __name__ == "__main__":
    main()
