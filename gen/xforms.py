"""Semantics-preserving AST transformations used for variant families:
permute (C06), rename (C06), expand = documented desugaring + hygienic macro expansion written out by hand (C07, C08)."""
import copy, random, itertools

REN_SUFFIX = "_rn"


# ------------------------------------------------------------------------------------------------ helpers
def map_expr_vars(e, f):
    e = dict(e)
    if e["op"] == "var":
        e["n"] = f(e["n"])
        return e
    if e["op"] == "blk":
        e["n"] = f(e["n"])          # the binder of the block is renamed with its uses
    for k in ("a", "b", "c"):
        if k in e:
            e[k] = map_expr_vars(e[k], f)
    if "es" in e:
        e["es"] = [map_expr_vars(x, f) for x in e["es"]]
    return e


def subst_expr(e, sub):
    """substitute variables by expressions"""
    if e["op"] == "var":
        return copy.deepcopy(sub[e["n"]]) if e["n"] in sub else dict(e)
    e = dict(e)
    for k in ("a", "b", "c"):
        if k in e:
            e[k] = subst_expr(e[k], sub)
    if "es" in e:
        e["es"] = [subst_expr(x, sub) for x in e["es"]]
    return e


def map_pat_vars(p, f):
    p = dict(p)
    if p["p"] == "var":
        p["n"] = f(p["n"])
    if "q" in p:
        p["q"] = map_pat_vars(p["q"], f)
    if "qs" in p:
        p["qs"] = [map_pat_vars(q, f) for q in p["qs"]]
    return p


def map_arg_vars(a, f):
    a = dict(a)
    if a["k"] == "v":
        a["n"] = f(a["n"])
    elif a["k"] == "e":
        a["e"] = map_expr_vars(a["e"], f)
    elif a["k"] == "p":
        a["p"] = map_pat_vars(a["p"], f)
    return a


def map_item_vars(it, f, frel=lambda r: r):
    it = copy.deepcopy(it)
    t = it["t"]
    if t == "cl":
        it["rel"] = frel(it["rel"])
        it["args"] = [map_arg_vars(a, f) for a in it["args"]]
        it["conds"] = [map_item_vars(c, f, frel) for c in it["conds"]]
    elif t == "if":
        it["e"] = map_expr_vars(it["e"], f)
    elif t in ("let", "iflet"):
        it["p"] = map_pat_vars(it["p"], f)
        it["e"] = map_expr_vars(it["e"], f)
    elif t == "for":
        it["p"] = map_pat_vars(it["p"], f)
        it["lo"] = map_expr_vars(it["lo"], f)
        it["hi"] = map_expr_vars(it["hi"], f)
    elif t == "neg":
        it["rel"] = frel(it["rel"])
        it["args"] = [map_arg_vars(a, f) for a in it["args"]]
    elif t == "agg":
        it["rel"] = frel(it["rel"])
        it["p"] = map_pat_vars(it["p"], f)
        it["bound"] = [f(b) for b in it["bound"]]
        it["args"] = [map_arg_vars(a, f) for a in it["args"]]
    elif t == "disj":
        it["alts"] = [[map_item_vars(x, f, frel) for x in alt] for alt in it["alts"]]
    elif t == "mac":
        it["args"] = [map_expr_vars(a, f) for a in it["args"]]
    return it


def expr_vars(e):
    if e["op"] == "var":
        return {e["n"]}
    if e["op"] == "blk":
        return expr_vars(e["a"]) | (expr_vars(e["b"]) - {e["n"]})
    s = set()
    for k in ("a", "b", "c"):
        if k in e:
            s |= expr_vars(e[k])
    for x in e.get("es", []):
        s |= expr_vars(x)
    return s


def pat_vars(p):
    if p["p"] == "var":
        return {p["n"]}
    s = set()
    if "q" in p:
        s |= pat_vars(p["q"])
    for q in p.get("qs", []):
        s |= pat_vars(q)
    return s


# ------------------------------------------------------------------------------------------------ rename (C06)
def rename(prog):
    p = copy.deepcopy(prog)
    fv = lambda n: "v_" + n + "_q"
    fr = lambda r: r + REN_SUFFIX
    for r in p["rels"]:
        r["name"] = fr(r["name"])
    for m in p.get("macros", []):
        m["params"] = [fv(x) for x in m["params"]]
        m["body"] = [map_item_vars(it, fv, fr) for it in m["body"]]
    for rule in p["rules"]:
        rule["body"] = [map_item_vars(it, fv, fr) for it in rule["body"]]
        for h in rule["heads"]:
            h["rel"] = fr(h["rel"])
            h["args"] = [map_expr_vars(a, fv) for a in h["args"]]
    return p


# ------------------------------------------------------------------------------------------------ permute (C06)
def pure_clause(it):
    return it["t"] == "cl" and not it["conds"] and all(a["k"] in ("v", "w", "c") for a in it["args"])


def permute(prog, seed):
    rnd = random.Random(seed * 7919 + len(prog["rules"]))
    p = copy.deepcopy(prog)
    rnd.shuffle(p["rules"])
    rnd.shuffle(p["rels"])
    for rule in p["rules"]:
        rnd.shuffle(rule["heads"])
        b = rule["body"]
        for _ in range(4):
            for i in range(len(b) - 1):
                if pure_clause(b[i]) and pure_clause(b[i + 1]) and rnd.random() < 0.6:
                    b[i], b[i + 1] = b[i + 1], b[i]
        # inside disjunctions: permute the alternatives
        for it in b:
            if it["t"] == "disj":
                rnd.shuffle(it["alts"])
    return p


# ------------------------------------------------------------------------------------------------ expand (C07, C08)
class Fresh:
    def __init__(self):
        self.n = 0

    def new(self, base):
        self.n += 1
        return f"{base}__x{self.n}"


def expand_macros_items(items, macros, fresh, depth=0):
    """Hygienic expansion: identifiers introduced by a macro body (bound there and not parameters) are renamed
    fresh for each invocation; parameters are replaced by the call-site arguments."""
    assert depth < 20, "macro expansion too deep"
    out = []
    for it in items:
        if it["t"] == "mac":
            m = macros[it["name"]]
            params = m["params"]
            sub = dict(zip(params, it["args"]))
            local = {}

            def f(n, sub=sub, local=local):
                if n in sub:
                    a = sub[n]
                    assert a["op"] == "var", "macro arguments in clause positions must be identifiers"
                    return a["n"]
                if n not in local:
                    local[n] = fresh.new(n)
                return local[n]
            body = [map_item_vars(x, f) for x in m["body"]]
            out.extend(expand_macros_items(body, macros, fresh, depth + 1))
        elif it["t"] == "disj":
            it = dict(it)
            it["alts"] = [expand_macros_items(alt, macros, fresh, depth) for alt in it["alts"]]
            out.append(it)
        else:
            out.append(it)
    return out


def disj_product(items):
    """list of conjunctions (lists of disjunction-free items)"""
    res = [[]]
    for it in items:
        if it["t"] == "disj":
            alts = []
            for alt in it["alts"]:
                alts.extend(disj_product(alt))
        else:
            alts = [[it]]
        res = [r + a for r in res for a in alts]
    return res


def desugar_conj(items, fresh):
    """pattern args, non-variable args, repeated variables, wildcards, negation -> core forms"""
    bound = set()
    out = []
    for it in items:
        it = copy.deepcopy(it)
        t = it["t"]
        if t == "cl":
            new_args, conds = [], []
            seen_here = set()
            for a in it["args"]:
                k = a["k"]
                if k == "w":
                    new_args.append({"k": "v", "n": fresh.new("w")})
                elif k == "v":
                    if a["n"] in bound or a["n"] in seen_here:
                        n = fresh.new(a["n"])
                        new_args.append({"k": "v", "n": n})
                        conds.append({"t": "if", "e": {"op": "eq", "a": {"op": "var", "n": n}, "b": {"op": "var", "n": a["n"]}}})
                    else:
                        seen_here.add(a["n"])
                        new_args.append(a)
                elif k == "c":
                    n = fresh.new("c")
                    new_args.append({"k": "v", "n": n})
                    conds.append({"t": "if", "e": {"op": "eq", "a": {"op": "var", "n": n}, "b": {"op": "lit", "v": a["v"]}}})
                elif k == "e":
                    n = fresh.new("e")
                    new_args.append({"k": "v", "n": n})
                    conds.append({"t": "if", "e": {"op": "eq", "a": {"op": "var", "n": n}, "b": a["e"]}})
                elif k == "p":
                    n = fresh.new("p")
                    new_args.append({"k": "v", "n": n})
                    conds.append({"t": "iflet", "p": a["p"], "e": {"op": "var", "n": n}, "byref": True})
                    seen_here |= pat_vars(a["p"])
            it["args"] = new_args
            it["conds"] = conds + it["conds"]
            bound |= seen_here
            for c in it["conds"]:
                if c["t"] in ("let", "iflet"):
                    bound |= pat_vars(c["p"])
            out.append(it)
        elif t == "neg":
            out.append({"t": "agg", "p": {"p": "wild"}, "f": "not", "bound": [], "rel": it["rel"], "args": it["args"]})
        else:
            if t in ("let", "iflet", "for", "agg"):
                bound |= pat_vars(it["p"])
            out.append(it)
    return out


def expand(prog):
    p = copy.deepcopy(prog)
    macros = {m["name"]: m for m in p.get("macros", [])}
    fresh = Fresh()
    rules = []
    for rule in p["rules"]:
        body = expand_macros_items(rule["body"], macros, fresh)
        for conj in disj_product(body):
            core = desugar_conj(conj, fresh)
            for h in rule["heads"]:
                rules.append({"heads": [copy.deepcopy(h)], "body": copy.deepcopy(core)})
    p["rules"] = rules
    p["macros"] = []
    return p
