#!/usr/bin/env python3
"""Ill-formed mutants of the well-formed corpus programs (property C15) and the Rust probes compiled from them.

A mutant is a corpus program with exactly ONE violation of one class of the property, applied at one rule /
clause position.  Every mutant carries
  ast    : the JSON AST handed to TLC (spec/AscentSyntax.tla decides which predicate it violates); mutants use
           the optional fields rel.attrs, rel.ds2, prog.attrs, prog.nested_include
  cls    : violation class              kind : position kind (where in the program the violation sits)
  expect : the AscentSyntax predicate that must be the only one to fail
and is rendered by `render_probe` under each of the four macros.  `generate` also returns the unmutated twins.

usage (debugging): gen/mutants.py {quick|thorough} [seed]      prints the class / kind table
"""
import copy, itertools, json, os, random, sys
sys.path.insert(0, os.path.dirname(os.path.abspath(__file__)))
import dsl, render, programs

MACROS = ("ascent", "ascent_par", "ascent_run", "ascent_run_par")
PAR = ("ascent_par", "ascent_run_par")
RUN = ("ascent_run", "ascent_run_par")

EXPECT = {
    "undeclared": "DeclaredRels", "arity": "ArityOk", "strat": "Stratified", "rebind": "NoRebinding",
    "macro_rec": "NoSelfReferentialMacro", "nested_include": "NoNestedInclude", "ds_on_lattice": "NoProviderOnLattice",
    "two_ds": "OneDsAttribute", "unknown_prog_attr": "KnownAttributes", "unknown_rel_attr": "KnownAttributes",
    "irp_in_serial": "KnownAttributes",
}
# mutants per class in the quick tier (thorough: x5)
CAPS = {"undeclared": 16, "arity": 24, "strat": 22, "rebind": 40, "macro_rec": 24, "nested_include": 5,
        "ds_on_lattice": 5, "two_ds": 5, "unknown_prog_attr": 10, "unknown_rel_attr": 5, "irp_in_serial": 3}
DS_RUST = {"rel": "ascent::rel", "eqrel": "ascent_byods_rels::eqrel", "trrel": "ascent_byods_rels::trrel",
           "trrel_uf": "ascent_byods_rels::trrel_uf"}
UNKNOWN_ATTR = "frobnicate"
UNDECLARED = "nodecl"


# ------------------------------------------------------------------------------------------------ corpus
def corpus():
    """Well-formed source programs: every corpus program that is compiled under the parallel macros as well."""
    out = []
    for name, d in programs.P.items():
        if "par" not in d["tags"]:
            continue
        ast = dsl.parse(name, d["text"])
        ast["tags"] = sorted(d["tags"])
        ast["dom"] = d["dom"]
        out.append(ast)
    return out


# ------------------------------------------------------------------------------------------------ AST helpers
def pget(node, path):
    for k in path:
        node = node[k]
    return node


def var(n):
    return {"op": "var", "n": n}


def lit(v):
    return {"op": "lit", "v": v}


def pvar(n):
    return {"p": "var", "n": n}


def wild():
    return {"k": "w"}


def item_sites(items, path, ctx):
    """every body item reachable from `items` (disjunction alternatives included): (path, item, context)"""
    for i, it in enumerate(items):
        yield path + [i], it, ctx
        if it["t"] == "disj":
            for a, alt in enumerate(it["alts"]):
                yield from item_sites(alt, path + [i, "alts", a], ctx if ctx.endswith("disj") else ctx + "-disj")


def use_sites(prog):
    """every use of a relation: (path to the node with 'rel'/'args', use kind head|body|agg|neg, context)"""
    for j, r in enumerate(prog["rules"]):
        for h in range(len(r["heads"])):
            yield ["rules", j, "heads", h], "head", "rule" if r["body"] else "fact"
        for path, it, ctx in item_sites(r["body"], ["rules", j, "body"], "rule"):
            if it["t"] in ("cl", "agg", "neg"):
                yield path, {"cl": "body", "agg": "agg", "neg": "neg"}[it["t"]], ctx
    for m, mac in enumerate(prog.get("macros", [])):
        for path, it, ctx in item_sites(mac["body"], ["macros", m, "body"], "macro"):
            if it["t"] in ("cl", "agg", "neg"):
                yield path, {"cl": "body", "agg": "agg", "neg": "neg"}[it["t"]], ctx


def describe(path):
    out, i = [], 0
    names = {"rules": "rule", "macros": "macro", "heads": "head", "body": "body item", "alts": "alternative", "rels": "relation"}
    while i < len(path):
        k = path[i]
        if isinstance(k, str) and i + 1 < len(path) and isinstance(path[i + 1], int):
            out.append(f"{names.get(k, k)} {path[i + 1]}")
            i += 2
        elif isinstance(k, str) and k == "body" and i + 1 == len(path):
            i += 1
        else:
            out.append(f"item {k}" if isinstance(k, int) else str(k))
            i += 1
    return ", ".join(out)


def body_rels(items, macros, seen=()):
    for it in items:
        t = it["t"]
        if t == "cl":
            yield it["rel"], False
        elif t in ("agg", "neg"):
            yield it["rel"], True
        elif t == "disj":
            for alt in it["alts"]:
                yield from body_rels(alt, macros, seen)
        elif t == "mac" and it["name"] in macros and it["name"] not in seen:
            yield from body_rels(macros[it["name"]]["body"], macros, seen + (it["name"],))


class Deps:
    """relation dependency graph of a program (macro invocations looked through)"""
    def __init__(self, prog):
        macros = {m["name"]: m for m in prog.get("macros", [])}
        self.names = [r["name"] for r in prog["rels"]]
        self.direct = {n: set() for n in self.names}
        self.heads = set()
        for r in prog["rules"]:
            ds = {d for d, _ in body_rels(r["body"], macros)}
            for h in r["heads"]:
                self.heads.add(h["rel"])
                self.direct.setdefault(h["rel"], set()).update(ds)
        self.reach = {n: set(s) for n, s in self.direct.items()}
        changed = True
        while changed:
            changed = False
            for n in self.reach:
                new = set(self.reach[n])
                for d in self.reach[n]:
                    new |= self.reach.get(d, set())
                if new != self.reach[n]:
                    self.reach[n] = new
                    changed = True

    def same_scc(self, a, b):
        return a == b or (b in self.reach.get(a, ()) and a in self.reach.get(b, ()))

    def recursive(self, a):
        return a in self.reach.get(a, ())


def bound_progress(prog, rule):
    """res[k] = variables bound by the top-level body items [0, k): name -> column type or None (unknown type)"""
    rels = {r["name"]: r for r in prog["rels"]}
    res = [{}]
    cur = {}

    def bind_pat(p):
        if p["p"] == "var":
            cur.setdefault(p["n"], None)
        if "q" in p:
            bind_pat(p["q"])
        for q in p.get("qs", []):
            bind_pat(q)

    def bind_item(it):
        t = it["t"]
        if t == "cl":
            cols = rels[it["rel"]]["cols"] if it["rel"] in rels else []
            for i, a in enumerate(it["args"]):
                if a["k"] == "v":
                    cur.setdefault(a["n"], cols[i] if i < len(cols) else None)
                elif a["k"] == "p":
                    bind_pat(a["p"])
            for c in it.get("conds", []):
                bind_item(c)
        elif t in ("let", "iflet", "for", "agg"):
            bind_pat(it["p"])
        elif t == "disj":
            for alt in it["alts"]:
                for x in alt:
                    bind_item(x)
        elif t == "mac":
            for a in it["args"]:
                if a["op"] == "var":
                    cur.setdefault(a["n"], None)

    for it in rule["body"]:
        bind_item(it)
        res.append(dict(cur))
    return res


def all_names(prog):
    """every identifier of the program text (to keep invented names fresh)"""
    s = set()

    def walk(x):
        if isinstance(x, dict):
            for k, v in x.items():
                if k in ("n", "name", "rel") and isinstance(v, str):
                    s.add(v)
                walk(v)
        elif isinstance(x, list):
            for v in x:
                if isinstance(v, str):
                    s.add(v)
                walk(v)
    walk({"rels": prog["rels"], "rules": prog["rules"], "macros": prog.get("macros", [])})
    return s


def fresh(prog, base):
    names = all_names(prog)
    n = base
    i = 0
    while n in names:
        i += 1
        n = f"{base}{i}"
    return n


def edb_rel(prog, want="int"):
    """an input relation that no rule derives, with a column of type `want`: (relation, column index)"""
    heads = {h["rel"] for r in prog["rules"] for h in r["heads"]}
    for r in prog["rels"]:
        if r["input"] and r["name"] not in heads and r["kind"] == "rel" and r["ds"] == "-" and want in r["cols"]:
            return r, r["cols"].index(want)
    return None, None


# ------------------------------------------------------------------------------------------------ mutation operators
class Gen:
    def __init__(self, prog):
        self.prog = prog
        self.out = []

    def add(self, cls, kind, pos, ast, **extra):
        m = dict(base=self.prog["name"], cls=cls, kind=kind, pos=pos, ast=ast, expect=EXPECT[cls])
        m.update(extra)
        self.out.append(m)

    def copy(self):
        return copy.deepcopy(self.prog)

    # -- undeclared relation / wrong arity at every use
    def uses(self):
        for path, kind, ctx in use_sites(self.prog):
            k = kind if ctx == "rule" else f"{kind}/{ctx}"
            p = self.copy()
            pget(p, path)["rel"] = UNDECLARED
            self.add("undeclared", k, describe(path), p)
            node = pget(self.prog, path)
            p = self.copy()
            pget(p, path)["args"].append(lit(0) if kind == "head" else wild())
            self.add("arity", f"+1 {k}", describe(path), p)
            if node["args"]:
                p = self.copy()
                pget(p, path)["args"].pop()
                self.add("arity", f"-1 {k}", describe(path), p)

    # -- aggregation / negation inside the relation's own recursive component
    def strat(self):
        prog = self.prog
        deps = Deps(prog)
        rels = {r["name"]: r for r in prog["rels"]}

        def reader(op, d, n_args):
            args = [wild() for _ in range(n_args)]
            if op == "neg":
                return {"t": "neg", "rel": d, "args": args}
            return {"t": "agg", "p": pvar(fresh(prog, "strat_n")), "f": "count", "bound": [], "rel": d, "args": args}

        for j, rule in enumerate(prog["rules"]):
            n = len(rule["body"])
            slots = sorted({0, n // 2, n}) if n else [0]
            slot_name = {0: "first", n: "last"}
            for h in {hc["rel"] for hc in rule["heads"]}:
                direct, via = [], []
                if deps.recursive(h):
                    direct.append((h, "own-head"))
                    peers = [d for d in deps.names if d != h and deps.same_scc(h, d)]
                    if peers:
                        direct.append((peers[0], "scc-peer"))
                elif n:
                    direct.append((h, "own-head-nonrecursive"))
                downstream = [d for d in deps.names if d != h and h in deps.reach.get(d, ()) and d not in deps.reach.get(h, ())]
                if downstream and n:
                    via.append(downstream[0])
                for d, dk in direct:
                    for k in slots:
                        for op in ("neg", "agg"):
                            p = self.copy()
                            p["rules"][j]["body"].insert(k, reader(op, d, len(rels[d]["cols"])))
                            self.add("strat", f"{op} direct {dk} {slot_name.get(k, 'middle')}",
                                     f"rule {j}, new body item {k}: {op} of {d} in a rule deriving {h}", p)
                for d in via:
                    for k in slots[-1:]:
                        for op in ("neg", "agg"):
                            p = self.copy()
                            p["rules"][j]["body"].insert(k, reader(op, d, len(rels[d]["cols"])))
                            self.add("strat", f"{op} via existing rule",
                                     f"rule {j}, new body item {k}: {op} of {d}, which is derived from {h} by other rules", p)
                if n and rels[h]["kind"] == "rel":
                    # through a second (new) rule: aux(0) <-- h(_, ..);   h(..) <-- ..., !aux(_)
                    aux = fresh(prog, "aux_s")
                    for op in ("neg", "agg"):
                        p = self.copy()
                        p["rels"].append({"name": aux, "cols": ["int"], "kind": "rel", "lat": "-", "ds": "-", "input": False})
                        p["rules"].append({"heads": [{"rel": aux, "args": [lit(0)]}],
                                           "body": [{"t": "cl", "rel": h, "args": [wild() for _ in rels[h]["cols"]], "conds": []}]})
                        p["rules"][j]["body"].insert(n, reader(op, aux, 1))
                        self.add("strat", f"{op} via new rule",
                                 f"rule {j}, new last body item: {op} of {aux}; new rule {aux}(0) <-- {h}(..)", p)

    # -- rebinding of a bound variable
    def rebind(self):
        prog = self.prog
        rint, cint = edb_rel(prog, "int")
        ropt, copt = edb_rel(prog, "opt")
        for j, rule in enumerate(prog["rules"]):
            prog_b = bound_progress(prog, rule)
            n = len(rule["body"])
            for k in range(1, n + 1):
                ints = [v for v, t in prog_b[k].items() if t == "int"]
                if not ints:
                    continue
                v = ints[-1]
                where = "last" if k == n else "middle"
                new = []
                new.append(("let", {"t": "let", "p": pvar(v), "e": lit(7)}))
                new.append(("if let", {"t": "iflet", "p": {"p": "some", "q": pvar(v)}, "e": {"op": "some", "a": lit(7)}}))
                new.append(("for", {"t": "for", "p": pvar(v), "lo": lit(0), "hi": lit(2)}))
                # `v @ subpattern` binds v too
                new.append(("let with @ pattern", {"t": "let", "p": {"p": "at", "n": v, "q": {"p": "wild"}}, "e": lit(7)}))
                new.append(("if let with @ pattern", {"t": "iflet", "p": {"p": "at", "n": v, "q": {"p": "some", "q": {"p": "wild"}}}, "e": {"op": "some", "a": lit(7)}}))
                new.append(("for with @ pattern", {"t": "for", "p": {"p": "at", "n": v, "q": {"p": "wild"}}, "lo": lit(0), "hi": lit(2)}))
                if rint is not None:
                    w = fresh(prog, "rb_w")
                    args = [wild() for _ in rint["cols"]]
                    args[cint] = {"k": "v", "n": w}
                    new.append(("agg pattern", {"t": "agg", "p": pvar(v), "f": "sum", "bound": [w], "rel": rint["name"], "args": args}))
                    args = [wild() for _ in rint["cols"]]
                    args[cint] = {"k": "v", "n": v}
                    new.append(("agg variable", {"t": "agg", "p": pvar(fresh(prog, "rb_m")), "f": "min", "bound": [v],
                                                 "rel": rint["name"], "args": args}))
                    args = [wild() for _ in rint["cols"]]
                    args[cint] = {"k": "p", "p": pvar(v)}
                    new.append(("clause ?pattern", {"t": "cl", "rel": rint["name"], "args": args, "conds": []}))
                if ropt is not None:
                    args = [wild() for _ in ropt["cols"]]
                    args[copt] = {"k": "p", "p": {"p": "some", "q": pvar(v)}}
                    new.append(("clause ?Some pattern", {"t": "cl", "rel": ropt["name"], "args": args, "conds": []}))
                for kind, item in new:
                    p = self.copy()
                    p["rules"][j]["body"].insert(k, item)
                    self.add("rebind", f"{kind} {where}", f"rule {j}, new body item {k} binds `{v}` again", p)
                prev = rule["body"][k - 1]
                if prev["t"] == "cl":
                    for kind, item in new[:2]:
                        p = self.copy()
                        p["rules"][j]["body"][k - 1].setdefault("conds", []).append(item)
                        self.add("rebind", f"{kind} attached to clause",
                                 f"rule {j}, body item {k - 1}: new condition binds `{v}` again", p)

    # -- self-referential / mutually recursive macros
    def macro_rec(self):
        prog = self.prog
        macros = prog.get("macros", [])
        for m, mac in enumerate(macros):
            call = {"t": "mac", "name": mac["name"], "args": [var(a) for a in mac["params"]]}
            n = len(mac["body"])
            for k in sorted({0, n}):
                p = self.copy()
                p["macros"][m]["body"].insert(k, copy.deepcopy(call))
                self.add("macro_rec", f"self existing macro {'first' if k == 0 else 'last'}",
                         f"macro {m} ({mac['name']}), new body item {k}: invokes itself", p)
            for path, it, ctx in item_sites(mac["body"], ["macros", m, "body"], "macro"):
                if it["t"] == "disj":
                    for a in range(len(it["alts"])):
                        p = self.copy()
                        pget(p, path)["alts"][a].append(copy.deepcopy(call))
                        self.add("macro_rec", "self existing macro inside disjunction",
                                 f"{describe(path)}, alternative {a}: invokes {mac['name']} itself", p)
                    # the same violation at two positions of one disjunction (expansion must still be rejected)
                    if len(it["alts"]) >= 2:
                        p = self.copy()
                        for a in range(2):
                            pget(p, path)["alts"][a].append(copy.deepcopy(call))
                        self.add("macro_rec", "self existing macro in two alternatives of a disjunction",
                                 f"{describe(path)}, alternatives 0 and 1: each invokes {mac['name']} itself", p, isolate=True)
            # mutual recursion through an existing macro that invokes this one
            for m2, mac2 in enumerate(macros):
                if m2 != m and any(it["t"] == "mac" and it["name"] == mac["name"] for _, it, _ in
                                   item_sites(mac2["body"], [], "macro")) and len(mac2["params"]) == len(mac["params"]):
                    p = self.copy()
                    p["macros"][m]["body"].append({"t": "mac", "name": mac2["name"], "args": [var(a) for a in mac["params"]]})
                    self.add("macro_rec", "mutual existing macros",
                             f"macro {m} ({mac['name']}) invokes {mac2['name']}, which invokes {mac['name']}", p)
            # mutual recursion through a new macro
            twin = fresh(prog, mac["name"] + "_again")
            p = self.copy()
            p["macros"].append({"name": twin, "params": list(mac["params"]), "body": [copy.deepcopy(call)]})
            p["macros"][m]["body"].append({"t": "mac", "name": twin, "args": [var(a) for a in mac["params"]]})
            self.add("macro_rec", "mutual new macro",
                     f"macro {m} ({mac['name']}) invokes new macro {twin}, which invokes {mac['name']}", p)
        # a new recursive macro, invoked at a rule position / never invoked
        r, c = edb_rel(prog, "int")
        if r is None:
            return
        name, name2 = fresh(prog, "recm"), fresh(prog, "recn")
        args = [wild() for _ in r["cols"]]
        args[c] = {"k": "v", "n": "a"}
        base = {"t": "cl", "rel": r["name"], "args": args, "conds": []}
        selfm = [{"name": name, "params": ["a"], "body": [copy.deepcopy(base), {"t": "mac", "name": name, "args": [var("a")]}]}]
        mutual = [{"name": name, "params": ["a"], "body": [copy.deepcopy(base), {"t": "mac", "name": name2, "args": [var("a")]}]},
                  {"name": name2, "params": ["a"], "body": [{"t": "mac", "name": name, "args": [var("a")]}]}]
        p = self.copy()
        p.setdefault("macros", []).extend(copy.deepcopy(selfm))
        self.add("macro_rec", "self new macro never invoked", f"new macro {name} invokes itself; no rule invokes it", p)
        # the recursive invocation in other syntactic positions of the (never invoked) macro body: as a later
        # alternative of a disjunction, as the only item, after a condition
        shapes = {
            "later alternative of a disjunction": [{"t": "disj", "alts": [[copy.deepcopy(base)], [{"t": "mac", "name": name, "args": [var("a")]}]]}],
            "first alternative of a disjunction": [{"t": "disj", "alts": [[{"t": "mac", "name": name, "args": [var("a")]}], [copy.deepcopy(base)]]}],
            "nested disjunction": [copy.deepcopy(base), {"t": "disj", "alts": [[copy.deepcopy(base)],
                                   [{"t": "disj", "alts": [[copy.deepcopy(base)], [copy.deepcopy(base), {"t": "mac", "name": name, "args": [var("a")]}]]}]]}],
            "only item": [{"t": "mac", "name": name, "args": [var("a")]}],
        }
        for shape, body in shapes.items():
            p = self.copy()
            p.setdefault("macros", []).append({"name": name, "params": ["a"], "body": body})
            self.add("macro_rec", f"self new macro never invoked, recursive call as {shape}",
                     f"new macro {name} invokes itself ({shape}); no rule invokes it", p)
        p = self.copy()
        p.setdefault("macros", []).extend([
            {"name": name, "params": ["a"], "body": [{"t": "disj", "alts": [[copy.deepcopy(base)], [{"t": "mac", "name": name2, "args": [var("a")]}]]}]},
            {"name": name2, "params": ["a"], "body": [copy.deepcopy(base), {"t": "disj", "alts": [[copy.deepcopy(base)], [{"t": "mac", "name": name, "args": [var("a")]}]]}]}])
        self.add("macro_rec", "mutual new macros never invoked, recursive calls as later alternatives of disjunctions",
                 f"new macros {name} and {name2} invoke each other from disjunctions; no rule invokes them", p)
        for j, rule in enumerate(prog["rules"]):
            prog_b = bound_progress(prog, rule)
            n = len(rule["body"])
            for k in sorted({1, n}):
                if k < 1 or k > n:
                    continue
                ints = [v for v, t in prog_b[k].items() if t == "int"]
                if not ints:
                    continue
                for kind, defs in (("self new macro invoked", selfm), ("mutual new macros invoked", mutual)):
                    p = self.copy()
                    p.setdefault("macros", []).extend(copy.deepcopy(defs))
                    p["rules"][j]["body"].insert(k, {"t": "mac", "name": name, "args": [var(ints[-1])]})
                    self.add("macro_rec", f"{kind} {'last' if k == n else 'middle'}",
                             f"rule {j}, new body item {k}: invokes the recursive macro {name}", p)

    # -- packaging and attributes
    def packaging(self):
        prog = self.prog
        if len(prog["rules"]) >= 2 and not any(r["ds"] != "-" for r in prog["rels"]):
            for cut, where in enumerate(("first", "middle", "last")):
                p = self.copy()
                p["nested_include"] = True
                self.add("nested_include", f"include_source {where} in ascent_source",
                         f"the program's second ascent_source contains include_source! ({where})", p, pack="nested", cut=cut)

    def attributes(self):
        prog = self.prog
        heads = {h["rel"] for r in prog["rules"] for h in r["heads"]}
        for i, r in enumerate(prog["rels"]):
            role = "lattice" if r["kind"] == "lat" else ("input relation" if r["name"] not in heads else "derived relation")
            if r["kind"] == "lat":
                for prov in ("rel", "eqrel", "trrel_uf"):
                    p = self.copy()
                    p["rels"][i]["ds"] = prov
                    self.add("ds_on_lattice", f"provider {DS_RUST[prov]}", f"relation {i} ({r['name']}): #[ds({DS_RUST[prov]})] on a lattice", p)
            else:
                p = self.copy()
                if r["ds"] == "-":
                    p["rels"][i]["ds"] = "rel"
                    p["rels"][i]["ds2"] = "rel"
                    k = f"default provider twice on {role}"
                else:
                    p["rels"][i]["ds2"] = r["ds"]
                    k = f"byods provider twice on {role}"
                self.add("two_ds", k, f"relation {i} ({r['name']}): two #[ds(..)] attributes", p)
            p = self.copy()
            p["rels"][i]["attrs"] = [UNKNOWN_ATTR]
            self.add("unknown_rel_attr", f"on {role}" + (" with ds" if r["ds"] != "-" else ""),
                     f"relation {i} ({r['name']}): #[{UNKNOWN_ATTR}]", p)
        for attrs, k in (([UNKNOWN_ATTR], "alone"), ([UNKNOWN_ATTR, "measure_rule_times"], "before a known attribute"),
                         (["measure_rule_times", UNKNOWN_ATTR], "after a known attribute"),
                         ([UNKNOWN_ATTR + "(4)"], "with a list argument"), ([UNKNOWN_ATTR + ' = "1s"'], "as name = value"),
                         (["measure_rule_times", UNKNOWN_ATTR + "(true)"], "with a list argument after a known attribute"),
                         (["measure_rule_times(true)"], "known attribute with an argument")):
            p = self.copy()
            p["attrs"] = attrs
            self.add("unknown_prog_attr", k, f"program attributes {attrs}", p)
        p = self.copy()
        p["attrs"] = ["inter_rule_parallelism"]
        self.add("irp_in_serial", "alone", "program attribute inter_rule_parallelism (ill-formed under the serial macros only)", p)
        p = self.copy()
        p["attrs"] = ["measure_rule_times", "inter_rule_parallelism"]
        self.add("irp_in_serial", "after a known attribute", "program attributes measure_rule_times, inter_rule_parallelism", p)

    def all(self):
        for f in (self.uses, self.strat, self.rebind, self.macro_rec, self.packaging, self.attributes):
            f()
        return self.out


# ------------------------------------------------------------------------------------------------ selection
def pick(cands, cap, rng):
    """`cap` candidates, spread over the position kinds first and over the source programs second"""
    by_kind = {}
    for m in cands:
        by_kind.setdefault(m["kind"], []).append(m)
    for k in by_kind:
        rng.shuffle(by_kind[k])
        # distinct programs first
        seen, first, rest = set(), [], []
        for m in by_kind[k]:
            (rest if m["base"] in seen else first).append(m)
            seen.add(m["base"])
        by_kind[k] = first + rest
    out = []
    kinds = sorted(by_kind)
    i = 0
    while len(out) < cap and any(by_kind[k] for k in kinds):
        k = kinds[i % len(kinds)]
        if by_kind[k]:
            out.append(by_kind[k].pop(0))
        i += 1
    return out


def generate(tier, seed):
    """Returns (mutants, twins): the selected mutants (named) and the unmutated programs they come from."""
    rng = random.Random(seed)
    progs = corpus()
    cands = {}
    for prog in progs:
        try:
            for m in Gen(prog).all():
                cands.setdefault(m["cls"], []).append(m)
        except Exception as ex:      # a program of a shape this generator does not know: no mutants from it
            print(f"[mutants] {prog['name']}: skipped ({type(ex).__name__}: {ex})", file=sys.stderr)
    mult = 5 if tier == "thorough" else 1
    mutants = []
    for cls in EXPECT:
        lst = cands.get(cls, [])
        iso = [m for m in lst if m.get("isolate")]
        sel = pick([m for m in lst if not m.get("isolate")], CAPS[cls] * mult, rng)
        sel += iso[: (2 if tier == "thorough" else 1)]
        for i, m in enumerate(sel):
            m["name"] = f"{m['base']}__{cls}__{i}"
            m["ast"]["name"] = m["name"]
            for k in ("tags", "bound", "dom"):
                m["ast"].pop(k, None)
        mutants += sel
    used = {m["base"] for m in mutants}
    twins = []
    for prog in progs:
        if prog["name"] in used or tier == "thorough":
            ast = copy.deepcopy(prog)
            for k in ("tags", "bound"):
                ast.pop(k, None)
            twins.append(dict(name=prog["name"], base=prog["name"], cls="twin", kind="as written", pos="-", ast=ast,
                              expect=None, dom=prog["dom"]))
    # the well-formed packaging the nested_include mutants are derived from
    for base in sorted({m["base"] for m in mutants if m["cls"] == "nested_include"}):
        prog = next(p for p in progs if p["name"] == base)
        ast = copy.deepcopy(prog)
        for k in ("tags", "bound"):
            ast.pop(k, None)
        ast["name"] = base + "__src"
        twins.append(dict(name=ast["name"], base=base, cls="twin", kind="rules in an ascent_source", pos="-", ast=ast,
                          expect=None, pack="src", cut=1, dom=prog["dom"]))
    doms = {p["name"]: p["dom"] for p in progs}
    for m in mutants:
        m["dom"] = doms[m["base"]]
    return mutants, twins


# ------------------------------------------------------------------------------------------------ rendering
class SafeRenderer(render.RuleRenderer):
    """RuleRenderer that terminates on recursive macro definitions and tolerates invocations of unknown macros"""
    def _macro_binds(self, mac, prm, seen=()):
        if mac["name"] in seen:
            return False

        def items_bind(items):
            for it in items:
                if it["t"] == "cl" and any(a["k"] == "v" and a["n"] == prm for a in it["args"]):
                    return True
                if it["t"] == "disj" and all(items_bind(alt) for alt in it["alts"]):
                    return True
                if it["t"] == "mac":
                    m2 = next((m for m in self.prog["macros"] if m["name"] == it["name"]), None)
                    if m2 is None:
                        continue
                    for p2, a in zip(m2["params"], it["args"]):
                        if a["op"] == "var" and a["n"] == prm and self._macro_binds(m2, p2, seen + (mac["name"],)):
                            return True
            return False
        return items_bind(mac["body"])

    def macro(self, m):
        sub = SafeRenderer(self.prog, self.cmap, macro_params=m["params"])
        env = render.Env()
        body = ", ".join(sub.item(it, env) for it in m["body"])
        params = ", ".join(f"${p}: ident" for p in m["params"])
        return f"macro {m['name']}({params}) {{ {body} }}"


def render_decl(r):
    plain = dict(r)
    plain["ds"] = "-"
    txt = render.render_decl(plain)
    pre = "".join(f"#[{a}] " for a in r.get("attrs", []))
    for ds in (r["ds"], r.get("ds2", "-")):
        if ds != "-":
            pre += f"#[ds({DS_RUST[ds]})] "
    return pre + txt


def row_lit(vals):
    return "(" + "".join(f"{v}, " for v in vals) + ")"


def input_rows(r, dom):
    def colvals(t):
        if t == "opt":
            return ["None"] + [f"Some({v})" for v in range(dom)]
        return [str(v) for v in range(dom)]
    allrows = list(itertools.product(*[colvals(t) for t in r["cols"]]))
    n = min(4, len(allrows))
    idx = []
    for i in range(n):                      # n distinct rows, spread over the enumeration
        k = (i * len(allrows) // n + i) % len(allrows)
        while k in idx:
            k = (k + 1) % len(allrows)
        idx.append(k)
    return [allrows[k] for k in idx]


PROBE_PRELUDE = """#![allow(warnings, clippy::all)]
use ascent::lattice::bounded_set::BoundedSet;
use ascent::lattice::constant_propagation::ConstPropagation;
use ascent::lattice::set::Set;
use ascent::lattice::Product;
use ascent::{Dual, Lattice};
"""

AGGS_RS = """// user-defined aggregators of the corpus programs (copied from harness/vh-lite: the probe crates depend on ascent only)
pub fn minmax<'a>(inp: impl Iterator<Item = (&'a i32,)>) -> impl Iterator<Item = i32> {
   let v: Vec<i32> = inp.map(|t| *t.0).collect();
   let mut res = vec![];
   if let Some(mn) = v.iter().min() {
      res.push(*mn);
      let mx = *v.iter().max().unwrap();
      if mx != *mn {
         res.push(mx);
      }
   }
   res.into_iter()
}
pub fn sumpairs<'a>(inp: impl Iterator<Item = (&'a i32, &'a i32)>) -> impl Iterator<Item = i32> {
   let mut any = false;
   let mut s = 0;
   for (a, b) in inp {
      any = true;
      s += a * b;
   }
   if any { Some(s) } else { None }.into_iter()
}
"""


def render_probe(entry, macro, modname):
    """Rust module text of one probe and the (first, last) line of the Ascent program inside it (1-based)."""
    prog = entry["ast"]
    par, is_run = macro in PAR, macro in RUN
    rr = SafeRenderer(prog)
    decls = [render_decl(r) for r in prog["rels"]]
    macros = [rr.macro(m) for m in prog.get("macros", [])]
    rules = [rr.rule(r).replace("vh_lite::aggs::", "crate::aggs::") for r in prog["rules"]]
    macros = [m.replace("vh_lite::aggs::", "crate::aggs::") for m in macros]
    attrs = [f"#![{a}]" for a in prog.get("attrs", [])]
    dom = entry.get("dom", 3)
    plain = [r for r in prog["rels"] if r["ds"] == "-" and "ds2" not in r]
    inputs = [r for r in plain if r["input"] and r["kind"] == "rel"]

    def rowty(r):
        return "(" + "".join(render.col_rust(c) + ", " for c in r["cols"]) + ")"

    if is_run:
        d2 = []
        for r, d in zip(prog["rels"], decls):
            if r in inputs:
                d2.append(d[:-1] + f" = {r['name']}_init" + (".into_iter().collect();" if par else ";"))
            else:
                d2.append(d)
        decls = d2
    pre, post = [], []
    pack = entry.get("pack")
    ind = "      " if is_run else "   "
    if pack in ("nested", "src"):
        n = len(rules)
        part_a, part_b = rules[: n // 2], rules[n // 2:]
        if pack == "nested":
            cut = entry.get("cut", 0)
            h = {0: 0, 1: len(part_b) // 2, 2: len(part_b)}[cut]
            outer = part_b[:h] + [f"include_source!({modname}_inner);"] + part_b[h:]
            pre += [f"ascent::ascent_source! {{ {modname}_inner:"] + ["   " + x for x in part_a] + ["}"]
            pre += [f"ascent::ascent_source! {{ {modname}_src:"] + ["   " + x for x in outer] + ["}"]
            body = decls + macros + [f"include_source!({modname}_src);"]
        else:
            pre += [f"ascent::ascent_source! {{ {modname}_src:"] + ["   " + x for x in part_a] + ["}"]
            body = decls + macros + [f"include_source!({modname}_src);"] + part_b
    else:
        body = decls + macros + rules
    lines = PROBE_PRELUDE.rstrip("\n").split("\n")
    lines += [x for x in render.render_consts(prog).split("\n") if x]          # named Rust constants the program mentions
    lines.append(f"// {entry['name']}: class {entry['cls']} ({entry['kind']}); {entry['pos']}; under {macro}!")
    dump = []
    for r in plain:
        acc = "*t.read().unwrap()" if (par and r["kind"] == "lat") else "t"
        dump.append(f'   {{ let mut rows: Vec<String> = prog.{r["name"]}.iter().map(|t| format!("{{:?}}", {acc})).collect(); '
                    f'rows.sort(); out.push(format!("{r["name"]}={{}}", rows.join(""))); }}')
    if not is_run:
        first = len(lines) + 1
        lines += pre
        lines.append(f"ascent::{macro}! {{")
        lines += [ind + a for a in attrs]
        lines.append(ind + "pub struct Prog;")
        lines += [ind + x for x in body]
        lines.append("}")
        last = len(lines)
        lines.append("pub fn run_probe() -> String {")
        lines.append("   let mut prog = Prog::default();")
        for r in inputs:
            rows = input_rows(r, dom)
            if rows:
                lines.append(f"   for row in [{', '.join(row_lit(x) for x in rows)}] {{ prog.{r['name']}.push(row); }}")
        lines.append("   prog.run();")
    else:
        first = len(lines) + 1
        lines += pre
        lines.append("pub fn run_probe() -> String {")
        for r in inputs:
            rows = input_rows(r, dom)
            lines.append(f"   let {r['name']}_init: Vec<{rowty(r)}> = vec![{', '.join(row_lit(x) for x in rows)}];")
        lines.append(f"   let prog = ascent::{macro}! {{")
        lines += [ind + a for a in attrs]
        lines += [ind + x for x in body]
        lines.append("   };")
        last = len(lines)
    lines.append("   let mut out: Vec<String> = vec![];")
    lines += dump
    lines.append('   out.join(" ")')
    lines.append("}")
    return "\n".join(lines) + "\n", (first, last)


def applicable(entry, macro):
    return True


if __name__ == "__main__":
    tier = sys.argv[1] if len(sys.argv) > 1 else "quick"
    seed = int(sys.argv[2]) if len(sys.argv) > 2 else 1
    ms, ts = generate(tier, seed)
    table = {}
    for m in ms:
        table.setdefault((m["cls"], m["kind"]), []).append(m["base"])
    for (c, k), v in sorted(table.items()):
        print(f"{c:18} {k:55} {len(v):3}  {' '.join(sorted(set(v)))[:80]}")
    print(len(ms), "mutants,", len(ts), "twins")
    if "--show" in sys.argv:
        for m in ms:
            print("=" * 100)
            print(render_probe(m, sys.argv[sys.argv.index("--show") + 1], "p_0")[0])
