"""A small text syntax for logical Ascent programs -> JSON AST (DESIGN.md Appendix E).

  rel e(int,int) input;            relation declaration (input = the harness feeds facts)
  rel r(int,int) ds eqrel;         relation with a BYODS provider
  lat sp(int,int,dual_i32);        lattice declaration (last column = lattice type)
  macro name(a, b) { body items }  in-program macro (body position)
  p(x,z), q(z) <-- e(x,y), p(y,z), if x < z, let w = x+1, for k in 0..w, !n(x), agg c = count() in p(x,_),
                   (a(x) | b(x), c(x)), o(?Some(v)), name!(x, y);
  f(1,2);                          fact

Expressions: integers, variables, + - * %, comparisons, && || !, calls op(args) for the remaining operators of
the specification's expression language (some, none, dual, undual, set1, setu, sethas, ...).
"""
import re

TOK = re.compile(r"\s*(<--|\.\.|==|!=|<=|>=|&&|\|\||[A-Za-z_][A-Za-z_0-9]*|\d+|[(){}\[\],;|!?<>=+\-*%.$])")

LAT_TYPES = {"max_i32", "dual_i32", "set_i32", "bset2_i32", "opt_i32", "cp_i32", "prod_max_dual", "lex_pair", "lex_dual_pair", "bool_or"}
COL_TYPES = {"int", "opt"}
FUN1 = {"some", "dual", "undual", "set1", "setlen", "bset1", "bsettop", "cpc", "cptop", "issome", "not"}
FUN2 = {"min", "max", "setu", "sethas", "bsethas", "cpis", "optge"}
AGGS = {"count", "sum", "min", "max", "not", "minmax", "sumpairs"}


class ParseError(Exception):
    pass


class Parser:
    def __init__(self, text):
        text = re.sub(r"//[^\n]*", "", text)
        self.toks = []
        pos = 0
        while pos < len(text):
            m = TOK.match(text, pos)
            if not m:
                if text[pos:].strip() == "":
                    break
                raise ParseError(f"bad token at {text[pos:pos+30]!r}")
            self.toks.append(m.group(1))
            pos = m.end()
        self.i = 0

    def peek(self, k=0):
        return self.toks[self.i + k] if self.i + k < len(self.toks) else None

    def next(self):
        t = self.peek()
        self.i += 1
        return t

    def expect(self, t):
        if self.peek() != t:
            raise ParseError(f"expected {t!r}, got {self.peek()!r} at token {self.i}: {' '.join(self.toks[max(0,self.i-8):self.i+4])}")
        return self.next()

    def accept(self, t):
        if self.peek() == t:
            self.i += 1
            return True
        return False

    # ---------------------------------------------------------------- program
    def program(self, name):
        rels, rules, macros, attrs = [], [], [], []
        self.consts = {}
        while self.peek() is not None:
            t = self.peek()
            if t == "const":
                self.next()
                cname = self.next()
                self.expect("=")
                e = self.expr()
                assert e["op"] == "lit", "const must be an integer literal"
                self.consts[cname] = e["v"]
                self.expect(";")
                continue
            if t in ("rel", "lat") and re.match(r"[A-Za-z_]", self.peek(1) or "") and self.peek(2) == "(":
                rels.append(self.decl())
            elif t == "macro":
                macros.append(self.macrodef())
            elif t == "attr":
                self.next()
                attrs.append(self.next())
                self.expect(";")
            else:
                rules.append(self.rule())
        return {"name": name, "rels": rels, "rules": rules, "macros": macros, "attrs": attrs,
                "consts": [{"name": k, "v": v} for k, v in self.consts.items()]}

    def decl(self):
        kind = self.next()
        name = self.next()
        self.expect("(")
        cols = []
        while not self.accept(")"):
            cols.append(self.next())
            self.accept(",")
        r = {"name": name, "cols": cols, "kind": kind, "lat": "-", "ds": "-", "input": False}
        if kind == "lat":
            r["lat"] = cols[-1]
            assert cols[-1] in LAT_TYPES, cols
        while not self.accept(";"):
            t = self.next()
            if t == "input":
                r["input"] = True
            elif t == "ds":
                r["ds"] = self.next()
            else:
                raise ParseError(f"bad relation modifier {t}")
        return r

    def macrodef(self):
        self.expect("macro")
        name = self.next()
        self.expect("(")
        params = []
        while not self.accept(")"):
            params.append(self.next())
            self.accept(",")
        self.expect("{")
        body = self.items(end="}")
        self.expect("}")
        return {"name": name, "params": params, "body": body}

    def rule(self):
        heads = []
        while True:
            rel = self.next()
            self.expect("(")
            args = []
            while not self.accept(")"):
                args.append(self.expr())
                self.accept(",")
            heads.append({"rel": rel, "args": args})
            if not self.accept(","):
                break
        body = []
        if self.accept("<--"):
            body = self.items(end=";")
        self.expect(";")
        return {"heads": heads, "body": body}

    def items(self, end):
        res = []
        while self.peek() != end and self.peek() != "|" and self.peek() != ")":
            res.append(self.item())
            if not self.accept(","):
                break
        return res

    def item(self):
        t = self.peek()
        if t in ("if", "let"):
            return self.cond()
        if t == "for":
            self.next()
            p = self.pat()
            self.expect("in")
            lo = self.expr_add()
            self.expect("..")
            hi = self.expr_add()
            return {"t": "for", "p": p, "lo": lo, "hi": hi}
        if t == "agg":
            self.next()
            p = self.pat()
            self.expect("=")
            f = self.next()
            assert f in AGGS, f
            self.expect("(")
            bound = []
            while not self.accept(")"):
                bound.append(self.next())
                self.accept(",")
            self.expect("in")
            rel = self.next()
            args = self.clause_args()
            return {"t": "agg", "p": p, "f": f, "bound": bound, "rel": rel, "args": args}
        if t == "!":
            self.next()
            rel = self.next()
            return {"t": "neg", "rel": rel, "args": self.clause_args()}
        if t == "(":
            self.next()
            alts = [self.items(end=")")]
            while self.accept("|"):
                alts.append(self.items(end=")"))
            self.expect(")")
            return {"t": "disj", "alts": alts}
        # macro invocation name!(args) or clause
        name = self.next()
        if self.peek() == "!" and self.peek(1) == "(":
            self.next()
            self.expect("(")
            args = []
            while not self.accept(")"):
                args.append(self.expr())
                self.accept(",")
            return {"t": "mac", "name": name, "args": args}
        args = self.clause_args()
        conds = []
        while self.peek() in ("if", "let"):      # conditions attached to the clause (no comma)
            conds.append(self.cond())
        return {"t": "cl", "rel": name, "args": args, "conds": conds}

    def cond(self):
        t = self.next()
        if t == "if":
            if self.accept("let"):
                p = self.pat()
                self.expect("=")
                return {"t": "iflet", "p": p, "e": self.expr()}
            return {"t": "if", "e": self.expr()}
        assert t == "let"
        p = self.pat()
        self.expect("=")
        return {"t": "let", "p": p, "e": self.expr()}

    def clause_args(self):
        self.expect("(")
        args = []
        while not self.accept(")"):
            if self.accept("?"):
                args.append({"k": "p", "p": self.pat()})
            elif self.peek() == "_" and self.peek(1) in (",", ")"):
                self.next()
                args.append({"k": "w"})
            else:
                e = self.expr()
                if e["op"] == "var":
                    args.append({"k": "v", "n": e["n"]})
                elif e["op"] == "lit":
                    a = {"k": "c", "v": e["v"]}
                    if "cname" in e:
                        a["cname"] = e["cname"]
                    args.append(a)
                else:
                    args.append({"k": "e", "e": e})
            self.accept(",")
        return args

    # ---------------------------------------------------------------- patterns
    def pat(self):
        t = self.next()
        if t == "_":
            return {"p": "wild"}
        if t == "Some":
            self.expect("(")
            q = self.pat()
            self.expect(")")
            return {"p": "some", "q": q}
        if t == "None":
            return {"p": "none"}
        if t == "(":
            qs = []
            while not self.accept(")"):
                qs.append(self.pat())
                self.accept(",")
            if not qs:
                return {"p": "wild"}      # the unit pattern () of `agg () = not() in ..`
            return {"p": "tup", "qs": qs}
        if re.match(r"\d+$", t):
            return {"p": "lit", "v": int(t)}
        if t == "-":
            return {"p": "lit", "v": -int(self.next())}
        return {"p": "var", "n": t}

    # ---------------------------------------------------------------- expressions
    def expr(self):
        e = self.expr_and()
        while self.accept("||"):
            e = {"op": "or", "a": e, "b": self.expr_and()}
        return e

    def expr_and(self):
        e = self.expr_cmp()
        while self.accept("&&"):
            e = {"op": "and", "a": e, "b": self.expr_cmp()}
        return e

    def expr_cmp(self):
        e = self.expr_add()
        ops = {"<": "lt", "<=": "le", ">": "gt", ">=": "ge", "==": "eq", "!=": "ne"}
        if self.peek() in ops:
            op = ops[self.next()]
            e = {"op": op, "a": e, "b": self.expr_add()}
        return e

    def expr_add(self):
        e = self.expr_mul()
        while self.peek() in ("+", "-"):
            op = "add" if self.next() == "+" else "sub"
            e = {"op": op, "a": e, "b": self.expr_mul()}
        return e

    def expr_mul(self):
        e = self.expr_un()
        while self.peek() in ("*", "%"):
            op = "mul" if self.next() == "*" else "mod"
            e = {"op": op, "a": e, "b": self.expr_un()}
        return e

    def expr_un(self):
        if self.accept("!"):
            return {"op": "not", "a": self.expr_un()}
        if self.accept("-"):
            a = self.expr_un()
            if a["op"] == "lit":
                return {"op": "lit", "v": -a["v"]}
            return {"op": "sub", "a": {"op": "lit", "v": 0}, "b": a}
        return self.atom()

    def atom(self):
        t = self.next()
        if t is None:
            raise ParseError("unexpected end")
        if re.match(r"\d+$", t):
            return {"op": "lit", "v": int(t)}
        if t == "(":
            e = self.expr()
            if self.accept(","):      # tuple
                es = [e]
                while not self.accept(")"):
                    es.append(self.expr())
                    self.accept(",")
                return {"op": "tup", "es": es}
            self.expect(")")
            return e
        if t == "$":
            return {"op": "var", "n": "$" + self.next()}
        if self.peek() == "(" and (t in FUN1 or t in FUN2 or t in ("none", "ite", "proj", "pproj", "tup", "prod", "blk")):
            self.next()
            args = []
            while not self.accept(")"):
                args.append(self.expr())
                self.accept(",")
            if t == "none":
                return {"op": "none"}
            if t == "blk":       # blk(v, e1, e2) = the Rust block expression { let v = e1; e2 }
                assert len(args) == 3 and args[0]["op"] == "var", args
                return {"op": "blk", "n": args[0]["n"], "a": args[1], "b": args[2]}
            if t == "ite":
                return {"op": "ite", "c": args[0], "a": args[1], "b": args[2]}
            if t in ("proj", "pproj"):
                return {"op": t, "a": args[0], "i": args[1]["v"]}
            if t in ("tup", "prod"):
                return {"op": t, "es": args}
            if t in FUN1:
                assert len(args) == 1, (t, args)
                return {"op": t, "a": args[0]}
            assert len(args) == 2, (t, args)
            return {"op": t, "a": args[0], "b": args[1]}
        if t in getattr(self, "consts", {}):
            return {"op": "lit", "v": self.consts[t], "cname": t}      # a named Rust constant: a literal for the specification
        if not re.match(r"[A-Za-z_]", t):
            raise ParseError(f"unexpected token {t!r} in expression near {' '.join(self.toks[max(0,self.i-6):self.i+3])}")
        return {"op": "var", "n": t}


def attach_conds(body):
    """`if`/`let`/`if let` items directly following a clause stay separate items in this AST (the
    specification gives both forms the same meaning); nothing to do. Kept for clarity."""
    return body


def parse(name, text):
    return Parser(text).program(name)
