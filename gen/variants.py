"""Variant families of a logical program: which macro, which attributes, which packaging, which
semantics-preserving transformation (permutation / renaming / constant map / hand expansion)."""
import copy, random, hashlib
import render

# name -> dict(macro, attrs, timeout, xform, pack)
VARIANTS = {
    "ser":    dict(macro="ascent", attrs=[]),
    "par":    dict(macro="ascent_par", attrs=[]),
    "pari":   dict(macro="ascent_par", attrs=["inter_rule_parallelism"]),
    "to":     dict(macro="ascent", attrs=["generate_run_timeout"], timeout=True),
    "topar":  dict(macro="ascent_par", attrs=["generate_run_timeout"], timeout=True),
    "run":    dict(macro="ascent_run", attrs=[]),
    "runpar": dict(macro="ascent_run_par", attrs=[]),
    "mrt":    dict(macro="ascent", attrs=["measure_rule_times"]),
    "gen":    dict(macro="ascent", attrs=[], pack="generic"),
    "src0":   dict(macro="ascent", attrs=[], pack="source", cut=0),
    "src1":   dict(macro="ascent", attrs=[], pack="source", cut=1),
    "src2":   dict(macro="ascent", attrs=[], pack="source", cut=2),
    "srcpar": dict(macro="ascent_par", attrs=[], pack="source", cut=1),
    # the included source declares every plain relation with a bogus initialiser; the includer re-declares them AFTER the
    # include (include_source! is textual: the later declaration wins)
    "srcred": dict(macro="ascent", attrs=[], pack="source", cut=3),
    "srcto":  dict(macro="ascent", attrs=["generate_run_timeout"], timeout=True, pack="source", cut=1),
    "redecl": dict(macro="ascent", attrs=[], pack="redecl"),
    "init":   dict(macro="ascent", attrs=[], pack="init"),
    # initialised declaration, plain re-declaration, the initialised declaration again: the last one wins
    "init3":  dict(macro="ascent", attrs=[], pack="init", thrice=True),
    # ascent_run! in which ONLY relations that no rule body reads carry an initialiser (inputs arrive through generator rules)
    "runhead": dict(macro="ascent_run", attrs=[], headonly=True),
    "perm1":  dict(macro="ascent", attrs=[], xform="perm", seed=1),
    "perm2":  dict(macro="ascent", attrs=[], xform="perm", seed=2),
    "permpar": dict(macro="ascent_par", attrs=[], xform="perm", seed=3),
    "ren":    dict(macro="ascent", attrs=[], xform="rename"),
    "str":    dict(macro="ascent", attrs=[], xform="cmap", cmap="str"),
    "u64":    dict(macro="ascent", attrs=[], xform="cmap", cmap="u64"),
    "strpar": dict(macro="ascent_par", attrs=[], xform="cmap", cmap="str"),
    "exp":    dict(macro="ascent", attrs=[], xform="expand"),
    "exppar": dict(macro="ascent_par", attrs=[], xform="expand"),
}

PAR_MACROS = ("ascent_par", "ascent_run_par")


def has_ds(prog):
    return any(r["ds"] != "-" for r in prog["rels"])


def variants_for(prog):
    tags = set(prog["tags"])
    vs = ["ser"]
    if "par" in tags:
        vs += ["par", "pari"]
    if "life" in tags:
        vs += ["to"]
        if "par" in tags:
            vs += ["topar"]
    vs += sorted(tags & set(VARIANTS) - set(vs))     # explicit variant names as tags
    if "pack" in tags:
        vs += ["run", "mrt", "gen", "src0", "src1", "src2", "srcto", "srcred", "redecl", "init", "init3", "runhead"]
        if "par" in tags:
            vs += ["runpar", "srcpar"]
    if "perm" in tags:
        vs += ["perm1", "perm2", "ren"]
        if "par" in tags:
            vs += ["permpar"]
        if "pure" in tags:
            vs += ["str", "u64"]
            if "par" in tags:
                vs += ["strpar"]
    if "sugar" in tags or "mac" in tags:
        vs += ["exp"]
        if "par" in tags:
            vs += ["exppar"]
    seen, out = set(), []
    for v in vs:
        if v not in seen:
            seen.add(v)
            out.append(v)
    return out


def transform(prog, var):
    """Returns (AST to render, constant map)."""
    v = VARIANTS[var]
    x = v.get("xform")
    p = copy.deepcopy(prog)
    cmap = "int"
    if x == "perm":
        import xforms
        p = xforms.permute(p, v["seed"])
    elif x == "rename":
        import xforms
        p = xforms.rename(p)
    elif x == "cmap":
        cmap = v["cmap"]
    elif x == "expand":
        import xforms
        p = xforms.expand(p)
    return p, cmap


def body_relations(prog):
    """names of the relations some rule body (clause, negation, aggregation, macro body) reads"""
    seen = set()

    def walk(items):
        for it in items:
            if it["t"] in ("cl", "neg", "agg"):
                seen.add(it["rel"])
            elif it["t"] == "disj":
                for alt in it["alts"]:
                    walk(alt)
    for r in prog["rules"]:
        walk(r["body"])
    for m in prog.get("macros", []):
        walk(m["body"])
    return seen


def bogus_val(ty, cmap):
    if ty == "opt":
        return "Some(77)"
    return render.lit(77, cmap)


def tuple_expr(parts):
    if len(parts) == 0:
        return "()"
    return "(" + ", ".join(parts) + ",)"


def assemble(modname, prog, var, cmap, decls, macros, rules, push_conv):
    v = VARIANTS[var]
    macro = v["macro"]
    par = macro in PAR_MACROS
    is_run = macro in ("ascent_run", "ascent_run_par")
    attrs = "".join(f"   #![{a}]\n" for a in v["attrs"])
    rels = prog["rels"]
    plain = [r for r in rels if r["ds"] == "-"]
    pack = v.get("pack")
    out = []

    def rowty(r):
        return tuple_expr([render.col_rust(c, cmap) for c in r["cols"]])

    def conv(r):
        return tuple_expr([push_conv(c, i, cmap) for i, c in enumerate(r["cols"])])

    body_items = decls + macros + rules

    if not is_run:
        sig = "pub struct Prog;"
        generic_args = ""
        if pack == "generic":
            # a generic signature whose parameter is used by one extra (unused by any rule) relation
            sig = "pub struct Prog<T: Clone + Eq + std::hash::Hash + std::fmt::Debug>;"
            body_items = decls + ["relation __generic_only(T);"] + macros + rules
            generic_args = "<u8>"
        if pack == "redecl":
            # every plain relation is first declared with a bogus initialiser; the later (plain) declaration wins
            first = []
            for r, d in zip(rels, decls):
                if r["ds"] == "-" and r["kind"] == "rel" and r["cols"]:
                    bogus = tuple_expr([bogus_val(c, cmap) for c in r["cols"]])
                    first.append(d[:-1] + f" = [{bogus}].into_iter().collect();")
            body_items = first + decls + macros + rules
        if pack == "init":
            # input relations start from an initialiser expression (rows handed over by the harness)
            decl2 = []
            for r, d in zip(rels, decls):
                if r["input"] and r["ds"] == "-":
                    row = f"std::sync::RwLock::new({conv(r)})" if (r["kind"] == "lat" and par) else conv(r)
                    decl2.append(d[:-1] + f' = vh_lite::init_rows("{r["name"]}").iter().map(|row| {row}).collect();')
                else:
                    decl2.append(d)
            body_items = decl2 + macros + rules
            if v.get("thrice"):
                mid = [d for r, d in zip(rels, decls) if r["input"] and r["ds"] == "-"]
                body_items = decl2 + mid + [d2 for (r, d2) in zip(rels, decl2) if r["input"] and r["ds"] == "-"] + macros + rules
        if pack == "source":
            # split the program text into three parts: before / included / after
            n = len(rules)
            cut = v["cut"]
            if cut == 0:      # include first: declarations + macros + first half of the rules come from the source
                inc, before, after = decls + macros + rules[: n // 2], [], rules[n // 2:]
            elif cut == 3:    # included: bogus-initialised declarations + macros + first half; re-declared after the include
                first = []
                for r, d in zip(rels, decls):
                    if r["ds"] == "-" and r["kind"] == "rel" and r["cols"]:
                        bogus = tuple_expr([bogus_val(c, cmap) for c in r["cols"]])
                        first.append(d[:-1] + f" = [{bogus}].into_iter().collect();")
                    else:
                        first.append(d)
                inc, before, after = first + macros + rules[: n // 2], [], decls + rules[n // 2:]
            elif cut == 1:    # include in the middle
                inc, before, after = rules[: n // 2], decls + macros, rules[n // 2:]
            else:             # include last
                inc, before, after = rules[n // 2:], decls + macros + rules[: n // 2], []
            out.append("ascent::ascent_source! {\n   " + modname + "_src:\n   " + "\n   ".join(inc) + "\n}\n")
            body = "\n   ".join(before + [f"include_source!({modname}_src);"] + after)
            out.append(f"ascent::{macro}! {{\n{attrs}   {sig}\n   {body}\n}}\n")
        else:
            out.append(f"ascent::{macro}! {{\n{attrs}   {sig}\n   " + "\n   ".join(body_items) + "\n}\n")
        pushes = []
        for r in plain:
            if r["kind"] == "lat" and par:
                pushes.append(f'         "{r["name"]}" => {{ self.0.{r["name"]}.push(std::sync::RwLock::new({conv(r)})); }},')
            else:
                pushes.append(f'         "{r["name"]}" => {{ self.0.{r["name"]}.push({conv(r)}); }},')
        clears = [f'         "{r["name"]}" => {{ self.0.{r["name"]} = Default::default(); }},' for r in plain]
        dumps = []
        for r in plain:
            if r["kind"] == "lat" and par:
                dumps.append(f'      let __v: Vec<{rowty(r)}> = self.0.{r["name"]}.iter().map(|r| r.read().unwrap().clone()).collect();\n'
                             f'      m.push(("{r["name"]}".to_string(), rows_json(__v.iter())));')
            else:
                dumps.append(f'      m.push(("{r["name"]}".to_string(), rows_json(self.0.{r["name"]}.iter())));')
        timeout = ""
        if v.get("timeout"):
            timeout = ("   fn run_timeout(&mut self, nanos: u64) -> Option<bool> { "
                       "Some(self.0.run_timeout(std::time::Duration::from_nanos(nanos))) }\n")
        out.append(f"""pub struct D(Prog{generic_args});
impl Driven for D {{
   fn push(&mut self, rel: &str, row: &Value) {{
      match rel {{
{chr(10).join(pushes)}
         _ => panic!("verif harness: unknown relation {{}}", rel),
      }}
   }}
   fn clear(&mut self, rel: &str) {{
      match rel {{
{chr(10).join(clears)}
         _ => panic!("verif harness: unknown relation {{}}", rel),
      }}
   }}
   fn run(&mut self) {{ self.0.run(); }}
{timeout}   fn dump(&self) -> Value {{
      let mut m: Vec<(String, Value)> = vec![];
{chr(10).join(dumps)}
      Value::Obj(m)
   }}
   fn summary(&self) -> String {{ Prog{('::' + generic_args) if generic_args else ''}::summary().to_string() }}
}}
pub fn make() -> Box<dyn Driven> {{ Box::new(D(Prog::default())) }}
""")
    else:
        # ascent_run!: the inputs are captured locals; every plain relation is initialised from what was pushed
        fields = "\n".join(f"   {r['name']}: Vec<{rowty(r)}>," for r in plain)
        pushes = "\n".join(f'         "{r["name"]}" => {{ self.{r["name"]}.push({conv(r)}); }},' for r in plain)
        inits, decl2 = [], []
        feeders = []
        read = body_relations(prog) if v.get("headonly") else set()
        for r, d in zip(rels, decls):
            if v.get("headonly") and r["ds"] == "-" and (r["input"] or r["name"] in read):
                # no initialiser: input rows arrive through a generator rule, rows pushed into other relations are ignored
                decl2.append(d)
                if r["input"]:
                    inits.append(f"      let {r['name']}_init = self.{r['name']}.clone();")
                    vs = [f"a{i}" for i in range(len(r["cols"]))]
                    pat = "(" + "".join(x + ", " for x in vs) + ")" if vs else "_unit"
                    feeders.append(f"{r['name']}({', '.join(x + '.clone()' for x in vs)}) <-- for {pat} in {r['name']}_init.iter();")
                continue
            if r["ds"] == "-" and (r["kind"] == "rel" or r["input"]):
                inits.append(f"      let {r['name']}_init = self.{r['name']}.clone();")
                if r["kind"] == "lat" and par:
                    src = f"{r['name']}_init.into_iter().map(std::sync::RwLock::new).collect()"
                else:
                    src = f"{r['name']}_init" + (".into_iter().collect()" if par else "")
                decl2.append(d[:-1] + f" = {src};")
            else:
                decl2.append(d)
        dumps = []
        for r in plain:
            if r["kind"] == "lat" and par:
                dumps.append(f'      let __v: Vec<{rowty(r)}> = res.{r["name"]}.iter().map(|r| r.read().unwrap().clone()).collect();\n'
                             f'      m.push(("{r["name"]}".to_string(), rows_json(__v.iter())));')
            else:
                dumps.append(f'      m.push(("{r["name"]}".to_string(), rows_json(res.{r["name"]}.iter())));')
        out.append(f"""#[derive(Default)]
pub struct D {{
{fields}
   out: Option<Value>,
}}
impl Driven for D {{
   fn push(&mut self, rel: &str, row: &Value) {{
      match rel {{
{pushes}
         _ => panic!("verif harness: unknown relation {{}}", rel),
      }}
   }}
   fn run(&mut self) {{
{chr(10).join(inits)}
      let res = ascent::{macro}! {{
{attrs}         {(chr(10) + '         ').join(decl2 + macros + feeders + rules)}
      }};
      let mut m: Vec<(String, Value)> = vec![];
{chr(10).join(dumps)}
      self.out = Some(Value::Obj(m));
   }}
   fn dump(&self) -> Value {{ self.out.clone().unwrap_or(Value::Null) }}
}}
pub fn make() -> Box<dyn Driven> {{ Box::new(D::default()) }}
""")
    return "\n".join(out)
