"""Seeded random logical programs (text in the syntax of dsl.py) for the corpus.

Safety by construction: every head variable is bound in the body; expressions only mention bound variables;
recursion may go through any derived relation with a smaller or equal index; negation / aggregation only range over
input relations or derived relations with a strictly smaller index (so every program is stratifiable); integer values
stay finite (arithmetic in heads is capped with min(.., 4))."""
import random

INPUTS = [("e", 2), ("f", 2), ("u", 1)]
VARS = ["x", "y", "z", "w", "v"]


def gen_program(seed, with_agg=False, front=False):
    rnd = random.Random(seed)
    nder = rnd.choice([2, 3, 3])
    derived = [(f"r{i}", rnd.choice([1, 2, 2, 3])) for i in range(nder)]
    arity = dict(INPUTS + derived)
    lines = []
    decl = " ".join(f"rel {n}({','.join(['int'] * a)}) input;" for n, a in INPUTS)
    decl += " " + " ".join(f"rel {n}({','.join(['int'] * a)});" for n, a in derived)
    lines.append(decl)
    for i, (name, ar) in enumerate(derived):
        for k in range(rnd.choice([2, 2, 3])):
            # the first rule of every relation only reads input relations (or earlier relations): a base case
            lines.append(gen_rule(rnd, name, ar, i, derived, arity, with_agg, base=(k == 0), front=front))
    return "\n".join(lines) + "\n"


def gen_rule(rnd, head, har, idx, derived, arity, with_agg, base=False, front=False):
    pos_rels = [n for n, _ in INPUTS] + [n for n, _ in derived[: (idx if base else idx + 1)]]
    if not base and rnd.random() < 0.6:
        pos_rels += [head] * 2          # favour recursion
    low_rels = [n for n, _ in INPUTS] + [n for n, _ in derived[:idx]]
    bound = []
    items = []
    nclauses = rnd.choice([1, 2, 2, 3])
    fresh = list(VARS)
    rnd.shuffle(fresh)

    def newvar():
        for v in fresh:
            if v not in bound:
                return v
        return None

    def clause_args(rel, allow_expr=True, avoid=()):
        args = []
        here = []
        usable = [b for b in bound if b not in avoid]
        for _ in range(arity[rel]):
            r = rnd.random()
            if front and not base:
                r = r * 0.85                                       # plain variables only: simple joins are frequent
            if r < 0.45 and (usable or here):
                args.append(rnd.choice(usable + here))             # join / repeated variable
            elif r < 0.75:
                v = newvar()
                if v is None or v in here:
                    args.append("_")
                else:
                    args.append(v)
                    here.append(v)
            elif r < 0.85:
                args.append("_")
            elif r < 0.93 or not bound or not allow_expr:
                args.append(str(rnd.randrange(3)))
            else:
                args.append(f"{rnd.choice(bound)} + 1")
        for v in here:
            if v not in bound:
                bound.append(v)
        return "(" + ",".join(args) + ")"

    # optionally start with a let / for (exercises the not-reorderable simple-join path)
    if front and not base:
        # `front` family: (nearly) every rule starts with a binder - let / for / agg - whose variable the clauses may use
        r = rnd.random()
        v = newvar()
        if r < 0.3:
            items.append(f"let {v} = {rnd.randrange(3)}")
        elif r < 0.55 or not with_agg:
            items.append(f"for {v} in 0..{rnd.choice([2, 3])}")
        else:
            rel = rnd.choice(low_rels)
            args = [rnd.choice(["_", "_", str(rnd.randrange(3))]) for _ in range(arity[rel])]
            kind = rnd.choice(["max", "max", "min", "sum"])   # (count() yields usize: not usable as a clause argument)
            if True:
                a = newvar_excluding(fresh, [v])
                args[rnd.randrange(len(args))] = a
                items.append(f"agg {v} = {kind}({a}) in {rel}({','.join(args)})")
        bound.append(v)
        nclauses = rnd.choice([2, 2, 3])
    elif rnd.random() < 0.15:
        v = newvar()
        items.append(f"let {v} = {rnd.randrange(3)}")
        bound.append(v)
    elif rnd.random() < 0.1:
        v = newvar()
        items.append(f"for {v} in 0..{rnd.choice([2, 3])}")
        bound.append(v)
    pre = list(bound)
    for c in range(nclauses):
        rel = rnd.choice(pos_rels)
        # `front` family: the first clause does not mention the leading binder's variable (so that the first two clauses
        # can form a simple join), the following ones may
        s = rel + (clause_args(rel, avoid=pre) if front and not base and c == 0 else clause_args(rel))
        if bound and rnd.random() < 0.2:
            s += " " + cond(rnd, bound)                            # condition attached to the clause
        items.append(s)
        r = rnd.random()
        if front and not base and c == 0:
            continue                                               # keep the first two clauses adjacent
        if bound and r < 0.2:
            items.append(cond(rnd, bound))
        elif bound and r < 0.3:
            v = newvar()
            if v:
                items.append(f"let {v} = {expr(rnd, bound)}")
                bound.append(v)
        elif bound and r < 0.36:
            v = newvar()
            if v:
                items.append(f"for {v} in 0..{rnd.choice(bound)}")
                bound.append(v)
    if with_agg and low_rels and rnd.random() < 0.7:
        rel = rnd.choice(low_rels)
        r = rnd.random()
        if r < 0.5:
            # negation: every argument bound, constant or wildcard
            args = [rnd.choice(bound + ["_", str(rnd.randrange(3))]) if bound else "_" for _ in range(arity[rel])]
            items.append(f"!{rel}({','.join(args)})")
        else:
            v = newvar()
            if v:
                kind = rnd.choice(["count", "count", "sum", "min", "max"])
                args = [rnd.choice(bound + ["_"]) if bound else "_" for _ in range(arity[rel])]
                if kind == "count":
                    items.append(f"agg {v} = count() in {rel}({','.join(args)})")
                else:
                    a = newvar_excluding(fresh, bound + [v])
                    if a:
                        args[rnd.randrange(len(args))] = a
                        items.append(f"agg {v} = {kind}({a}) in {rel}({','.join(args)})")
                    else:
                        items.append(f"agg {v} = count() in {rel}({','.join(args)})")
                bound.append(v)
    # head
    hargs = []
    for _ in range(har):
        r = rnd.random()
        if bound and r < 0.8:
            hargs.append(rnd.choice(bound))
        elif bound and r < 0.9:
            hargs.append(f"min({rnd.choice(bound)} + 1, 4)")
        else:
            hargs.append(str(rnd.randrange(3)))
    return f"{head}({','.join(hargs)}) <-- {', '.join(items)};"


def newvar_excluding(fresh, used):
    for v in fresh:
        if v not in used:
            return v
    return None


def cond(rnd, bound):
    a = rnd.choice(bound)
    r = rnd.random()
    if r < 0.4 and len(bound) > 1:
        b = rnd.choice([v for v in bound if v != a])
        return f"if {a} {rnd.choice(['<', '<=', '!=', '=='])} {b}"
    return f"if {a} {rnd.choice(['<', '!=', '==', '>'])} {rnd.randrange(3)}"


def expr(rnd, bound):
    a = rnd.choice(bound)
    return rnd.choice([f"min({a} + 1, 4)", f"min({a} * 2, 4)", f"min({a}, 1)", a])
