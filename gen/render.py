"""JSON AST -> Rust source (the `ascent!` family of macros) + the glue the harness needs.

Faithfulness rules (DESIGN.md Appendix E): variables bound by clause arguments (and by `?pattern`
arguments) are references in the generated code, variables bound by let / if let / for / agg are
values; an expression over variables is rendered with explicit dereferences and yields an owned value.
"""

RUST_COL = {"int": "i32", "opt": "Option<i32>"}
RUST_LAT = {
    "max_i32": "i32", "dual_i32": "Dual<i32>", "set_i32": "Set<i32>", "bset2_i32": "BoundedSet<2, i32>",
    "opt_i32": "Option<i32>", "cp_i32": "ConstPropagation<i32>", "prod_max_dual": "Product<(i32, Dual<i32>)>",
    "lex_pair": "(i32, i32)", "lex_dual_pair": "(Dual<i32>, i32)", "bool_or": "bool",
}
NONCOPY = {"set_i32", "bset2_i32"}
AGG_PATH = {"count": "ascent::aggregators::count", "sum": "ascent::aggregators::sum", "min": "ascent::aggregators::min",
            "max": "ascent::aggregators::max", "not": "ascent::aggregators::not",
            "minmax": "vh_lite::aggs::minmax", "sumpairs": "vh_lite::aggs::sumpairs"}
DS_PATH = {"eqrel": "ascent_byods_rels::eqrel", "trrel": "ascent_byods_rels::trrel", "trrel_uf": "ascent_byods_rels::trrel_uf"}


def col_rust(t, cmap="int"):
    if t in RUST_COL:
        if t == "int" and cmap == "str":
            return "String"
        if t == "int" and cmap == "u64":
            return "u64"
        return RUST_COL[t]
    return RUST_LAT[t]


class Env:
    """name -> (kind 'ref'|'val', type)"""
    def __init__(self, d=None):
        self.d = dict(d or {})

    def copy(self):
        return Env(self.d)


def lit(v, cmap="int"):
    if cmap == "str":
        return f'"s{v}".to_string()'
    if cmap == "u64":
        return f"{(v + 7) * 1000003}u64"
    return str(v) if v >= 0 else f"({v})"


class RuleRenderer:
    def __init__(self, prog, cmap="int", macro_params=()):
        self.prog = prog
        self.rels = {r["name"]: r for r in prog["rels"]}
        self.cmap = cmap
        self.macro_params = set(macro_params)

    # ------------------------------------------------------------ expressions (owned values)
    def var(self, n, env):
        if n in self.macro_params:
            return f"(*${n})"
        kind, ty = env.d.get(n, ("ref", "int"))
        base = f"(*{n})" if kind == "ref" else n
        if ty == "usize":
            return f"({base} as i32)"
        if ty in NONCOPY or (self.cmap == "str" and ty == "int"):
            return f"{base}.clone()"
        return base

    def rx(self, e, env):
        op = e["op"]
        r = lambda x: self.rx(x, env)
        if op == "var":
            return self.var(e["n"], env)
        if op == "lit":
            return e["cname"] if "cname" in e and self.cmap == "int" else lit(e["v"], self.cmap)
        bin_ops = {"add": "+", "sub": "-", "mul": "*", "mod": "%", "lt": "<", "le": "<=", "gt": ">", "ge": ">=",
                   "eq": "==", "ne": "!=", "and": "&&", "or": "||"}
        if op in bin_ops:
            return f"({r(e['a'])} {bin_ops[op]} {r(e['b'])})"
        if op == "min":
            return f"std::cmp::min({r(e['a'])}, {r(e['b'])})"
        if op == "max":
            return f"std::cmp::max({r(e['a'])}, {r(e['b'])})"
        if op == "not":
            return f"(!{r(e['a'])})"
        if op == "ite":
            return f"(if {r(e['c'])} {{ {r(e['a'])} }} else {{ {r(e['b'])} }})"
        if op == "blk":
            env2 = env.copy()
            env2.d[e["n"]] = ("val", "int")
            return f"{{ let {e['n']} = {r(e['a'])}; {self.rx(e['b'], env2)} }}"
        if op == "some":
            return f"Some({r(e['a'])})"
        if op == "none":
            return "None::<i32>"
        if op == "tup":
            return "(" + ", ".join(r(x) for x in e["es"]) + ",)"
        if op == "prod":
            return "Product((" + ", ".join(r(x) for x in e["es"]) + ",))"
        if op == "proj":
            return f"({r(e['a'])}).{e['i'] - 1}"
        if op == "pproj":
            return f"({r(e['a'])}).0.{e['i'] - 1}"
        if op == "dual":
            return f"Dual({r(e['a'])})"
        if op == "undual":
            return f"({r(e['a'])}).0"
        if op == "set1":
            return f"Set::singleton({r(e['a'])})"
        if op == "setu":
            return f"ascent::Lattice::join({r(e['a'])}, {r(e['b'])})"
        if op == "sethas":
            return f"({r(e['a'])}).contains(&({r(e['b'])}))"
        if op == "setlen":
            return f"(({r(e['a'])}).len() as i32)"
        if op == "bset1":
            return f"BoundedSet::<2, i32>::singleton({r(e['a'])})"
        if op == "bsethas":
            return f"({r(e['a'])}).contains(&({r(e['b'])}))"
        if op == "bsettop":
            return f"({r(e['a'])}).is_top()"
        if op == "cpc":
            return f"ConstPropagation::Constant({r(e['a'])})"
        if op == "cptop":
            return f"matches!({r(e['a'])}, ConstPropagation::Top)"
        if op == "cpis":
            return f"({r(e['a'])} == ConstPropagation::Constant({r(e['b'])}))"
        if op == "optge":
            return f"matches!({r(e['a'])}, Some(__v) if __v >= {r(e['b'])})"
        if op == "issome":
            return f"({r(e['a'])}).is_some()"
        raise ValueError(f"cannot render expression {e}")

    # ------------------------------------------------------------ patterns
    def pat(self, p, env, kind, ty="int"):
        k = p["p"]
        if k == "var":
            env.d[p["n"]] = (kind, ty)
            return p["n"]
        if k == "wild":
            return "_"
        if k == "lit":
            return lit(p["v"])
        if k == "at":
            env.d[p["n"]] = (kind, ty)
            return f"{p['n']} @ {self.pat(p['q'], env, kind)}"
        if k == "some":
            return f"Some({self.pat(p['q'], env, kind)})"
        if k == "none":
            return "None"
        if k == "tup":
            return "(" + ", ".join(self.pat(q, env, kind) for q in p["qs"]) + ",)"
        raise ValueError(p)

    # ------------------------------------------------------------ body
    def clause_args(self, rel, args, env, bind=True, bound_as_val=()):
        cols = self.rels[rel]["cols"] if rel in self.rels else ["int"] * len(args)
        out = []
        newly = []
        for a, ty in zip(args, cols + ["int"] * (len(args) - len(cols))):
            k = a["k"]
            if k == "v":
                if a["n"] in self.macro_params:
                    out.append("$" + a["n"])
                    continue
                out.append(a["n"])
                if a["n"] not in env.d:
                    newly.append((a["n"], ty))
            elif k == "c":
                out.append(a["cname"] if "cname" in a and self.cmap == "int" else lit(a["v"], self.cmap))
            elif k == "w":
                out.append("_")
            elif k == "e":
                out.append(self.rx(a["e"], env))
            elif k == "p":
                tmp = Env()
                out.append("?" + self.pat(a["p"], tmp, "ref"))
                for n, (kd, t) in tmp.d.items():
                    newly.append((n, t))
        if bind:
            for n, ty in newly:
                env.d[n] = ("ref", ty)
        return "(" + ", ".join(out) + ")"

    def cond(self, c, env):
        t = c["t"]
        if t == "if":
            return f"if {self.rx(c['e'], env)}"
        if t == "let":
            ex = self.rx(c["e"], env)
            return f"let {self.pat(c['p'], env, 'val')} = {ex}"
        if t == "iflet":
            ex = self.rx(c["e"], env)
            return f"if let {self.pat(c['p'], env, 'val')} = {ex}"
        raise ValueError(c)

    def item(self, it, env):
        t = it["t"]
        if t == "cl":
            s = it["rel"] + self.clause_args(it["rel"], it["args"], env)
            for c in it.get("conds", []):
                s += " " + self.cond(c, env)
            return s
        if t in ("if", "let", "iflet"):
            return self.cond(it, env)
        if t == "for":
            lo, hi = self.rx(it["lo"], env), self.rx(it["hi"], env)
            return f"for {self.pat(it['p'], env, 'val')} in ({lo})..({hi})"
        if t == "neg":
            return "!" + it["rel"] + self.clause_args(it["rel"], it["args"], env, bind=False)
        if t == "agg":
            inner = env.copy()
            args = self.clause_args(it["rel"], it["args"], inner, bind=False)
            pat_ty = "usize" if it["f"] == "count" else "int"
            p = "()" if it["f"] == "not" else self.pat(it["p"], env, "val", pat_ty)
            return f"agg {p} = {AGG_PATH[it['f']]}({', '.join(it['bound'])}) in {it['rel']}{args}"
        if t == "disj":
            alts = []
            envs = []
            for alt in it["alts"]:
                e2 = env.copy()
                alts.append(", ".join(self.item(x, e2) for x in alt))
                envs.append(e2)
            # variables bound in every alternative are visible afterwards
            common = set(envs[0].d)
            for e2 in envs[1:]:
                common &= set(e2.d)
            for n in common:
                env.d.setdefault(n, envs[0].d[n])
            return "(" + " | ".join(alts) + ")"
        if t == "mac":
            # arguments: plain variables are passed as identifiers, everything else as expressions
            args = []
            for a in it["args"]:
                if a["op"] == "var":
                    args.append(a["n"] if a["n"] not in self.macro_params else "$" + a["n"])
                else:
                    args.append(self.rx(a, env))
            # variables the macro body binds through its parameters become clause-bound variables
            mac = next(m for m in self.prog["macros"] if m["name"] == it["name"])
            for prm, a in zip(mac["params"], it["args"]):
                if a["op"] == "var" and a["n"] not in env.d and self._macro_binds(mac, prm):
                    env.d[a["n"]] = ("ref", "int")
            return f"{it['name']}!({', '.join(args)})"
        raise ValueError(it)

    def _macro_binds(self, mac, prm):
        def items_bind(items):
            for it in items:
                if it["t"] == "cl" and any(a["k"] == "v" and a["n"] == prm for a in it["args"]):
                    return True
                if it["t"] == "disj" and all(items_bind(alt) for alt in it["alts"]):
                    return True
                if it["t"] == "mac":
                    m2 = next(m for m in self.prog["macros"] if m["name"] == it["name"])
                    for p2, a in zip(m2["params"], it["args"]):
                        if a["op"] == "var" and a["n"] == prm and self._macro_binds(m2, p2):
                            return True
            return False
        return items_bind(mac["body"])

    def head(self, h, env):
        out = []
        for a in h["args"]:
            if a["op"] == "var" and a["n"] not in self.macro_params:
                kind, ty = env.d.get(a["n"], ("ref", "int"))
                if ty == "usize":
                    out.append(self.var(a["n"], env))
                else:
                    out.append(a["n"] if ty not in NONCOPY or kind == "ref" else a["n"] + ".clone()")
            elif a["op"] == "var":
                out.append("$" + a["n"])
            else:
                out.append(self.rx(a, env))
        return f"{h['rel']}({', '.join(out)})"

    def rule(self, rule):
        env = Env()
        body = [self.item(it, env) for it in rule["body"]]
        heads = ", ".join(self.head(h, env) for h in rule["heads"])
        if not body:
            return f"{heads};"
        return f"{heads} <-- {', '.join(body)};"

    def macro(self, m):
        sub = RuleRenderer(self.prog, self.cmap, macro_params=m["params"])
        env = Env()
        body = ", ".join(sub.item(it, env) for it in m["body"])
        params = ", ".join(f"${p}: ident" for p in m["params"])
        return f"macro {m['name']}({params}) {{ {body} }}"


def render_decl(r, cmap="int", init=None):
    cols = ", ".join(col_rust(c, cmap) for c in r["cols"])
    kw = "lattice" if r["kind"] == "lat" else "relation"
    ds = f"#[ds({DS_PATH[r['ds']]})] " if r["ds"] != "-" else ""
    ini = f" = {init}" if init else ""
    return f"{ds}{kw} {r['name']}({cols}){ini};"


def render_consts(prog, cmap="int"):
    if cmap != "int":
        return ""
    return "".join(f"const {c['name']}: i32 = {c['v']};\n" for c in prog.get("consts", []))


def render_program_items(prog, cmap="int", rule_order=None, decl_order=None):
    rr = RuleRenderer(prog, cmap)
    decls = [render_decl(r, cmap) for r in prog["rels"]]
    if decl_order:
        decls = [decls[i] for i in decl_order]
    macros = [rr.macro(m) for m in prog.get("macros", [])]
    rules = [rr.rule(r) for r in prog["rules"]]
    if rule_order:
        rules = [rules[i] for i in rule_order]
    return decls, macros, rules
