"""The hand-written part of the program corpus (text in the syntax of gen/dsl.py).

Each entry: name -> dict(text=..., tags=[...], bound=max number of input tuples enumerated exhaustively,
dom=size of the constant domain {0..dom-1}).  Tags select which properties / variant families use a program:
  core  : relations + joins + conditions + generators only (C01)
  lat   : lattices (C03)            agg : aggregation / negation (C04)
  sugar : surface forms (C07)       mac : in-program macros (C08)
  par   : also compiled with the parallel macros (C02)
  life  : used for run/re-run and timeout histories (C13, C14)
  pure  : no interpreted functions (eligible for constant renaming, C06)
"""

P = {}


def prog(name, text, tags, bound=3, dom=3):
    assert name not in P, name
    P[name] = dict(text=text, tags=set(tags.split()), bound=bound, dom=dom)


# ------------------------------------------------------------------------------------------------ core (C01)
prog("tc_right", """
rel e(int,int) input; rel p(int,int);
p(x,y) <-- e(x,y);
p(x,z) <-- p(x,y), e(y,z);
""", "core par life pure", bound=4)

prog("tc_left", """
rel e(int,int) input; rel p(int,int);
p(x,y) <-- e(x,y);
p(x,z) <-- e(x,y), p(y,z);
""", "core par life pure perm pack", bound=4)

prog("tc_nonlin", """
rel e(int,int) input; rel p(int,int);
p(x,y) <-- e(x,y);
p(x,z) <-- p(x,y), p(y,z);
""", "core par life pure perm", bound=4)

prog("mutual", """
rel e(int,int) input; rel a(int,int); rel b(int,int);
a(x,y) <-- e(x,y);
b(x,z) <-- a(x,y), e(y,z);
a(x,z) <-- b(x,y), e(y,z);
""", "core par life pure perm pack", bound=4)

prog("scc_chain", """
rel e(int,int) input; rel p(int,int); rel q(int,int); rel r(int);
p(x,y) <-- e(x,y);
p(x,z) <-- e(x,y), p(y,z);
q(x,y) <-- p(x,y), p(y,x);
r(x) <-- q(x,_);
""", "core par pure life perm", bound=4)

prog("diamond", """
rel e(int,int) input; rel l(int); rel r(int); rel j(int); rel k(int,int);
l(x) <-- e(x,_);
r(x) <-- e(_,x);
j(x) <-- l(x), r(x);
k(x,y) <-- j(x), j(y), e(x,y);
""", "core par pure", bound=4)

prog("consts", """
rel e(int,int) input; rel c0(int); rel c1(int); rel c01(int); rel both();
c0(y) <-- e(0,y);
c1(x) <-- e(x,1);
c01(2) <-- e(0,1);
both() <-- c0(x), c1(x);
""", "core par pure", bound=4)

prog("repeated", """
rel e(int,int) input; rel lp(int); rel sym(int,int); rel tri(int,int,int);
lp(x) <-- e(x,x);
sym(x,y) <-- e(x,y), e(y,x);
tri(x,y,z) <-- e(x,y), e(y,z), e(z,x);
""", "core par pure perm", bound=4)

prog("three_dyn", """
rel e(int,int) input; rel p(int,int);
p(x,y) <-- e(x,y);
p(x,w) <-- p(x,y), p(y,z), p(z,w);
""", "core par pure life perm", bound=4)

prog("four_dyn", """
rel e(int,int) input; rel p(int,int); rel q(int,int);
p(x,y) <-- e(x,y);
q(x,y) <-- e(y,x);
p(x,v) <-- p(x,y), q(z,y), p(z,w), q(v,w);
q(x,y) <-- p(y,x), q(x,x);
""", "core par pure", bound=3)

prog("conds", """
rel e(int,int) input; rel lt(int,int); rel n(int,int); rel s(int,int); rel m(int);
lt(x,y) <-- e(x,y), if x < y;
n(x,y) <-- e(x,_), let y = x + 1, if y < 3;
s(x,k) <-- e(x,_), for k in 0..x;
m(z) <-- e(x,y) if x != y, let z = x * 2 + y, if z % 2 == 0 || z > 4;
""", "core par perm pack", bound=4)

prog("expr_args", """
rel e(int,int) input; rel u(int) input; rel succ(int); rel step(int); rel d(int,int);
succ(x) <-- u(x), u(x + 1);
step(x) <-- e(x, x + 1);
d(x,y) <-- e(x,y), u(y - x);
""", "core par", bound=3)

prog("count_up", """
rel u(int) input; rel n(int); rel big(int);
n(x) <-- u(x);
n(x + 1) <-- n(x), if x < 6;
big(x) <-- n(x), n(x - 3);
""", "core par life", bound=3)

prog("multi_head", """
rel e(int,int) input; rel a(int); rel b(int); rel c(int,int);
a(x), b(y) <-- e(x,y);
c(x,y), c(y,x) <-- a(x), b(y), if x <= y;
a(y) <-- c(x,y), b(x);
""", "core par pure0 life perm", bound=4)

prog("facts", """
rel f(int,int); rel e(int,int) input; rel g(int,int); rel h(int);
f(1,2);
f(2,0);
g(x,z) <-- f(x,y), e(y,z);
g(x,z) <-- e(x,y), f(y,z);
h(7);
h(x) <-- g(x,_);
""", "core par pure perm pack", bound=4)

prog("opt_cols", """
rel o(opt) input; rel v(int); rel w(int); rel nn(); rel oo(opt);
v(x) <-- o(ox), if let Some(x) = ox;
w(x) <-- o(?Some(x));
nn() <-- o(?None);
oo(some(x + 1)) <-- v(x), if x < 2;
oo(none()) <-- nn();
""", "core par pack", bound=3)

prog("cartesian", """
rel u(int) input; rel w(int) input; rel c(int,int); rel d(int,int,int);
c(x,y) <-- u(x), w(y);
d(x,y,z) <-- u(x), w(y), u(z), if x != z;
""", "core par pure0", bound=4)

prog("same_gen", """
rel e(int,int) input; rel sg(int,int);
sg(x,y) <-- e(p,x), e(p,y);
sg(x,y) <-- e(a,x), sg(a,b), e(b,y);
""", "core par pure life perm", bound=4)

prog("not_reorderable", """
rel e(int,int) input; rel f(int,int) input; rel r(int,int); rel r2(int,int);
r(x,y) <-- let z = 1, e(x,y), f(y,z);
r2(x,z) <-- e(x,y), f(y,z);
""", "core par life perm", bound=4)

# binders (generator / let) in front of a two-clause join whose SECOND clause uses the bound variable, inside a recursive
# SCC: the join order may only be swapped at run time when that is unobservable (after a resume the delta is large)
prog("pre_join_rec", """
rel e(int,int) input; rel f(int,int) input; rel r(int,int); rel h(int,int); rel g(int,int);
r(x,y) <-- e(x,y);
r(x,z) <-- r(x,y), e(y,z);
h(x,c) <-- for c in 0..2, r(x,y), f(y,c);
g(x,c) <-- let c = 1, r(x,y), f(y,c);
r(x,c) <-- h(x,c), f(c,c);
""", "core par life perm", bound=4)

prog("two_inputs", """
rel e(int,int) input; rel f(int,int) input; rel j(int,int); rel k(int);
j(x,z) <-- e(x,y), f(y,z);
j(x,z) <-- j(x,y), f(y,z);
k(x) <-- j(x,x);
""", "core par pure life perm pack", bound=4)

prog("wild", """
rel e(int,int) input; rel f(int,int) input; rel w(int); rel any();
w(x) <-- e(x,_), e(_,x), f(_,_);
any() <-- e(_,_);
""", "core par pure", bound=4)

prog("ternary", """
rel t(int,int,int) input; rel a(int,int); rel b(int); rel c(int,int,int);
a(x,z) <-- t(x,_,z);
b(y) <-- t(x,y,x);
c(x,y,z) <-- t(x,y,z), t(z,y,x);
c(x,y,z) <-- c(y,x,z), t(x,_,_);
a(x,y) <-- a(x,z), t(z,0,y);
""", "core par pure perm", bound=3, dom=2)

prog("bound_mix", """
rel t(int,int,int) input; rel u(int) input; rel r1(int); rel r2(int,int); rel r3(int);
r1(z) <-- u(x), t(x,_,z);
r2(x,z) <-- u(y), t(x,y,z);
r3(x) <-- u(z), u(y), t(x,y,z);
r1(x) <-- r3(x), t(_,x,x);
""", "core par pure perm", bound=3, dom=2)

prog("join_chain", """
rel e(int,int) input; rel u(int) input; rel p3(int,int); rel p4(int);
p3(x,w) <-- e(x,y), e(y,z), e(z,w);
p4(x) <-- u(x), e(x,y), e(y,z), u(z);
""", "core par pure perm", bound=4)

prog("cond_simple_join", """
rel e(int,int) input; rel f(int,int) input; rel r(int,int); rel s(int,int);
r(x,z) <-- e(x,y) if x < 2, f(y,z) if z > 0;
s(x,z) <-- e(x,y), f(y,z) if x <= z, if y != 1;
""", "core par", bound=4)

prog("reach", """
rel e(int,int) input; rel src(int) input; rel reach(int); rel unre(int,int);
reach(x) <-- src(x);
reach(y) <-- reach(x), e(x,y);
unre(x,y) <-- e(x,y), reach(y), reach(x), if x > y;
""", "core par pure0 life", bound=4)

prog("zero_arity", """
rel e(int,int) input; rel z(); rel y(int);
z() <-- e(x,x);
y(x) <-- z(), e(x,_);
y(x) <-- y(x), z();
""", "core par pure", bound=3)

prog("self_join3", """
rel e(int,int) input; rel q(int,int,int);
q(x,y,z) <-- e(x,y), e(x,z), e(y,z);
q(x,y,z) <-- q(y,z,x), e(x,x);
""", "core par pure", bound=4)

prog("lag_right", """
rel e(int,int) input; rel f(int,int) input; rel a(int,int); rel b(int,int); rel r(int,int);
a(x,y) <-- e(x,y);
b(x,y) <-- f(x,y);
b(x,z) <-- b(x,y), f(y,z);
r(x,z) <-- a(x,y), b(y,z);
a(x,y) <-- r(x,y), f(x,x);
b(x,y) <-- r(y,x), e(y,y);
""", "core par pure life perm", bound=4)

prog("lag_left", """
rel e(int,int) input; rel f(int,int) input; rel a(int,int); rel b(int,int); rel r(int,int);
a(x,y) <-- e(x,y);
a(x,z) <-- a(x,y), e(y,z);
b(x,y) <-- f(x,y);
r(x,z) <-- a(x,y), b(y,z);
b(x,y) <-- r(y,x), e(x,x);
a(x,y) <-- r(x,y), f(y,y);
""", "core par pure life", bound=4)

prog("lag_three", """
rel e(int,int) input; rel f(int,int) input; rel a(int); rel b(int); rel c(int); rel r(int,int,int);
a(x) <-- e(x,_);
b(x) <-- f(x,_);
b(y) <-- b(x), f(x,y);
c(x) <-- e(_,x);
c(y) <-- c(x), e(x,y), b(y);
r(x,y,z) <-- a(x), b(y), c(z), if x != y;
a(z) <-- r(_,_,z), f(z,z);
b(z) <-- r(z,_,_), e(z,z);
c(y) <-- r(_,y,_), f(y,y);
""", "core par life", bound=4)

prog("lag_mid", """
rel e(int,int) input; rel f(int,int) input; rel a(int,int); rel b(int,int); rel c(int,int); rel r(int,int);
a(x,y) <-- e(x,y);
c(x,y) <-- e(y,x);
b(x,y) <-- f(x,y);
b(x,z) <-- b(x,y), f(y,z);
r(x,w) <-- a(x,y), b(y,z), c(z,w);
a(x,y) <-- r(x,y), f(x,x);
b(x,y) <-- r(y,x), e(y,y), f(y,y);
c(x,y) <-- r(x,y), f(y,y), e(x,x);
""", "core par pure perm", bound=4)

prog("lag_late_delta", """
rel e(int,int) input; rel u(int) input; rel cnt(int); rel a(int); rel r(int,int);
cnt(0) <-- u(_);
cnt(x + 1) <-- cnt(x), if x < 4;
a(x) <-- u(x);
r(x,k) <-- a(x), cnt(k), e(x,k);
a(k) <-- r(_,k);
""", "core par life", bound=4, dom=4)

prog("multi_head_rec", """
rel u(int) input; rel limit(int) input; rel reach(int); rel bucket(int); rel reach2(int); rel bucket2(int);
reach(x) <-- u(x);
reach(min(x + 1, 5)), bucket(min(x, 1)) <-- reach(x), limit(l), if x < l;
reach2(x) <-- u(x);
bucket2(min(x, 1)), reach2(min(x + 1, 5)) <-- reach2(x), limit(l), if x < l;
""", "core par sugar life", bound=3, dom=4)

# ------------------------------------------------------------------------------------------------ lattices (C03)
prog("sp_dual", """
rel e(int,int) input; lat sp(int,int,dual_i32);
sp(x,y,dual(1)) <-- e(x,y);
sp(x,z,dual(undual(l) + 1)) <-- e(x,y), sp(y,z,l);
""", "lat par life perm pack mono", bound=4)

prog("sp_weighted", """
rel w(int,int,int) input; lat sp(int,int,dual_i32); rel near(int,int);
sp(x,y,dual(c)) <-- w(x,y,c);
sp(x,z,dual(c + undual(l))) <-- w(x,y,c), sp(y,z,l), if c + undual(l) < 12;
near(x,y) <-- sp(x,y,l), if undual(l) <= 2;
""", "lat par life mono", bound=3, dom=3)

prog("longest_capped", """
rel e(int,int) input; lat lp(int,max_i32); rel deep(int);
lp(x,0) <-- e(x,_);
lp(y,0) <-- e(_,y);
lp(y, min(l + 1, 5)) <-- e(x,y), lp(x,l);
deep(x) <-- lp(x,l), if l >= 3;
""", "lat par life mono", bound=4)

prog("set_reach", """
rel e(int,int) input; lat rs(int,set_i32); rel has(int,int); rel both(int);
rs(x, set1(y)) <-- e(x,y);
rs(x, s) <-- e(x,y), rs(y,s);
has(x,y) <-- rs(x,s), for y in 0..3, if sethas(s,y);
both(x) <-- rs(x,s), if sethas(s,0), if sethas(s,1);
""", "lat par life pack mono", bound=4)

prog("bset", """
rel e(int,int) input; lat bs(int,bset2_i32); rel top(int); rel has1(int);
bs(x, bset1(y)) <-- e(x,y);
bs(x, s) <-- e(x,y), bs(y,s);
top(x) <-- bs(x,s), if bsettop(s);
has1(x) <-- bs(x,s), if bsethas(s,1);
""", "lat par mono life", bound=4)

prog("cp", """
rel a(int,int) input; rel cpy(int,int) input; lat val(int,cp_i32); rel isc(int,int); rel ist(int);
val(x, cpc(c)) <-- a(x,c);
val(y, v) <-- cpy(x,y), val(x,v);
isc(x,c) <-- val(x,v), for c in 0..3, if cpis(v,c);
ist(x) <-- val(x,v), if cptop(v);
""", "lat par life", bound=4)

prog("opt_lat", """
rel e(int,int) input; lat mx(int,opt_i32); rel big(int);
mx(x, none()) <-- e(x,_);
mx(x, some(y)) <-- e(x,y);
mx(x, o) <-- e(x,y), mx(y,o);
big(x) <-- mx(x,o), if optge(o,2);
""", "lat par", bound=4)

# breadth-first distances: the frontier (delta) can have more index keys than everything before it (total); the lattice is
# read through a NON-KEY index (column 1 of the key (source, node)) both inside the recursion, in a three-clause rule, and
# by a later stratum
prog("lat_tree", """
rel e(int,int) input; rel src(int) input; rel q(int) input; lat dist(int,int,dual_i32); rel out(int,int,int); rel okn(int);
okn(x) <-- for x in 0..3;
dist(s,s,dual(0)) <-- src(s);
dist(s,z,dual(undual(d) + 1)) <-- e(y,z), dist(s,y,d), okn(z), if undual(d) < 4;
out(s,n,k) <-- q(n), dist(s,n,d), let k = undual(d);
""", "lat par life", bound=4, dom=3)

# cheapest cost plus a witness: a tuple lattice with a Dual component (join goes through Ord of the components)
prog("lex_dual_lat", """
rel w(int,int,int) input; lat best(int,lex_dual_pair); rel via(int,int);
best(0, tup(dual(0), 0));
best(y, tup(dual(undual(proj(t,1)) + c), x)) <-- best(x,t), w(x,y,c), if undual(proj(t,1)) + c < 7;
via(y,x) <-- best(y,t), let x = proj(t,2);
""", "lat par", bound=3, dom=3)

prog("lex_lat", """
rel e(int,int) input; lat bst(int,lex_pair);
bst(x, tup(y, x)) <-- e(x,y);
bst(x, t) <-- e(x,y), bst(y,t);
""", "lat par", bound=4)

prog("bool_lat", """
rel e(int,int) input; rel mark(int) input; lat m(int,bool_or); rel marked(int);
m(x, 0 == 1) <-- e(x,_);
m(x, 0 == 0) <-- mark(x);
m(y, b) <-- e(x,y), m(x,b);
marked(x) <-- m(x,b), if b;
""", "lat par", bound=4)

prog("lat_two_keys", """
rel w(int,int,int) input; lat best(int,int,max_i32); lat glob(max_i32); rel win(int,int);
best(x,y,c) <-- w(x,y,c);
best(x,z,min(a,b)) <-- best(x,y,a), best(y,z,b);
glob(c) <-- best(_,_,c);
win(x,y) <-- best(x,y,c), glob(g), if c == g;
""", "lat par", bound=3)

prog("lat_multi_improve", """
rel e(int,int) input; lat d(int,dual_i32); rel r(int,int);
d(0, dual(0));
d(y, dual(undual(l) + 1)) <-- d(x,l), e(x,y);
d(y, dual(undual(l) + 3)) <-- d(x,l), e(y,x);
r(x,k) <-- d(x,l), let k = undual(l), if k < 4;
""", "lat par life", bound=4)

prog("lat_pre_join", """
rel w(int,int,int) input; lat d(int,dual_i32); rel near(int);
d(0, dual(0));
d(y, dual(undual(l) + 1)) <-- for k in 0..2, d(x,l), w(x,k,y);
near(x) <-- d(x,l), if undual(l) <= 1;
""", "lat par life mono", bound=3, dom=3)

# a lattice read with no bound column by a multiplicity-sensitive aggregate, rows improving over several iterations
prog("lat_count_all", """
rel a(int,int) input; rel e(int,int) input; lat m(int,max_i32); rel cnt(int);
m(x,v) <-- a(x,v);
m(y,v) <-- m(x,v), e(x,y);
cnt(n) <-- agg n = count() in m(_,_);
""", "lat agg par", bound=3, dom=3)

prog("lat_val_bound", """
rel e(int,int) input; lat d(int,dual_i32); rel at1(int); rel cnt2(int); rel nk(int,int); rel pairs(int,int);
d(0, dual(0));
d(y, dual(undual(l) + 1)) <-- d(x,l), e(x,y);
d(y, dual(undual(l) + 3)) <-- d(x,l), e(y,x);
at1(x) <-- d(x, dual(1));
cnt2(n) <-- agg n = count() in d(_, dual(2));
nk(x,v) <-- e(x,_), for v in 0..5, !d(x, dual(v));
pairs(x,y) <-- d(x,l), d(y,l), if x < y;
""", "lat agg par", bound=4)

prog("lat_input", """
rel e(int,int) input; lat best(int,dual_i32) input; rel reached(int); rel close(int);
best(y, dual(undual(l) + 1)) <-- best(x,l), e(x,y);
reached(x) <-- best(x,_);
close(x) <-- best(x,l), if undual(l) <= 1;
""", "lat par pack life mono", bound=3)

# ------------------------------------------------------------------------------------------------ agg / neg (C04)
prog("count_paths", """
rel e(int,int) input; rel p(int,int); rel cnt(int); rel outdeg(int,int);
p(x,y) <-- e(x,y);
p(x,z) <-- e(x,y), p(y,z);
cnt(n) <-- agg n = count() in p(_,_);
outdeg(x,n) <-- e(x,_), agg n = count() in p(x,_);
""", "agg par pack life", bound=4)

prog("neg_basic", """
rel e(int,int) input; rel p(int,int); rel node(int); rel unreach(int,int); rel sink(int);
p(x,y) <-- e(x,y);
p(x,z) <-- e(x,y), p(y,z);
node(x) <-- e(x,_);
node(x) <-- e(_,x);
unreach(x,y) <-- node(x), node(y), !p(x,y);
sink(x) <-- node(x), !e(x,_);
""", "agg par sugar perm pack life", bound=4)

prog("agg_minmaxsum", """
rel w(int,int,int) input; rel mn(int,int); rel mx(int,int); rel sm(int,int); rel tot(int); rel lo(int);
mn(x,m) <-- w(x,_,_), agg m = min(c) in w(x,_,c);
mx(x,m) <-- w(x,_,_), agg m = max(c) in w(x,_,c);
sm(x,s) <-- w(x,_,_), agg s = sum(c) in w(x,_,c);
tot(s) <-- agg s = sum(c) in w(_,_,c);
lo(m) <-- agg m = min(y) in w(_,y,_);
""", "agg par", bound=3)

prog("agg_depth", """
rel e(int,int) input; rel deg(int,int); rel maxdeg(int); rel top(int); rel ntop(int); rel cnt2(int);
deg(x,n) <-- e(x,_), agg n = count() in e(x,_);
maxdeg(m) <-- agg m = max(n) in deg(_,n);
top(x) <-- deg(x,n), maxdeg(n);
ntop(x) <-- deg(x,_), !top(x);
cnt2(c) <-- agg c = count() in ntop(_);
""", "agg par life", bound=4)

prog("agg_lattice", """
rel w(int,int,int) input; lat sp(int,int,dual_i32); rel far(int,int); rel nsp(int); rel tot(int);
sp(x,y,dual(c)) <-- w(x,y,c);
sp(x,z,dual(c + undual(l))) <-- w(x,y,c), sp(y,z,l), if c + undual(l) < 9;
far(x,m) <-- w(x,_,_), agg m = count() in sp(x,_,_);
nsp(n) <-- agg n = count() in sp(_,_,_);
tot(s) <-- agg s = sumpairs(x,y) in far(x,y);
""", "agg par life", bound=3)

prog("agg_user", """
rel w(int,int,int) input; rel ext(int,int); rel sp(int); rel cntk(int,int);
ext(x,m) <-- w(x,_,_), agg m = minmax(c) in w(x,_,c);
sp(s) <-- agg s = sumpairs(a,b) in w(a,b,_);
cntk(y,n) <-- w(_,y,_), agg n = count() in w(_,y,_);
""", "agg par", bound=3)

prog("neg_rec_after", """
rel e(int,int) input; rel b(int) input; rel ok(int,int); rel p(int,int); rel np(int,int);
ok(x,y) <-- e(x,y), !b(x), !b(y);
p(x,y) <-- ok(x,y);
p(x,z) <-- ok(x,y), p(y,z);
np(x,y) <-- e(x,y), !p(x,y);
""", "agg par sugar", bound=4)

prog("agg_bound_mix", """
rel t(int,int,int) input; rel u(int) input; rel a1(int,int); rel a2(int,int,int); rel a3(int);
a1(y,n) <-- u(y), agg n = count() in t(_,y,_);
a2(x,z,m) <-- t(x,_,z), agg m = max(y) in t(x,y,z);
a3(s) <-- u(k), agg s = sum(x) in t(x,k,k);
""", "agg par", bound=3, dom=2)

prog("agg_empty", """
rel e(int,int) input; rel u(int) input; rel c(int,int); rel none(int); rel s(int,int);
c(x,n) <-- u(x), agg n = count() in e(x,_);
none(x) <-- u(x), agg () = not() in e(x,_);
s(x,t) <-- u(x), agg t = sum(y) in e(x,y);
""", "agg par life", bound=4)

prog("agg_empty_rel", """
rel e(int,int) input; rel node(int) input; rel blocked(int) input; rel two(int,int); rel c3(int,int); rel s3(int,int);
two(x,z) <-- e(x,y), e(y,z), node(z), !blocked(y);
c3(x,n) <-- e(x,y), e(y,_), node(x), agg n = count() in blocked(y);
s3(x,t) <-- node(x), e(x,y), node(y), agg t = sum(b) in blocked(b);
""", "agg par life", bound=4)

prog("agg_const_args", """
const PASS = 1; const HI = 2;
rel grade(int,int) input; rel st(int) input; rel failed(int); rel npass(int,int); rel top(int,int); rel hi(int);
failed(s) <-- st(s), !grade(s, PASS);
npass(s,n) <-- st(s), agg n = count() in grade(s, PASS);
top(s,m) <-- st(s), agg m = max(g) in grade(s, g), if m >= HI;
hi(s) <-- grade(s, g), if g == HI, !grade(s, PASS);
""", "agg par sugar", bound=4)

# aggregation in FRONT of a two-clause join whose second clause uses the aggregate
prog("agg_pre_join", """
rel score(int) input; rel entry(int,int) input; rel level(int,int) input; rel winner(int,int); rel sized(int,int);
winner(x,m) <-- agg m = max(v) in score(v), entry(x,y), level(y,m);
sized(x,n) <-- agg n = sum(v) in score(v), entry(x,y), level(y,n);
""", "agg par", bound=4, dom=3)

# ------------------------------------------------------------------------------------------------ sugar (C07)
prog("disj", """
rel e(int,int) input; rel f(int,int) input; rel n(int); rel r(int,int);
n(x) <-- (e(x,_) | e(_,x) | f(x,x));
r(x,y) <-- (e(x,y) | f(x,y)), (if x > 0, n(x) | if y > 0, n(y));
""", "sugar par perm pack life", bound=3)

prog("disj_nested", """
rel e(int,int) input; rel u(int) input; rel r(int); rel q(int,int);
r(x) <-- u(x), (if x < 2, (e(x,_) | e(_,x)) | (u(y), e(y,x) | e(x,x)));
q(x,y) <-- (e(x,y), !u(x) | u(x), u(y), if x != y);
""", "sugar par agg", bound=3)

prog("pat_args", """
rel o(int,opt) input; rel r(int,int); rel nn(int); rel eqv(int);
r(k,v) <-- o(k, ?Some(v));
nn(k) <-- o(k, ?None);
eqv(k) <-- o(k, ?Some(v)), o(v, ?Some(k2)), if k2 == k;
""", "sugar par", bound=3)

prog("rep_expr", """
rel e(int,int) input; rel t(int,int,int) input; rel a(int); rel b(int,int); rel c(int);
a(x) <-- t(x,x,x);
b(x,y) <-- t(x,y,x + y);
c(x) <-- e(x,y), t(y,x,y);
c(x) <-- e(x, x), t(_, x + 1, _);
""", "sugar par", bound=3, dom=2)

prog("multi_head_disj", """
rel e(int,int) input; rel a(int); rel b(int,int); rel k();
a(x), b(x,y), k() <-- (e(x,y) if x < y, e(x,_) | e(y,x) if x < y, e(_,x));
a(3), b(3,3) <-- k();
""", "sugar par", bound=4)

prog("neg_in_disj", """
rel e(int,int) input; rel u(int) input; rel r(int,int);
r(x,y) <-- u(x), u(y), (!e(x,y), !e(y,x) | e(x,y), e(y,x));
""", "sugar agg par", bound=4)

# ------------------------------------------------------------------------------------------------ macros (C08)
prog("mac_basic", """
rel e(int,int) input; rel p2(int,int); rel p4(int,int);
macro two(a, b) { e(a, t), e(t, b) }
p2(x,y) <-- two!(x, y);
p4(x,z) <-- two!(x, y), two!(y, z);
""", "mac par pack life", bound=4)

prog("mac_capture", """
rel e(int,int) input; rel r(int,int); rel s(int,int);
macro via(a, b) { e(a, t), e(t, b) }
r(t,y) <-- e(t, _), via!(t, y);
s(x,t) <-- via!(x, t), e(t, t);
""", "mac par", bound=4)

prog("mac_nested", """
rel e(int,int) input; rel u(int) input; rel r(int,int); rel q(int);
macro hop(a, b) { e(a, b) }
macro hop2(a, b) { hop!(a, m), hop!(m, b) }
macro hop4(a, b) { hop2!(a, m), hop2!(m, b) }
r(x,y) <-- hop4!(x, y);
q(x) <-- u(x), hop2!(x, x);
""", "mac par", bound=4)

prog("mac_gensym_disj", """
rel score(int,int) input; rel vip(int) input; rel cand(int); rel okp(int,int); rel ok3(int,int,int);
macro good(x) { score(x, s), if s >= 1 }
macro better(x, y) { score(x, s), score(y, t), if s > t }
cand(x) <-- score(x,_);
cand(x) <-- vip(x);
okp(a,b) <-- cand(a), cand(b), (good!(a) | vip(a)), good!(b);
ok3(a,b,c) <-- cand(a), cand(b), cand(c), good!(a), (better!(a, b) | good!(b)), better!(b, c);
""", "mac par sugar", bound=4)

# macro-local variables named m / m1 (generated names must not collide across invocations), and a block expression that
# re-binds a macro-local variable in terms of itself while the call site has a variable of the same name
prog("mac_local_names", """
rel e(int,int) input; rel three(int,int); rel six(int,int);
macro hop3(a, b) { e(a, m), e(m, m1), e(m1, b) }
three(a,b) <-- hop3!(a, b);
six(a,c) <-- hop3!(a, b), hop3!(b, c);
""", "mac par", bound=4, dom=3)

prog("mac_block", """
rel inp(int,int) input; rel nxt(int,int) input; rel res(int,int,int);
macro bump(a, r) { let v = a, nxt(blk(v, v + 1, v * 2), r) }
res(v, w, r) <-- inp(v, w), bump!(w, r);
""", "mac par", bound=3, dom=3)

prog("mac_disj", """
rel e(int,int) input; rel f(int,int) input; rel r(int,int);
macro either(a, b) { (e(a, b) | f(a, b) | e(a, t), f(t, b)) }
r(x,z) <-- either!(x, y), either!(y, z);
""", "mac par sugar", bound=3)

# ------------------------------------------------------------------------------------------------ BYODS providers (C10-C12)
# "history interpreter" programs: the input relation sched(iteration, [key,] x, y) decides in which iteration of the
# recursive SCC a fact reaches the tagged relation r; r is read with every combination of bound / free columns both
# inside its recursive SCC (readers feed back through the always-empty relation never()) and in later strata, joined,
# negated and aggregated.


def _ds_binary(provider):
    fb = "\n".join(f"r(x,y) <-- {n}(x,y), never();" for n in ("iff", "ibf", "ifb", "ibb"))
    return f"""
rel sched(int,int,int) input; rel never() input; rel step(int); rel dom(int);
rel r(int,int) ds {provider};
rel iff(int,int); rel ibf(int,int); rel ifb(int,int); rel ibb(int,int);
rel off(int,int); rel obf(int,int); rel ofb(int,int); rel obb(int,int);
rel j(int,int); rel nr(int,int); rel cnt(int); rel outdeg(int,int); rel indeg(int,int); rel insum(int,int);
step(0);
step(i + 1) <-- step(i), if i < 2;
step(0) <-- r(_,_), never();
dom(x) <-- for x in 0..3;
r(x,y) <-- step(i), sched(i,x,y);
r(x,y) <-- step(i), sched(i,x,y), dom(x);
iff(x,y) <-- r(x,y);
ibf(x,y) <-- dom(x), r(x,y);
ifb(x,y) <-- dom(y), r(x,y);
ibb(x,y) <-- dom(x), dom(y), r(x,y);
{fb}
off(x,y) <-- r(x,y);
obf(x,y) <-- dom(x), r(x,y);
ofb(x,y) <-- dom(y), r(x,y);
obb(x,y) <-- dom(x), dom(y), r(x,y);
j(x,z) <-- sched(_,x,y), r(y,z);
nr(x,y) <-- dom(x), dom(y), !r(x,y);
cnt(n) <-- agg n = count() in r(_,_);
outdeg(x,n) <-- dom(x), agg n = count() in r(x,_);
indeg(y,n) <-- dom(y), agg n = count() in r(_,y);
insum(y,s) <-- dom(y), agg s = sum(x) in r(x,y);
"""


def _ds_ternary(provider):
    pats = {"000": "r(k,x,y)", "100": "kd(k), r(k,x,y)", "010": "dom(x), r(k,x,y)", "001": "dom(y), r(k,x,y)",
            "110": "kd(k), dom(x), r(k,x,y)", "101": "kd(k), dom(y), r(k,x,y)", "011": "dom(x), dom(y), r(k,x,y)",
            "111": "kd(k), dom(x), dom(y), r(k,x,y)"}
    decl = " ".join(f"rel i{p}(int,int,int); rel o{p}(int,int,int);" for p in pats)
    rules = "\n".join(f"i{p}(k,x,y) <-- {b};\nr(k,x,y) <-- i{p}(k,x,y), never();\no{p}(k,x,y) <-- {b};" for p, b in pats.items())
    return f"""
rel sched(int,int,int,int) input; rel never() input; rel step(int); rel dom(int); rel kd(int);
rel r(int,int,int) ds {provider};
{decl}
rel nr(int,int,int); rel cnt(int,int); rel indeg(int,int,int);
step(0);
step(i + 1) <-- step(i), if i < 2;
step(0) <-- r(_,_,_), never();
dom(x) <-- for x in 0..3;
kd(k) <-- for k in 0..2;
r(k,x,y) <-- step(i), sched(i,k,x,y);
r(k,x,y) <-- step(i), sched(i,k,x,y), dom(x);
{rules}
nr(k,x,y) <-- kd(k), dom(x), dom(y), !r(k,x,y);
cnt(k,n) <-- kd(k), agg n = count() in r(k,_,_);
indeg(k,y,n) <-- kd(k), dom(y), agg n = count() in r(k,_,y);
"""


def _ds_tern_only(provider, pat):
    # ONE access pattern per program: which reverse maps / sub-indices a provider allocates depends on the set of indices
    # the whole program uses, so a pattern must also work when no other pattern is around
    b = {"010": "dom(x), r(k,x,y)", "001": "dom(y), r(k,x,y)", "011": "dom(x), dom(y), r(k,x,y)"}[pat]
    return f"""
rel sched(int,int,int,int) input; rel never() input; rel step(int); rel dom(int);
rel r(int,int,int) ds {provider};
rel i{pat}(int,int,int); rel o{pat}(int,int,int);
step(0);
step(i + 1) <-- step(i), if i < 2;
dom(x) <-- for x in 0..3;
r(k,x,y) <-- step(i), sched(i,k,x,y);
i{pat}(k,x,y) <-- {b};
r(k,x,y) <-- i{pat}(k,x,y), never();
o{pat}(k,x,y) <-- {b};
"""


def _ds_plain(provider):
    # non-recursive use: facts arrive at once, readers in later strata only, r also fed from a second rule
    return f"""
rel e(int,int) input; rel f(int,int) input; rel dom(int);
rel r(int,int) ds {provider};
rel off(int,int); rel obf(int,int); rel ofb(int,int); rel obb(int,int); rel two(int,int);
dom(x) <-- for x in 0..3;
r(x,y) <-- e(x,y);
r(y,x) <-- f(x,y), e(x,_);
off(x,y) <-- r(x,y);
obf(x,y) <-- dom(x), r(x,y);
ofb(x,y) <-- dom(y), r(x,y);
obb(x,y) <-- dom(x), dom(y), r(x,y);
two(x,z) <-- r(x,y), r(y,z), if x < z;
"""


def _ds_order(provider):
    # arrival-order family: one fact per iteration for up to 7 iterations; the harness feeds every permutation of the
    # arrival order of fixed pair sets (union-find and closure maintenance depend on the order in which classes merge)
    return f"""
rel sched(int,int,int) input; rel never() input; rel step(int);
rel r(int,int) ds {provider};
rel iff(int,int); rel ibf(int,int); rel off(int,int);
step(0);
step(i + 1) <-- step(i), if i < 6;
step(0) <-- r(_,_), never();
r(x,y) <-- step(i), sched(i,x,y);
iff(x,y) <-- r(x,y);
r(x,y) <-- iff(x,y), never();
ibf(x,y) <-- sched(_,x,_), r(x,y);
r(x,y) <-- ibf(x,y), never();
off(x,y) <-- r(x,y);
"""


for _prov, _tag in (("eqrel", "ds10"), ("trrel", "ds11"), ("trrel_uf", "ds12")):
    prog(f"{_prov}_order", _ds_order(_prov), f"ds {_tag} order" + (" par" if _prov == "eqrel" else ""), bound=1, dom=2)
    prog(f"{_prov}_bin", _ds_binary(_prov), f"ds {_tag}" + (" par" if _prov == "eqrel" else ""), bound=3, dom=3)
    prog(f"{_prov}_tern", _ds_ternary(_prov), f"ds {_tag}", bound=2, dom=3)
    for _pat in ("010", "001", "011"):
        prog(f"{_prov}_only{_pat}", _ds_tern_only(_prov, _pat), f"ds {_tag}", bound=2, dom=3)
    prog(f"{_prov}_plain", _ds_plain(_prov), f"ds {_tag} perm" + (" par" if _prov == "eqrel" else ""), bound=3, dom=3)


# ------------------------------------------------------------------------------------------------ stress (large inputs)
# run on databases with thousands of rows under 4-8 workers (C02, C05): contention windows of the concurrent indices
# (first insertion of a lattice key, first value of an index key) are only hit when many keys are created at once
prog("stress_lat", """
rel src(int,int) input; rel link(int,int) input; lat m(int,max_i32); rel hot(int);
m(k,v) <-- src(k,v);
m(k,v) <-- m(j,v), link(j,k);
hot(k) <-- m(k,v), if v >= 6;
""", "stress par", bound=2, dom=2)

prog("stress_set", """
rel src(int,int) input; lat s(int,set_i32); rel both(int);
s(k, set1(v)) <-- src(k,v);
both(k) <-- s(k,x), if sethas(x,0), if sethas(x,1);
""", "stress par", bound=2, dom=2)

prog("stress_rel", """
rel edge(int,int) input; rel via(int,int) input; rel tgt(int); rel sw(int,int); rel low(int,int); rel two(int,int);
two(x,z) <-- edge(x,y), via(y,z);
tgt(y) <-- edge(_,y);
sw(y,x) <-- edge(x,y);
sw(x,y) <-- edge(x,y);
low(x,y) <-- sw(x,y), if x < y;
""", "stress par", bound=2, dom=2)

# ------------------------------------------------------------------------------------------------ seeded random programs
import randprog as _rp   # noqa: E402

for _s in range(1, 31):
    prog(f"rnd_core_{_s:02d}", _rp.gen_program(1000 + _s, with_agg=False), "core par rnd", bound=2, dom=3)
for _s in range(1, 16):
    prog(f"rnd_agg_{_s:02d}", _rp.gen_program(2000 + _s, with_agg=True), "agg par rnd", bound=2, dom=3)
for _s in range(1, 9):
    prog(f"rnd_prec_{_s:02d}", _rp.gen_program(3000 + _s, with_agg=False, front=True), "core par rnd life", bound=2, dom=3)
for _s in range(1, 9):
    prog(f"rnd_prea_{_s:02d}", _rp.gen_program(4000 + _s, with_agg=True, front=True), "agg par rnd", bound=2, dom=3)
