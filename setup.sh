#!/bin/sh
# Builds the conformance harness from files on disk only (offline). Run once after a fresh restore.
set -e
cd "$(dirname "$0")/harness"
export CARGO_NET_OFFLINE=true
cargo build --offline --workspace 2>&1 | tail -3
