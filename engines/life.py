"""Engine life (C13, C14): histories of one program value - run / re-run / push facts / run_timeout at every
deadline check / resume - validated against the declarative semantics by TraceSem.

C13: TLC (LifeGen) enumerates histories `push* run (push* run)*` exhaustively within tiny bounds and by simulation
     beyond, checking on each that incremental saturation equals a fresh run; every history is replayed on the
     compiled program (serial and parallel). Idempotence (run; run; run) is replayed for every corpus program,
     including those with negation, aggregation and lattices.
C14: crash-point enumeration under the virtual clock (hook): for every (program, input) the number N of deadline
     checks of an uninterrupted run is learnt, then run_timeout is made to fire at EVERY check k < N, followed by
     run() (and by a second interruption). TraceSem demands a sound partial state after `false` and the exact least
     model after the resuming call."""
import json, os, random
import vlib, semlib, sem
from vlib import Outcome, ToolError, log

BIG = 1 << 40


def lifegen(progs, workdir, cfg, simulate=None, depth=None, seed=1, workers=8):
    os.makedirs(workdir, exist_ok=True)
    pf = os.path.join(workdir, "life_progs.json")
    with open(pf, "w") as f:
        json.dump(progs, f)
    res = vlib.run_tlc("LifeGen", cfg, env={"PROGS": pf}, workers=workers if not simulate else 1, timeout=1500,
                       tags=("CASE",), xss=True, simulate=simulate, depth=depth, seed=seed)
    if simulate:
        if res.rc not in (0,) and res.violated:
            vlib.tlc_ok(res, "LifeGen simulation")
    else:
        vlib.tlc_ok(res, "LifeGen")
    cases, seen = [], set()
    for _, c in res.lines:
        key = json.dumps(c["segs"], sort_keys=True) + c["prog"]
        if key not in seen:
            seen.add(key)
            cases.append(c)
    return res, cases


def seg_ops(prog, seg, rnd):
    by = {}
    for f in seg:
        by.setdefault(f["rel"], []).append(f["row"])
    ops = []
    names = [r["name"] for r in prog["rels"] if r["name"] in by]
    rnd.shuffle(names)
    for n in names:
        ops.append({"op": "push", "rel": n, "rows": by[n]})
    return ops


def run_c13(out, tier, seed, replay):
    pid = "C13"
    rnd = random.Random(seed)
    progs_all, mods, shards = semlib.load_corpus()
    work = os.path.join(vlib.BUILD, "work", pid)
    rc, txt, bindir = semlib.build_corpus(shards)
    if rc != 0:
        out.violation({"property": pid, "engine": "life", "summary": "a well-formed corpus program no longer compiles against /repo",
                       "compiler_output": txt[-4000:]})
        return
    sel = list(progs_all)
    pidx = {p["name"]: i + 1 for i, p in enumerate(sel)}
    byname = {p["name"]: p for p in sel}
    mono = [p for p in sel if "life" in p["tags"] and ("core" in p["tags"] or "mono" in p["tags"])]
    cases, meta = [], {}
    cid = 0

    def add(p, var, ops, inputs, lm):
        nonlocal cid
        cid += 1
        case = semlib.make_case(cid, p, pidx[p["name"]], var, ops)
        cases.append(case)
        meta[cid] = dict(case=case, inputs=inputs, lm=lm, prog=p)

    # ---- (0) the start-of-run protocol for a lattice relation with caller-made second rows (Reindex.tla, finding F19)
    r1 = vlib.run_tlc("Reindex", "Reindex.cfg", workers=4, timeout=600, tags=())
    vlib.tlc_ok(r1, "Reindex")
    out.add_tlc(r1, "Reindex: rows of a lattice indexed in order, then everything re-derived: the indexed row of every key holds the join of all its rows")
    r2 = vlib.run_tlc("Reindex", "Reindex_anyorder.cfg", workers=4, timeout=600, tags=())
    if r2.violated != "IndexedRowIsJoin":
        raise ToolError(f"negative control failed: Reindex with rows indexed in any order keeps IndexedRowIsJoin (violated={r2.violated})")
    out.extra["reindex_negative_control"] = "rows indexed in any order (parallel macros before the repair of F19) violate IndexedRowIsJoin as expected"
    # ---- (a) histories with pushes between runs, programs without negation / aggregation / lattices
    tiny = []
    for p in mono:
        q = dict(p)
        q["bound"] = 1
        tiny.append(q)
    # LifeGen reads its own program file: indices there are positions in `tiny`/`mono`
    g1, h1 = lifegen(tiny, work, "LifeGen.cfg")
    out.add_tlc(g1, "LifeGen exhaustive (<= 1 input fact, 2 runs, <= 1 fact pushed in between)")
    nsim = 150 if tier == "quick" else 1500
    g2, h2 = lifegen(mono, work, "LifeGen_sim.cfg", simulate=nsim, depth=14, seed=seed)
    out.add_tlc(g2, "LifeGen simulation (3 runs, <= 2 facts pushed between runs)")
    hist_cases = h1 + h2
    if tier == "quick" and len(h1) > 1500:
        # stratified: histories that push into a lattice relation after a run are few and all kept (up to 1200)
        latrels = {(p["name"], r["name"]) for p in mono for r in p["rels"] if r["kind"] == "lat"}
        islat = lambda c: any((c["prog"], f["rel"]) in latrels for seg in c["segs"][1:] for f in seg)
        hl = [c for c in h1 if islat(c)]
        ho = [c for c in h1 if not islat(c)]
        hist_cases = (hl if len(hl) <= 1200 else rnd.sample(hl, 1200)) + rnd.sample(ho, min(len(ho), 1500)) + h2
        out.extra["lattice_push_histories"] = min(len(hl), 1200)
    for c in hist_cases:
        p = byname[c["prog"]]
        ops = []
        for seg in c["segs"]:
            ops += seg_ops(p, seg, rnd) + [{"op": "run"}]
        for var in ("ser", "par", "to"):
            if (p["name"], var) in mods:
                add(p, var, ops, {"segments": c["segs"]}, c["lms"][-1])
    n_hist = len(cases)
    # ---- (b) idempotence: run; run; run on every program of the corpus
    # programs with a custom provider: their closure makes exhaustive enumeration expensive; seeded random schedules
    # with the least model from SemEval instead
    is_ds = lambda p: any(r["ds"] != "-" for r in p["rels"])
    sel_b = [p for p in sel if not is_ds(p) or tier != "quick"]
    gen, by = semlib.enumerate_inputs(sel_b, work, "quick")
    out.add_tlc(gen, "SemGen (input databases for the idempotence histories)")
    if tier == "quick":
        ds_items = []
        for p in sel:
            if is_ds(p):
                for k in range(30):
                    ds_items.append({"id": len(ds_items) + 1, "pi": pidx[p["name"]], "inputs": sem.random_inputs(p, rnd), "prog": p})
        ds_lms, evres = semlib.eval_least_models(sel, ds_items, os.path.join(work, "ds_idem"))
        for r in evres:
            out.add_tlc(r, "SemEval (least models of seeded random schedules of the custom-provider programs)")
        for it in ds_items:
            by.setdefault(it["prog"]["name"], []).append({"inputs": it["inputs"], "lm": ds_lms[it["id"]]})
    # seeded random databases beyond the exhaustive bound (up to 8 tuples per relation over 6 constants) for the programs
    # without custom providers: index merging paths depend on relative sizes (frontier larger than everything before it)
    big_items = []
    for p in sel:
        if not is_ds(p) and "stress" not in p["tags"]:
            for k in range(10 if tier == "quick" else 60):
                big_items.append({"id": len(big_items) + 1, "pi": pidx[p["name"]], "inputs": sem.random_inputs(p, rnd), "prog": p})
    big_lms, evres = semlib.eval_least_models(sel, big_items, os.path.join(work, "big_idem"))
    for r in evres:
        out.add_tlc(r, "SemEval (least models of seeded random databases)")
    for it in big_items:
        by.setdefault(it["prog"]["name"], []).append({"inputs": it["inputs"], "lm": big_lms[it["id"]], "keep": True})
    cap = 50 if tier == "quick" else 400
    for p in sel:
        pcs = by.get(p["name"], [])
        chosen = sem.select_cases([c for c in pcs if not c.get("keep")], cap, rnd) + [c for c in pcs if c.get("keep")]
        for c in chosen:
            ops = semlib.input_ops(p, c["inputs"]) + [{"op": "run"}, {"op": "run"}, {"op": "run"}]
            for var in ("ser", "par"):
                if (p["name"], var) in mods:
                    add(p, var, ops, c["inputs"], c["lm"])
    if replay:
        rec = json.load(open(replay))
        keep = [c for c in cases if c["prog"] == rec["case"]["prog"] and c["var"] == rec["case"]["var"] and c["ops"] == rec["case"]["ops"]]
        cases[:] = keep if keep else [rec["case"]]
        for c in cases:
            meta.setdefault(c["id"], dict(case=c, inputs=rec.get("inputs"), lm=rec.get("specified_least_model", {}), prog=byname[c["prog"]]))
    log(f"[life] C13: {n_hist} history cases with pushes, {len(cases) - n_hist} idempotence cases")
    sem.finish_cases(out, pid, sel, cases, meta, mods, bindir, work)
    if not replay:
        import stress
        stress.run_push_history(out, pid, tier, seed, progs_all, mods, bindir, work)
    out.extra["histories_with_pushes"] = n_hist
    out.rule = ("(a) TLC (LifeGen) enumerates every history push* run (push run) with <= 1 input fact and <= 1 later fact, and simulates "
                f"{nsim} random histories with 3 runs and <= 2 facts pushed between runs into any plain relation (input or derived), for the "
                "corpus programs without negation/aggregation tagged `life` (plus the lattice programs tagged `mono`, whose later strata read lattice values through upward-closed tests only - a non-monotone read such as copying the value is outside the property: TLC refutes IncrementalEqualsFresh for it at the model level; facts are pushed into plain relations only); (b) run;run;run on TLC-enumerated inputs of every corpus "
                "program (serial and parallel). A case = (program, variant, history). Non-trivial = the final least model has derived tuples.")
    out.assumptions = ["pushed tuples are never already present (TLC only chooses tuples outside the current least model)",
                       "at most one row is ever pushed for a lattice key (a second pushed row for the same key is a duplicate made by the caller)"]


def run_c14(out, tier, seed, replay):
    pid = "C14"
    rnd = random.Random(seed)
    progs_all, mods, shards = semlib.load_corpus()
    work = os.path.join(vlib.BUILD, "work", pid)
    rc, txt, bindir = semlib.build_corpus(shards)
    if rc != 0:
        out.violation({"property": pid, "engine": "life", "summary": "a well-formed corpus program no longer compiles against /repo",
                       "compiler_output": txt[-4000:]})
        return
    sel = [p for p in progs_all if (p["name"], "to") in mods]
    pidx = {p["name"]: i + 1 for i, p in enumerate(sel)}
    byname = {p["name"]: p for p in sel}
    gen, by = semlib.enumerate_inputs(sel, work, "quick", cfg="SemGen_timeout.cfg")
    out.add_tlc(gen, "SemGen + TimeoutTheorem (SemiNaive.tla: every database a deadline can leave behind is below the least model "
                     "and a fresh evaluation from it reaches exactly the least model), on every enumerated input database")
    cap = 12 if tier == "quick" else 80
    # phase 1: learn the number of deadline checks of an uninterrupted run
    probe, pmeta = [], {}
    cid = 0
    for p in sel:
        for c in sem.select_cases(by.get(p["name"], []), cap, rnd):
            for var in ("to", "topar"):
                if (p["name"], var) not in mods:
                    continue
                cid += 1
                case = semlib.make_case(cid, p, pidx[p["name"]], var, semlib.input_ops(p, c["inputs"]) + [{"op": "run_timeout", "k": BIG}])
                probe.append(case)
                pmeta[cid] = dict(case=case, inputs=c["inputs"], lm=c["lm"], prog=p)
    raw, crashed = semlib.run_cases(probe, mods, bindir, os.path.join(work, "probe"))
    if crashed:
        raise ToolError(f"probe run crashed: {crashed[0][:3]}")
    cases, meta = [], {}
    ncheckpoints = 0
    for c in probe:
        ev = raw.get(c["id"], [])
        rets = [e for e in ev if e.get("e") == "ret"]
        if not rets or rets[-1].get("v") is not True:
            # an uninterrupted run_timeout(huge) must return true; keep the probe as a case so that TraceSem judges it
            cases.append(c)
            meta[c["id"]] = pmeta[c["id"]]
            continue
        n = int(rets[-1].get("checks", 0))
        m = pmeta[c["id"]]
        base = [op for op in c["ops"] if op["op"] == "push"]
        ks = list(range(n))
        if tier == "quick" and n > 8:
            ks = sorted(set(ks[:4] + ks[-3:] + rnd.sample(ks, 2)))
        for k in ks:
            ncheckpoints += 1
            for tail in ([{"op": "run"}], [{"op": "run_timeout", "k": 0}, {"op": "run_timeout", "k": 1}, {"op": "run_timeout", "k": BIG}]):
                if tail[0]["op"] != "run" and (k % 2 == 1 and tier == "quick"):
                    continue
                cid += 1
                case = semlib.make_case(cid, m["prog"], c["pi"], c["var"], base + [{"op": "run_timeout", "k": k}] + tail)
                cases.append(case)
                meta[cid] = dict(case=case, inputs=m["inputs"], lm=m["lm"], prog=m["prog"])
    if replay:
        rec = json.load(open(replay))
        cases = [rec["case"]]
        meta = {rec["case"]["id"]: dict(case=rec["case"], inputs=rec.get("inputs"), lm=rec.get("specified_least_model", {}), prog=byname[rec["case"]["prog"]])}
    log(f"[life] C14: {len(probe)} probes, {ncheckpoints} crash points, {len(cases)} cases")

    def extra(raw):
        # run_timeout(k) with k below the number of checks must return false (the deadline was observable there)
        bad = []
        for c in cases:
            ev = raw.get(c["id"])
            if not ev:
                continue
            rets = [e for e in ev if e.get("e") == "ret"]
            calls = [op for op in c["ops"] if op["op"] in ("run", "run_timeout")]
            if rets and calls and calls[0]["op"] == "run_timeout" and calls[0]["k"] != BIG and rets[0].get("v") is True:
                bad.append((c["id"], "deadline-ignored", {"k": calls[0]["k"]}))
        return bad
    sem.finish_cases(out, pid, sel, cases, meta, mods, bindir, work, extra_checks=extra)
    out.extra["crash_points"] = ncheckpoints
    out.rule = ("for every selected (program, input database, variant in {generate_run_timeout serial, parallel}) the virtual clock makes the "
                "deadline fire at every deadline check k of the run (all k when N <= 8, first/last/sampled otherwise in quick); histories "
                "run_timeout(k); run() and run_timeout(k); run_timeout(0); run_timeout(1); run_timeout(inf). Non-trivial = derived tuples exist.")
    out.assumptions = ["the deadline is observable exactly where the generated code reads the clock (virtual clock hook)"]


def run(pid, tier, seed, replay=None):
    out = Outcome(pid, tier, seed)
    if pid == "C13":
        run_c13(out, tier, seed, replay)
    else:
        run_c14(out, tier, seed, replay)
    return out
