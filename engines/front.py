"""Engine front (C15): ill-formed programs are rejected at compile time, never miscompiled.

gen/mutants.py derives ill-formed mutants (one violation each) from the well-formed corpus programs; TLC
(spec/FrontGen.tla over spec/AscentSyntax.tla) prescribes for every mutant and every unmutated twin whether it
is well-formed under the serial and under the parallel macros and which predicate fails.  Every program is then
compiled as a probe module under each of the four macros by the real tool chain (cargo check, several passes:
errors of macro expansion hide later phases, so the survivors of a pass are checked again on their own) and
classified rejected / macro-panicked / accepted / compile-timeout.  Specified ill-formed => must be rejected
with an error located in the program text, without a panic; specified well-formed => must compile.  A mutant
that compiles is additionally run on a small input to record what it silently computes."""
import json, os, re, shutil, signal, subprocess, sys, threading, time
import vlib, known
from vlib import Outcome, ToolError, run_tlc, tlc_ok, log

sys.path.insert(0, os.path.join(vlib.ROOT, "gen"))
import mutants as M

FRONT = os.path.join(vlib.BUILD, "front")
ISO = os.path.join(vlib.BUILD, "front-iso")
TARGET = os.path.join(vlib.BUILD, "target-front")
TARGET_ISO = os.path.join(vlib.BUILD, "target-front-iso")
WORK = os.path.join(vlib.BUILD, "work")
NSHARDS = 14
ISO_TIMEOUT = 60          # seconds an isolated probe may take to be rejected (a rejected probe takes < 1 s)

MANIFEST_WS = """[workspace]
resolver = "2"
members = [{members}]

[workspace.dependencies]
ascent = {{ path = "/repo/ascent" }}
ascent-byods-rels = {{ path = "/repo/byods/ascent-byods-rels" }}

[profile.dev]
debug = 0
"""
MANIFEST_CRATE = """[package]
name = "{name}"
version = "0.1.0"
edition = "2021"

[dependencies]
ascent = {{ workspace = true }}
ascent-byods-rels = {{ workspace = true }}
"""


@known.matcher("front_outcome")
def _known_front(rec, f):
    """signature: {"class": <violation class>, "kind_contains": <substring of the position kind>, "outcome": <observed>}"""
    s = f.get("signature", {})
    return (rec.get("class") == s.get("class") and s.get("kind_contains", "") in rec.get("kind", "")
            and rec.get("observed") == s.get("outcome") and s.get("rustc_contains", "") in (rec.get("rustc") or "")
            and s.get("summary_contains", "") in (rec.get("summary") or ""))


# ------------------------------------------------------------------------------------------------ files
def write_if_changed(path, text):
    try:
        if open(path).read() == text:
            return
    except OSError:
        pass
    os.makedirs(os.path.dirname(path), exist_ok=True)
    with open(path, "w") as f:
        f.write(text)


def setup_workspace(root, crates):
    """crates: {crate name: {module name: text}}; lib.rs files are written by write_libs"""
    os.makedirs(root, exist_ok=True)
    write_if_changed(os.path.join(root, "Cargo.toml"), MANIFEST_WS.format(members=", ".join(f'"{c}"' for c in sorted(crates))))
    lock = os.path.join(root, "Cargo.lock")
    if not os.path.exists(lock):
        shutil.copy(os.path.join(vlib.HARNESS, "Cargo.lock"), lock)
    for d in os.listdir(root):
        if os.path.isdir(os.path.join(root, d)) and d not in crates:
            shutil.rmtree(os.path.join(root, d))
    for c, mods in crates.items():
        write_if_changed(os.path.join(root, c, "Cargo.toml"), MANIFEST_CRATE.format(name=c))
        src = os.path.join(root, c, "src")
        os.makedirs(src, exist_ok=True)
        for f in os.listdir(src):
            if f not in ("lib.rs", "main.rs", "aggs.rs") and f[:-3] not in mods:
                os.remove(os.path.join(src, f))
        write_if_changed(os.path.join(src, "aggs.rs"), M.AGGS_RS)
        for mod, text in mods.items():
            write_if_changed(os.path.join(src, mod + ".rs"), text)


def write_libs(root, crates_mods):
    for c, mods in crates_mods.items():
        text = "#![allow(warnings, clippy::all)]\npub mod aggs;\n" + "".join(f"pub mod {m};\n" for m in mods)
        write_if_changed(os.path.join(root, c, "src", "lib.rs"), text)


# ------------------------------------------------------------------------------------------------ cargo
def cargo_json(root, target, args, timeout):
    """Runs cargo with --message-format=json in its own process group. Returns (rc or None on timeout, messages)."""
    cmd = ["cargo"] + args + ["--offline", "--message-format=json"]
    env = vlib.env_offline()
    env["CARGO_TARGET_DIR"] = target
    t0 = time.time()
    p = subprocess.Popen(cmd, cwd=root, env=env, stdout=subprocess.PIPE, stderr=subprocess.PIPE, text=True, errors="replace",
                         start_new_session=True)
    try:
        so, se = p.communicate(timeout=timeout)
        rc = p.returncode
    except subprocess.TimeoutExpired:
        try:
            os.killpg(p.pid, signal.SIGKILL)
        except OSError:
            pass
        so, se = p.communicate()
        rc = None
    msgs = []
    for line in so.splitlines():
        if line.startswith("{"):
            try:
                msgs.append(json.loads(line))
            except ValueError:
                pass
    log(f"[cargo] {os.path.basename(root)}: {' '.join(args)}: rc={rc} {time.time() - t0:.1f}s")
    return rc, msgs, se


PROBE_FILE = re.compile(r"(?:^|/)(p_\d+)\.rs$")


def diagnostics(msgs):
    """error diagnostics attributed to probe modules: {module: [dict(msg, line, direct, rendered)]}, unattributed"""
    by, other = {}, []
    for j in msgs:
        if j.get("reason") != "compiler-message":
            continue
        m = j["message"]
        if not m.get("level", "").startswith("error"):
            continue
        if not m.get("spans") and m.get("message", "").startswith("aborting due to"):
            continue
        hit = None
        spans = sorted(m.get("spans", []), key=lambda s: not s.get("is_primary"))
        for sp in spans:
            cur, direct = sp, True
            while cur is not None:
                f = PROBE_FILE.search(cur.get("file_name", ""))
                if f:
                    hit = (f.group(1), cur["line_start"], direct and sp.get("is_primary", False))
                    break
                exp = cur.get("expansion")
                cur = exp.get("span") if exp else None
                direct = False
            if hit:
                break
        text = m.get("message", "")
        for ch in m.get("children", []):
            if ch.get("level") in ("help", "note") and "panicked" in text:
                text += " | " + ch.get("message", "")
        d = dict(msg=text, rendered=(m.get("rendered") or "")[:1500], code=(m.get("code") or {}).get("code"))
        if hit:
            d.update(line=hit[1], direct=hit[2])
            by.setdefault(hit[0], []).append(d)
        else:
            d["package"] = j.get("package_id", "")
            other.append(d)
    return by, other


def finished_packages(msgs):
    """crates (lib target names) for which rustc reported something or produced an artifact"""
    done = set()
    for j in msgs:
        if j.get("reason") in ("compiler-artifact", "compiler-message"):
            done.add(j.get("target", {}).get("name", ""))
    return done


PANIC = re.compile(r"proc macro panicked|custom attribute panicked|proc-macro derive panicked|panicked at")


def judge(probe, diags, first_pass):
    """classification of a probe from its error diagnostics, or None if it produced none"""
    if not diags:
        return None
    lo, hi = probe["range"]
    panics = [d for d in diags if PANIC.search(d["msg"])]
    if panics:
        return "macro-panicked", panics[0]
    at_prog = [d for d in diags if d["direct"] and lo <= d["line"] <= hi]
    if at_prog:
        return "rejected", at_prog[0]
    in_range = [d for d in diags if lo <= d["line"] <= hi]
    if in_range:
        return "rejected-error-not-at-program", in_range[0]
    glue = [d for d in diags if "`Prog`" not in d["msg"]]
    if glue:
        return "glue-error", glue[0]
    return "rejected-error-not-at-program", diags[0]


def compile_probes(probes, out):
    """Fills probe['observed'] ('rejected' | 'macro-panicked' | 'accepted' | ...) and probe['rustc']."""
    crates = {f"s{k}": {} for k in range(min(NSHARDS, max(1, len(probes))))}
    names = sorted(crates, key=lambda c: int(c[1:]))
    # programs that are expected to compile cost most: deal them out evenly
    order = sorted(probes, key=lambda p: (not p["wf"], p["n"]))
    for i, p in enumerate(order):
        p["crate"] = names[i % len(names)]
        crates[p["crate"]][p["mod"]] = p["text"]
    setup_workspace(FRONT, crates)
    alive = {p["mod"]: p for p in probes}
    passes = 0
    while True:
        passes += 1
        if passes > 8:
            raise ToolError("front: the probe crates do not converge")
        write_libs(FRONT, {c: [m for m in sorted(crates[c], key=lambda x: int(x[2:])) if m in alive] for c in crates})
        rc, msgs, se = cargo_json(FRONT, TARGET, ["check", "--workspace", "--keep-going", "-q"], timeout=1500)
        if rc is None:
            raise ToolError("front: cargo check of the probe crates timed out")
        by, other = diagnostics(msgs)
        removed = 0
        for mod, diags in by.items():
            p = alive.get(mod)
            if p is None:
                continue
            verdict, d = judge(p, diags, passes == 1)
            if verdict == "glue-error":
                raise ToolError(f"front: the glue code of probe {p['name']} under {p['macro']}! does not compile "
                                f"({FRONT}/{p['crate']}/src/{mod}.rs):\n{d['rendered']}")
            p["observed"], p["rustc"], p["pass"] = verdict, d["rendered"] or d["msg"], passes
            p["all_errors"] = [x["msg"] for x in diags][:6]
            del alive[mod]
            removed += 1
        log(f"[front] pass {passes}: {removed} probes rejected, {len(alive)} left, rc={rc}")
        if rc == 0:
            break
        if removed == 0:
            txt = "\n".join(d["rendered"] or d["msg"] for d in other[:5]) or se[-3000:]
            raise ToolError(f"front: the probe crates fail to build without an error in any probe:\n{txt}")
    for p in alive.values():
        p["observed"], p["rustc"], p["pass"] = "accepted", "", passes
    out.extra["compile_passes"] = passes


def compile_isolated(probes):
    """Probes that may not terminate: one crate per probe, own target directory, a deadline."""
    if not probes:
        return
    crates = {}
    for p in probes:
        p["crate"] = f"iso{p['n']}"
        crates[p["crate"]] = {p["mod"]: p["text"]}
    setup_workspace(ISO, crates)
    write_libs(ISO, {c: [] for c in crates})
    rc, msgs, se = cargo_json(ISO, TARGET_ISO, ["check", "--workspace", "-q"], timeout=1500)     # dependencies, no deadline
    if rc != 0:
        raise ToolError(f"front: the isolated probe workspace does not build: {se[-2000:]}")
    write_libs(ISO, {c: list(crates[c]) for c in crates})
    t0 = time.time()
    rc, msgs, se = cargo_json(ISO, TARGET_ISO, ["check", "--workspace", "--keep-going", "-q"], timeout=ISO_TIMEOUT)
    by, other = diagnostics(msgs)
    done = finished_packages(msgs)
    for p in probes:
        diags = by.get(p["mod"])
        p["pass"] = 1
        if diags:
            verdict, d = judge(p, diags, True)
            if verdict == "glue-error":
                raise ToolError(f"front: glue of isolated probe {p['name']} does not compile:\n{d['rendered']}")
            p["observed"], p["rustc"] = verdict, d["rendered"] or d["msg"]
        elif rc is None and p["crate"] not in done:
            p["observed"] = "compile-timeout"
            p["rustc"] = (f"no diagnostic and no result within {ISO_TIMEOUT} s (cargo check of a crate that contains only this "
                          f"probe; a rejected probe takes under a second): macro expansion does not terminate in practical time")
        elif rc == 0 or p["crate"] in done:
            p["observed"], p["rustc"] = "accepted", ""
        else:
            raise ToolError(f"front: cannot classify isolated probe {p['name']}: rc={rc} {se[-1500:]}")
    write_libs(ISO, {c: [] for c in crates})     # never leave a non-terminating crate behind


def run_accepted(probes):
    """Builds one small binary from the accepted mutants and runs each on its small input: probe['ran']."""
    if not probes:
        return
    root = os.path.join(vlib.BUILD, "front-run")
    mods = {p["mod"]: p["text"] for p in probes}
    os.makedirs(os.path.join(root, "runner", "src"), exist_ok=True)
    write_if_changed(os.path.join(root, "Cargo.toml"), MANIFEST_WS.format(members='"runner"'))
    if not os.path.exists(os.path.join(root, "Cargo.lock")):
        shutil.copy(os.path.join(vlib.HARNESS, "Cargo.lock"), os.path.join(root, "Cargo.lock"))
    write_if_changed(os.path.join(root, "runner", "Cargo.toml"), MANIFEST_CRATE.format(name="runner"))
    src = os.path.join(root, "runner", "src")
    for f in os.listdir(src):
        os.remove(os.path.join(src, f))
    write_if_changed(os.path.join(src, "aggs.rs"), M.AGGS_RS)
    for m, t in mods.items():
        write_if_changed(os.path.join(src, m + ".rs"), t)
    arms = "\n".join(f'      "{m}" => {m}::run_probe(),' for m in mods)
    main = ("#![allow(warnings, clippy::all)]\npub mod aggs;\n" + "".join(f"mod {m};\n" for m in mods) +
            "fn main() {\n   let which = std::env::args().nth(1).unwrap();\n   let res = match which.as_str() {\n" + arms +
            '\n      _ => panic!("no such probe"),\n   };\n   println!("RESULT {}", res);\n}\n')
    write_if_changed(os.path.join(src, "main.rs"), main)
    rc, msgs, se = cargo_json(root, TARGET, ["build", "-q"], timeout=1500)
    if rc != 0:
        by, other = diagnostics(msgs)
        for p in probes:
            ds = by.get(p["mod"])
            p["ran"] = ("does not build as part of a binary: " + ds[0]["msg"]) if ds else "not run (the runner binary did not build)"
        return
    exe = os.path.join(TARGET, "debug", "runner")
    for p in probes:
        try:
            r = subprocess.run([exe, p["mod"]], stdout=subprocess.PIPE, stderr=subprocess.PIPE, text=True, errors="replace", timeout=20)
            res = [l[7:] for l in r.stdout.splitlines() if l.startswith("RESULT ")]
            if r.returncode == 0 and res:
                p["ran"] = "ran to completion on the small input of its run_probe(); relations afterwards: " + res[0][:1500]
            else:
                p["ran"] = f"exit code {r.returncode}: {r.stderr.strip()[-600:]}"
        except subprocess.TimeoutExpired:
            p["ran"] = "did not terminate within 20 s on the small input of its run_probe()"


# ------------------------------------------------------------------------------------------------ specification
def spec_verdicts(entries, workdir, out=None):
    os.makedirs(workdir, exist_ok=True)
    pf = os.path.join(workdir, "progs.json")
    with open(pf, "w") as f:
        json.dump([e["ast"] for e in entries], f)
    res = run_tlc("FrontGen", "FrontGen.cfg", env={"PROGS": pf}, workers=4, timeout=900, tags=("VERDICT",), xss=True)
    tlc_ok(res, "FrontGen")
    if out is not None:
        out.add_tlc(res, "FrontGen (one state per program: AscentSyntax!WellFormed under the serial and the parallel macros)")
    v = {x["name"]: x for _, x in res.lines}
    if len(v) != len(entries):
        raise ToolError(f"FrontGen printed {len(v)} verdicts for {len(entries)} programs")
    return v


def check_intent(entries, verdicts):
    """The specification must see in every mutant exactly the intended violation and none in a twin."""
    bad = []
    for e in entries:
        x = verdicts[e["name"]]
        if e["cls"] == "twin":
            want_ser, want_par = [], []
        else:
            want_ser = [e["expect"]]
            want_par = [] if e["cls"] == "irp_in_serial" else [e["expect"]]
        if sorted(x["ser"]["failed"]) != want_ser or sorted(x["par"]["failed"]) != want_par:
            bad.append(f"{e['name']} ({e['cls']}, {e['kind']}; {e['pos']}): AscentSyntax says serial {x['ser']['failed']} / parallel "
                       f"{x['par']['failed']}, the generator intended {want_ser} / {want_par}")
    if bad:
        raise ToolError("front: specification and mutant generator disagree (a bug in one of them, not a finding):\n" + "\n".join(bad[:10]))


# ------------------------------------------------------------------------------------------------ run
def make_probes(entries, verdicts):
    probes = []
    for e in entries:
        for macro in M.MACROS:
            if not M.applicable(e, macro):
                continue
            n = len(probes)
            mod = f"p_{n}"
            text, rng = M.render_probe(e, macro, mod)
            v = verdicts[e["name"]]["par" if macro in M.PAR else "ser"]
            probes.append(dict(n=n, mod=mod, entry=e, name=e["name"], cls=e["cls"], kind=e["kind"], macro=macro, text=text,
                               range=rng, wf=v["wellformed"], failed=sorted(v["failed"]), isolate=bool(e.get("isolate"))))
    return probes


# what the diagnostic of a rejected mutant is expected to talk about (a rejection for another reason is noted in the
# evidence as drift: the property only demands an error at the program, but an unrelated error could hide an accepted violation)
REASON = {
    "undeclared": r"is not defined", "arity": r"wrong arity", "strat": r"cannot be stratified", "rebind": r"shadows",
    "macro_rec": r"recursively defined", "nested_include": r"cannot contain `include_source!`",
    "ds_on_lattice": r"cannot have custom data structure providers", "two_ds": r"multiple `ds` attributes",
    "unknown_prog_attr": r"unrecognized attribute", "unknown_rel_attr": r"cannot find attribute|unrecognized attribute",
    "irp_in_serial": r"only allowed in parallel",
}


def first_line(s):
    for l in s.splitlines():
        if l.strip():
            return l.strip()
    return ""


def run(pid, tier, seed, replay=None):
    out = Outcome(pid, tier, seed)
    out.rule = ("gen/mutants.py applies every violation class of the property at every rule / clause / relation position of every "
                "corpus program that is compiled under all four macros and selects, per class, a fixed number of mutants spread over "
                "the position kinds first and the programs second (seeded); TLC evaluates AscentSyntax!WellFormed on every mutant and "
                "every unmutated twin (one state per program); a case (evaluation) is one probe = (program, macro) compiled by cargo "
                "check; distinct non-trivial = distinct (violation class, position kind, macro) among the ill-formed probes")
    out.assumptions = [
        "well-formedness is decided on the JSON AST; the Rust text of a probe is rendered from the same AST by gen/render.py "
        "(attributes, providers and the ascent_source packaging are added by gen/mutants.py)",
        "source programs: the corpus programs tagged `par` (the others use BYODS providers that are only built serially; their "
        "compilation is the subject of C10-C12)",
        "a probe counts as rejected only if an error diagnostic has its primary span inside the lines of the Ascent program of "
        "that probe; errors that merely follow from the missing type `Prog` are ignored",
        "rebinding is specified left to right: a `?pattern` argument, let, if let, for, the result pattern and the variable list of "
        "agg always bind; a plain clause variable that is already bound is an equality test",
        "a self-referential macro is ill-formed whether or not a rule invokes it (the property says `defines`)",
        f"a probe that may not terminate is compiled alone with a deadline of {ISO_TIMEOUT} s",
    ]
    work = os.path.join(WORK, pid)
    if replay:
        rec = json.load(open(replay))
        e = rec["probe"]["entry"]
        entries = [e]
        verdicts = spec_verdicts(entries, work, out)
        check_intent(entries, verdicts)
        probes = [p for p in make_probes(entries, verdicts) if p["macro"] == rec["macro"]]
        for p in probes:
            p["text"], p["range"] = rec["source"], tuple(rec["probe"]["range"])
            p["n"], p["mod"] = 0, "p_0"
            p["text"] = re.sub(r"\bp_\d+_(inner|src)\b", r"p_0_\1", p["text"])
    else:
        muts, twins = M.generate(tier, seed)
        entries = muts + twins
        verdicts = spec_verdicts(entries, work, out)
        check_intent(entries, verdicts)
        probes = make_probes(entries, verdicts)
        out.exhaustive = False
        out.extra["mutants"] = len(muts)
        out.extra["twins"] = len(twins)
        per = {}
        for m in muts:
            per[m["cls"]] = per.get(m["cls"], 0) + 1
        out.extra["mutants_per_class"] = per
    if os.environ.get("VERIF_FRONT_SKIP_ISOLATED"):      # debugging aid: leave out the probes that need the deadline
        probes = [p for p in probes if not p["isolate"]]
        out.assumptions.append("VERIF_FRONT_SKIP_ISOLATED was set: the probes that are compiled alone under a deadline were left out")
    iso = [p for p in probes if p["isolate"]]
    main = [p for p in probes if not p["isolate"]]
    err = []

    def iso_job():
        try:
            compile_isolated(iso)
        except Exception as ex:          # reported from the main thread
            err.append(ex)
    th = threading.Thread(target=iso_job)
    th.start()
    try:
        if main:
            compile_probes(main, out)
    finally:
        th.join()
    if err:
        raise err[0]
    run_accepted([p for p in probes if p["observed"] == "accepted" and not p["wf"]])

    # ---- compare
    groups, seen_k = {}, {}
    agree = {"ill-formed rejected": 0, "well-formed accepted": 0, "ill-formed NOT rejected": 0, "well-formed NOT accepted": 0}
    per_class = {}
    for p in probes:
        out.evaluations += 1
        out.traces += 1
        ok = (p["observed"] == "accepted") if p["wf"] else (p["observed"] == "rejected")
        agree[("well-formed " if p["wf"] else "ill-formed ") + (("accepted" if p["wf"] else "rejected") if ok else
                                                                  ("NOT accepted" if p["wf"] else "NOT rejected"))] += 1
        c = per_class.setdefault(p["cls"], {})
        c[p["observed"]] = c.get(p["observed"], 0) + 1
        if not p["wf"]:
            out.nontriv((p["cls"], p["kind"], p["macro"]))
        if ok and not p["wf"] and not any(re.search(REASON[p["cls"]], m) for m in p.get("all_errors", [])):
            out.extra.setdefault("drift", []).append(
                f"{p['name']} under {p['macro']}! is rejected, but not for the violation it carries: {first_line(p['rustc'])}")
        if ok:
            continue
        if p["wf"]:
            what = (f"{p['name']} is well-formed according to AscentSyntax under {p['macro']}! but the tool chain says {p['observed']}: "
                    f"{first_line(p['rustc'])}")
        else:
            what = (f"{p['name']} ({p['cls']}: {p['kind']}; {p['entry']['pos']}) violates {p['failed']} but under {p['macro']}! "
                    f"the tool chain says {p['observed']}" + (f": {first_line(p['rustc'])}" if p["rustc"] else "") +
                    (f"; {p['ran']}" if p.get("ran") else ""))
        rec = {"property": pid, "engine": "front", "summary": what, "class": p["cls"], "kind": p["kind"], "macro": p["macro"],
               "specified": {"wellformed": p["wf"], "failed": p["failed"]}, "observed": p["observed"],
               "source": p["text"], "rustc": p["rustc"], "ran": p.get("ran"),
               "probe": {"entry": p["entry"], "range": list(p["range"])}, "same_outcome": []}
        f = known.classify(pid, rec)
        if f:
            seen_k.setdefault(f["id"], [f, 0])[1] += 1
            continue
        key = (p["cls"], p["macro"], p["observed"])
        if key in groups:
            groups[key]["same_outcome"].append(f"{p['name']} ({p['kind']})")
        else:
            groups[key] = rec
    viol = list(groups.values())
    for fid, (f, n) in seen_k.items():
        out.known.append((fid, f"{f.get('what', f.get('description', ''))[:200]} ({n} probes in this run)"))
    # one replay file per (class, macro); classes first so that the files the driver prints cover every class
    viol.sort(key=lambda r: (M.MACROS.index(r["macro"]), r["class"]))
    for rec in viol:
        n = len(rec["same_outcome"])
        if n:
            rec["summary"] += f" [and {n} more probes of class {rec['class']} under {rec['macro']}! with the same outcome]"
        out.violation(rec)
    out.extra["agreement"] = agree
    out.extra["outcomes_per_class"] = per_class
    out.extra["violation_groups"] = [{"class": r["class"], "macro": r["macro"], "observed": r["observed"], "kind": r["kind"],
                                      "probes": 1 + len(r["same_outcome"])} for r in viol]
    shown = set()
    for p in probes:
        if not p["wf"] and p["observed"] == "rejected" and p["cls"] not in shown and p["macro"] == "ascent":
            shown.add(p["cls"])
            out.sample({"mutant": p["name"], "class": p["cls"], "position": p["entry"]["pos"], "kind": p["kind"], "macro": p["macro"],
                        "specified": p["failed"], "rustc": first_line(p["rustc"]),
                        "program": "\n".join(p["text"].splitlines()[p["range"][0] - 1: p["range"][1]])[:1200]}, cap=12)
    log(f"[front] {len(probes)} probes: {agree}")
    return out
