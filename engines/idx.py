"""Engine idx (C19): the index building blocks of ascent::internal vs spec/IndexProto.tla and spec/IndexConc.tla.

Sequential half.  TLC (spec/IndexProto.tla) enumerates, per abstract KIND of index (multi, noindex, latset, full),
every history of inserts into new / delta / total, insert_if_not_present, merge, freeze / unfreeze up to a length
bound (canonically named: keys and values are numbered in order of first use), checks the merge lemma and the
other lemmas on the specification and prints one vector per history: the history and what every read of the final
state must return.  idx-replay executes every vector under EVERY renaming of its keys and values on every concrete
type of the kind (and on the concurrent types with both write flavours, `&mut` and `&self`), reading through the
sequential and the parallel read traits; everything observed is compared here.

Concurrent half.  TLC (spec/IndexConc.tla) checks, for 3 (quick) / 4 (thorough) callers in all interleavings, that
insert_if_not_present on one key has exactly one winner whose value is stored and that all concurrent inserts are
retained once, and prints the admissible outcomes; idx-replay runs rounds of 2 / 4 / 8 pool threads on ONE shared
index under seeded perturbation; every round's outcome must be one the model admits."""
import os, json
from collections import Counter
import vlib
from vlib import Outcome, run_tlc, tlc_ok, cargo_build_or_die, BuildFailed, write_ndjson, run_bin, ToolError, log

VIEWS = ("total", "delta", "new", "comb")
SEQ_TYPES = {
    "multi": ["RelIndexType1", "CRelIndex/mut", "CRelIndex/shared"],
    "noindex": ["RelNoIndexType", "RelIndexType1<()>", "CRelNoIndex/mut", "CRelNoIndex/shared"],
    "full": ["RelFullIndexType", "CRelFullIndex/mut", "CRelFullIndex/shared"],
    "latset": ["LatticeIndexType", "CLatIndex/mut", "CLatIndex/shared"],
}
CONC_TYPES = {"CRelIndex": "multi", "CRelNoIndex": "noindex", "CLatIndex": "latset", "CRelFullIndex": "full"}
# arms of the size comparisons in the move_index_contents implementations that must have been exercised, per kind
REQUIRED_ARMS = {
    "multi": ["map_from_larger", "map_from_not_larger", "key_from_larger", "key_from_not_larger", "key_vacant"],
    "latset": ["map_from_larger", "map_from_not_larger", "key_from_larger", "key_from_not_larger", "key_vacant"],
    "noindex": ["map_from_larger", "map_from_not_larger", "key_from_larger", "key_from_not_larger", "key_vacant"],
    "full": ["map_from_larger", "map_from_not_larger", "key_vacant", "key_from_not_larger"],
}


# --------------------------------------------------------------------------------------------
# sequential half: comparison of one observation with its vector

def fmt_hist(hist):
    res = []
    for op, ver, k, v, r in hist:
        if op == "ins":
            res.append(f"{ver}.insert({k},{v})")
        elif op == "iinp":
            res.append(f"{ver}.insert_if_not_present({k},{v})->{str(r).lower()}")
        else:
            res.append(op)
    return "; ".join(res) if res else "<empty history>"


def check_core(vec, core):
    """Discrepancies (category, text) between the reads one replay observed and the vector's prescription."""
    kind = vec["kind"]
    if "panic" in core:
        step = core.get("step", 0)
        n = len(vec["hist"])
        where = f"operation {step + 1}" if step < n else ("the reads" if step == n else "unfreeze / freeze / re-read")
        return [("panic", f"panicked in {where}: {core['panic']}")]
    bad = []
    exp_rets = [h[4] for h in vec["hist"] if h[0] == "iinp"]
    if core["rets"] != exp_rets:
        bad.append(("insert_if_not_present", f"insert_if_not_present returned {core['rets']}, specified {exp_rets}"))
    views = core["views"]
    for name in VIEWS:
        o, s = views[name], vec[name]
        if o is None:
            continue                    # RelNoIndexType has no read traits, hence no Combined view
        if kind != "full":
            for i, sb in enumerate(s["get"]):
                ob = o["get"][i]
                ok = (ob is None or (kind == "noindex" and ob == [])) if not sb else ob == sb
                if not ok:
                    bad.append(("index_get", f"{name}.index_get(key {i + 1}) = {ob}, specified {sb if sb else None}"))
            if o["all"] != s["all"]:
                bad.append(("iter_all", f"{name}.iter_all = {o['all']}, specified {s['all']}"))
        elif name != "comb":
            for i, cand in enumerate(s["get"]):
                ob = o["get"][i]
                ok = ob is None if not cand else (isinstance(ob, list) and len(ob) == 1 and ob[0] in cand)
                if not ok:
                    bad.append(("index_get", f"{name}.index_get(key {i + 1}) = {ob}, specified "
                                             + (f"one of {cand}" if len(cand) > 1 else f"{cand if cand else None}")))
            exp_all = sorted([i + 1, ob[0]] for i, ob in enumerate(o["get"]) if ob)
            present = [i + 1 for i, cand in enumerate(s["get"]) if cand]
            if [e[0] for e in o["all"]] != present:
                bad.append(("iter_all", f"{name}.iter_all = {o['all']}, specified one entry for each of the keys {present}"))
            elif o["all"] != exp_all:
                bad.append(("iter_all", f"{name}.iter_all = {o['all']} but index_get gave {o['get']}"))
        else:
            # Combined(total, delta) of full indices: the two lookups chained
            for i in range(len(s["get"])):
                parts = [views[side]["get"][i] for side in ("total", "delta")]
                exp = sorted(x for p in parts if p for x in p)
                ob = o["get"][i]
                ok = ob is None if not (vec["total"]["get"][i] or vec["delta"]["get"][i]) else ob == exp
                if not ok:
                    bad.append(("index_get", f"comb.index_get(key {i + 1}) = {ob}, specified total's followed by delta's = {exp if exp else None}"))
            exp_all = sorted(views["total"]["all"] + views["delta"]["all"])
            if o["all"] != exp_all:
                bad.append(("iter_all", f"comb.iter_all = {o['all']}, specified total's followed by delta's = {exp_all}"))
        if "has" in o and o["has"] != s["has"]:
            bad.append(("contains_key", f"{name}.contains_key = {o['has']}, specified {s['has']}"))
    return bad


def check_extras(vec, x, drift, ty):
    bad = []
    for j, name in enumerate(VIEWS):
        e = x.get("empty", [None] * 4)[j]
        if e is None:
            continue
        if e and not vec[name]["empty"]:
            bad.append(("is_empty", f"{name}.is_empty() = true although the specified content is {vec[name]['all']}"))
        if vec[name]["empty"]:
            drift[(ty, "is_empty exact" if e else "is_empty conservative (false on an empty index)")] += 1
        ln = x["len"][j]
        if not vec[name]["empty"] and ln == 0:
            drift[(ty, "len_estimate() = 0 on a non-empty index")] += 1
    if x.get("psame") is False:
        bad.append(("parallel-readers", f"c_index_get / c_iter_all disagree with index_get / iter_all: {json.dumps(x.get('par'))[:600]}"))
    if x.get("stable") is False:
        bad.append(("freeze", "the reads changed after one more unfreeze + freeze"))
    return bad


def nontrivial(hist):
    """a Merge after inserts into at least two versions"""
    vers = set()
    for h in hist:
        if h[0] in ("ins", "iinp"):
            vers.add(h[1])
        elif h[0] == "merge" and len(vers) >= 2:
            return True
    return False


class Groups:
    """similar discrepancies are reported once, with the shortest vector that shows them"""
    def __init__(self):
        self.g = {}

    def add(self, ty, cat, text, rec, size):
        k = (ty, cat)
        e = self.g.get(k)
        if e is None:
            self.g[k] = {"count": 1, "text": text, "rec": rec, "size": size}
        else:
            e["count"] += 1
            if size < e["size"]:
                e.update(text=text, rec=rec, size=size)

    def flush(self, out, pid):
        for (ty, cat), e in sorted(self.g.items(), key=lambda kv: (kv[1]["size"], kv[0])):
            rec = dict(e["rec"])
            rec.update({"property": pid, "engine": "idx", "type": ty, "category": cat, "count": e["count"],
                        "summary": f"{ty}: {e['text']} [{cat}; {e['count']} case(s) of this shape]"})
            out.violation(rec)


def sequential(out, pid, bindir, vectors, dom, groups, only_type=None):
    work = os.path.join(vlib.BUILD, "work", pid)
    cases, outp = os.path.join(work, "cases.ndjson"), os.path.join(work, "out.ndjson")
    write_ndjson(cases, [{"kind": v["kind"], "hist": v["hist"]} for v in vectors])
    env = {"IDX_MODE": "seq", "IDX_PERMS": "1" if dom["canon"] else "0", "IDX_NKEYS": len(dom["keys"]),
           "IDX_NVALS": len(dom["vals"]), "IDX_THREADS": 8 if out.tier == "quick" else 12}
    if only_type:
        env["IDX_ONLY_TYPE"] = only_type
    rc, txt = run_bin(bindir, "idx-replay", cases, outp, timeout=3000, env=env)
    if rc != 0:
        raise ToolError(f"idx-replay (seq) failed rc={rc}: {txt[-2000:]}")
    drift = Counter()
    per_type = Counter()
    arms = {k: Counter() for k in SEQ_TYPES}
    per_kind = Counter()
    nontriv = 0
    n = 0
    sampled = set()
    with open(outp) as f:
        for vec, line in zip(vectors, f):
            g = json.loads(line)
            n += 1
            kind = vec["kind"]
            per_kind[kind] += 1
            for a in vec["arms"]:
                arms[kind][a] += 1
            if nontrivial(vec["hist"]):
                nontriv += 1
            if not only_type and set(g["types"]) != set(SEQ_TYPES[kind]):
                raise ToolError(f"idx-replay answered for {sorted(g['types'])}, expected {SEQ_TYPES[kind]}")
            core_bad = [None] * len(g["cores"])
            for ty, entries in g["types"].items():
                out.evaluations += 1
                for e in entries:
                    out.traces += e["n"]
                    per_type[ty] += e["n"]
                    ci = e["c"]
                    if core_bad[ci] is None:
                        core_bad[ci] = check_core(vec, g["cores"][ci])
                    bad = core_bad[ci] + (check_extras(vec, e["x"], drift, ty) if "panic" not in g["cores"][ci] else [])
                    for cat, text in bad:
                        groups.add(ty, cat, f"after [{fmt_hist(vec['hist'])}] (keys renamed {e['perm']['k']}, values {e['perm']['v']}): {text}",
                                   {"vector": vec, "observed": {"core": g["cores"][ci], "extras": e["x"]}, "perm": e["perm"],
                                    "discrepancies": [t for _, t in bad]}, len(vec["hist"]))
            if len(vec["hist"]) >= 4 and "key_from_larger" in vec["arms"] and kind not in sampled:
                sampled.add(kind)
                out.sample({"kind": kind, "history": fmt_hist(vec["hist"]), "arms": vec["arms"],
                            "specified": {v: {"get": vec[v]["get"], "all": vec[v]["all"]} for v in VIEWS},
                            "observed": {ty: g["cores"][es[0]["c"]].get("views", g["cores"][es[0]["c"]])
                                         for ty, es in g["types"].items()}}, cap=3)
    if n != len(vectors):
        raise ToolError(f"idx-replay answered {n} of {len(vectors)} vectors")
    out.nontrivial_count = nontriv
    out.extra["vectors"] = len(vectors)
    out.extra["vectors_per_kind"] = dict(per_kind)
    out.extra["replays_per_type"] = dict(sorted(per_type.items()))
    out.extra["swap_arm_coverage"] = {k: dict(sorted(c.items())) for k, c in arms.items() if per_kind[k]}
    out.extra["swap_arm_note"] = ("counts of vectors whose history contains a merge taking the arm, judged on the abstract contents: "
                                  "map_* compares the number of keys of delta (from) and total (to), key_* the sizes of the two value "
                                  "collections of a key present in both, key_vacant = key of delta absent from total. The concurrent types "
                                  "compare per shard: whether the two keys share a shard (then as map_*) or not (then from is larger "
                                  "exactly for key_vacant and not larger for a key present in both), both arms execute once all five "
                                  "counters are positive; key renamings put either key first")
    out.extra["drift"] = {f"{ty}: {what}": c for (ty, what), c in sorted(drift.items())}
    return arms, per_kind


# --------------------------------------------------------------------------------------------
# concurrent half

def conc_model(out, tier):
    res = run_tlc("IndexConc", f"IndexConc_{tier}.cfg", workers=8, timeout=1200, tags=("OUT",))
    tlc_ok(res, "IndexConc")
    out.add_tlc(res, f"IndexConc_{tier}")
    race, ins = set(), set()
    for _, o in res.lines:
        if o["scenario"] == "race":
            race.add((o["winners"], o["stored_is_winners"]))
        else:
            ins.add((o["retained"], o["lost"], o["extra"]))
    if not race or not ins:
        raise ToolError("IndexConc printed no outcomes")
    # the lemmas must be able to tell an implementation that looks up without holding the lock
    broken = run_tlc("IndexConc", "IndexConc_broken.cfg", workers=2, timeout=300, tags=("OUT",))
    if broken.violated != "AtMostOneWinner":
        raise ToolError(f"IndexConc_broken: expected a violation of AtMostOneWinner, got rc={broken.rc} violated={broken.violated}")
    out.extra["conc_model"] = {"admitted_race_outcomes": sorted(map(list, race)), "admitted_insert_outcomes": sorted(map(list, ins)),
                               "non_atomic_variant_rejected_by": broken.violated}
    return race, ins


def check_round(r, race_ok, ins_ok):
    """Discrepancies (category, text) of one concurrent round."""
    if "panic" in r:
        return [("panic", f"panicked: {r['panic']}")]
    ty, o, n = r["ty"], r["obs"], r["threads"]
    bad = []
    if ty == "CRelFullIndex":
        for j, k in enumerate(r["race_keys"]):
            winners = [t for t in range(n) if o["rets"][t][j]]
            stored = o["stored"][j]
            outcome = (len(winners), len(winners) >= 1 and stored is not None and (stored - 1) in winners)
            if outcome not in race_ok:
                bad.append(("race", f"insert_if_not_present on key {k} from {n} threads: winners (threads) {winners}, stored value {stored} "
                                    f"(thread t stores t+1); the model admits (winners, stored is a winner's) in {sorted(race_ok)}"))
            if not o["has"][j] or o["cloned"][j] != stored or o["cloned_unfrozen"][j] != stored:
                bad.append(("race-reads", f"key {k}: contains_key={o['has'][j]} get_cloned={o['cloned_unfrozen'][j]}/{o['cloned'][j]} index_get={stored}"))
        for t in range(n):
            if o["rets"][t][-2:] != [True, False]:
                bad.append(("own-key", f"thread {t}: insert_if_not_present twice on a key of its own returned {o['rets'][t][-2:]}, specified [true, false]"))
        exp = sorted([[k, o["stored"][j]] for j, k in enumerate(r["race_keys"])] + [[1000 + t, t + 1] for t in range(n)])
        if o["all"] != exp or o["pall"] != exp or o["len"] != len(exp):
            bad.append(("retained", f"content after the round: iter_all={o['all']} c_iter_all={o['pall']} len={o['len']}, specified {exp}"))
        return bad
    kind = CONC_TYPES[ty]
    pairs = [[(1 if kind == "noindex" else k), v] for th in r["plan"] for k, v in th]
    exp = sorted(pairs) if kind != "latset" else sorted(map(list, set(map(tuple, pairs))))
    got = o["all"]
    ce, cg = Counter(map(tuple, exp)), Counter(map(tuple, got))
    lost, extra = sum((ce - cg).values()), sum((cg - ce).values())
    outcome = (lost == 0, lost, extra)
    if outcome not in ins_ok:
        bad.append(("retained", f"{n} threads inserted {len(pairs)} entries; lost {sorted((ce - cg).elements())}, "
                                f"unexpected {sorted((cg - ce).elements())}; the model admits (retained, lost, extra) in {sorted(ins_ok)}"))
    if o["pall"] != got:
        bad.append(("parallel-readers", f"c_iter_all = {o['pall']}, iter_all = {got}"))
    keys = [1] if kind == "noindex" else list(range(len(o["get"])))
    for i, k in enumerate(keys):
        vals = sorted(v for kk, v in got if kk == k)
        for which in ("get", "pget"):
            ob = o[which][i]
            if not (ob == vals or (not vals and ob is None)):
                bad.append(("index_get", f"{which}(key {k}) = {ob} but iter_all has {vals}"))
    if o["empty"] and got:
        bad.append(("is_empty", "is_empty() = true on a non-empty index"))
    return bad


def concurrent(out, pid, bindir, tier, seed, race_ok, ins_ok, groups, cfg=None):
    rounds = 100 if tier == "quick" else 10000
    cfg = cfg or {"types": list(CONC_TYPES), "threads": [2, 4, 8], "rounds": rounds, "seed": seed, "per_thread": 4, "keys": 3}
    work = os.path.join(vlib.BUILD, "work", pid)
    cases, outp = os.path.join(work, "conc.ndjson"), os.path.join(work, "conc-out.ndjson")
    write_ndjson(cases, [cfg])
    rc, txt = run_bin(bindir, "idx-replay", cases, outp, timeout=3000, env={"IDX_MODE": "conc"})
    if rc == 124:
        raise ToolError("idx-replay (conc) timed out")
    if rc != 0:
        # the process running the concurrent rounds died (abort / segmentation fault): the rounds only use the public
        # index API from several threads, so this is an observation about the code under test, not a tool error
        done = sum(1 for _ in open(outp)) if os.path.exists(outp) else 0
        out.violation({"property": pid, "engine": "idx", "type": "concurrent rounds",
                       "summary": f"the process executing the concurrent insert rounds died with status {rc} after {done} rounds "
                                  f"(memory corruption or abort inside a concurrent index): {txt[-300:]}",
                       "conc": cfg, "vector": None})
        return
    per = Counter()
    contested = 0
    n = 0
    with open(outp) as f:
        for line in f:
            r = json.loads(line)
            n += 1
            out.traces += 1
            out.evaluations += 1
            per[f"{r['ty']} x{r['threads']}"] += 1
            bad = check_round(r, race_ok, ins_ok)
            if r["ty"] != "CRelFullIndex" and "plan" in r:
                keys = [k for th in r["plan"] for k, _ in th]
                contested += len(keys) != len(set(keys))
            for cat, text in bad:
                groups.add(r["ty"], "concurrent " + cat, f"round {r['round']} with {r['threads']} threads (seed {r['seed']}): {text}",
                           {"vector": None, "conc": {"types": [r["ty"]], "threads": [r["threads"]], "seed": cfg["seed"], "rounds": 2000,
                                                     "first_round": max(0, r["round"] - 1000), "per_thread": cfg.get("per_thread", 4),
                                                     "keys": cfg.get("keys", 3)},
                            "observed": r, "discrepancies": [t for _, t in bad]}, 100 + r["threads"])
    expected = len(cfg["types"]) * len(cfg["threads"]) * cfg["rounds"]
    if n != expected:
        raise ToolError(f"idx-replay (conc) wrote {n} rounds, expected {expected}")
    out.extra["concurrent_rounds"] = dict(sorted(per.items()))
    out.extra["concurrent_rounds_total"] = n
    out.extra["concurrent_insert_rounds_with_shared_keys"] = contested
    if n and not out.violations and len(out.samples) < 5:
        out.sample({"concurrent_round": {k: r[k] for k in ("ty", "threads", "round", "seed") if k in r}, "observed": r.get("obs")}, cap=5)


# --------------------------------------------------------------------------------------------

def run(pid, tier, seed, replay=None):
    out = Outcome(pid, tier, seed)
    out.rule = ("TLC enumerates, per abstract kind of index, every history (inserts into new/delta/total, insert_if_not_present, "
                "merge, freeze/unfreeze) up to the length bound, one state = one history, keys and values named in order of first "
                "use; a case is one vector (history + prescribed reads of total, delta, new and Combined) replayed under every "
                "renaming of keys and values on every concrete type / write flavour of the kind; traces = concrete histories "
                "executed per type plus concurrent rounds; non-trivial = history with a merge after inserts into at least two versions")
    out.assumptions = [
        "keys {1,2} (as 1-tuples (i32,); the unit key for the no-index kind), values {1,2,3} (usize); histories up to the length bound of the tier",
        "the spec enumerates canonically named histories; every other history over the domain is a renaming of one of them and is executed by idx-replay (renaming symmetry of the specification is by construction: no operator inspects a key or value)",
        "full indices: where total and delta define the same key, total (+) delta may hold either value (the statement does not say which); index_insert on a present key overwrites",
        "no-index kind: index_get returning None and returning an empty iterator are the same answer; RelNoIndexType (Vec<usize>) has no read traits and is read as the vector it is (no Combined view); the serial generated code's no-index RelIndexType1<(),usize> is replayed as well",
        "is_empty() is only required to be sound (true implies empty); exactness and len_estimate() are recorded as drift",
        "concurrent half: TLC covers 3 (quick) / 4 (thorough) callers in all interleavings; the harness rounds use 2, 4 and 8 threads under seeded perturbation and are sampled schedules, not an enumeration",
    ]
    try:
        bindir = cargo_build_or_die(["idx-replay"])
    except BuildFailed as e:
        raise ToolError("idx-replay does not build against /repo:\n" + str(e)[-3000:])
    groups = Groups()
    if replay:
        rec = json.load(open(replay))
        race_ok, ins_ok = {(1, True)}, {(True, 0, 0)}
        if rec.get("vector") is not None:
            dom = rec.get("dom") or {"keys": [1, 2], "vals": [1, 2, 3], "canon": True}
            ty = rec.get("type")
            sequential(out, pid, bindir, [rec["vector"]], dom, groups, only_type=ty if ty in sum(SEQ_TYPES.values(), []) else None)
        elif rec.get("conc"):
            concurrent(out, pid, bindir, tier, seed, race_ok, ins_ok, groups, cfg=rec["conc"])
        else:
            raise ToolError("replay file has neither a vector nor a concurrent configuration")
        groups.flush(out, pid)
        return out
    res = run_tlc("IndexProto", f"IndexProto_{tier}.cfg", workers=8, timeout=2400, tags=("VEC", "DOM"))
    tlc_ok(res, "IndexProto")
    out.add_tlc(res, f"IndexProto_{tier}")
    doms = [v for t, v in res.lines if t == "DOM"]
    vectors = [v for t, v in res.lines if t == "VEC"]
    if not doms:
        raise ToolError("IndexProto did not print its domains")
    dom = doms[0]
    if len(vectors) != res.distinct:
        raise ToolError(f"TLC found {res.distinct} states but printed {len(vectors)} vectors")
    res.lines, res.out = [], ""
    out.exhaustive = True
    out.extra["domains"] = dom
    arms, per_kind = sequential(out, pid, bindir, vectors, dom, groups)
    for g in groups.g.values():
        g["rec"]["dom"] = dom
    for kind, need in REQUIRED_ARMS.items():
        if per_kind[kind]:
            missing = [a for a in need if not arms[kind][a]]
            if missing:
                raise ToolError(f"no history of kind {kind} exercised the merge arm(s) {missing}: both relative sizes must occur")
    race_ok, ins_ok = conc_model(out, tier)
    concurrent(out, pid, bindir, tier, seed, race_ok, ins_ok, groups)
    groups.flush(out, pid)
    return out
