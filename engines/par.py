"""Engine par (C02, C20): the parallel macros under every interleaving (model) and under sampled real schedules.

C02  ParHead.tla: TLC explores ALL interleavings of the parallel head-update protocol (relation and lattice paths,
     2-3 tasks, every initial placement of the key) and checks one-winner / nothing-lost / requeued / index-once /
     termination. A negative control (the Vec-backed lattice indices of the code before finding F6 was repaired)
     must violate IndexOnce, otherwise the invariant is vacuous.
     Real schedules are sampled: every parallel corpus program x {ascent_par!, +inter_rule_parallelism, ascent_run_par!} x rayon
     pools of 1,2,3,4,8 threads x perturbation seeds (yield / micro-sleep at the hooks' perturbation points) on
     TLC-enumerated inputs; every trace is validated by TLC (TraceSem, mode par) against the same least model that
     C01 ties the serial macros to. A hang is caught by a watchdog.
C20  Pools.tla: TLC enumerates every assignment of pool sizes to construction and to each run and checks that no
     row is lost from a thread-sharded index. The assignments are replayed (construct in pool A, run in pool B,
     re-run in pool C) and sets of instances (serial and parallel, same and different types) run simultaneously on
     OS threads; every instance must produce its specified least model."""
import json, os, random
import vlib, semlib, sem
from vlib import Outcome, ToolError, log

POOLS = [1, 2, 3, 4, 8]


def model_check_parhead(out):
    for cfg, name in (("ParHead_rel.cfg", "ParHead relation path: 3 tasks x 2 tuples, all placements"),
                      ("ParHead_lat.cfg", "ParHead lattice path: 3 tasks x 1 key x 3 values, all placements"),
                      ("ParHead_lat2.cfg", "ParHead lattice path: 2 tasks x 2 keys x 2 values")):
        res = vlib.run_tlc("ParHead", cfg, workers=8, timeout=900, coverage=True)
        vlib.tlc_ok(res, cfg)
        out.add_tlc(res, name)
    neg = vlib.run_tlc("ParHead", "ParHead_lat_vec.cfg", workers=8, timeout=900)
    if neg.violated != "IndexOnce":
        raise ToolError("negative control failed: the Vec-backed lattice index model does not violate IndexOnce "
                        f"(violated={neg.violated}); the invariant would be vacuous")
    out.extra["negative_control"] = "ParHead with VecBackedLatIndex=TRUE violates IndexOnce as expected"


def run_c02(out, tier, seed, replay):
    pid = "C02"
    rnd = random.Random(seed)
    model_check_parhead(out)
    progs_all, mods, shards = semlib.load_corpus()
    work = os.path.join(vlib.BUILD, "work", pid)
    rc, txt, bindir = semlib.build_corpus(shards)
    if rc != 0:
        out.violation({"property": pid, "engine": "par", "summary": "a well-formed corpus program no longer compiles against /repo",
                       "compiler_output": txt[-4000:]})
        return
    sel = [p for p in progs_all if "par" in p["tags"]]
    pidx = {p["name"]: i + 1 for i, p in enumerate(sel)}
    gen, by = semlib.enumerate_inputs(sel, work, "quick")
    out.add_tlc(gen, "SemGen (input databases)")
    ninputs = 6 if tier == "quick" else 12
    nseeds = 2 if tier == "quick" else 6
    cases, meta = [], {}
    cid = 0
    for p in sel:
        vs = [v for v in ("par", "pari", "runpar", "exppar", "permpar", "strpar", "srcpar") if (p["name"], v) in mods]
        chosen = sem.select_cases(by.get(p["name"], []), ninputs, rnd)
        for c in chosen:
            for v in vs:
                for pool in POOLS:
                    for s in range(nseeds):
                        cid += 1
                        ops = semlib.input_ops(p, c["inputs"], rnd) + [{"op": "run", "pool": pool}]
                        case = semlib.make_case(cid, p, pidx[p["name"]], v, ops, seed=seed * 1000 + s * 17 + pool)
                        cases.append(case)
                        meta[cid] = dict(case=case, inputs=c["inputs"], lm=c["lm"], prog=p)
    # breadth family: many more input databases per program, one schedule each (faults of the parallel code path that do
    # not depend on the schedule - index types, merge order - need the right database rather than the right interleaving)
    nbroad = 40 if tier == "quick" else 120
    nb = 0
    for p in sel:
        if (p["name"], "par") not in mods:
            continue
        for c in sem.select_cases(by.get(p["name"], []), nbroad, rnd):
            cid += 1
            pool = POOLS[cid % len(POOLS)]
            ops = semlib.input_ops(p, c["inputs"], rnd) + [{"op": "run", "pool": pool}]
            case = semlib.make_case(cid, p, pidx[p["name"]], "par" if cid % 3 else ("pari" if (p["name"], "pari") in mods else "par"), ops, seed=seed * 1000 + cid)
            cases.append(case)
            meta[cid] = dict(case=case, inputs=c["inputs"], lm=c["lm"], prog=p)
            nb += 1
    out.extra["breadth_cases"] = nb
    if replay:
        rec = json.load(open(replay))
        cases = [rec["case"]]
        meta = {rec["case"]["id"]: dict(case=rec["case"], inputs=rec.get("inputs"), lm=rec.get("specified_least_model", {}),
                                        prog=[p for p in sel if p["name"] == rec["case"]["prog"]][0])}
    log(f"[par] C02: {len(sel)} programs, {len(cases)} cases")
    sem.finish_cases(out, pid, sel, cases, meta, mods, bindir, work)
    if not replay:
        import stress
        stress.run_stress(out, pid, tier, seed, progs_all, mods, bindir, work)
    out.extra["pools"] = POOLS
    out.extra["perturbation_seeds_per_case"] = nseeds
    out.rule = ("model: every interleaving of the ParHead protocol within the stated constants (exhaustive). implementation: every "
                f"parallel-capable corpus program x parallel variants x pools {POOLS} x {nseeds} perturbation seeds on {ninputs} TLC-enumerated "
                f"inputs per program (largest databases first), plus {nbroad} further enumerated inputs per program under one schedule each; a case = (program, variant, input, pool size, seed). Non-trivial = derived tuples exist.")
    out.assumptions = ["real thread schedules are sampled (perturbation points + pool sizes), not enumerated; the model's schedules are exhaustive",
                       "the serial macros are tied to the same oracle by C01"]


# ------------------------------------------------------------------------------------------------ C20
def run_c20(out, tier, seed, replay):
    pid = "C20"
    rnd = random.Random(seed)
    res = vlib.run_tlc("Pools", "Pools.cfg", workers=8, timeout=900, tags=("CFG",))
    vlib.tlc_ok(res, "Pools")
    out.add_tlc(res, "Pools: thread-sharded index under every assignment of pool sizes to construction and runs")
    neg = vlib.run_tlc("Pools", "Pools_noreset.cfg", workers=8, timeout=900)
    if neg.violated != "IndexOnce":
        raise ToolError(f"negative control failed: Pools without the reset-on-run step keeps IndexOnce (violated={neg.violated})")
    out.extra["negative_control"] = "Pools with ResetOnRun=FALSE (code before the repair of F7/F8) violates IndexOnce as expected"
    configs = sorted({json.dumps(c, sort_keys=True) for _, c in res.lines})
    configs = [json.loads(c) for c in configs]
    progs_all, mods, shards = semlib.load_corpus()
    work = os.path.join(vlib.BUILD, "work", pid)
    rc, txt, bindir = semlib.build_corpus(shards)
    if rc != 0:
        out.violation({"property": pid, "engine": "par", "summary": "a well-formed corpus program no longer compiles against /repo",
                       "compiler_output": txt[-4000:]})
        return
    sel = [p for p in progs_all if "par" in p["tags"]]
    pidx = {p["name"]: i + 1 for i, p in enumerate(sel)}
    gen, by = semlib.enumerate_inputs(sel, work, "quick")
    out.add_tlc(gen, "SemGen (input databases)")
    nprogs = 14 if tier == "quick" else len(sel)
    chosen_progs = sorted(sel, key=lambda p: p["name"])
    rnd.shuffle(chosen_progs)
    chosen_progs = chosen_progs[:nprogs]
    cases, meta = [], {}
    cid = 0
    ncfg = 0
    for p in chosen_progs:
        inputs = sem.select_cases(by.get(p["name"], []), 2 if tier == "quick" else 6, rnd)
        cfgs = configs if tier == "thorough" else rnd.sample(configs, min(24, len(configs)))
        for c in inputs:
            for cfg in cfgs:
                ncfg += 1
                cid += 1
                ops = semlib.input_ops(p, c["inputs"], rnd)
                for pool in cfg["runs"]:
                    ops.append({"op": "run", "pool": pool})
                case = semlib.make_case(cid, p, pidx[p["name"]], "par", ops, cpool=cfg["construct"], seed=seed + cid)
                cases.append(case)
                meta[cid] = dict(case=case, inputs=c["inputs"], lm=c["lm"], prog=p)
    # concurrent instances: groups of cases executed simultaneously on OS threads (no hook events: the sink is global)
    ngroups = 30 if tier == "quick" else 300
    pool_of = lambda: rnd.choice([0, 1, 2, 3, 4])
    bycrate = {}
    for p in sel:
        for v in ("ser", "par"):
            if (p["name"], v) in mods:
                bycrate.setdefault(mods[(p["name"], v)], []).append((p, v))
    gid = 0
    crates = sorted(bycrate)
    for g in range(ngroups):
        crate = crates[g % len(crates)]
        members = [rnd.choice(bycrate[crate]) for _ in range(rnd.choice([2, 3, 4]))]
        if rnd.random() < 0.4:
            members = [members[0]] * len(members)          # several instances of the same type
        gid += 1
        for p, v in members:
            pcs = by.get(p["name"], [])
            c = rnd.choice(pcs[-40:])
            cid += 1
            ops = semlib.input_ops(p, c["inputs"], rnd) + [{"op": "run", "pool": pool_of() if v == "par" else 0}]
            case = semlib.make_case(cid, p, pidx[p["name"]], v, ops, cpool=pool_of() if v == "par" else 0)
            case["group"] = gid
            cases.append(case)
            meta[cid] = dict(case=case, inputs=c["inputs"], lm=c["lm"], prog=p)
    if replay:
        rec = json.load(open(replay))
        cases = [rec["case"]]
        cases[0].pop("group", None)
        meta = {rec["case"]["id"]: dict(case=rec["case"], inputs=rec.get("inputs"), lm=rec.get("specified_least_model", {}),
                                        prog=[p for p in sel if p["name"] == rec["case"]["prog"]][0])}
    log(f"[par] C20: {ncfg} pool-assignment cases, {gid} concurrent groups, {len(cases)} cases")
    sem.finish_cases(out, pid, sel, cases, meta, mods, bindir, work)
    if not replay:
        # pool histories on large databases: shard vectors sized in one pool and scanned in another
        import stress
        stress.run_stress(out, pid, tier, seed, progs_all, mods, bindir, work,
                          pool_pairs=((4, 3), (4, 5), (1, 8), (1, 4), (8, 1), (2, 8), (7, 3), (3, 7)))
    out.extra["pool_assignments_from_tlc"] = len(configs)
    out.extra["concurrent_groups"] = gid
    out.rule = ("model: Pools.tla, every assignment of pool sizes 1..4 to construction and to each of <= 3 runs (exhaustive). implementation: "
                "the TLC-enumerated assignments replayed on parallel corpus programs (construct inside pool A, run inside pool B, re-run inside "
                "pool C) and groups of 2-4 instances (serial and parallel, same and different generated types) run simultaneously on OS "
                "threads; a case = (program, variant, input, pool assignment | group). Non-trivial = derived tuples exist.")
    out.assumptions = ["the process-wide static mut timing counters are written without synchronisation; they carry no semantic state and a "
                       "TLA+ model cannot speak about data races in the memory-model sense (not claimed)"]


def run(pid, tier, seed, replay=None):
    out = Outcome(pid, tier, seed)
    if pid == "C02":
        run_c02(out, tier, seed, replay)
    else:
        run_c20(out, tier, seed, replay)
    return out
