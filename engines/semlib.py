"""Shared machinery of the engines that run compiled corpus programs (sem, par, life):
program selection, TLC input enumeration (SemGen), execution of cases on the corpus binaries,
normalisation of the recorded events and trace validation by TLC (TraceSem)."""
import json, os, re, subprocess, sys, time, random, concurrent.futures as cf
import vlib
from vlib import ToolError, log

GEN = os.path.join(vlib.ROOT, "gen")
sys.path.insert(0, GEN)
import xforms  # noqa: E402


def load_corpus():
    progs = json.load(open(os.path.join(vlib.SPEC, "progs", "corpus.json")))
    index = json.load(open(os.path.join(GEN, "corpus_index.json")))
    mods = {}
    for m in index["modules"]:
        mods[(m["prog"], m["var"])] = m["crate"]
    return progs, mods, index["shards"]


def build_corpus(shards, crates=None, segment=False):
    if crates is None:
        # every corpus crate: a binary left over from an earlier build of a different /repo tree must never be executed
        index = json.load(open(os.path.join(GEN, "corpus_index.json")))
        crates = {m["crate"] for m in index["modules"]}
    pk = sorted(crates)
    if segment:
        # ascent's segment-codegen feature (C09): a second configuration, built into its own target directory
        rc, out, d = vlib.cargo_build(pk, features=[f"{c}/segment" for c in pk], target_dir=os.path.join(vlib.BUILD, "target-seg"))
    else:
        rc, out, d = vlib.cargo_build(pk)
    return rc, out, d


# ------------------------------------------------------------------------------------------------ TLC: inputs
def code_plan_from_summary(text):
    """`Program::summary()` -> the structure CodePlan.tla reads: list of dict(looping, dynamic, lines)."""
    sccs = []
    for s in parse_summary(text):
        lines = []
        for ln in s["lines"]:
            sj = "[SIMPLE JOIN]" in ln
            nr = "[NOT REORDERABLE]" in ln
            ln = ln.replace("[SIMPLE JOIN]", "").replace("[NOT REORDERABLE]", "").strip()
            heads, _, body = ln.partition("<--")
            items = []
            for it in [x.strip() for x in body.split(", ") if x.strip()]:
                m = re.match(r"^(.*)_indices_(.*)_(total\+delta|total|delta)$", it)
                def cols(txt):
                    return [] if txt in ("none", "") else [int(c) + 1 for c in txt.split("_")]
                if it.startswith("for_"):
                    items.append({"k": "for", "rel": "-", "ver": "-"})
                elif it.startswith("if let"):
                    items.append({"k": "iflet", "rel": "-", "ver": "-"})
                elif it.startswith("if "):
                    items.append({"k": "if", "rel": "-", "ver": "-"})
                elif it.startswith("let "):
                    items.append({"k": "let", "rel": "-", "ver": "-"})
                elif it.startswith("agg "):
                    items.append({"k": "agg", "rel": it[4:].split("_indices_")[0], "ver": "-", "idx": cols(it[4:].split("_indices_")[1])})
                elif m:
                    items.append({"k": "cl", "rel": m.group(1), "ver": m.group(3), "idx": cols(m.group(2))})
                else:
                    items.append({"k": "unknown:" + it, "rel": "-", "ver": "-"})
            for it in items:
                it.setdefault("idx", [])
            lines.append({"heads": [h.strip() for h in heads.split(",") if h.strip()], "items": items, "sj": sj, "nr": nr})
        sccs.append({"looping": s["looping"], "dynamic": s["dynamic"], "lines": lines})
    return sccs


def enumerate_inputs(progs, workdir, tier, workers=8, timeout=1500, seminaive=False, cfg=None, codeplan=None):
    """Runs SemGen on the given programs. Returns (TlcResult, {prog name: [case dict(pi, inputs, lm)]}).
    seminaive=True (always in the thorough tier) also checks SemiNaive.tla's evaluation strategy against the least
    model on every enumerated database; the negative control (plan without the last version vector) must then fail."""
    os.makedirs(workdir, exist_ok=True)
    pf = os.path.join(workdir, "progs.json")
    with open(pf, "w") as f:
        json.dump(progs, f)
    cfg = cfg or ("SemGen_thorough.cfg" if tier == "thorough" else ("SemGen_sn.cfg" if seminaive else "SemGen.cfg"))
    # the plans printed by the compiled programs (CodePlan.tla); programs without one are skipped by the invariant
    cpf = os.path.join(workdir, "codeplan.json")
    with open(cpf, "w") as f:
        json.dump(codeplan or {"__none": []}, f)
    res = vlib.run_tlc("SemGen", cfg, env={"PROGS": pf, "CODEPLAN": cpf}, workers=workers, timeout=timeout,
                       tags=("CASE", "PLAN", "CPFAIL", "COVER"), xss=True)
    vlib.tlc_ok(res, "SemGen")
    by = {}
    res.plans = {}
    res.cpfail = []
    res.cover = {}
    for tag, c in res.lines:
        if tag == "PLAN":
            res.plans[c["prog"]] = c["sccs"]
        elif tag == "CPFAIL":
            res.cpfail.append(c)
        elif tag == "COVER":
            res.cover[c["prog"]] = c
        else:
            by.setdefault(c["prog"], []).append(c)
    for name in by:
        by[name].sort(key=lambda c: json.dumps(c["inputs"], sort_keys=True))
    res.seminaive_checked = cfg != "SemGen.cfg"
    return res, by


def eval_least_models(progs, items, workdir, chunks=8, timeout=1200):
    """items: list of dict(id, pi, inputs). TLC (SemEval) computes the least model of each. Returns ({id: lm}, results)."""
    if not items:
        return {}, []
    os.makedirs(workdir, exist_ok=True)
    pf = os.path.join(workdir, "progs.json")
    with open(pf, "w") as f:
        json.dump(progs, f)
    chunks = max(1, min(chunks, len(items)))
    parts = [items[k::chunks] for k in range(chunks)]

    def one(k):
        cf = os.path.join(workdir, f"evalcases{k}.ndjson")
        # inputs must not be an empty JSON object (TLC's reader): relations without rows are simply absent, the spec defaults them
        vlib.write_ndjson(cf, [{"id": it["id"], "pi": it["pi"], "inputs": ({r: v for r, v in it["inputs"].items() if v} or {"__none": []})}
                               for it in parts[k]])
        return vlib.run_tlc("SemEval", "SemEval.cfg", env={"PROGS": pf, "CASES": cf}, workers=1, timeout=timeout, tags=("LM",), xss=True, heap="3g")

    lms, results = {}, []
    with cf.ThreadPoolExecutor(max_workers=chunks) as ex:
        for k, res in enumerate(ex.map(one, range(chunks))):
            vlib.tlc_ok(res, "SemEval")
            results.append(res)
            for _, rec in res.lines:
                lms[rec["id"]] = rec["lm"]
    if len(lms) != len(items):
        raise ToolError(f"SemEval returned {len(lms)} least models for {len(items)} cases")
    return lms, results


def seminaive_negative_control(workdir):
    """The plan with the last version vector dropped must violate SemiNaiveCorrect on corpus program lag_right."""
    progs = [p for p in json.load(open(os.path.join(vlib.SPEC, "progs", "corpus.json"))) if p["name"] == "lag_right"]
    pf = os.path.join(workdir, "progs_neg.json")
    with open(pf, "w") as f:
        json.dump(progs, f)
    neg = vlib.run_tlc("SemGen", "SemGen_sn_broken.cfg", env={"PROGS": pf}, workers=4, timeout=600, tags=())
    if neg.violated != "SemiNaiveCorrect":
        raise ToolError(f"negative control failed: SemiNaive without the last version vector still computes the least model (violated={neg.violated})")
    return "SemiNaive with DropLastVariant violates SemiNaiveCorrect on lag_right as expected"


def _drop_last_variant(pl):
    for s in pl:
        shape = lambda ln: (tuple(ln["heads"]), tuple((i["k"], i["rel"]) for i in ln["items"]))
        for k in range(len(s["lines"]) - 1, -1, -1):
            if sum(1 for ln in s["lines"] if shape(ln) == shape(s["lines"][k])) > 1:
                del s["lines"][k]
                return


def codeplan_negative_controls(progs, codeplan, workdir):
    """The model must reject wrong plans: (1) not_reorderable with every simple join marked reorderable, (2) lag_right
    without the last compiled variant of its recursive rule. Returns a description; raises ToolError if a wrong plan passes."""
    import copy
    done = []
    for name, mutate, what in (
            ("not_reorderable", lambda pl: [ln.update(nr=False) for s in pl for ln in s["lines"]], "every simple join marked reorderable"),
            ("lag_right", _drop_last_variant, "last variant of the rule with two dynamic clauses dropped")):
        p = next((q for q in progs if q["name"] == name), None)
        if p is None or name not in codeplan:
            continue
        pl = copy.deepcopy(codeplan[name])
        mutate(pl)
        wd = os.path.join(workdir, "cpneg_" + name)
        res, _ = enumerate_inputs([p], wd, "quick", workers=4, timeout=600, seminaive=True, codeplan={name: pl})
        if not res.cpfail:
            raise ToolError(f"negative control failed: the model accepts the plan of {name} with {what}")
        done.append(f"{name} with {what}: rejected on {len(res.cpfail)} of the enumerated inputs")
    return done


def parse_summary(text):
    """`Program::summary()` -> list of dict(looping, dynamic, rules, variants)"""
    sccs = []
    for line in text.splitlines():
        m = re.match(r"scc (\d+), is_looping: (true|false):", line)
        if m:
            sccs.append({"looping": m.group(2) == "true", "dynamic": [], "lines": []})
        elif line.strip().startswith("dynamic relations:"):
            sccs[-1]["dynamic"] = sorted(x.strip() for x in line.split(":", 1)[1].split(",") if x.strip())
        elif line.strip() and sccs:
            sccs[-1]["lines"].append(line.strip())
    for s in sccs:
        s["variants"] = len(s["lines"])
    return sccs


def plan_conforms(model_sccs, code_sccs):
    """multiset comparison of (looping, dynamic relations, number of compiled rule variants) per SCC"""
    a = sorted((bool(s["looping"]), tuple(sorted(s["dynamic"])), int(s["variants"])) for s in model_sccs)
    b = sorted((bool(s["looping"]), tuple(sorted(s["dynamic"])), int(s["variants"])) for s in code_sccs)
    return a == b, a, b


# ------------------------------------------------------------------------------------------------ value decoding
class Garbled(Exception):
    pass


def dec_int(v, cmap="int"):
    if cmap == "str":
        if isinstance(v, str) and v.startswith("s"):
            return int(v[1:])
        raise Garbled(f"expected string constant, got {v!r}")
    if cmap == "u64":
        if isinstance(v, int) and v % 1000003 == 0:
            return v // 1000003 - 7
        raise Garbled(f"expected mapped u64 constant, got {v!r}")
    if isinstance(v, bool) or not isinstance(v, int):
        raise Garbled(f"expected int, got {v!r}")
    return v


def ctor(v, name=None):
    if isinstance(v, dict) and "c" in v and (name is None or v["c"] == name):
        return v["a"]
    return None


def dec_opt(v):
    a = ctor(v, "Some")
    if a is not None and len(a) == 1:
        return {"tag": "some", "v": dec_int(a[0])}
    if ctor(v, "None") == []:
        return {"tag": "none"}
    raise Garbled(f"expected Option, got {v!r}")


def dec_set(v):
    a = ctor(v, "#set")
    if a is None:
        raise Garbled(f"expected set, got {v!r}")
    return sorted(dec_int(x) for x in a)


def dec_val(ty, v, cmap="int"):
    if ty == "int":
        return dec_int(v, cmap)
    if ty in ("max_i32", "dual_i32"):
        return dec_int(v)
    if ty in ("opt", "opt_i32"):
        return dec_opt(v)
    if ty == "set_i32":
        return dec_set(v)
    if ty == "bset2_i32":
        a = ctor(v, "BoundedSet")
        if a is not None and len(a) == 1:
            if ctor(a[0], "None") == []:
                return {"top": True, "s": []}
            b = ctor(a[0], "Some")
            if b is not None and len(b) == 1:
                return {"top": False, "s": dec_set(b[0])}
        raise Garbled(f"expected BoundedSet, got {v!r}")
    if ty == "cp_i32":
        if ctor(v, "Bottom") == []:
            return {"tag": "bot"}
        if ctor(v, "Top") == []:
            return {"tag": "top"}
        a = ctor(v, "Constant")
        if a is not None and len(a) == 1:
            return {"tag": "const", "v": dec_int(a[0])}
        raise Garbled(f"expected ConstPropagation, got {v!r}")
    if ty == "lex_dual_pair":
        if isinstance(v, list) and len(v) == 2:
            d = ctor(v[0], "Dual")
            return [dec_int(d[0] if d is not None and len(d) == 1 else v[0]), dec_int(v[1])]
        raise Garbled(f"expected pair, got {v!r}")
    if ty == "lex_pair":
        if isinstance(v, list) and len(v) == 2:
            return [dec_int(v[0]), dec_int(v[1])]
        raise Garbled(f"expected pair, got {v!r}")
    if ty == "bool_or":
        if isinstance(v, bool):
            return v
        raise Garbled(f"expected bool, got {v!r}")
    raise Garbled(f"unknown column type {ty}")


def dec_row(rel, row, cmap="int"):
    cols = rel["cols"]
    if not isinstance(row, list) or len(row) != len(cols):
        raise Garbled(f"row {row!r} does not have {len(cols)} columns")
    return [dec_val(c, x, cmap) for c, x in zip(cols, row)]


def variant_info(var):
    import variants
    v = variants.VARIANTS[var]
    return dict(par=v["macro"] in variants.PAR_MACROS, cmap=v.get("cmap", "int"),
                ren=(v.get("xform") == "rename"), timeout=bool(v.get("timeout")), macro=v["macro"],
                init=(v.get("pack") == "init"), feed=bool(v.get("headonly")))


# ------------------------------------------------------------------------------------------------ running cases
def make_case(cid, prog, pi, var, ops, seed=0, cpool=0, want_summary=False):
    vi = variant_info(var)
    sfx = xforms.REN_SUFFIX if vi["ren"] else ""
    ops2 = []
    for op in ops:
        op = dict(op)
        if op["op"] in ("push", "set"):
            op["rel"] = op["rel"] + sfx
        ops2.append(op)
    case = {"id": cid, "prog": prog["name"], "pi": pi, "var": var, "mode": "par" if vi["par"] else "ser",
            "ops": ops2, "seed": seed, "cpool": cpool, "want_summary": want_summary}
    if vi["init"]:
        # `relation r(..) = expr` variants: the input rows pushed before the first call arrive through the initialiser
        inputs = {r["name"] for r in prog["rels"] if r["input"] and r["ds"] == "-"}
        init, rest, started = {}, [], False
        for op in ops2:
            if op["op"] != "push":
                started = True
            if op["op"] == "push" and not started and op["rel"] in inputs:
                init.setdefault(op["rel"], []).extend(op["rows"])
            else:
                rest.append(op)
        case["ops"] = rest
        if init:
            case["init"] = init
    return case


def input_ops(prog, inputs, rnd=None):
    ops = []
    for r in prog["rels"]:
        if r["name"] in inputs and inputs[r["name"]]:
            rows = list(inputs[r["name"]])
            if rnd:
                rnd.shuffle(rows)
            ops.append({"op": "push", "rel": r["name"], "rows": rows})
    return ops


def run_cases(cases, mods, bindir, workdir, timeout=1200):
    """Runs the cases on the corpus binaries (one process per shard, in parallel).
    Returns {case id: [raw event, ...]}; a shard that crashes or hangs yields a synthetic panic/hang event."""
    os.makedirs(workdir, exist_ok=True)
    by_crate = {}
    for c in cases:
        crate = mods.get((c["prog"], c["var"]))
        if crate is None:
            raise ToolError(f"no compiled module for {c['prog']}/{c['var']} (regenerate the corpus?)")
        by_crate.setdefault(crate, []).append(c)

    def one(crate, lst):
        cp = os.path.join(workdir, f"{crate}.cases.ndjson")
        op = os.path.join(workdir, f"{crate}.out.ndjson")
        vlib.write_ndjson(cp, lst)
        if os.path.exists(op):
            os.remove(op)
        t0 = time.time()
        try:
            r = subprocess.run([os.path.join(bindir, crate), cp, op], stdout=subprocess.PIPE, stderr=subprocess.STDOUT,
                               text=True, errors="replace", timeout=timeout)
            rc, txt = r.returncode, r.stdout
        except subprocess.TimeoutExpired:
            rc, txt = -999, "timeout"
        evs = vlib.read_ndjson_lenient(op) if os.path.exists(op) else []
        return crate, rc, txt, evs, time.time() - t0

    out = {}
    crashed = []
    with cf.ThreadPoolExecutor(max_workers=min(8, max(1, len(by_crate)))) as ex:
        for crate, rc, txt, evs, dt in ex.map(lambda kv: one(*kv), by_crate.items()):
            cur = None
            for e in evs:
                if e.get("e") == "case":
                    cur = e["id"]
                    out[cur] = []
                if cur is not None:
                    out[cur].append(e)
            if rc != 0:
                # the process died (abort / stack overflow / deadlock): the first case without a complete trace is the culprit
                done = set(out)
                pending = [c for c in by_crate[crate] if c["id"] not in done or not out[c["id"]] or out[c["id"]][-1].get("e") not in ("state", "ret")]
                crashed.append((crate, rc, txt[-500:], pending[0]["id"] if pending else None, [c["id"] for c in pending[1:]]))
    return out, crashed


def normalise(case, prog, events):
    """Raw events of one case -> events in the encoding TraceSem reads. Raises Garbled."""
    vi = variant_info(case["var"])
    cmap = vi["cmap"]
    sfx = xforms.REN_SUFFIX if vi["ren"] else ""
    rels = {r["name"]: r for r in prog["rels"]}

    def relname(n):
        if sfx:
            if not n.endswith(sfx):
                raise Garbled(f"relation {n} lacks the renaming suffix")
            n = n[: -len(sfx)]
        if n not in rels:
            if n.startswith("__"):
                return None
            raise Garbled(f"unknown relation {n}")
        return n

    out = []
    for e in events:
        k = e.get("e")
        if k == "case":
            out.append({"e": "case", "id": case["id"], "pi": case["pi"], "mode": case["mode"]})
        elif k == "push":
            out.append({"e": "push", "rel": relname(e["rel"]), "rows": e["rows"]})
        elif k == "set":
            out.append({"e": "set", "rel": relname(e["rel"]), "rows": e["rows"]})
        elif k == "call":
            out.append({"e": "call", "kind": e["kind"], "k": e["k"]})
        elif k == "ins":
            r = relname(e["rel"])
            if r is None:
                continue
            if vi.get("feed") and rels[r]["input"]:
                continue       # the generator rule that hands the pushed rows to the input relation (they are already counted as pushed)
            if e.get("t") is None:
                out.append({"e": "ins", "rel": r, "has_t": False, "t": []})
            else:
                out.append({"e": "ins", "rel": r, "has_t": True, "t": dec_row(rels[r], e["t"], cmap)})
        elif k == "merged":
            out.append({"e": "merged", "i": e["i"], "chg": bool(e["chg"])})
        elif k in ("run_start", "run_end", "scc_start", "scc_end", "deadline"):
            out.append({"e": k})
        elif k == "ret":
            v = e.get("v")
            r = "true" if v is True else "false" if v is False else str(v)
            out.append({"e": "ret", "r": r, "msg": str(e.get("msg", ""))[:300], "checks": e.get("checks", 0)})
        elif k == "state":
            rs = {}
            if not isinstance(e.get("rels"), dict):
                raise Garbled("state without relations")
            for n, rows in e["rels"].items():
                r = relname(n)
                if r is None:
                    continue
                rs[r] = [dec_row(rels[r], row, cmap) for row in rows]
            out.append({"e": "state", "rels": rs})
        elif k == "summary":
            pass
        elif k == "garbled":
            raise Garbled(f"unreadable hook event {e.get('raw')!r}")
    return out


# ------------------------------------------------------------------------------------------------ TLC: trace validation
def validate_traces(progs, case_events, workdir, chunks=8, timeout=1500):
    """case_events: list of (case id, [normalised events]). Splits into chunks validated by parallel TLC runs.
    Returns (list of bad records, total events, list of TlcResult)."""
    os.makedirs(workdir, exist_ok=True)
    pf = os.path.join(workdir, "trace_progs.json")      # always the programs the case indices (pi) refer to
    with open(pf, "w") as f:
        json.dump(progs, f)
    total = sum(len(ev) for _, ev in case_events)
    if total == 0:
        return [], 0, []
    chunks = max(1, min(chunks, len(case_events)))
    per = [[] for _ in range(chunks)]
    sizes = [0] * chunks
    for cid, ev in sorted(case_events, key=lambda x: -len(x[1])):
        i = sizes.index(min(sizes))
        per[i].extend(ev)
        sizes[i] += len(ev)

    def one(i):
        tf = os.path.join(workdir, f"trace{i}.ndjson")
        vlib.write_ndjson(tf, per[i])
        res = vlib.run_tlc("TraceSem", "TraceSem.cfg", env={"PROGS": pf, "TRACE": tf}, workers=1, timeout=timeout,
                           tags=("DONE",), deque=True, xss=True, heap="3g")
        return res

    bad, results = [], []
    with cf.ThreadPoolExecutor(max_workers=chunks) as ex:
        for i, res in enumerate(ex.map(one, range(chunks))):
            results.append(res)
            if res.rc != 0 or not res.lines:
                tail = "\n".join(res.out.splitlines()[-40:])
                raise ToolError(f"TraceSem did not consume trace chunk {i} (rc={res.rc}):\n{tail}")
            done = res.lines[-1][1]
            if done["events"] != len(per[i]):
                raise ToolError(f"TraceSem consumed {done['events']} of {len(per[i])} events in chunk {i}")
            bad.extend(done["bad"])
    return bad, total, results
