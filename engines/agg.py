"""Engine agg (C17): library aggregators vs spec/Aggregators.tla.

TLC enumerates every input sequence up to a length bound, checks the definitional laws in every state
and prints one vector per state with the prescribed results; agg-replay feeds each vector to the real
functions (three iterator flavours); results are compared here."""
import os, json
import vlib
from vlib import Outcome, run_tlc, tlc_ok, cargo_build_or_die, BuildFailed, write_ndjson, read_ndjson, run_bin, ToolError


def compare(vec, got, out):
    """Returns a list of discrepancy strings for one vector."""
    bad = []
    pcts_by_flavour = {}
    for flavour in ("exact", "inexact", "nohint"):
        g = got[flavour]
        for name in ("min", "max", "sum", "count", "nott"):
            exp = vec[name] if name != "nott" else [1] * vec["nott"]
            r = g[name]
            if "panic" in r:
                bad.append(f"{name}[{flavour}] panicked: {r['panic']}")
            elif r["ok"] != exp:
                bad.append(f"{name}[{flavour}] = {r['ok']}, specified {exp}")
        r = g["mean"]
        if "panic" in r:
            bad.append(f"mean[{flavour}] panicked: {r['panic']}")
        else:
            exp = [m[0] / m[1] for m in vec["mean"]]
            ok = len(exp) == len(r["ok"]) and all(abs(a - b) <= 1e-9 * max(1.0, abs(a)) for a, b in zip(exp, r["ok"]))
            if not ok:
                bad.append(f"mean[{flavour}] = {r['ok']}, specified {exp}")
        # mean over narrow columns (see agg-replay): i16 column holding 10000*v, f32 column in which 3 stands for 2^24
        n = len(vec["input"])
        narrow = [("meanf32", [sum(16777216 if v == 3 else v for v in vec["input"]) / n] if n else [])]
        if g.get("mean16") is not None:
            narrow.append(("mean16", [10000 * m[0] / m[1] for m in vec["mean"]]))
        for name, exp in narrow:
            r = g[name]
            if "panic" in r:
                bad.append(f"{name}[{flavour}] panicked: {r['panic']}")
            elif not (len(exp) == len(r["ok"]) and all(abs(a - b) <= 1e-9 * max(1.0, abs(a)) for a, b in zip(exp, r["ok"]))):
                bad.append(f"{name}[{flavour}] = {r['ok']}, specified {exp}")
        prev = None
        for pv, pg in zip(vec["pct"], g["pct"]):
            assert pv["pm"] == pg["pm"]
            r = pg["r"]
            p = pv["pm"] / 10.0
            if "panic" in r:
                bad.append(f"percentile({p})[{flavour}] panicked: {r['panic']}")
                continue
            res = r["ok"]
            if not vec["input"]:
                if res != []:
                    bad.append(f"percentile({p})[{flavour}] = {res} on empty input, specified nothing")
                continue
            if len(res) != 1 or res[0] not in pv["adm"]:
                bad.append(f"percentile({p})[{flavour}] = {res}, specified one of {pv['adm']}")
                continue
            if pv["pm"] % 10 == 0 and res != pv["floor"]:
                # whole percentages: n*p/100 is computed exactly in f64, so the rank convention floor(n*p/100)
                # (clamped to the last element) is prescribed exactly
                bad.append(f"percentile({p})[{flavour}] = {res} on n={len(vec['input'])} values, specified rank floor(n*p/100) -> {pv['floor']}")
                continue
            if prev is not None and res[0] < prev:
                bad.append(f"percentile not monotone in p at p={p}: {res[0]} < {prev}")
            prev = res[0]
            if res != pv["floor"]:
                out.extra["drift"] = out.extra.get("drift", 0) + 1
    return bad


def run(pid, tier, seed, replay=None):
    out = Outcome(pid, tier, seed)
    out.rule = ("TLC enumerates every input sequence over the configured value set up to the length bound (one state "
                "per sequence); a case is one (sequence) vector carrying the prescribed results of all aggregators and "
                "percentile arguments; non-trivial = non-empty input with at least two distinct values")
    out.assumptions = ["values fit i64/i32; mean additionally taken over an i16 column (values x 10000, sums exceed i16) and an f32 column (3 -> 2^24); mean compared with relative tolerance 1e-9 against the exact rational",
                       "percentile judged by: element of input, rank floor(n*p/100) (clamped) exactly for whole percentages, within one position of n*p/100 for fractional p (f64 rounding), exact at p=0 and p=100, monotone in p"]
    try:
        bindir = cargo_build_or_die(["agg-replay"])
    except BuildFailed as e:
        raise ToolError("agg-replay does not build against /repo:\n" + str(e)[-3000:])
    if replay:
        rec = json.load(open(replay))
        vectors = [rec["vector"]]
    else:
        res = run_tlc("Aggregators", f"Aggregators_{tier}.cfg", workers=4, timeout=1200)
        tlc_ok(res, "Aggregators")
        out.add_tlc(res, f"Aggregators_{tier}")
        vectors = [v for _, v in res.lines]
        out.exhaustive = True
    work = os.path.join(vlib.BUILD, "work", pid)
    cases, outp = os.path.join(work, "cases.ndjson"), os.path.join(work, "out.ndjson")
    write_ndjson(cases, vectors)
    rc, txt = run_bin(bindir, "agg-replay", cases, outp)
    if rc != 0:
        raise ToolError(f"agg-replay failed rc={rc}: {txt[-2000:]}")
    got = read_ndjson(outp)
    if len(got) != len(vectors):
        raise ToolError("agg-replay produced a different number of results")
    for vec, g in zip(vectors, got):
        out.evaluations += 1
        out.traces += 1
        if len(set(vec["input"])) >= 2:
            out.nontriv(tuple(vec["input"]))
        bad = compare(vec, g, out)
        if len(vec["input"]) == 3:
            out.sample({"input": vec["input"], "specified": {k: vec[k] for k in ("min", "max", "sum", "count", "mean")},
                        "observed_exact_hint": {k: g["exact"][k] for k in ("min", "max", "sum", "count", "mean")}})
        if bad:
            out.violation({"property": pid, "engine": "agg", "summary": "; ".join(bad[:4]), "vector": vec,
                           "observed": g, "discrepancies": bad})
    return out
