"""Stress stage (used by C02 and C05): corpus programs tagged `stress` on databases with thousands of rows under
4 and 8 workers, several rounds each. The windows in which two workers create the same lattice key, the same tuple or
the first value of the same index key at the same time are only hit when many keys are created at once.

The oracle is still the specification: TLC (SemEval) computes the least model of every stress database once; the final
contents of every relation of every round are compared with it (as sets, one row per lattice key, no row twice).
The rounds run without hooks (the event sink would serialise the workers)."""
import json, os, random
import vlib, semlib
from vlib import log


def databases(name, rnd, tier, arrangement="shuffled"):
    if name == "stress_lat":
        k = 1000
        # "blocked": all keys with value 0, then all keys with value 1, ..: the workers, each taking a contiguous part of the
        # vector, reach the same key at about the same time
        src = [[key, v] for v in range(8) for key in range(k)]
        if arrangement == "shuffled":
            rnd.shuffle(src)
        link = [[rnd.randrange(k), rnd.randrange(k)] for _ in range(150)]
        return {"src": src, "link": link}
    if name == "stress_rel":
        n = 700
        edge = [list(t) for t in sorted({(rnd.randrange(n), rnd.randrange(n)) for _ in range(4000)})]
        rnd.shuffle(edge)
        via = [list(t) for t in sorted({(rnd.randrange(n), rnd.randrange(n)) for _ in range(300)})]
        return {"edge": edge, "via": via}
    if name == "stress_set":
        k = 1500
        return {"src": [[key, 0] for key in range(k)]}
    raise vlib.ToolError(f"no stress database generator for {name}")


def run_stress(out, pid, tier, seed, progs_all, mods, bindir, work, pool_pairs=((0, 4), (0, 8))):
    """Adds violations / evidence to `out`. Returns the number of rounds executed.
    pool_pairs: (size of the pool in which the program value is constructed [0 = none], size of the pool that runs it)."""
    rnd = random.Random(seed * 7919 + 13)
    sel = [p for p in progs_all if "stress" in p["tags"]]
    if not sel:
        return 0
    pidx = {p["name"]: i + 1 for i, p in enumerate(sel)}
    items = []
    for p in sel:
        for arr in (("shuffled", "blocked") if p["name"] == "stress_lat" else ("shuffled",)):
            items.append({"id": len(items) + 1, "pi": pidx[p["name"]], "inputs": databases(p["name"], rnd, tier, arr), "prog": p, "arr": arr})
    lms, evres = semlib.eval_least_models(sel, items, os.path.join(work, "stress"), chunks=len(items), timeout=900)
    for r in evres:
        out.add_tlc(r, "SemEval (least model of a stress database)")
    rounds = 4 if tier == "quick" else 25
    cases, meta = [], {}
    cid = 900000
    for it in items:
        p = it["prog"]
        for v in [v for v in ("par", "pari") if (p["name"], v) in mods]:
            for cpool, pool in pool_pairs:
                for k in range(rounds):
                    cid += 1
                    ops = semlib.input_ops(p, it["inputs"]) + [{"op": "run", "pool": pool}]
                    case = semlib.make_case(cid, p, pidx[p["name"]], v, ops, seed=0, cpool=cpool)
                    case["nohooks"] = True
                    cases.append(case)
                    meta[cid] = (it, case)
    raw, crashed = semlib.run_cases(cases, mods, bindir, os.path.join(work, "stress"))
    seen = set()

    def viol(case, it, kind, detail):
        key = (case["prog"], case["var"], kind)
        if key in seen:
            return
        seen.add(key)
        small = dict(case)
        out.violation({"property": pid, "engine": "stress", "kind": kind, "detail": detail, "case": small,
                       "inputs": {r: f"{len(v)} rows (seeded, see case.ops)" for r, v in it["inputs"].items()},
                       "summary": f"{case['prog']}/{case['var']} on a stress database ({it['arr']}), constructed in pool {case.get('cpool', 0)}, run in pool {case['ops'][-1].get('pool')}: {kind}: {json.dumps(detail)[:300]}"})

    for crate, rc, tail, culprit, others in crashed:
        if culprit in meta:
            it, case = meta[culprit]
            viol(case, it, "hang" if rc == -999 else "process-died", {"rc": rc, "output": tail})
    n = 0
    for c in cases:
        ev = raw.get(c["id"])
        if not ev:
            continue
        it, case = meta[c["id"]]
        p = it["prog"]
        try:
            norm = semlib.normalise(c, p, ev)
        except semlib.Garbled as g:
            viol(case, it, "garbled", {"msg": str(g)})
            continue
        rets = [e for e in norm if e["e"] == "ret"]
        states = [e for e in norm if e["e"] == "state"]
        if rets and rets[-1]["r"] == "panic":
            viol(case, it, "panic", {"msg": rets[-1]["msg"]})
            continue
        if not states:
            continue
        n += 1
        out.evaluations += 1
        out.nontriv((c["prog"], c["var"], c["ops"][-1].get("pool"), c["id"]))
        lm = lms[it["id"]]
        for r in p["rels"]:
            rows = states[-1]["rels"].get(r["name"], [])
            got = {json.dumps(t) for t in rows}
            want = {json.dumps(t) for t in lm.get(r["name"], [])}
            if len(got) != len(rows):
                viol(case, it, "duplicate-rows", {"rel": r["name"], "rows": len(rows), "distinct": len(got)})
            if r["kind"] == "lat" and len({json.dumps(t[:-1]) for t in rows}) != len(got):
                viol(case, it, "two-rows-for-one-lattice-key", {"rel": r["name"], "rows": len(rows),
                                                                  "keys": len({json.dumps(t[:-1]) for t in rows})})
            elif got != want:
                viol(case, it, "wrong-result", {"rel": r["name"], "missing": [json.loads(x) for x in sorted(want - got)[:5]],
                                                "extra": [json.loads(x) for x in sorted(got - want)[:5]],
                                                "n_missing": len(want - got), "n_extra": len(got - want)})
    out.extra["stress_rounds"] = n
    out.extra["stress_databases"] = {it["prog"]["name"] + "/" + it["arr"]: {r: len(v) for r, v in it["inputs"].items()} for it in items}
    out.extra["stress_pool_pairs"] = [list(x) for x in pool_pairs]
    log(f"[stress] {pid}: {n} rounds on {len(items)} databases")
    return n


def run_push_history(out, pid, tier, seed, progs_all, mods, bindir, work):
    """C13 on a large database: run; the caller pushes one more row for EVERY existing key of a lattice relation; run.
    The second run must reach, key-wise joined, what a fresh run on everything pushed reaches (in particular the rule that
    needs the JOIN of the derived and the pushed value must fire for every key), serial and parallel."""
    p = next((q for q in progs_all if q["name"] == "stress_set"), None)
    if p is None:
        return 0
    rnd = random.Random(seed)
    first = databases("stress_set", rnd, tier)
    pushed = [[row[0], [1]] for row in first["src"]]
    items = [{"id": 1, "pi": 1, "inputs": {"src": first["src"], "s": pushed}, "prog": p}]
    lms, evres = semlib.eval_least_models([p], items, os.path.join(work, "stress_hist"), chunks=1, timeout=900)
    for r in evres:
        out.add_tlc(r, "SemEval (least model of the pushed-lattice-rows database)")
    lm = lms[1]
    rounds = 3 if tier == "quick" else 20
    cases = []
    cid = 950000
    for v, pools in (("ser", (0,)), ("par", (2, 4, 8)), ("pari", (8,))):
        if (p["name"], v) not in mods:
            continue
        for pool in pools:
            for k in range(rounds if v != "ser" else 1):
                cid += 1
                ops = [{"op": "push", "rel": "src", "rows": first["src"]}, {"op": "run", "pool": pool},
                       {"op": "push", "rel": "s", "rows": pushed}, {"op": "run", "pool": pool}]
                case = semlib.make_case(cid, p, 1, v, ops)
                case["nohooks"] = True
                cases.append(case)
    raw, crashed = semlib.run_cases(cases, mods, bindir, os.path.join(work, "stress_hist"))
    n, reported = 0, set()
    for crate, rc, tail, culprit, others in crashed:
        out.violation({"property": pid, "engine": "stress", "kind": "process-died", "detail": {"rc": rc, "output": tail},
                       "summary": f"stress_set push history: the process died (rc={rc})"})
    for c in cases:
        ev = raw.get(c["id"])
        if not ev:
            continue
        norm = semlib.normalise(c, p, ev)
        states = [e for e in norm if e["e"] == "state"]
        if len(states) < 2:
            continue
        n += 1
        out.evaluations += 1
        out.nontriv((c["prog"], c["var"], c["ops"][-1].get("pool"), c["id"]))
        fin = states[-1]["rels"]
        # lattice relation: key-wise join (set union) of the rows, the caller made two rows per key
        joined = {}
        for k, v in fin.get("s", []):
            joined.setdefault(k, set()).update(v)
        got_s = {json.dumps([k, sorted(v)]) for k, v in joined.items()}
        want_s = {json.dumps([t[0], sorted(t[1])]) for t in lm["s"]}
        got_b = {json.dumps(t) for t in fin.get("both", [])}
        want_b = {json.dumps(t) for t in lm["both"]}
        for rel, got, want in (("s", got_s, want_s), ("both", got_b, want_b)):
            if got != want and (c["var"], rel) not in reported:
                reported.add((c["var"], rel))
                small = dict(c)
                small["ops"] = [dict(o, rows=f"{len(o['rows'])} rows") if "rows" in o else o for o in c["ops"]]
                out.violation({"property": pid, "engine": "stress", "kind": "wrong-result", "case": small,
                               "detail": {"rel": rel, "n_missing": len(want - got), "n_extra": len(got - want),
                                          "missing": [json.loads(x) for x in sorted(want - got)[:5]]},
                               "summary": f"stress_set/{c['var']} pool {c['ops'][-1].get('pool')}: run; push a second row for each of the "
                                          f"{len(pushed)} keys of lattice s; run: {rel} differs from a fresh run on everything pushed "
                                          f"({len(want - got)} missing, {len(got - want)} extra)"})
    out.extra["bulk_lattice_push_histories"] = n
    log(f"[stress] {pid}: {n} bulk push histories")
    return n
