"""Engine uf (C18): the public union-find structures of ascent-byods-rels vs spec/UnionFind.tla.

TLC enumerates operation histories (machine "trrel": add(x,y) on TrRelUnionFind; machine "uf": add / find /
union_add on uf::UnionFind): every history up to a length bound, canonically named histories up to a larger
bound, and -- with `tlc -simulate` on the same specification -- random histories of length up to 30 over 8
elements.  In every state TLC checks the laws of the specified meaning (closure / partition) and prints one
vector with the history and everything the specification prescribes after it.  uf-replay applies each history
to the real structure (self-checks after every step, a panic is data) and dumps every query; compared here."""
import os, json, re
import vlib
from vlib import Outcome, run_tlc, tlc_ok, cargo_build_or_die, BuildFailed, write_ndjson, read_ndjson, run_bin, ToolError

SIM_TRACES = {"quick": 300, "thorough": 2500}
SIM_DEPTH = 31           # states per random behaviour: the empty history + 30 operations


def pairs(v):
    return sorted(tuple(p) for p in v)


def drift(out, key):
    d = out.extra.setdefault("drift", {})
    d[key] = d.get(key, 0) + 1


def q(bad, fl, g, field):
    """the result of one guarded query, or None (and a discrepancy) if it is missing or panicked"""
    r = g.get(field)
    if r is None:
        bad.append((f"{field}:missing", f"{field}[{fl}]: no result"))
        return None
    if "panic" in r:
        bad.append((f"{field}:panic", f"{field}[{fl}] panicked: {r['panic']}"))
        return None
    return r["ok"]


def failed(bad, fl, g, vec):
    """self-check failures (recorded, the replay went on) and a panic of an operation (the replay stopped: True)"""
    for c in g.get("selfchecks", [])[:2]:
        bad.append((f"selfcheck:{c['what']}", f"[{fl}] after step {c['step'] + 1} {json.dumps(vec['hist'][c['step']])}: "
                    f"{c['what']} failed: {c['msg']}"))
    f = g.get("fail")
    if f:
        bad.append((f"panic:{f['what']}", f"[{fl}] step {f['step'] + 1} {json.dumps(vec['hist'][f['step']])}: "
                    f"{f['what']} panicked: {f['msg']}"))
        return True
    return False


def compare_trrel(vec, got, out):
    """-> list of (category, text) discrepancies between the prescription `vec` and the observation `got`"""
    bad = []
    n = vec["n"]
    exp_pairs = pairs(vec["pairs"])
    for fl, g in got["flavours"].items():
        if failed(bad, fl, g, vec):
            continue
        r = q(bad, fl, g, "contains")
        if r is not None and pairs(r) != exp_pairs:
            obs = set(pairs(r))
            extra, missing = sorted(obs - set(exp_pairs)), sorted(set(exp_pairs) - obs)
            if missing:
                bad.append(("contains:missing", f"contains[{fl}] is false for {missing}, which are in the closure"))
            if extra:
                bad.append(("contains:extra", f"contains[{fl}] is true for {extra}, which are not in the closure"))
        r = q(bad, fl, g, "iter_all")
        if r is not None and pairs(r) != exp_pairs:
            obs = pairs(r)
            if sorted(set(obs)) == exp_pairs:
                bad.append(("iter_all:duplicates", f"iter_all[{fl}] yields {len(obs)} pairs for a closure of {len(exp_pairs)} (duplicates)"))
            else:
                bad.append(("iter_all:set", f"iter_all[{fl}] misses {sorted(set(exp_pairs) - set(obs))} and has extra "
                            f"{sorted(set(obs) - set(exp_pairs))}"))
        for field in ("set_of", "rev_set_of"):
            r = q(bad, fl, g, field)
            if r is None:
                continue
            for x in range(n):
                e = vec[field][x]
                want = sorted(e["els"]) if e["some"] else None
                if r[x] != want:
                    bad.append((f"{field}", f"{field}({x})[{fl}] = {r[x]}, specified {want}"))
        r = q(bad, fl, g, "count_exact")
        if r is not None and r != vec["count"]:
            bad.append(("count_exact", f"count_exact[{fl}] = {r}, specified {vec['count']}"))
        r = g.get("checks_after_queries", {})
        if "panic" in r and not g.get("selfchecks"):
            bad.append(("selfcheck:after_queries", f"[{fl}] self-check failed after the queries: {r['panic']}"))
        # not part of C18 (diagnostics): is_empty, the bool returned by add
        r = g.get("is_empty", {}).get("ok")
        if r is not None and r != vec["empty"]:
            drift(out, "trrel.is_empty")
        if vec["hist"] and g["rets"] and g["rets"][-1] != vec["grew"]:
            drift(out, "trrel.add returns true although the closure did not change")
    return bad


def compare_uf(vec, got, out):
    bad = []
    n = vec["n"]
    cls_of = {}
    for i, c in enumerate(vec["classes"]):
        for x in c:
            cls_of[x] = i
    for fl, g in got["flavours"].items():
        if failed(bad, fl, g, vec):
            continue
        for field in ("ok", "ok_after_queries"):
            if field in g:
                r = q(bad, fl, g, field)
                if r is False:
                    bad.append((f"selfcheck:{field}", f"verif_ok[{fl}] ({field}) returned false after the history"))
        r = q(bad, fl, g, "len")
        if r is not None and r != vec["len"]:
            bad.append(("len", f"len[{fl}] = {r}, specified {vec['len']}"))
        roots = q(bad, fl, g, "roots")
        again = q(bad, fl, g, "roots_again")
        if roots is None or again is None:
            continue
        for x in range(n):
            if (roots[x] is not None) != vec["find"][x]:
                bad.append(("find:some", f"find_item({x})[{fl}] = {roots[x]}, specified {'Some' if vec['find'][x] else 'None'}"))
        if roots != again:
            bad.append(("find:unstable", f"find_item[{fl}] answers changed between two rounds of queries: {roots} then {again}"))
        added = [x for x in range(n) if vec["find"][x] and roots[x] is not None]
        for x in added:
            for y in added:
                if x < y and (roots[x] == roots[y]) != (cls_of[x] == cls_of[y]):
                    bad.append(("class:" + ("split" if cls_of[x] == cls_of[y] else "merged"),
                                f"[{fl}] items {x} and {y} have roots {roots[x]} / {roots[y]}, specified "
                                + ("the same class" if cls_of[x] == cls_of[y] else "different classes")))
        # diagnostics, not part of C18: is_empty, the `new` flag of add
        r = g.get("is_empty", {}).get("ok")
        if r is not None and r != vec["empty"]:
            drift(out, "uf.is_empty")
        if vec["hist"] and vec["hist"][-1][0] == "add" and g["rets"][-1].get("new") != vec["last_new"]:
            drift(out, "uf.add new flag")
    return bad


def nontrivial(vec):
    if vec["m"] == "trrel":
        return any(p[0] != p[1] for p in vec["pairs"])
    return any(len(c) >= 2 for c in vec["classes"])


def check_enumeration(cfg, vectors):
    """the exhaustive part is complete: every history up to the full bound, one vector each"""
    for m, nk, fk in (("trrel", "n_tr", "full_tr"), ("uf", "n_uf", "full_uf")):
        if m not in cfg["machines"]:
            continue
        n = cfg[nk]
        ops = n * n if m == "trrel" else 2 * n + n * n
        by_len = {}
        for v in vectors:
            if v["m"] == m:
                by_len[len(v["hist"])] = by_len.get(len(v["hist"]), 0) + 1
        for l in range(cfg[fk] + 1):
            if by_len.get(l, 0) != ops ** l:
                raise ToolError(f"incomplete enumeration: {by_len.get(l, 0)} {m} histories of length {l}, expected {ops ** l}")
        if max(by_len) != cfg["max_tr" if m == "trrel" else "max_uf"]:
            raise ToolError(f"{m}: longest history {max(by_len)}, configured bound {cfg['max_tr' if m == 'trrel' else 'max_uf']}")
        yield m, {str(l): c for l, c in sorted(by_len.items())}


def run(pid, tier, seed, replay=None):
    out = Outcome(pid, tier, seed)
    out.rule = ("a case is one operation history (TrRelUnionFind: add(x,y); uf::UnionFind: add / find_item / union_add) "
                "replayed on a fresh structure with every prescribed query compared.  Exhaustive part: TLC enumerates every "
                "history up to the 'full' length bound and every canonically named history (elements first mentioned in the "
                "order 0,1,2,..) up to the 'max' bound, one state and one vector per history (bounds under coverage.bounds).  "
                "Random part: tlc -simulate draws behaviours of 30 operations over 8 elements, one vector per state of length "
                ">= 6.  non-trivial = distinct history after which at least two DISTINCT elements are related (trrel: a pair "
                "x != y in the closure; uf: a class of two or more items)")
    out.assumptions = [
        "histories longer than the 'full' bound are enumerated in canonical naming only: the structures are assumed to treat "
        "elements symmetrically (generic over T: Hash + Eq); every trrel vector is additionally replayed under an "
        "order-reversing injective renaming of the elements, and the random part draws names freely",
        "element type u64 with FxHasher as shipped; harness built with debug assertions on (the crate's own debug_assert! and "
        "the assert_disjoint_invariant calls inside add are active)",
        "TrRelUnionFind: assert_disjoint_invariant and assert_set_connections_dominant_sets are called after every add; "
        "UnionFind: verif_ok() (the private O(n^2) ok()) after every operation in the 'each' flavours and once after the "
        "history in the 'last' flavours (the check itself runs find with path halving); every prefix of an enumerated history "
        "is itself enumerated, so 'after every operation' is covered without the check disturbing the forest",
        "ids of UnionFind are opaque: only 'same root id iff same class' and Some/None of find_item are compared",
        "not judged (counted under coverage.drift if different): the bool returned by TrRelUnionFind::add, the `new` flag of "
        "UnionFind::add, is_empty",
    ]
    try:
        bindir = cargo_build_or_die(["uf-replay"])
    except BuildFailed as e:
        raise ToolError("uf-replay does not build against /repo:\n" + str(e)[-3000:])
    n_random = 0
    if replay:
        rec = json.load(open(replay))
        vectors = [rec["vector"]]
    else:
        res = run_tlc("UnionFind", f"UnionFind_{tier}.cfg", workers=4, timeout=3000, tags=("VEC", "CFG"), heap="6g")
        tlc_ok(res, "UnionFind")
        out.add_tlc(res, f"UnionFind_{tier}")
        vectors = [v for t, v in res.lines if t == "VEC"]
        cfgs = [v for t, v in res.lines if t == "CFG"]
        if len(vectors) != res.distinct or not cfgs:
            raise ToolError(f"TLC found {res.distinct} states but printed {len(vectors)} vectors")
        out.extra["bounds"] = cfgs[0]
        out.extra["histories_by_length"] = dict(check_enumeration(cfgs[0], vectors))
        out.exhaustive = True
        del res
        # random histories beyond the bound: same specification, simulation mode (one worker: reproducible from the seed)
        sim = run_tlc("UnionFind", "UnionFind_sim.cfg", workers=1, simulate=SIM_TRACES[tier], depth=SIM_DEPTH,
                      seed=seed, timeout=3000, tags=("VEC", "CFG"))
        tlc_ok(sim, "UnionFind (simulation)")
        rnd = [v for t, v in sim.lines if t == "VEC"]
        if not rnd:
            raise ToolError("the simulation printed no vectors")
        n_random = len(rnd)
        m = re.search(r"The number of states generated: (\d+)", sim.out)
        out.models.append({"model": "UnionFind_sim (tlc -simulate)", "behaviours": SIM_TRACES[tier], "depth": SIM_DEPTH,
                           "states_checked": int(m.group(1)) if m else None, "vectors": n_random, "seed": seed,
                           "wall_s": round(sim.wall, 1)})
        out.extra["random_bounds"] = [v for t, v in sim.lines if t == "CFG"][0]
        for v in rnd:
            v["random"] = True
        vectors += rnd
        del sim
        # scripted histories: balanced tournaments over 8 items (depth-3 trees) followed by one lookup of each item
        scr = run_tlc("UnionFind", "UnionFind_script.cfg", workers=1, timeout=600, tags=("VEC", "CFG"))
        tlc_ok(scr, "UnionFind (scripted)")
        sv = [v for t, v in scr.lines if t == "VEC"]
        if len(sv) != 16:
            raise ToolError(f"the scripted run printed {len(sv)} vectors, expected 16")
        out.add_tlc(scr, "UnionFind_script")
        for v in sv:
            v["scripted"] = True
        vectors += sv
        del scr
    work = os.path.join(vlib.BUILD, "work", pid)
    cases, outp = os.path.join(work, "cases.ndjson"), os.path.join(work, "out.ndjson")
    write_ndjson(cases, vectors)
    rc, txt = run_bin(bindir, "uf-replay", cases, outp)
    if rc != 0:
        raise ToolError(f"uf-replay failed rc={rc}: {txt[-2000:]}")
    got = read_ndjson(outp)
    if len(got) != len(vectors):
        raise ToolError("uf-replay produced a different number of results")
    if not os.environ.get("VERIF_KEEP_WORK"):      # several hundred MB in the thorough tier
        os.remove(cases)
        os.remove(outp)
    groups = {}      # (machine, first discrepancy category) -> [count, shortest vector, its observation, its discrepancies]
    counts = {"trrel": 0, "uf": 0, "trrel_random": 0, "uf_random": 0}
    queries = 0
    want_samples = {("trrel", 4), ("uf", 4), ("trrel", 12), ("uf", 12)}
    for vec, g in zip(vectors, got):
        m = vec["m"]
        if g.get("m") != m:
            raise ToolError(f"uf-replay: {g}")
        out.evaluations += 1
        out.traces += 1
        counts[m + ("_random" if vec.get("random") else "")] += 1
        nt = nontrivial(vec)
        if nt:
            out.nontriv((m, json.dumps(vec["hist"])))
        bad = compare_trrel(vec, g, out) if m == "trrel" else compare_uf(vec, g, out)
        queries += (2 * (2 * vec["n"] ** 2 + 2 * vec["n"] + 1)) if m == "trrel" else 4 * (vec["n"] + 1)
        key = (m, len(vec["hist"]))
        if nt and key in want_samples and len(set(json.dumps(o) for o in vec["hist"])) >= 3:
            want_samples.discard(key)
            fl = sorted(g["flavours"])[0]
            out.sample({"vector": vec, "observed": {"flavour": fl, **g["flavours"][fl]}}, cap=4)
        if bad:
            k = (m, bad[0][0])
            grp = groups.get(k)
            if grp is None:
                groups[k] = [1, vec, g, bad]
            else:
                grp[0] += 1
                if len(vec["hist"]) < len(grp[1]["hist"]):
                    grp[1], grp[2], grp[3] = vec, g, bad
    if not out.samples:
        out.sample({"vector": vectors[-1], "observed": got[-1]})
    # one replay file per kind of discrepancy: the shortest history showing it
    for (m, cat), (cnt, vec, g, bad) in sorted(groups.items(), key=lambda kv: (len(kv[1][1]["hist"]), kv[0])):
        out.violation({"property": pid, "engine": "uf", "machine": m, "category": cat, "histories_with_this_category": cnt,
                       "summary": f"{m} after {json.dumps(vec['hist'])}: " + "; ".join(t for _, t in bad[:3])
                                  + (f" (+{cnt - 1} more histories with a first discrepancy of kind {cat})" if cnt > 1 else ""),
                       "vector": vec, "observed": g, "discrepancies": [t for _, t in bad]})
    out.extra["vectors"] = counts
    out.extra["random_vectors"] = n_random
    out.extra["queries_compared"] = queries
    out.extra["histories_with_discrepancies"] = sum(g[0] for g in groups.values())
    return out
