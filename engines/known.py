"""Structural signatures of the open known findings (see /verif/known_findings.json).
A discrepancy record is matched against every OPEN finding of the property being checked; a match is
reported as KNOWN-FINDING, anything else stays a violation. Fixed findings never match."""
import vlib

MATCHERS = {}


def matcher(name):
    def deco(f):
        MATCHERS[name] = f
        return f
    return deco


def classify(pid, rec):
    """Returns the id of the open known finding that explains `rec`, or None."""
    for f in vlib.load_known():
        if f.get("status") != "open":
            continue
        # matching is structural (program, relation, shape of the discrepancy): the same defect shows up under every
        # property whose check happens to run the affected program, so the property id is not part of the signature
        m = MATCHERS.get(f.get("matcher"))
        if m and m(rec, f):
            return f
    return None


@matcher("trrel_uf_inscc_same_class")
def _trrel_uf_inscc(rec, f):
    """F5a: inside its recursive SCC a trrel_uf relation does not expose the pairs (x, y) whose two elements belong to
    the same class of the closure (x = y included): the delta is a set of connections between DIFFERENT classes.
    Matches only: program of the trrel_uf family, a wrong-result of an in-SCC reader relation (name i...), nothing
    extra, and every missing tuple (k.., x, y) has (x, y) and (y, x) both in the specified closure of its key."""
    case = rec.get("case", {})
    if not case.get("prog", "").startswith("trrel_uf") or rec.get("kind") != "wrong-result":
        return False
    d = rec.get("detail", {})
    rel = d.get("rel", "")
    if not rel.startswith("i") or d.get("extra"):
        return False
    lm = rec.get("specified_least_model", {})
    closure = lm.get("off") if "off" in lm else (lm.get("o000") if "o000" in lm else lm.get("r"))
    if closure is None:
        return False
    cl = {tuple(t) for t in closure}
    for t in d.get("missing", []):
        t = tuple(t)
        swapped = t[:-2] + (t[-1], t[-2])
        if t not in cl or swapped not in cl:
            return False
    return bool(d.get("missing"))


@matcher("trrel_uf_tern_reflexive_reverse_map")
def _trrel_uf_tern_reflexive(rec, f):
    """F16: ternary trrel_uf read with column 1 and/or 2 bound but not column 0 (the adaptor's reverse maps): the
    reflexive pair (k, x, x) of an element that never occurred in that column position of an inserted tuple is not
    found. Matches only reflexive missing tuples of the readers i/o 010, 001, 011 of the ternary trrel_uf programs."""
    case = rec.get("case", {})
    if not (case.get("prog") == "trrel_uf_tern" or case.get("prog", "").startswith("trrel_uf_only")) or rec.get("kind") != "wrong-result":
        return False
    d = rec.get("detail", {})
    if d.get("rel") not in ("i010", "i001", "i011", "o010", "o001", "o011") or d.get("extra"):
        return False
    miss = d.get("missing", [])
    return bool(miss) and all(t[-1] == t[-2] for t in miss)


@matcher("lattice_read_with_value_column_bound")
def _lat_value_bound(rec, f):
    """F18: a lattice read through an index that contains its lattice (last) column - `!d(x, v)`, `d(x, Dual(1))`,
    `agg .. in d(_, Dual(2))`, a join on the lattice column - sees stale or missing entries: such indices are keyed by
    the value a row had when it was (re-)inserted; the all-columns index is not maintained at all during evaluation, and
    in the parallel macros a row that improves again while it is already in `new` is not re-indexed under its new value.
    Matches only the four readers of corpus program lat_val_bound that bind the lattice column (nk, at1, cnt2, pairs)."""
    case = rec.get("case", {})
    d = rec.get("detail", {})
    if case.get("prog") != "lat_val_bound" or d.get("rel") not in ("nk", "at1", "cnt2", "pairs"):
        return False
    return rec.get("kind") in ("underivable-insert", "wrong-result")
