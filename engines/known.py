"""Structural signatures of the open known findings (see /verif/known_findings.json).
A discrepancy record is matched against every OPEN finding of the property being checked; a match is
reported as KNOWN-FINDING, anything else stays a violation. Fixed findings never match."""
import vlib

MATCHERS = {}


def matcher(name):
    def deco(f):
        MATCHERS[name] = f
        return f
    return deco


def classify(pid, rec):
    """Returns the id of the open known finding that explains `rec`, or None."""
    for f in vlib.load_known():
        if f.get("status") != "open":
            continue
        if pid not in f.get("properties", [f.get("property")]):
            continue
        m = MATCHERS.get(f.get("matcher"))
        if m and m(rec, f):
            return f
    return None
