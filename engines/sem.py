"""Engine sem: compiled Ascent programs against the declarative TLA+ semantics (AscentSem).

spec -> impl: TLC (SemGen) enumerates every small input database of every selected corpus program, checks the
theorems of the semantics on each and prints the behaviours; every behaviour is replayed on the compiled
program variants.   impl -> spec: the events recorded by the hooks (every head insertion, every merge round, the
return value, the final contents of every relation) are validated by TLC against TraceSem, which recomputes the
least model itself and evaluates the property-level guards at every event."""
import json, os, random, time
import vlib, semlib, known
from vlib import Outcome, ToolError, log

# bad kinds that contradict the properties themselves; everything else is implementation-level drift
PROPERTY_LEVEL = {
    "duplicate-insert", "underivable-insert", "underivable-lattice-key", "lattice-above-fixpoint", "lattice-decreased",
    "panic", "duplicate-rows", "two-rows-for-one-lattice-key", "wrong-result", "unsound-partial-state", "input-lost",
    "garbled", "process-died", "hang", "unsupported",
}

ALL_TAGS = {"core", "lat", "agg", "sugar", "mac"}     # (BYODS programs are judged by C10-C12)

PLANS = {
    "C01": dict(tags={"core"}, variants=["ser", "to"], cap={"quick": 400, "thorough": 8000},
                what="relations, joins, constants, repeated variables, wildcards, if/let/if-let, generators"),
    "C03": dict(tags={"lat"}, variants=["ser", "to"], cap={"quick": 400, "thorough": 8000},
                what="lattice relations over 8 shipped lattice types, recursive through the lattice"),
    "C04": dict(tags={"agg"}, variants=["ser", "par"], cap={"quick": 400, "thorough": 8000},
                what="negation and aggregation at stratum depth 1-4 over relations and lattices, bound/wildcard/aggregated columns"),
    "C05": dict(tags=ALL_TAGS, variants=["ser", "par"], cap={"quick": 50, "thorough": 400}, dupfamily=True,
                what="every corpus program, serial and parallel: multiset view of every relation"),
    "C06": dict(tags={"perm"}, variants=["ser", "perm1", "perm2", "ren", "str", "u64", "permpar", "strpar"],
                cap={"quick": 60, "thorough": 500}, shuffle=True, random={"quick": 20, "thorough": 150},
                what="permuted rules / declarations / heads / independent clauses, renamed identifiers, constants mapped to strings and u64"),
    "C07": dict(tags={"sugar"}, variants=["ser", "exp", "par", "exppar"], cap={"quick": 120, "thorough": 1000},
                what="sugared program vs its hand-written core expansion"),
    "C08": dict(tags={"mac"}, variants=["ser", "exp", "par", "exppar"], cap={"quick": 120, "thorough": 1000},
                what="program with in-program macros vs its hand-written hygienic expansion"),
    "C10": dict(tags={"ds10"}, variants=["ser", "par", "pari"], cap={"quick": 500, "thorough": 4000}, random={"quick": 80, "thorough": 600},
                what="eqrel provider: history-interpreter programs (facts arriving over several iterations, several keys, keys that pause and resume), every bound/free access pattern inside the recursive SCC and in later strata, joins, negation, aggregation; binary form also parallel"),
    "C11": dict(tags={"ds11"}, variants=["ser"], cap={"quick": 500, "thorough": 4000}, random={"quick": 80, "thorough": 600},
                what="trrel provider: history-interpreter programs, every access pattern inside the recursive SCC and in later strata"),
    "C12": dict(tags={"ds12"}, variants=["ser"], cap={"quick": 500, "thorough": 4000}, random={"quick": 80, "thorough": 600},
                what="trrel_uf provider: history-interpreter programs, every access pattern inside the recursive SCC and in later strata"),
    "C09": dict(tags={"pack"}, variants=["ser", "run", "mrt", "gen", "src0", "src1", "src2", "srcto", "srcred", "redecl", "init", "init3", "runhead", "to",
                                         "runpar", "srcpar"],
                cap={"quick": 50, "thorough": 400}, what="packaging variants of one logical program"),
}


def select_cases(cases, cap, rnd):
    if cap is None or len(cases) <= cap:
        return list(cases)
    # always keep the largest databases (they exercise the most iterations), sample the rest
    srt = sorted(cases, key=lambda c: -sum(len(v) for v in c["inputs"].values()))
    keep = srt[: cap // 3]
    rest = srt[cap // 3:]
    return keep + rnd.sample(rest, cap - len(keep))


def random_inputs(p, rnd):
    """A random database for program p: up to 8 tuples per input relation over a domain of 6 constants (lattice input
    relations: one row per key; the first column of BYODS `sched` relations stays an iteration number 0..2)."""
    dom = 6 if max(len(r["cols"]) for r in p["rels"] if r["input"]) <= 3 else 4
    inputs = {}
    for r in p["rels"]:
        if not r["input"]:
            continue
        if not r["cols"]:
            inputs[r["name"]] = [] if r["name"] == "never" else rnd.choice([[], [[]]])
            continue
        n = rnd.choice([0, 1, 2, 4, 6, 8])
        rows, keys = [], set()
        for _ in range(n):
            row = []
            for i, c in enumerate(r["cols"]):
                if c == "opt":
                    row.append({"tag": "none"} if rnd.random() < 0.3 else {"tag": "some", "v": rnd.randrange(dom)})
                elif r["name"] == "sched" and i == 0:
                    row.append(rnd.randrange(3))
                else:
                    row.append(rnd.randrange(dom))
            key = json.dumps(row[:-1] if r["kind"] == "lat" else row)
            if key in keys:
                continue
            keys.add(key)
            rows.append(row)
        inputs[r["name"]] = rows
    return inputs


def structured_schedule(p, rnd):
    """A schedule (rows of the `sched` relation of a BYODS history-interpreter program) built from closure-relevant
    shapes - fans, diamonds, chains, cycles, bridges between cycles - over a random numbering of 8 nodes, released over the
    iterations 0..2 in a random order, plus a few unrelated edges (they move the size heuristics of the merge routines)."""
    sched = next(r for r in p["rels"] if r["name"] == "sched")
    keyed = len(sched["cols"]) == 4
    nodes = list(range(8))
    rnd.shuffle(nodes)
    a, b, c, d, e, f, g, h = nodes
    shapes = {
        "fan": [(b, c), (b, d), (a, b), (a, c)],                       # a -> {b, c}, b -> {c, d}
        "fan_in": [(c, b), (d, b), (b, a), (c, a)],
        "diamond": [(a, b), (a, c), (b, d), (c, d), (d, e)],
        "chain": [(a, b), (b, c), (c, d), (d, e)],
        "cycle": [(a, b), (b, c), (c, a), (c, d)],
        "two_cycles": [(a, b), (b, a), (c, d), (d, c), (b, c)],
        "self": [(a, a), (b, a), (a, b), (b, c)],
        # four classes first, then pairs that glue the early classes into the last one (either direction): the creation
        # order of classes / sets is what sampling estimates and representative choices depend on
        "glue": [(a, b), (c, d), (e, f), (g, h), (g, a), (g, c), (g, e)],
        "glue_rev": [(a, b), (c, d), (e, f), (g, h), (a, g), (c, h), (e, g)],
    }
    name = rnd.choice(sorted(shapes))
    edges = list(shapes[name])
    if name.startswith("glue"):
        rows = [[0] + ([0] if keyed else []) + [x, y] for x, y in edges[:4]] + \
               [[rnd.choice([1, 1, 2])] + ([0] if keyed else []) + [x, y] for x, y in edges[4:]]
        inputs = {r["name"]: [] for r in p["rels"] if r["input"]}
        inputs["sched"] = rows
        return inputs
    for _ in range(rnd.choice([0, 1, 2, 3])):
        edges.append((rnd.choice(nodes), rnd.choice(nodes)))             # unrelated / extra edges
    rnd.shuffle(edges)
    # release order: mostly "the inner edges first", sometimes everything at once or one per iteration
    mode = rnd.choice(["split", "split", "random", "same"])
    rows, seen = [], set()
    for k, (x, y) in enumerate(edges):
        it = 0 if mode == "same" else (rnd.randrange(3) if mode == "random" else (0 if k < len(edges) // 2 else rnd.choice([1, 1, 2])))
        row = [it] + ([rnd.randrange(2)] if keyed else []) + [x, y]
        if json.dumps(row[1:]) in seen:
            continue
        seen.add(json.dumps(row[1:]))
        rows.append(row)
    inputs = {r["name"]: [] for r in p["rels"] if r["input"]}
    inputs["sched"] = rows
    return inputs


def thorough_bounds(p):
    p = dict(p)
    nin = sum(1 for r in p["rels"] if r["input"])
    wide = any(len(r["cols"]) >= 3 and r["input"] for r in p["rels"])
    if not wide and nin == 1:
        p["bound"] = p["bound"] + 1
    return p


def run(pid, tier, seed, replay=None):
    plan = PLANS[pid]
    out = Outcome(pid, tier, seed)
    rnd = random.Random(seed)
    progs_all, mods, shards = semlib.load_corpus()
    work = os.path.join(vlib.BUILD, "work", pid)
    t0 = time.time()
    sel = [p for p in progs_all if set(p["tags"]) & plan["tags"]]
    crates = {mods[(p["name"], v)] for p in sel for v in plan["variants"] if (p["name"], v) in mods}
    if plan.get("dupfamily"):
        crates |= {mods[(p["name"], v)] for p in progs_all if "stress" in p["tags"] for v in ("par", "pari") if (p["name"], v) in mods}
    rc, txt, bindir = semlib.build_corpus(shards, crates)
    if rc != 0:
        # the corpus consists of well-formed programs inside the documented language: failing to compile is an observation
        import re
        errs = re.findall(r"^error[^\n]*\n\s+--> [^\n]*", txt, re.M)
        out.violation({"property": pid, "engine": "sem", "kind": "does-not-compile",
                       "summary": "a well-formed corpus program does not compile against /repo: " + "; ".join(e.replace("\n", " ") for e in errs[:3]),
                       "compiler_output": txt[-6000:]})
        out.rule = "build of the program corpus"
        out.evaluations = 1
        return out
    if tier == "thorough":
        sel = [thorough_bounds(p) for p in sel]
    if replay:
        rec = json.load(open(replay))
        sel = [p for p in sel if p["name"] == rec["case"]["prog"]]
    if not sel:
        raise ToolError(f"no corpus program carries the tags {plan['tags']}")
    pidx = {p["name"]: i + 1 for i, p in enumerate(sel)}

    # ---- spec -> impl: behaviours from TLC
    with_sn = pid in ("C01", "C03", "C04", "C07", "C08")
    codeplan = None
    if with_sn or tier == "thorough":
        # impl -> spec: the plan every compiled program prints (summary()) is handed to TLC, which executes it (CodePlan.tla)
        pc = []
        for i, p in enumerate(sel):
            if (p["name"], "ser") in mods and not any(r["ds"] != "-" for r in p["rels"]):
                pc.append(semlib.make_case(800000 + i, p, pidx[p["name"]], "ser", [], want_summary=True))
        praw, pcrashed = semlib.run_cases(pc, mods, bindir, os.path.join(work, "plans"))
        codeplan = {}
        for c in pc:
            txt = next((e.get("text", "") for e in praw.get(c["id"], []) if e.get("e") == "summary"), None)
            if txt:
                codeplan[c["prog"]] = semlib.code_plan_from_summary(txt)
    gen, by = semlib.enumerate_inputs(sel, work, tier, seminaive=with_sn, codeplan=codeplan,
                                      cfg="SemGen_desugar.cfg" if (pid in ("C07", "C08") and tier == "quick") else None)
    if codeplan is not None:
        nocover = sorted(n for n, c in gen.cover.items() if c["has"] and not c["covers"])
        out.extra["code_plan"] = {"programs_with_plan": len(codeplan), "executed_by_the_model": sum(1 for c in gen.cover.values() if c["covers"]),
                                  "shape_drift": nocover, "index_columns_differ_from_model": sorted(n for n, c in gen.cover.items() if c["has"] and not c.get("idx", True)), "inputs_on_which_the_code_plan_fails": len(gen.cpfail)}
        if not gen.cpfail and not replay:
            ctl = semlib.codeplan_negative_controls(sel, codeplan, work)
            if ctl:
                out.extra["code_plan"]["negative_controls"] = ctl
    out.add_tlc(gen, "SemGen (all input databases within the bound; theorems of the semantics" +
                (" and SemiNaive = LeastModel" if gen.seminaive_checked else "") +
                (" and LeastModel(Core(P)) = LeastModel(P) (AscentDesugar.tla)" if pid in ("C07", "C08") or tier == "thorough" else "") + " on each)")
    if gen.seminaive_checked:
        out.extra["seminaive_negative_control"] = semlib.seminaive_negative_control(work)
    cases, meta = [], {}
    cid = 0
    nprogs = 0
    for p in sel:
        pcases = by.get(p["name"], [])
        if not pcases:
            raise ToolError(f"TLC enumerated no input database for {p['name']}")
        nprogs += 1
        chosen = select_cases(pcases, plan["cap"][tier], rnd)
        # spec -> impl: inputs on which the model, executing the code's own plan, does not reach the least model
        forced = [json.dumps(f["inputs"], sort_keys=True) for f in getattr(gen, "cpfail", []) if f["prog"] == p["name"]][:200]
        if forced:
            have = {json.dumps(c["inputs"], sort_keys=True) for c in chosen}
            chosen += [c for c in pcases if json.dumps(c["inputs"], sort_keys=True) in set(forced) - have]
        vs = [v for v in plan["variants"] if (p["name"], v) in mods]
        for c in chosen:
            for v in vs:
                if replay and (v != rec["case"]["var"] or c["inputs"] != rec["inputs"]):
                    continue
                cid += 1
                ops = semlib.input_ops(p, c["inputs"], rnd if plan.get("shuffle") else None) + [{"op": "run"}]
                case = semlib.make_case(cid, p, pidx[p["name"]], v, ops)
                cases.append(case)
                meta[cid] = dict(case=case, inputs=c["inputs"], lm=c["lm"], prog=p)
    # overwrite family (C05): run; the caller overwrites an input relation with equally many other rows; run. Programs
    # without negation / aggregation / custom providers: the second run must yield the least model containing everything
    # the program value holds, and still no tuple twice (an index kept from the first run must not be trusted)
    nover = 0
    if plan.get("dupfamily") and not replay:
        per = 25 if tier == "quick" else 200
        for p in sel:
            if not ("life" in p["tags"] and ("core" in p["tags"] or "mono" in p["tags"])) or any(r["ds"] != "-" for r in p["rels"]):
                continue
            pcs = by.get(p["name"], [])
            pairs = []
            for _ in range(per * 6):
                c1, c2 = rnd.choice(pcs), rnd.choice(pcs)
                rels = [r for r in c1["inputs"] if c1["inputs"][r] and len(c1["inputs"][r]) == len(c2["inputs"].get(r, []))
                        and sorted(map(json.dumps, c1["inputs"][r])) != sorted(map(json.dumps, c2["inputs"][r]))
                        and not any(x["name"] == r and x["kind"] == "lat" for x in p["rels"])]
                if rels:
                    pairs.append((c1, c2, rnd.choice(rels)))
                if len(pairs) >= per:
                    break
            for c1, c2, r in pairs:
                for v in [v for v in ("ser", "par") if (p["name"], v) in mods]:
                    cid += 1
                    ops = semlib.input_ops(p, c1["inputs"]) + [{"op": "run"}, {"op": "set", "rel": r, "rows": c2["inputs"][r]}, {"op": "run"}]
                    case = semlib.make_case(cid, p, pidx[p["name"]], v, ops)
                    cases.append(case)
                    meta[cid] = dict(case=case, inputs={"first": c1["inputs"], "then": {r: c2["inputs"][r]}}, lm={}, prog=p)
                    nover += 1
        out.extra["overwrite_history_cases"] = nover
    # head-only family (C09): a derivable tuple is handed to a relation that no rule body reads BEFORE the run (through the
    # initialiser in the ascent_run! variants): it must not be derived a second time
    if pid == "C09" and not replay:
        import variants as _variants
        nho = 0
        for p in sel:
            vs = [v for v in ("runhead", "run", "ser") if (p["name"], v) in mods]
            if "runhead" not in vs:
                continue
            read = _variants.body_relations(p)
            heads = [r["name"] for r in p["rels"] if not r["input"] and r["ds"] == "-" and r["kind"] == "rel" and r["name"] not in read]
            pcs = [c for c in by.get(p["name"], []) if any(c["lm"].get(h) for h in heads)]
            for c in select_cases(pcs, 12 if tier == "quick" else 100, rnd):
                h = rnd.choice([h for h in heads if c["lm"].get(h)])
                t = rnd.choice(c["lm"][h])
                for v in vs:
                    cid += 1
                    ops = semlib.input_ops(p, c["inputs"]) + [{"op": "push", "rel": h, "rows": [t]}, {"op": "run"}]
                    case = semlib.make_case(cid, p, pidx[p["name"]], v, ops)
                    cases.append(case)
                    meta[cid] = dict(case=case, inputs=dict(c["inputs"], **{h: [t]}), lm=c["lm"], prog=p)
                    nho += 1
        out.extra["head_only_prepushed_cases"] = nho
    # one extra case per program asks the compiled program for its plan (summary()); compared with SemiNaive!PlanOf
    plan_cases = {}
    if not replay:
        for p in sel:
            if (p["name"], "ser") in mods and p["name"] in gen.plans:
                cid += 1
                case = semlib.make_case(cid, p, pidx[p["name"]], "ser", [{"op": "run"}], want_summary=True)
                cases.append(case)
                meta[cid] = dict(case=case, inputs={}, lm=by[p["name"]][0]["lm"] if not any(by[p["name"]][0]["inputs"].values()) else {}, prog=p)
                plan_cases[cid] = p["name"]
    # seeded random databases beyond the exhaustive bound: up to 8 tuples per input relation over {0..5}, skewed sizes,
    # shuffled push order (the oracle is still TLC: TraceSem recomputes the least model of whatever was pushed)
    nrand = 0
    if not replay:
        per_prog = plan.get("random", {"quick": 6, "thorough": 150})[tier]
        rnd_items = []
        for p in sel:
            if "order" in p["tags"]:
                # arrival-order family: every permutation (quick: a seeded sample of 240 per pair set) of the iteration in
                # which each pair of a fixed pair set arrives
                import itertools
                pair_sets = [[(0, 1), (2, 3), (4, 5), (1, 2), (3, 4), (5, 0)], [(1, 0), (2, 1), (3, 2), (4, 3), (5, 4), (0, 3)],
                             [(0, 1), (1, 2), (2, 0), (3, 4), (4, 3), (2, 3)]]
                for ps in pair_sets:
                    perms = list(itertools.permutations(range(len(ps))))
                    if tier == "quick":
                        perms = rnd.sample(perms, 240)
                    for pm in perms:
                        inputs = {"sched": [[pm[j], x, y] for j, (x, y) in enumerate(ps)], "never": []}
                        rnd_items.append({"id": len(rnd_items) + 1, "pi": pidx[p["name"]], "inputs": inputs, "prog": p})
                continue
            for k in range(per_prog):
                rnd_items.append({"id": len(rnd_items) + 1, "pi": pidx[p["name"]], "inputs": random_inputs(p, rnd), "prog": p})
            if plan.get("shuffle") and "ds" in p["tags"] and any(r["name"] == "e" and r["input"] for r in p["rels"]):
                # vector-order family (C06): the rows of one input vector in many orders (a provider sees them one by one)
                import itertools
                # a path and a tree over 7 elements (every order of the 6 pairs), a cycle with a chord (sampled orders)
                pair_sets = [([(1, 2), (3, 4), (5, 6), (2, 3), (4, 5), (6, 0)], 720), ([(0, 1), (0, 2), (1, 3), (1, 4), (2, 5), (2, 6)], 240),
                             ([(0, 1), (1, 2), (2, 0), (3, 4), (4, 3), (2, 3)], 120)]
                for ps, nperm in pair_sets:
                    perms = list(itertools.permutations(range(len(ps))))
                    for pm in (perms if tier == "thorough" or nperm >= len(perms) else rnd.sample(perms, nperm)):
                        inputs = {r["name"]: [] for r in p["rels"] if r["input"]}
                        inputs["e"] = [list(ps[j]) for j in pm]
                        rnd_items.append({"id": len(rnd_items) + 1, "pi": pidx[p["name"]], "inputs": inputs, "prog": p, "keep_order": True,
                                          "only_variants": ("ser", "str", "strpar")})
            if any(r["name"] == "sched" for r in p["rels"]) and "ds" in p["tags"]:
                for k in range(int(per_prog * 1.5)):
                    rnd_items.append({"id": len(rnd_items) + 1, "pi": pidx[p["name"]], "inputs": structured_schedule(p, rnd), "prog": p})
        # the least model does not depend on the order of the rows: one evaluation per distinct database
        canon = {}
        for it in rnd_items:
            key = (it["pi"], json.dumps({r: sorted(map(json.dumps, v)) for r, v in it["inputs"].items()}, sort_keys=True))
            it["_rep"] = canon.setdefault(key, it["id"])
        reps = [it for it in rnd_items if it["_rep"] == it["id"]]
        lms, evres = semlib.eval_least_models(sel, reps, work)
        for it in rnd_items:
            lms[it["id"]] = lms[it["_rep"]]
        for r in evres:
            out.add_tlc(r, "SemEval (least models of the seeded random databases)")
        for it in rnd_items:
            p = it["prog"]
            for v in [v for v in plan["variants"] if (p["name"], v) in mods and ("only_variants" not in it or v in it["only_variants"])]:
                cid += 1
                ops = semlib.input_ops(p, it["inputs"], None if it.get("keep_order") else rnd) + [{"op": "run"}]
                case = semlib.make_case(cid, p, pidx[p["name"]], v, ops)
                cases.append(case)
                meta[cid] = dict(case=case, inputs=it["inputs"], lm=lms[it["id"]], prog=p)
                nrand += 1
    out.extra["random_large_input_cases"] = nrand
    log(f"[sem] {pid}: {nprogs} programs, {len(cases)} cases")
    raw = finish_cases(out, pid, sel, cases, meta, mods, bindir, work)
    if plan.get("dupfamily") and not replay:
        import stress
        stress.run_stress(out, pid, tier, seed, progs_all, mods, bindir, work)
    conf, drift = 0, []
    for cid, name in plan_cases.items():
        txt = next((e.get("text", "") for e in raw.get(cid, []) if e.get("e") == "summary"), None)
        if txt is None:
            continue
        ok, a, b = semlib.plan_conforms(gen.plans[name], semlib.parse_summary(txt))
        if ok:
            conf += 1
        else:
            drift.append({"program": name, "model": a, "code": b})
    out.extra["plan_conformance"] = {"programs_compared": len(plan_cases), "conform": conf, "drift": drift[:10]}
    if pid == "C09" and tier == "thorough" and not replay:
        # the same cases once more on the corpus rebuilt with the cargo feature ascent/segment-codegen
        import shutil
        rc2, txt2, bindir2 = semlib.build_corpus(shards, crates, segment=True)
        try:
            if rc2 != 0:
                out.violation({"property": pid, "engine": "sem", "kind": "does-not-compile",
                               "summary": "the corpus does not compile with ascent/segment-codegen", "compiler_output": txt2[-4000:]})
            else:
                seg_cases = [c for c in cases if c["id"] not in plan_cases]
                finish_cases(out, pid, sel, seg_cases, meta, mods, bindir2, os.path.join(work, "segment"))
                out.extra["segment_codegen_cases"] = len(seg_cases)
        finally:
            shutil.rmtree(os.path.join(vlib.BUILD, "target-seg"), ignore_errors=True)
    out.exhaustive = all(len(by[p["name"]]) <= (plan["cap"][tier] or 10**9) for p in sel)
    out.rule = (f"{plan['what']}. TLC (SemGen) enumerates every input database with at most `bound` tuples over the constant "
                f"domain of each selected program (cap per program and variant: {plan['cap'][tier]}, seeded choice beyond it, largest "
                "databases always kept); each case = (program, variant, input database) executed on the compiled program and "
                "validated event by event by TLC (TraceSem). Non-trivial = the least model contains at least one derived tuple "
                "beyond the inputs; distinct = distinct (program, variant, input database).")
    out.extra["programs"] = nprogs
    out.extra["variants"] = sorted({c["var"] for c in cases})
    out.assumptions = ["the Python renderer and the TLA+ interpreter agree on the meaning of the small expression language (cross-checked by these very runs)",
                       "inputs contain no duplicate rows (duplicates made by the caller are outside the properties)",
                       "hooks only observe (ascent feature `verif`)"]
    return out


def finish_cases(out, pid, sel, cases, meta, mods, bindir, work, extra_checks=None):
    """Executes the cases, validates the traces with TLC and turns discrepancies into verdicts. Returns the raw events."""
    raw, crashed = semlib.run_cases(cases, mods, bindir, work)
    raw_all = dict(raw)
    discrepancies = []          # (case id, kind, detail)
    case_events = []
    for crate, rc, tail, culprit, others in crashed:
        if culprit is not None:
            kind = "hang" if rc == -999 else "process-died"
            discrepancies.append((culprit, kind, {"rc": rc, "output": tail}))
            raw.pop(culprit, None)
        for o in others:
            raw.pop(o, None)       # never executed; not counted
    for c in cases:
        ev = raw.get(c["id"])
        if ev is None:
            continue
        try:
            norm = semlib.normalise(c, meta[c["id"]]["prog"], ev)
        except semlib.Garbled as g:
            discrepancies.append((c["id"], "garbled", {"msg": str(g)}))
            continue
        for e in norm:
            if e["e"] == "ret" and e["r"] == "unsupported":
                discrepancies.append((c["id"], "unsupported", {"msg": "run_timeout is not available on this variant"}))
        case_events.append((c["id"], norm))
        out.evaluations += 1
        m = meta[c["id"]]
        derived = (sum(len(v) for v in m["lm"].values()) - sum(len(v) for v in m["inputs"].values() if isinstance(v, list))) if m["lm"] else 1
        if derived > 0:
            out.nontriv((c["prog"], c["var"], json.dumps(m["inputs"], sort_keys=True), json.dumps(c["ops"][-3:], sort_keys=True)))
        if len(out.samples) < 3 and derived > 2:
            out.sample({"program": c["prog"], "variant": c["var"], "inputs": m["inputs"], "ops": [o["op"] for o in c["ops"]],
                        "specified_least_model": m["lm"], "events_validated": len(norm)})
    bad, nevents, results = semlib.validate_traces(sel, case_events, work)
    for r in results:
        out.add_tlc(r, "TraceSem (one state per recorded event)")
    out.traces += len(case_events)
    out.extra["events_validated"] = out.extra.get("events_validated", 0) + nevents
    for b in bad:
        discrepancies.append((b["case"], b["kind"], b["detail"]))
    if extra_checks:
        discrepancies.extend(extra_checks(raw))
    drift = {}
    drift_by = {}
    seen_v, seen_k = set(), {}
    breakdown = {}
    for cid, kind, detail in discrepancies:
        m = meta[cid]
        if kind in PROPERTY_LEVEL:
            bk = f"{m['case']['prog']}/{m['case']['var']}: {kind}" + (f" in {detail.get('rel')}" if isinstance(detail, dict) and detail.get('rel') else "")
            breakdown[bk] = breakdown.get(bk, 0) + 1
        if kind not in PROPERTY_LEVEL:
            drift[kind] = drift.get(kind, 0) + 1
            dk = f"{m['case']['prog']}/{m['case']['var']}: {kind}"
            drift_by[dk] = drift_by.get(dk, 0) + 1
            continue
        rec = {"property": pid, "engine": "sem", "kind": kind, "detail": detail, "case": m["case"], "inputs": m["inputs"],
               "specified_least_model": m["lm"],
               "summary": f"{m['case']['prog']}/{m['case']['var']}: {kind}: {json.dumps(detail)[:300]} on inputs {json.dumps(m['inputs'])[:200]}"}
        f = known.classify(pid, rec)
        if f:
            seen_k.setdefault(f["id"], [f, 0])[1] += 1
            continue
        key = (m["case"]["prog"], m["case"]["var"], kind)
        if key in seen_v:
            continue               # one replay file per (program, variant, kind)
        seen_v.add(key)
        out.violation(rec)
    for fid, (f, n) in seen_k.items():
        out.known.append((fid, f"{f['what']} ({n} cases in this run)"))
    if breakdown:
        out.extra["property_level_discrepancies"] = dict(sorted(breakdown.items()))
    if drift:
        out.extra["drift"] = drift
        out.extra["drift_by_program"] = dict(sorted(drift_by.items()))
    out.extra["discrepancies"] = len(discrepancies)
    return raw_all
