"""Engine lat (C16): the lattice types shipped with ascent_base vs spec/Lattices.tla.

TLC (spec/LatticeCell.tla) enumerates, per named type of the type table, every pair and every triple of
carrier values, checks the lattice laws on the specification in every state and prints one vector per
state with the prescribed results (join, meet, join_mut / meet_mut value and changed flag, partial_cmp,
top / bottom; for triples a cell history).  lat-replay runs each vector on the real Rust type of that
name; every field is compared here."""
import os, json
import vlib
from vlib import Outcome, run_tlc, tlc_ok, cargo_build_or_die, BuildFailed, write_ndjson, read_ndjson, run_bin, ToolError, canon


def norm(tx, v):
    """Canonical form of a value of type expression tx: JSON arrays that stand for SETS are sorted,
    tuples keep their order.  A value of an unexpected shape is returned as it is (and will then differ)."""
    if tx is None:
        return v
    try:
        k = tx["k"]
        if k in ("dual", "same"):
            return norm(tx["of"], v)
        if k == "opt":
            if isinstance(v, dict) and v.get("tag") == "some":
                return {"tag": "some", "v": norm(tx["of"], v["v"])}
            return v
        if k == "set":
            return sorted(v)
        if k == "bset":
            return {"top": v["top"], "s": sorted(v["s"])}
        if k in ("prod", "lex"):
            if isinstance(v, list) and len(v) == len(tx["of"]):
                return [norm(t, x) for t, x in zip(tx["of"], v)]
            return v
        return v
    except Exception:
        return v


def norm_step(tx, s):
    if isinstance(s, dict) and "v" in s:
        return {"v": norm(tx, s["v"]), "changed": s.get("changed")}
    return s


def is_triple(vec):
    return "c" in vec


def expectations(vec, tx):
    """field of the lat-replay output -> specified value (normalised), for one vector"""
    if is_triple(vec):
        return {"hist": [norm_step(tx, s) for s in vec["hist"]], "jj": norm(tx, vec["jj"]), "mm": norm(tx, vec["mm"])}
    cmp_ = vec["cmp"]
    exp = {
        "join": norm(tx, vec["join"]), "meet": norm(tx, vec["meet"]),
        "join_mut": norm_step(tx, vec["join_mut"]), "join_mut_u": norm_step(tx, vec["join_mut"]),
        "meet_mut": norm_step(tx, vec["meet_mut"]), "meet_mut_u": norm_step(tx, vec["meet_mut"]),
        "cmp": cmp_, "eq": cmp_ == "eq", "le": cmp_ in ("lt", "eq"), "ge": cmp_ in ("gt", "eq"),
    }
    if vec["bounded"]:
        exp["top"] = norm(tx, vec["top"])
        exp["bottom"] = norm(tx, vec["bottom"])
    return exp


def observed(field, r, tx):
    if field == "hist":
        return [norm_step(tx, s) for s in r] if isinstance(r, list) else r
    if field in ("join_mut", "join_mut_u", "meet_mut", "meet_mut_u"):
        return norm_step(tx, r)
    if field in ("cmp", "eq", "le", "ge"):
        return r
    return norm(tx, r)


def compare(vec, got, tx):
    """Returns a list of discrepancy strings for one vector."""
    bad = []
    if "error" in got:
        raise ToolError(f"lat-replay: {got['error']}: {vec['ty']}")
    if not is_triple(vec) and got.get("bounded") != vec["bounded"]:
        bad.append(f"BoundedLattice implemented: {got.get('bounded')}, specified {vec['bounded']}")
    for field, exp in expectations(vec, tx).items():
        r = got.get(field)
        if r is None:
            bad.append(f"{field}: no result")
        elif "panic" in r:
            bad.append(f"{field} panicked: {r['panic']}")
        else:
            obs = observed(field, r["ok"], tx)
            if obs != exp:
                bad.append(f"{field} = {json.dumps(obs)}, specified {json.dumps(exp)}")
    return bad


def operands(vec):
    return [vec["a"], vec["b"]] + ([vec["c"]] if is_triple(vec) else [])


def run(pid, tier, seed, replay=None):
    out = Outcome(pid, tier, seed)
    out.rule = ("TLC enumerates, for every type name of the table in spec/LatticeCell.tla, all pairs (a,b) of carrier "
                "values (one pair state each) and, for the types selected by the tier, all triples (a,b,c) (one triple "
                "state each); the lattice laws are invariants of every state; a case is one vector replayed on the Rust "
                "type of that name; non-trivial = distinct (type, operands) whose operands are not all equal")
    out.assumptions = ["small carriers: machine integers are represented by {MIN,-1,0,1,2,MAX} or a subset containing MIN and MAX, "
                       "set elements by {0,1,2}; generic element types are instantiated with i8 / u8 / bool only",
                       "the Rust type of each type name is fixed by hand in harness/lat-replay/src/main.rs; whether it implements "
                       "BoundedLattice is decided by the compiler and compared with the specification",
                       "Reverse<T> is specified by the same type expression as Dual<T>"]
    try:
        bindir = cargo_build_or_die(["lat-replay"])
    except BuildFailed as e:
        raise ToolError("lat-replay does not build against /repo:\n" + str(e)[-3000:])
    types = {}
    if replay:
        rec = json.load(open(replay))
        vectors = [rec["vector"]]
        if rec.get("type") is not None:
            types[rec["vector"]["ty"]] = rec["type"]
    else:
        res = run_tlc("LatticeCell", f"LatticeCell_{tier}.cfg", workers=4, timeout=1500, tags=("VEC", "TYP"))
        tlc_ok(res, "LatticeCell")
        out.add_tlc(res, f"LatticeCell_{tier}")
        vectors = [v for t, v in res.lines if t == "VEC"]
        for t, v in res.lines:
            if t == "TYP":
                types.update(v)
        if not types or set(types) != {v["ty"] for v in vectors}:
            raise ToolError("the type table printed by TLC and the types of the vectors differ")
        if len(vectors) != res.distinct:
            raise ToolError(f"TLC found {res.distinct} states but printed {len(vectors)} vectors")
        out.exhaustive = True
    work = os.path.join(vlib.BUILD, "work", pid)
    cases, outp = os.path.join(work, "cases.ndjson"), os.path.join(work, "out.ndjson")
    write_ndjson(cases, vectors)
    rc, txt = run_bin(bindir, "lat-replay", cases, outp)
    if rc != 0:
        raise ToolError(f"lat-replay failed rc={rc}: {txt[-2000:]}")
    got = read_ndjson(outp)
    if len(got) != len(vectors):
        raise ToolError("lat-replay produced a different number of results")
    per_type = {}
    sampled = set()
    for vec, g in zip(vectors, got):
        ty = vec["ty"]
        tx = types.get(ty)
        out.evaluations += 1
        out.traces += 1
        ops = [canon(norm(tx, x)) for x in operands(vec)]
        st = per_type.setdefault(ty, {"pairs": 0, "triples": 0, "carrier": set()})
        st["triples" if is_triple(vec) else "pairs"] += 1
        st["carrier"].add(ops[0])
        if len(set(ops)) > 1:
            out.nontriv((ty,) + tuple(ops))
        bad = compare(vec, g, tx)
        if not is_triple(vec) and vec["cmp"] == "none" and ty not in sampled and ty in ("prod_set", "dual_opt_prod", "rc_set", "prod_cp", "bset2"):
            sampled.add(ty)
            out.sample({"type": ty, "vector": vec, "observed": g})
        if bad:
            out.violation({"property": pid, "engine": "lat", "summary": f"{ty}: a={json.dumps(vec['a'])} b={json.dumps(vec['b'])}"
                           + (f" c={json.dumps(vec['c'])}" if is_triple(vec) else "") + ": " + "; ".join(bad[:4]),
                           "vector": vec, "type": tx, "observed": g, "discrepancies": bad})
    if not out.samples:
        out.sample({"type": vectors[0]["ty"], "vector": vectors[0], "observed": got[0]})
    if not replay:
        # the enumeration is complete: n^2 pairs and (where triples are enumerated) n^3 triples per type
        for ty, st in per_type.items():
            n = len(st["carrier"])
            if st["pairs"] != n * n or st["triples"] not in (0, n ** 3):
                raise ToolError(f"incomplete enumeration for {ty}: carrier {n}, {st['pairs']} pairs, {st['triples']} triples")
    out.extra["types"] = len(per_type)
    out.extra["per_type"] = {ty: {"carrier": len(st["carrier"]), "pairs": st["pairs"], "triples": st["triples"]}
                             for ty, st in sorted(per_type.items())}
    out.extra["pair_vectors"] = sum(st["pairs"] for st in per_type.values())
    out.extra["triple_vectors"] = sum(st["triples"] for st in per_type.values())
    return out
