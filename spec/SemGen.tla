--------------------------------- MODULE SemGen ---------------------------------
(***************************************************************************)
(* Enumerates, for every program of the file named by the environment      *)
(* variable PROGS, every input database with at most `bound` tuples over   *)
(* the constant domain {0..dom-1} (one state per database), checks the     *)
(* model-level theorems of the declarative semantics on each of them and   *)
(* prints one behaviour ("CASE {...}") per state for the Rust side.        *)
(***************************************************************************)
EXTENDS AscentDesugar, CodePlan, Json, IOUtils

Progs == JsonDeserialize(IOEnv.PROGS)

VARIABLES pi, inp
vars == <<pi, inp>>

P == Progs[pi]
InputRels(Q) == { Q.rels[i].name : i \in { j \in DOMAIN Q.rels : Q.rels[j].input } }

ColVals(Q, ty) ==
   CASE ty = "int" -> 0 .. (Q.dom - 1)
     [] ty = "opt" -> {None} \cup { Some(x) : x \in 0 .. (Q.dom - 1) }
     [] ty \in {"max_i32", "dual_i32"} -> 0 .. (Q.dom - 1)

RECURSIVE TuplesOver(_, _, _)
TuplesOver(Q, cols, i) ==
   IF i > Len(cols) THEN { <<>> }
   ELSE { <<h>> \o t : h \in ColVals(Q, cols[i]), t \in TuplesOver(Q, cols, i + 1) }

Tuples(Q, r) == TuplesOver(Q, RelOf(Q, r).cols, 1)

Size(db) == LET rs == DOMAIN db IN
   IF rs = {} THEN 0 ELSE FoldSet(LAMBDA r, acc : acc + Cardinality(db[r]), 0, rs)

Init == /\ pi \in 1..Len(Progs)
        /\ inp = EmptyDb(Progs[pi])

AddInput(r, t) == /\ Size(inp) < P.bound
                  /\ t \notin inp[r]
                  /\ IsLat(P, r) => \A u \in inp[r] : Front(u) # Front(t)     \* the caller gives one row per lattice key
                  /\ inp' = [inp EXCEPT ![r] = @ \cup {t}]
                  /\ UNCHANGED pi

Next == \E r \in InputRels(P) : \E t \in Tuples(P, r) : AddInput(r, t)

Spec == Init /\ [][Next]_vars

--------------------------------------------------------------------------------
(* no negation / aggregation, and lattice values (if any) are only read through upward-closed tests (corpus tag `mono`): *)
(* a rule that copies a lattice value or tests it for equality is as non-monotone as a negation                        *)
Monotone(Q) == LET X == Elaborate(Q) IN
   /\ \A j \in 1..Len(X.rules) : \A d \in RuleDeps(X.rules[j]) : ~d[2]
   /\ (\E i \in 1..Len(Q.rels) : Q.rels[i].kind = "lat") => (\E t \in 1..Len(Q.tags) : Q.tags[t] = "mono")

(* theorems of the declarative semantics, checked on every enumerated database *)
Theorems ==
   LET lm == LeastModel(P, inp) IN
   /\ DbBelow(P, inp, lm)                     \* input facts are part of the result
   /\ Saturated(P, lm)                        \* no rule can add anything (hence LeastModel(P, lm) = lm: idempotence, C13)
   /\ Stratifiable(Elaborate(P))

(* the evaluation strategy of the generated code (plan + semi-naive loop, SemiNaive.tla) computes the least model *)
SemiNaiveCorrect == SemiNaiveResult(P, inp) = LeastModel(P, inp)

(* C07 / C08 at the model level: the direct meaning of the surface forms is the meaning of their core expansion *)
DesugarCorrect == DesugarTheorem(P, inp)

(* C14 at the model level: every database a deadline can leave behind is sound and resumable *)
TimeoutTheorem == TimeoutStatesSoundAndResumable(P, inp)

(* a larger input gives a larger model when no negation / aggregation is involved *)
MonotoneStep ==
   [][ Monotone(P) => DbBelow(P, LeastModel(P, inp), LeastModel(P, inp')) ]_vars

RowsJ(S) == SetToSeq(S)

(* the plan the macro actually produced (CodePlan.tla), executed by the model, computes the least model, and every   *)
(* join it compiled as reorderable is order-insensitive. Never blocks: a failing input is printed for replay.        *)
CodePlanCorrect ==
   (HasPlan(P) /\ PlanCovers(P)) =>
      LET lm == LeastModel(P, inp)
          ok1 == CodePlanResult(P, inp) = lm
          ok2 == ReorderSafe(P, lm)
      IN  IF ok1 /\ ok2 THEN TRUE
          ELSE PrintT("CPFAIL " \o ToJson([ prog |-> P.name, plan_result_ok |-> ok1, reorder_ok |-> ok2,
                                            inputs |-> [ r \in InputRels(P) |-> RowsJ(inp[r]) ] ]))
EmitCover == (Size(inp) = 0) => PrintT("COVER " \o ToJson([ prog |-> P.name, has |-> HasPlan(P),
                                                            covers |-> IF HasPlan(P) THEN PlanCovers(P) ELSE FALSE,
                                                            idx |-> IF HasPlan(P) THEN IndexColumnsAgree(P) ELSE FALSE ]))
PlanJ(Q) == LET pl == PlanOf(Q) IN
   [ i \in DOMAIN pl |-> [ looping |-> pl[i].looping, dynamic |-> SetToSeq(pl[i].dynamic),
                          variants |-> FoldSet(LAMBDA r, acc : acc + r.variants, 0, pl[i].rules),
                          rules |-> Cardinality(pl[i].rules) ] ]
EmitPlan == (Size(inp) = 0) => PrintT("PLAN " \o ToJson([ prog |-> P.name, sccs |-> PlanJ(P) ]))
Emit ==
   LET lm == LeastModel(P, inp) IN
   PrintT("CASE " \o ToJson([ pi |-> pi, prog |-> P.name,
                              inputs |-> [ r \in InputRels(P) |-> RowsJ(inp[r]) ],
                              lm |-> [ r \in RelNames(P) |-> RowsJ(lm[r]) ] ]))
================================================================================
