-------------------------------- MODULE Lattices --------------------------------
(***************************************************************************)
(* The lattice types shipped with ascent_base, as order / join / meet over *)
(* a small language of type expressions (properties C16 and C03).          *)
(*                                                                         *)
(* A type expression is a record:                                          *)
(*   [k |-> "int", lo |-> a, hi |-> b]   machine integer with MIN=a, MAX=b *)
(*   [k |-> "bool"]  [k |-> "unit"]                                        *)
(*   [k |-> "dual", of |-> T]    Dual<T> and std::cmp::Reverse<T>          *)
(*   [k |-> "same", of |-> T]    Box<T>, Rc<T>, Arc<T>, OrdLattice<T>      *)
(*   [k |-> "opt",  of |-> T]    Option<T>: None is the bottom             *)
(*   [k |-> "set",  el |-> S]    Set<E> over the element set S             *)
(*   [k |-> "bset", el |-> S, n |-> N]  BoundedSet<N,E>: sets of size <= N *)
(*                               plus TOP                                  *)
(*   [k |-> "cp",   el |-> S]    ConstPropagation<E>                       *)
(*   [k |-> "prod", of |-> <<T1,..,Tn>>]  Product of a tuple / an array    *)
(*   [k |-> "lex",  of |-> <<T1,..,Tn>>]  tuple (lexicographic; needs Ord) *)
(*                                                                         *)
(* Values: ints, booleans, "unit", [tag |-> "none"] / [tag |-> "some",     *)
(* v |-> x], TLA+ sets, [top |-> BOOLEAN, s |-> set], [tag |-> "bot"] /    *)
(* [tag |-> "const", v |-> x] / [tag |-> "top"], tuples.                   *)
(***************************************************************************)
EXTENDS Integers, Sequences, FiniteSets, TLC

None == [tag |-> "none"]
Some(x) == [tag |-> "some", v |-> x]
CpBot == [tag |-> "bot"]
CpTop == [tag |-> "top"]
CpConst(x) == [tag |-> "const", v |-> x]
BsTop == [top |-> TRUE, s |-> {}]
Bs(s) == [top |-> FALSE, s |-> s]

RECURSIVE Carrier(_)
RECURSIVE TupleSpace(_, _)
TupleSpace(tys, i) ==      \* all tuples over the carriers of tys[i..]
   IF i > Len(tys) THEN { <<>> }
   ELSE { <<h>> \o t : h \in Carrier(tys[i]), t \in TupleSpace(tys, i + 1) }

Carrier(ty) ==
   CASE ty.k = "int"  -> ty.vals
     [] ty.k = "bool" -> BOOLEAN
     [] ty.k = "unit" -> {"unit"}
     [] ty.k = "dual" -> Carrier(ty.of)
     [] ty.k = "same" -> Carrier(ty.of)
     [] ty.k = "opt"  -> {None} \cup { Some(x) : x \in Carrier(ty.of) }
     [] ty.k = "set"  -> SUBSET ty.el
     [] ty.k = "bset" -> {BsTop} \cup { Bs(s) : s \in { t \in SUBSET ty.el : Cardinality(t) <= ty.n } }
     [] ty.k = "cp"   -> {CpBot, CpTop} \cup { CpConst(x) : x \in ty.el }
     [] ty.k = "prod" -> TupleSpace(ty.of, 1)
     [] ty.k = "lex"  -> TupleSpace(ty.of, 1)

--------------------------------------------------------------------------------
(* Total order (Rust `Ord`) for the component types of lexicographic tuples: *)
(* -1 / 0 / 1                                                                *)
RECURSIVE Cmp(_, _, _)
RECURSIVE CmpLex(_, _, _, _)
CmpLex(tys, a, b, i) ==
   IF i > Len(tys) THEN 0
   ELSE LET c == Cmp(tys[i], a[i], b[i]) IN IF c # 0 THEN c ELSE CmpLex(tys, a, b, i + 1)

Cmp(ty, a, b) ==
   CASE ty.k = "int"  -> IF a < b THEN -1 ELSE IF a = b THEN 0 ELSE 1
     [] ty.k = "bool" -> IF a = b THEN 0 ELSE IF b THEN -1 ELSE 1
     [] ty.k = "unit" -> 0
     [] ty.k = "dual" -> Cmp(ty.of, b, a)
     [] ty.k = "same" -> Cmp(ty.of, a, b)
     [] ty.k = "opt"  -> IF a.tag = "none" THEN (IF b.tag = "none" THEN 0 ELSE -1)
                         ELSE IF b.tag = "none" THEN 1 ELSE Cmp(ty.of, a.v, b.v)
     [] ty.k = "lex"  -> CmpLex(ty.of, a, b, 1)

--------------------------------------------------------------------------------
(* The partial order *)
RECURSIVE Leq(_, _, _)
Leq(ty, a, b) ==
   CASE ty.k = "int"  -> a <= b
     [] ty.k = "bool" -> (~a) \/ b
     [] ty.k = "unit" -> TRUE
     [] ty.k = "dual" -> Leq(ty.of, b, a)
     [] ty.k = "same" -> Leq(ty.of, a, b)
     [] ty.k = "opt"  -> IF a.tag = "none" THEN TRUE
                         ELSE IF b.tag = "none" THEN FALSE ELSE Leq(ty.of, a.v, b.v)
     [] ty.k = "set"  -> a \subseteq b
     [] ty.k = "bset" -> b.top \/ (~a.top /\ a.s \subseteq b.s)
     [] ty.k = "cp"   -> a.tag = "bot" \/ b.tag = "top" \/ a = b
     [] ty.k = "prod" -> \A i \in 1..Len(ty.of) : Leq(ty.of[i], a[i], b[i])
     [] ty.k = "lex"  -> CmpLex(ty.of, a, b, 1) <= 0

(* Rust's partial_cmp: "lt", "eq", "gt" or "none" *)
PartialCmp(ty, a, b) ==
   IF a = b THEN "eq" ELSE IF Leq(ty, a, b) THEN "lt" ELSE IF Leq(ty, b, a) THEN "gt" ELSE "none"

--------------------------------------------------------------------------------
(* join and meet, defined structurally (as the documentation of each type states) *)
RECURSIVE Join(_, _, _)
RECURSIVE Meet(_, _, _)

Join(ty, a, b) ==
   CASE ty.k = "int"  -> IF a >= b THEN a ELSE b
     [] ty.k = "bool" -> a \/ b
     [] ty.k = "unit" -> "unit"
     [] ty.k = "dual" -> Meet(ty.of, a, b)
     [] ty.k = "same" -> Join(ty.of, a, b)
     [] ty.k = "opt"  -> IF a.tag = "none" THEN b ELSE IF b.tag = "none" THEN a
                         ELSE Some(Join(ty.of, a.v, b.v))
     [] ty.k = "set"  -> a \cup b
     [] ty.k = "bset" -> IF a.top \/ b.top THEN BsTop
                         ELSE IF Cardinality(a.s \cup b.s) > ty.n THEN BsTop ELSE Bs(a.s \cup b.s)
     [] ty.k = "cp"   -> IF a.tag = "bot" THEN b ELSE IF b.tag = "bot" THEN a
                         ELSE IF a = b THEN a ELSE CpTop
     [] ty.k = "prod" -> [ i \in 1..Len(ty.of) |-> Join(ty.of[i], a[i], b[i]) ]
     [] ty.k = "lex"  -> IF CmpLex(ty.of, a, b, 1) >= 0 THEN a ELSE b

Meet(ty, a, b) ==
   CASE ty.k = "int"  -> IF a <= b THEN a ELSE b
     [] ty.k = "bool" -> a /\ b
     [] ty.k = "unit" -> "unit"
     [] ty.k = "dual" -> Join(ty.of, a, b)
     [] ty.k = "same" -> Meet(ty.of, a, b)
     [] ty.k = "opt"  -> IF a.tag = "none" \/ b.tag = "none" THEN None
                         ELSE Some(Meet(ty.of, a.v, b.v))
     [] ty.k = "set"  -> a \cap b
     [] ty.k = "bset" -> IF a.top THEN b ELSE IF b.top THEN a ELSE Bs(a.s \cap b.s)
     [] ty.k = "cp"   -> IF a.tag = "top" THEN b ELSE IF b.tag = "top" THEN a
                         ELSE IF a = b THEN a ELSE CpBot
     [] ty.k = "prod" -> [ i \in 1..Len(ty.of) |-> Meet(ty.of[i], a[i], b[i]) ]
     [] ty.k = "lex"  -> IF CmpLex(ty.of, a, b, 1) <= 0 THEN a ELSE b

(* join_mut / meet_mut: the value left in the receiver and the `changed` flag *)
JoinMut(ty, a, b) == LET r == Join(ty, a, b) IN [v |-> r, changed |-> r # a]
MeetMut(ty, a, b) == LET r == Meet(ty, a, b) IN [v |-> r, changed |-> r # a]

--------------------------------------------------------------------------------
(* BoundedLattice: which types have top / bottom, and their values *)
RECURSIVE IsBounded(_)
IsBounded(ty) ==
   CASE ty.k \in {"int", "bool", "unit"} -> TRUE
     [] ty.k \in {"dual", "opt"} -> IsBounded(ty.of)
     [] ty.k = "same" -> ty.bounded /\ IsBounded(ty.of)
     [] ty.k = "bset" -> TRUE
     [] ty.k = "cp" -> TRUE
     [] ty.k \in {"prod", "lex"} -> \A i \in 1..Len(ty.of) : IsBounded(ty.of[i])
     [] OTHER -> FALSE

RECURSIVE Top(_)
RECURSIVE Bottom(_)
Top(ty) ==
   CASE ty.k = "int"  -> ty.hi
     [] ty.k = "bool" -> TRUE
     [] ty.k = "unit" -> "unit"
     [] ty.k = "dual" -> Bottom(ty.of)
     [] ty.k = "same" -> Top(ty.of)
     [] ty.k = "opt"  -> Some(Top(ty.of))
     [] ty.k = "bset" -> BsTop
     [] ty.k = "cp"   -> CpTop
     [] ty.k \in {"prod", "lex"} -> [ i \in 1..Len(ty.of) |-> Top(ty.of[i]) ]
Bottom(ty) ==
   CASE ty.k = "int"  -> ty.lo
     [] ty.k = "bool" -> FALSE
     [] ty.k = "unit" -> "unit"
     [] ty.k = "dual" -> Top(ty.of)
     [] ty.k = "same" -> Bottom(ty.of)
     [] ty.k = "opt"  -> None
     [] ty.k = "bset" -> Bs({})
     [] ty.k = "cp"   -> CpBot
     [] ty.k \in {"prod", "lex"} -> [ i \in 1..Len(ty.of) |-> Bottom(ty.of[i]) ]

--------------------------------------------------------------------------------
(* The lattice laws (C16), as predicates over a type and values of its carrier *)
LawsPair(ty, a, b) ==
   /\ Join(ty, a, b) = Join(ty, b, a)
   /\ Meet(ty, a, b) = Meet(ty, b, a)
   /\ Join(ty, a, a) = a /\ Meet(ty, a, a) = a
   /\ Join(ty, a, Meet(ty, a, b)) = a
   /\ Meet(ty, a, Join(ty, a, b)) = a
   /\ Leq(ty, a, b) <=> (Join(ty, a, b) = b)
   /\ Leq(ty, a, b) <=> (Meet(ty, a, b) = a)
   /\ Leq(ty, a, Join(ty, a, b)) /\ Leq(ty, b, Join(ty, a, b))
   /\ Leq(ty, Meet(ty, a, b), a) /\ Leq(ty, Meet(ty, a, b), b)
   /\ (Leq(ty, a, b) /\ Leq(ty, b, a)) => a = b

LawsTriple(ty, a, b, c) ==
   /\ Join(ty, Join(ty, a, b), c) = Join(ty, a, Join(ty, b, c))
   /\ Meet(ty, Meet(ty, a, b), c) = Meet(ty, a, Meet(ty, b, c))
   /\ (Leq(ty, a, b) /\ Leq(ty, b, c)) => Leq(ty, a, c)
   /\ (Leq(ty, a, c) /\ Leq(ty, b, c)) => Leq(ty, Join(ty, a, b), c)      \* join is the LEAST upper bound
   /\ (Leq(ty, c, a) /\ Leq(ty, c, b)) => Leq(ty, c, Meet(ty, a, b))      \* meet is the GREATEST lower bound

LawsBounds(ty, a) ==
   IsBounded(ty) => /\ Leq(ty, a, Top(ty)) /\ Leq(ty, Bottom(ty), a)

LawsDual(ty, a, b) ==     \* Dual / Reverse swap the operations and the order
   ty.k = "dual" => /\ Join(ty, a, b) = Meet(ty.of, a, b)
                    /\ Meet(ty, a, b) = Join(ty.of, a, b)
                    /\ Leq(ty, a, b) <=> Leq(ty.of, b, a)
                    /\ IsBounded(ty) => (Top(ty) = Bottom(ty.of) /\ Bottom(ty) = Top(ty.of))
================================================================================
