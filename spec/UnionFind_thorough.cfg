SPECIFICATION Spec
CONSTANTS
  Machines = {"trrel", "uf"}
  NTr = 5
  NUf = 4
  FullLenTr = 3
  MaxLenTr = 5
  FullLenUf = 3
  MaxLenUf = 5
  EmitMin = 0
  LeastBound = 6
INVARIANTS TypeOK TrClosureLaw TrLaws TrLeastLaw TrOrderLaw UfClosureLaw UfLaws Emit
PROPERTY StepLaws
CHECK_DEADLOCK FALSE
