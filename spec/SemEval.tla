--------------------------------- MODULE SemEval ---------------------------------
(***************************************************************************)
(* Evaluates the declarative semantics on given cases (NDJSON file CASES:  *)
(* {id, pi, inputs}) and prints the least model of each: the oracle for    *)
(* inputs that were not enumerated by SemGen (seeded random databases).    *)
(***************************************************************************)
EXTENDS AscentSem, Json, IOUtils

Progs == JsonDeserialize(IOEnv.PROGS)
Cases == ndJsonDeserialize(IOEnv.CASES)

VARIABLE i
Init == i = 1
Next == i < Len(Cases) /\ i' = i + 1
Spec == Init /\ [][Next]_i

Edb(c) == LET P == Progs[c.pi] IN
   [ r \in RelNames(P) |-> IF r \in DOMAIN c.inputs THEN RowsFromJ(P, r, c.inputs[r]) ELSE {} ]

Emit ==
   LET c == Cases[i]
       P == Progs[c.pi]
       lm == LeastModel(P, Edb(c))
   IN  PrintT("LM " \o ToJson([ id |-> c.id, lm |-> [ r \in RelNames(P) |-> SetToSeq(lm[r]) ] ]))
================================================================================
