SPECIFICATION Spec
CONSTANTS
  Machines = {"trrel", "uf"}
  NTr = 4
  NUf = 4
  FullLenTr = 3
  MaxLenTr = 5
  FullLenUf = 3
  MaxLenUf = 4
  EmitMin = 0
  LeastBound = 6
INVARIANTS TypeOK TrClosureLaw TrLaws TrLeastLaw TrOrderLaw UfClosureLaw UfLaws Emit
PROPERTY StepLaws
CHECK_DEADLOCK FALSE
