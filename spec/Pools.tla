---------------------------------- MODULE Pools ----------------------------------
(***************************************************************************)
(* What depends on the rayon pool in a parallel Ascent program (C20):      *)
(*  - process wide: shards_count() (fixed at first use; the DashMap-based  *)
(*    indices and the lattice mutex vector always agree on it);            *)
(*  - per index VALUE: the thread-sharded no-index (CRelNoIndex) sizes its *)
(*    shard vector by the pool that is current when the value is CREATED   *)
(*    (Default::default()); inserts go to shard  thread_index % len;       *)
(*    the merge zips the shard vectors of `from` and `to`.                 *)
(* A program value is constructed inside pool `a` (index fields created),  *)
(* then run inside pools b1, b2, ..: update_indices re-inserts every row   *)
(* (after resetting the index fields iff ResetOnRun), the SCC moves the    *)
(* stored index to `delta`, creates `total` and `new` under the current    *)
(* pool, workers insert derived rows, `merge` runs twice, `total` is       *)
(* stored back.                                                            *)
(* Invariant: after every run the stored index lists every row exactly     *)
(* once, whatever pools were used.                                         *)
(***************************************************************************)
EXTENDS Integers, Sequences, FiniteSets, TLC, Json

CONSTANTS PoolSizes,     \* e.g. 1..3
          MaxRuns,
          InitRows,      \* number of input rows
          ResetOnRun     \* TRUE: current code (index fields rebuilt at the start of run); FALSE: code before F7/F8 was repaired

VARIABLES pc, construct, runs, cur, rows, todo, field, delta, total, new, derived
vars == <<pc, construct, runs, cur, rows, todo, field, delta, total, new, derived>>

Empty(n) == [ i \in 1..n |-> <<>> ]          \* a shard vector of n empty shards (a shard = sequence of row ids)
ShardOf(vec, th) == (th % Len(vec)) + 1
Put(vec, th, r) == [vec EXCEPT ![ShardOf(vec, th)] = Append(@, r)]

(* RelIndexMerge::move_index_contents for CRelNoIndex: shard-wise zip (the shorter vector decides) *)
Move(from, to) == [ i \in 1..Len(to) |-> IF i <= Len(from) THEN to[i] \o from[i] ELSE to[i] ]

Init == /\ pc = "construct" /\ construct = 0 /\ runs = <<>> /\ cur = 0
        /\ rows = {} /\ todo = {} /\ field = <<>> /\ delta = <<>> /\ total = <<>> /\ new = <<>> /\ derived = FALSE

Construct(a) ==
   /\ pc = "construct"
   /\ construct' = a /\ field' = Empty(a)
   /\ rows' = 1..InitRows
   /\ pc' = "idle"
   /\ UNCHANGED <<runs, cur, todo, delta, total, new, derived>>

RunStart(b) ==
   /\ pc = "idle" /\ Len(runs) < MaxRuns
   /\ cur' = b /\ runs' = Append(runs, b)
   /\ field' = IF ResetOnRun THEN Empty(b) ELSE field
   /\ todo' = rows /\ derived' = FALSE
   /\ pc' = "reindex"
   /\ UNCHANGED <<construct, rows, delta, total, new>>

(* update_indices: every row is inserted by some worker of the current pool *)
Reindex(r, th) ==
   /\ pc = "reindex" /\ r \in todo /\ th \in 0..(cur - 1)
   /\ field' = Put(field, th, r)
   /\ todo' = todo \ {r}
   /\ UNCHANGED <<pc, construct, runs, cur, rows, delta, total, new, derived>>

SccEnter ==
   /\ pc = "reindex" /\ todo = {}
   /\ delta' = field /\ field' = <<>>
   /\ total' = Empty(cur) /\ new' = Empty(cur)
   /\ pc' = "eval"
   /\ UNCHANGED <<construct, runs, cur, rows, todo, derived>>

(* a worker derives one new row in this run (at most one, to keep the model small) *)
Derive(th) ==
   /\ pc = "eval" /\ ~derived /\ th \in 0..(cur - 1)
   /\ LET r == Cardinality(rows) + 1 IN
      /\ rows' = rows \cup {r}
      /\ new' = Put(new, th, r)
   /\ derived' = TRUE
   /\ UNCHANGED <<pc, construct, runs, cur, todo, field, delta, total>>

Merge1 ==
   /\ pc = "eval"
   /\ total' = Move(delta, total) /\ delta' = new /\ new' = Empty(cur)
   /\ pc' = "merge2"
   /\ UNCHANGED <<construct, runs, cur, rows, todo, field, derived>>

Merge2 ==
   /\ pc = "merge2"
   /\ total' = Move(delta, total) /\ delta' = new /\ new' = Empty(cur)
   /\ pc' = "leave"
   /\ UNCHANGED <<construct, runs, cur, rows, todo, field, derived>>

Leave ==
   /\ pc = "leave"
   /\ field' = total /\ total' = <<>> /\ delta' = <<>> /\ new' = <<>>
   /\ pc' = "idle"
   /\ UNCHANGED <<construct, runs, cur, rows, todo, derived>>

Next == \/ \E a \in PoolSizes : Construct(a)
        \/ \E b \in PoolSizes : RunStart(b)
        \/ \E r \in rows, th \in 0..3 : Reindex(r, th)
        \/ SccEnter
        \/ \E th \in 0..3 : Derive(th)
        \/ Merge1 \/ Merge2 \/ Leave

Spec == Init /\ [][Next]_vars

--------------------------------------------------------------------------------
Count(vec, r) == LET flat == [ i \in 1..Len(vec) |-> Cardinality({ j \in DOMAIN vec[i] : vec[i][j] = r }) ]
                 IN  IF Len(vec) = 0 THEN 0 ELSE
                     LET RECURSIVE S(_) S(i) == IF i = 0 THEN 0 ELSE flat[i] + S(i - 1) IN S(Len(vec))

(* after every run: the stored index lists every row, exactly once *)
NoRowLost == (pc = "idle" /\ runs # <<>>) => \A r \in rows : Count(field, r) >= 1
IndexOnce == (pc = "idle" /\ runs # <<>>) => \A r \in rows : Count(field, r) <= 1

Emit == (pc = "idle" /\ Len(runs) = MaxRuns) =>
           PrintT("CFG " \o ToJson([construct |-> construct, runs |-> runs]))
================================================================================
