SPECIFICATION Spec
INVARIANTS Theorems Emit
CHECK_DEADLOCK FALSE
