SPECIFICATION Spec
CONSTANTS
  Vals <- QuickVals
  MaxLen = 4
  PMilles = {0, 10, 100, 250, 333, 500, 750, 900, 990, 999, 1000}
INVARIANTS BagInvariant Laws Emit
PROPERTY StepLaws
CHECK_DEADLOCK FALSE
