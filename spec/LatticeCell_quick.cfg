SPECIFICATION Spec
CONSTANTS
  PairNames <- AllNames
  TripleNames <- SmallNames
  Triples = TRUE
INVARIANTS TypeOK Closed PairLaws BoundLaws DualLaws MutLaws OrdLaws TripleLaws HistLaws Emit
CHECK_DEADLOCK FALSE
