SPECIFICATION Spec
INVARIANTS Emit
CHECK_DEADLOCK FALSE
