------------------------------ MODULE IndexConc ------------------------------
(***************************************************************************)
(* The concurrent half of property C19: several callers work on ONE shared *)
(* concurrent index (CRelIndex / CRelNoIndex / CLatIndex / CRelFullIndex)  *)
(* through `&self` (CRelIndexWrite::index_insert,                          *)
(* CRelFullIndexWrite::insert_if_not_present).  The index is sharded; a    *)
(* call locks the shard of its key for the whole of its check and update.  *)
(*                                                                         *)
(* Scenario "race":    every caller calls insert_if_not_present(key, v_c)  *)
(*                     on the SAME key (v_c = the caller's own value).     *)
(*                     call start / lock / look up / insert / unlock+return*)
(* Scenario "inserts": every caller performs its own little program of     *)
(*                     index_insert(k, v) calls; the programs are chosen   *)
(*                     in Init (all assignments of keys), values identify  *)
(*                     the individual insert.                              *)
(* Lemmas (TLC, all interleavings): exactly one winner of the race, the    *)
(* value stored is the winner's, every loser started to look after the     *)
(* winner had inserted; every insert of every caller is retained, once.    *)
(* Terminal states print an OUT line: the outcomes the engine admits for   *)
(* an observed concurrent round.                                           *)
(*                                                                         *)
(* Atomic = FALSE describes a (wrong) implementation that looks the key up *)
(* WITHOUT holding the shard lock until its insert -- used only to show    *)
(* that the lemmas tell the difference (configuration IndexConc_broken).   *)
(***************************************************************************)
EXTENDS Integers, Sequences, FiniteSets, TLC, Json, FiniteSetsExt

CONSTANTS Callers,    \* 1..n
          Keys,       \* keys of the "inserts" scenario
          PerCaller,  \* inserts per caller in the "inserts" scenario
          Scenarios,  \* subset of {"race", "inserts"}
          Atomic      \* BOOLEAN

VARIABLES scen, pc, lock, slot, seen, res, prog, done, content
vars == <<scen, pc, lock, slot, seen, res, prog, done, content>>

(* lock: [shard -> 0 (free) or the caller holding it]; a key is its own shard, and shard 0 is the
   one of the race key *)
Shards == Keys \cup {0}
InsertId(c, j) == 10 * c + j

Init ==
   /\ scen \in Scenarios
   /\ pc = [c \in Callers |-> "start"]
   /\ lock = [s \in Shards |-> 0]
   /\ slot = 0                                    \* the race key: 0 = absent, else the stored value
   /\ seen = [c \in Callers |-> FALSE]
   /\ res = [c \in Callers |-> "-"]
   /\ prog \in [Callers -> [1..PerCaller -> Keys]]  \* key of the j-th insert of caller c
   /\ (scen = "race") => prog = [c \in Callers |-> [j \in 1..PerCaller |-> CHOOSE k \in Keys : TRUE]]
   /\ done = [c \in Callers |-> 0]                \* completed inserts of caller c
   /\ content = [k \in Keys |-> <<>>]              \* per key: the vector of values pushed

--------------------------------------------------------------------------------
(* scenario "race": insert_if_not_present on one key *)
Acquire(c) ==
   /\ scen = "race" /\ pc[c] = "start" /\ lock[0] = 0
   /\ lock' = [lock EXCEPT ![0] = c]
   /\ pc' = [pc EXCEPT ![c] = "locked"]
   /\ UNCHANGED <<scen, slot, seen, res, prog, done, content>>

LookUp(c) ==
   /\ scen = "race"
   /\ IF Atomic THEN pc[c] = "locked" ELSE pc[c] = "start"       \* the broken variant looks without the lock
   /\ seen' = [seen EXCEPT ![c] = (slot = 0)]
   /\ pc' = [pc EXCEPT ![c] = "looked"]
   /\ UNCHANGED <<scen, lock, slot, res, prog, done, content>>

Return(c) ==
   /\ scen = "race" /\ pc[c] = "looked"
   /\ slot' = IF seen[c] THEN c ELSE slot
   /\ res' = [res EXCEPT ![c] = IF seen[c] THEN "won" ELSE "lost"]
   /\ lock' = IF Atomic THEN [lock EXCEPT ![0] = 0] ELSE lock
   /\ pc' = [pc EXCEPT ![c] = "ret"]
   /\ UNCHANGED <<scen, seen, prog, done, content>>

(* scenario "inserts": index_insert(k, v) = lock the shard of k, push, unlock *)
NextKey(c) == prog[c][done[c] + 1]

Lock(c) ==
   /\ scen = "inserts" /\ pc[c] = "start" /\ done[c] < PerCaller
   /\ lock[NextKey(c)] = 0
   /\ lock' = [lock EXCEPT ![NextKey(c)] = c]
   /\ pc' = [pc EXCEPT ![c] = "locked"]
   /\ UNCHANGED <<scen, slot, seen, res, prog, done, content>>

Push(c) ==
   /\ scen = "inserts" /\ pc[c] = "locked"
   /\ content' = [content EXCEPT ![NextKey(c)] = Append(@, InsertId(c, done[c] + 1))]
   /\ lock' = [lock EXCEPT ![NextKey(c)] = 0]
   /\ done' = [done EXCEPT ![c] = @ + 1]
   /\ pc' = [pc EXCEPT ![c] = IF done[c] + 1 = PerCaller THEN "ret" ELSE "start"]
   /\ UNCHANGED <<scen, slot, seen, res, prog>>

Next == \E c \in Callers : Acquire(c) \/ LookUp(c) \/ Return(c) \/ Lock(c) \/ Push(c)

Spec == Init /\ [][Next]_vars

--------------------------------------------------------------------------------
AllDone == \A c \in Callers : pc[c] = "ret"
Winners == {c \in Callers : res[c] = "won"}
Elems(s) == {s[i] : i \in DOMAIN s}

TypeOK == /\ \A c \in Callers : pc[c] \in {"start", "locked", "looked", "ret"}
          /\ \A s \in Shards : lock[s] \in Callers \cup {0}

(* X5: insert-if-absent succeeds for exactly one of the callers racing on a key *)
AtMostOneWinner == Cardinality(Winners) <= 1
OneWinner == scen = "race" /\ AllDone => /\ Cardinality(Winners) = 1
                                         /\ slot \in Winners          \* the stored value is the winner's
                                         /\ \A c \in Callers : res[c] \in {"won", "lost"}
StoredIsWinner == scen = "race" => (Winners = {} => slot = 0) /\ (Winners # {} => slot \in Winners)

(* X4: all concurrent inserts are retained, each once *)
Retained ==
   scen = "inserts" =>
      \A c \in Callers : \A j \in 1..PerCaller :
         LET here == {k \in Keys : InsertId(c, j) \in Elems(content[k])} IN
         IF j <= done[c]
            THEN /\ here = {prog[c][j]}
                 /\ Cardinality({i \in DOMAIN content[prog[c][j]] : content[prog[c][j]][i] = InsertId(c, j)}) = 1
            ELSE here = {}

(* no caller is ever stuck: a terminal state is a state in which everybody has returned *)
NoDeadlock == (~ENABLED Next) => AllDone

Outcome ==
   IF scen = "race"
      THEN [scenario |-> "race", callers |-> Cardinality(Callers), winners |-> Cardinality(Winners),
            stored_is_winners |-> slot \in Winners, retained |-> TRUE, lost |-> 0, extra |-> 0]
      ELSE [scenario |-> "inserts", callers |-> Cardinality(Callers), winners |-> 0, stored_is_winners |-> TRUE,
            retained |-> \A c \in Callers : \A j \in 1..PerCaller : InsertId(c, j) \in Elems(content[prog[c][j]]),
            lost |-> Cardinality(Callers) * PerCaller - Cardinality(UNION {Elems(content[k]) : k \in Keys}),
            extra |-> FoldSet(LAMBDA k, acc : acc + Len(content[k]), 0, Keys) - Cardinality(UNION {Elems(content[k]) : k \in Keys})]

Emit == AllDone => PrintT("OUT " \o ToJson(Outcome))
================================================================================
