------------------------------- MODULE AscentDesugar -------------------------------
(***************************************************************************)
(* The documented core expansion of the surface forms (property C07) as an *)
(* AST-to-AST function, applied after macro expansion:                     *)
(*   disjunction           -> one rule per choice of one disjunct each     *)
(*   ?pattern argument     -> fresh variable + `if let pattern = variable` *)
(*   _                     -> fresh variable                               *)
(*   repeated variable, constant or expression argument                    *)
(*                         -> fresh variable + `if variable == ...`        *)
(*   !r(args)              -> agg () = not() in r(args)                    *)
(*   several head clauses  -> one rule per head clause                     *)
(* AscentSem gives every surface form a direct meaning; the theorem        *)
(*   LeastModel(Core(P), edb) = LeastModel(P, edb)                         *)
(* (checked by TLC on every enumerated input of every sugared corpus       *)
(* program) states that this meaning IS the documented expansion.          *)
(***************************************************************************)
EXTENDS SemiNaive

FreshName(base, n) == base \o "__c" \o ToString(n)

PatVars(p) ==
   LET RECURSIVE PV(_)
       PV(q) == CASE q.p = "var" -> { q.n }
                  [] q.p = "some" -> PV(q.q)
                  [] q.p = "tup" -> UNION { PV(q.qs[i]) : i \in DOMAIN q.qs }
                  [] OTHER -> {}
   IN PV(p)

(* one clause: returns [args, conds, bound, n] *)
RECURSIVE CoreArgs(_, _, _, _, _, _)
CoreArgs(args, i, bound, here, n, acc) ==
   IF i > Len(args) THEN [ args |-> acc.args, conds |-> acc.conds, bound |-> bound \cup here, n |-> n ]
   ELSE LET a == args[i]
            v == FreshName("a", n)
            eqc(e) == [ t |-> "if", e |-> [ op |-> "eq", a |-> VarE(v), b |-> e ] ]
        IN
        CASE a.k = "w" ->
               CoreArgs(args, i + 1, bound, here, n + 1, [ args |-> Append(acc.args, VarA(v)), conds |-> acc.conds ])
          [] a.k = "v" ->
               IF a.n \in bound \cup here
               THEN CoreArgs(args, i + 1, bound, here, n + 1,
                             [ args |-> Append(acc.args, VarA(v)), conds |-> Append(acc.conds, eqc(VarE(a.n))) ])
               ELSE CoreArgs(args, i + 1, bound, here \cup { a.n }, n, [ args |-> Append(acc.args, a), conds |-> acc.conds ])
          [] a.k = "c" ->
               CoreArgs(args, i + 1, bound, here, n + 1,
                        [ args |-> Append(acc.args, VarA(v)), conds |-> Append(acc.conds, eqc([ op |-> "lit", v |-> a.v ])) ])
          [] a.k = "e" ->
               CoreArgs(args, i + 1, bound, here, n + 1,
                        [ args |-> Append(acc.args, VarA(v)), conds |-> Append(acc.conds, eqc(a.e)) ])
          [] a.k = "p" ->
               CoreArgs(args, i + 1, bound, here \cup PatVars(a.p), n + 1,
                        [ args |-> Append(acc.args, VarA(v)),
                          conds |-> Append(acc.conds, [ t |-> "iflet", p |-> a.p, e |-> VarE(v) ]) ])

RECURSIVE CoreItems(_, _, _, _, _)
CoreItems(items, i, bound, n, acc) ==
   IF i > Len(items) THEN acc
   ELSE LET it == items[i] IN
        CASE it.t = "cl" ->
               LET r == CoreArgs(it.args, 1, bound, {}, n, [ args |-> <<>>, conds |-> <<>> ])
                   condVars == UNION { IF it.conds[j].t \in {"let", "iflet"} THEN PatVars(it.conds[j].p) ELSE {} : j \in DOMAIN it.conds }
               IN  CoreItems(items, i + 1, r.bound \cup condVars, r.n,
                             Append(acc, [ it EXCEPT !.args = r.args, !.conds = r.conds \o @ ]))
          [] it.t = "neg" ->
               CoreItems(items, i + 1, bound, n,
                         Append(acc, [ t |-> "agg", p |-> [p |-> "wild"], f |-> "not", bound |-> <<>>, rel |-> it.rel, args |-> it.args ]))
          [] it.t \in {"let", "iflet", "for", "agg"} ->
               CoreItems(items, i + 1, bound \cup PatVars(it.p), n, Append(acc, it))
          [] OTHER -> CoreItems(items, i + 1, bound, n, Append(acc, it))

(* the core program: macro-expanded, disjunction-free, one head per rule, core clause arguments only *)
Core(P0) ==
   LET P == MacroExpand(P0)
       rs == ConjRules(P)
       RECURSIVE From(_)
       From(j) == IF j > Len(rs) THEN <<>>
                  ELSE LET body == CoreItems(rs[j].body, 1, {}, 1, <<>>)
                       IN  [ h \in 1..Len(rs[j].heads) |-> [ heads |-> << rs[j].heads[h] >>, body |-> body ] ] \o From(j + 1)
   IN  [ P EXCEPT !.rules = From(1), !.macros = <<>> ]

IsCoreArg(a) == a.k = "v"
RECURSIVE IsCoreItems(_, _)
IsCoreItems(items, i) ==
   i > Len(items) \/
   ( /\ items[i].t \notin {"neg", "disj", "mac"}
     /\ items[i].t = "cl" => \A j \in DOMAIN items[i].args : IsCoreArg(items[i].args[j])
     /\ IsCoreItems(items, i + 1) )

IsCore(P) == \A j \in DOMAIN P.rules : Len(P.rules[j].heads) = 1 /\ IsCoreItems(P.rules[j].body, 1)

(* C07 at the level of the specification *)
DesugarTheorem(P0, edb) ==
   LET C == Core(P0) IN
   /\ IsCore(C)
   /\ LeastModel(C, edb) = LeastModel(P0, edb)
   /\ Core(C).rules = C.rules                  \* expanding a core program changes nothing
================================================================================
