SPECIFICATION Spec
CONSTANTS
  Kinds <- AllKinds
  Keys = {1, 2}
  Vals = {1, 2, 3}
  MaxLen <- QuickLen
  Canon = TRUE
INVARIANTS TypeOK CombinedIsUnion Emit
PROPERTIES MergeLemma MergeConserves InsertLocal FreezeLaws
CHECK_DEADLOCK FALSE
