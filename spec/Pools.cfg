SPECIFICATION Spec
CONSTANTS
  PoolSizes = {1, 2, 3, 4}
  MaxRuns = 2
  InitRows = 2
  ResetOnRun = TRUE
INVARIANTS NoRowLost IndexOnce Emit
CHECK_DEADLOCK FALSE
