SPECIFICATION Spec
CONSTANTS
  Callers = {1, 2}
  Keys = {1, 2}
  PerCaller = 1
  Scenarios = {"race"}
  Atomic = FALSE
INVARIANTS TypeOK AtMostOneWinner OneWinner StoredIsWinner
CHECK_DEADLOCK FALSE
