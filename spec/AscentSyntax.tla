------------------------------ MODULE AscentSyntax ------------------------------
(***************************************************************************)
(* Static well-formedness of an Ascent program (property C15).             *)
(*                                                                         *)
(* WellFormed(P, par) is the conjunction of one named predicate per way a  *)
(* program can be ill-formed according to the property; each predicate is  *)
(* TRUE when the program is fine.  `par` says whether the program is       *)
(* handed to a parallel macro (ascent_par! / ascent_run_par!): the only    *)
(* place where the macro matters is the attribute inter_rule_parallelism.  *)
(*                                                                         *)
(* The program is the JSON AST of DESIGN.md Appendix E.  Ill-formed        *)
(* programs (mutants) carry a few optional fields that well-formed corpus  *)
(* programs never have; every access is guarded by `Has`:                  *)
(*   rel.attrs          : names of relation attributes other than `ds`     *)
(*   rel.ds2            : a second `ds` attribute on the same relation     *)
(*   prog.attrs         : names of the program attributes (#![...])        *)
(*   prog.nested_include: the program is packaged through an ascent_source!*)
(*                        that itself contains an include_source!          *)
(* The predicates are total on ill-formed programs: nothing here applies   *)
(* RelOf / MacroExpand / Stratifiable to a program on which they are not   *)
(* defined (undeclared relation, cyclic macro definitions).                *)
(***************************************************************************)
EXTENDS AscentSem

Has(rec, f) == f \in DOMAIN rec

--------------------------------------------------------------------------------
(* in-program macros: the call graph must be acyclic *)
Macros(P) == IF Has(P, "macros") THEN P.macros ELSE <<>>
MacroNames(P) == { Macros(P)[i].name : i \in DOMAIN Macros(P) }

RECURSIVE ItemsCalls(_, _)
ItemCalls(it) ==
   CASE it.t = "mac"  -> { it.name }
     [] it.t = "disj" -> UNION { ItemsCalls(it.alts[a], 1) : a \in DOMAIN it.alts }
     [] OTHER -> {}
ItemsCalls(items, i) == IF i > Len(items) THEN {} ELSE ItemCalls(items[i]) \cup ItemsCalls(items, i + 1)

Calls(P, m) == ItemsCalls(MacroOf(P, m).body, 1) \cap MacroNames(P)

RECURSIVE CallsIter(_, _, _)
CallsIter(P, R, n) ==
   IF n = 0 THEN R
   ELSE CallsIter(P, [ m \in MacroNames(P) |-> R[m] \cup UNION { R[d] : d \in R[m] } ], n - 1)
CallsPlus(P) == CallsIter(P, [ m \in MacroNames(P) |-> Calls(P, m) ], Len(Macros(P)))

(* no macro can reach itself: neither directly nor through other macros, invoked by a rule or not *)
NoSelfReferentialMacro(P) == LET cp == CallsPlus(P) IN \A m \in MacroNames(P) : m \notin cp[m]

(* the program whose rules the remaining checks look at: macro invocations replaced by their meaning *)
(* when that is defined; otherwise the rules as written (invocations are then opaque items)          *)
Expanded(P) == IF NoSelfReferentialMacro(P) THEN MacroExpand(P) ELSE P

--------------------------------------------------------------------------------
(* every use of a relation: head clause, body clause, aggregated clause, negated clause *)
RECURSIVE ItemsUses(_, _)
ItemUses(it) ==
   CASE it.t \in {"cl", "agg", "neg"} -> { [rel |-> it.rel, n |-> Len(it.args), at |-> it.t] }
     [] it.t = "disj" -> UNION { ItemsUses(it.alts[a], 1) : a \in DOMAIN it.alts }
     [] OTHER -> {}
ItemsUses(items, i) == IF i > Len(items) THEN {} ELSE ItemUses(items[i]) \cup ItemsUses(items, i + 1)

RuleUses(rule) ==
   { [rel |-> rule.heads[h].rel, n |-> Len(rule.heads[h].args), at |-> "head"] : h \in DOMAIN rule.heads }
      \cup ItemsUses(rule.body, 1)

Uses(P) == LET X == Expanded(P) IN UNION { RuleUses(X.rules[j]) : j \in DOMAIN X.rules }

DeclaredRels(P) == \A u \in Uses(P) : u.rel \in RelNames(P)

ArityOk(P) == \A u \in Uses(P) : u.rel \in RelNames(P) => u.n = Arity(P, u.rel)

--------------------------------------------------------------------------------
(* a relation is never aggregated / negated from inside its own recursive component, neither by a rule *)
(* of its own nor through other rules (Stratifiable looks at components of the whole dependency graph) *)
Stratified(P) == (DeclaredRels(P) /\ NoSelfReferentialMacro(P)) => Stratifiable(MacroExpand(P))

--------------------------------------------------------------------------------
(* a variable that is already bound is never bound again.  A body is read left to right; a clause binds *)
(* its unbound plain variables (a bound one is an equality test); `?pattern` arguments, `let`, `if let`, *)
(* `for` and `agg` (result pattern and the aggregated variables) always BIND, so none of their          *)
(* variables may be bound already.  A disjunction forks: the check must hold along every alternative.   *)
RECURSIVE PatVars(_)
PatVars(p) ==
   CASE p.p = "var"  -> { p.n }
     [] p.p = "some" -> PatVars(p.q)
     [] p.p = "at"   -> { p.n } \cup PatVars(p.q)                 \* `n @ subpattern` binds n as well
     [] p.p = "tup"  -> UNION { PatVars(p.qs[i]) : i \in DOMAIN p.qs }
     [] OTHER -> {}

(* walk state: ok = no rebinding so far, bs = the possible sets of bound variables (one per path) *)
BindFresh(vs, st) == [ ok |-> st.ok /\ \A B \in st.bs : vs \cap B = {}, bs |-> { B \cup vs : B \in st.bs } ]

RECURSIVE BindArgs(_, _, _)
BindArgs(args, i, st) ==
   IF i > Len(args) THEN st
   ELSE LET a == args[i] IN
        BindArgs(args, i + 1,
                 CASE a.k = "v" -> [ st EXCEPT !.bs = { B \cup {a.n} : B \in @ } ]
                   [] a.k = "p" -> BindFresh(PatVars(a.p), st)
                   [] OTHER -> st)

WalkCond(c, st) == IF c.t \in {"let", "iflet"} THEN BindFresh(PatVars(c.p), st) ELSE st

RECURSIVE WalkConds(_, _, _)
WalkConds(cs, i, st) == IF i > Len(cs) THEN st ELSE WalkConds(cs, i + 1, WalkCond(cs[i], st))

RECURSIVE WalkItems(_, _, _)
WalkItem(it, st) ==
   CASE it.t = "cl" -> WalkConds(it.conds, 1, BindArgs(it.args, 1, st))
     [] it.t \in {"let", "iflet"} -> BindFresh(PatVars(it.p), st)
     [] it.t = "for" -> BindFresh(PatVars(it.p), st)
     [] it.t = "agg" -> BindFresh(PatVars(it.p),
                                  [ st EXCEPT !.ok = @ /\ \A B \in st.bs : { it.bound[i] : i \in DOMAIN it.bound } \cap B = {} ])
     [] it.t = "disj" ->
          LET rs == { WalkItems(it.alts[a], 1, st) : a \in DOMAIN it.alts }
          IN  [ ok |-> \A r \in rs : r.ok, bs |-> UNION { r.bs : r \in rs } ]
     [] OTHER -> st
WalkItems(items, i, st) == IF i > Len(items) THEN st ELSE WalkItems(items, i + 1, WalkItem(items[i], st))

RuleNoRebinding(rule) == WalkItems(rule.body, 1, [ ok |-> TRUE, bs |-> { {} } ]).ok

NoRebinding(P) == LET X == Expanded(P) IN \A j \in DOMAIN X.rules : RuleNoRebinding(X.rules[j])

--------------------------------------------------------------------------------
(* attributes *)
DsAttrs(r) == (IF r.ds # "-" THEN << r.ds >> ELSE <<>>) \o (IF Has(r, "ds2") THEN << r.ds2 >> ELSE <<>>)
RelAttrs(r) == IF Has(r, "attrs") THEN SeqRange(r.attrs) ELSE {}
ProgAttrs(P) == IF Has(P, "attrs") THEN SeqRange(P.attrs) ELSE {}

NoProviderOnLattice(P) == \A i \in DOMAIN P.rels : P.rels[i].kind = "lat" => Len(DsAttrs(P.rels[i])) = 0

OneDsAttribute(P) == \A i \in DOMAIN P.rels : Len(DsAttrs(P.rels[i])) <= 1

KnownProgAttrs(par) == {"generate_run_timeout", "measure_rule_times"} \cup (IF par THEN {"inter_rule_parallelism"} ELSE {})

KnownAttributes(P, par) ==
   /\ ProgAttrs(P) \subseteq KnownProgAttrs(par)
   /\ \A i \in DOMAIN P.rels : RelAttrs(P.rels[i]) = {}          \* `ds` is the only relation attribute (modelled by ds / ds2)

(* packaging: an ascent_source! never contains an include_source! *)
NoNestedInclude(P) == ~(Has(P, "nested_include") /\ P.nested_include)

--------------------------------------------------------------------------------
Checks(P, par) ==
   [ DeclaredRels |-> DeclaredRels(P), ArityOk |-> ArityOk(P), Stratified |-> Stratified(P),
     NoRebinding |-> NoRebinding(P), NoSelfReferentialMacro |-> NoSelfReferentialMacro(P),
     NoNestedInclude |-> NoNestedInclude(P), NoProviderOnLattice |-> NoProviderOnLattice(P),
     OneDsAttribute |-> OneDsAttribute(P), KnownAttributes |-> KnownAttributes(P, par) ]

Failed(P, par) == LET c == Checks(P, par) IN { n \in DOMAIN c : ~c[n] }

WellFormed(P, par) ==
   /\ DeclaredRels(P)
   /\ ArityOk(P)
   /\ Stratified(P)
   /\ NoRebinding(P)
   /\ NoSelfReferentialMacro(P)
   /\ NoNestedInclude(P)
   /\ NoProviderOnLattice(P)
   /\ OneDsAttribute(P)
   /\ KnownAttributes(P, par)
================================================================================
