------------------------------ MODULE Aggregators ------------------------------
(***************************************************************************)
(* Library aggregators of Ascent (ascent::aggregators) as functions of the *)
(* BAG of values an agg clause feeds them (property C17, used by C04).     *)
(* An aggregator yields a SEQUENCE of results (<<>> = "yields nothing").   *)
(*                                                                         *)
(* The module is also a small state machine -- a stream consumer that has  *)
(* been fed the sequence `fed` -- so that TLC enumerates every input up to *)
(* a length bound, checks the definitional laws in every state and prints  *)
(* one replay vector per state for the Rust side (agg-replay).             *)
(***************************************************************************)
EXTENDS AggDefs, TLC, Json, Functions

CONSTANTS Vals,      \* values fed to the aggregators
          MaxLen,    \* bound on the number of values
          PMilles,   \* percentile arguments in 1/10 percent (0 .. 1000)
          LongLens   \* lengths n of the additional long inputs <<1, .., n>> (rank arithmetic on large groups)

VARIABLE fed

--------------------------------------------------------------------------------
Init == \/ fed = <<>>
        \/ \E n \in LongLens : fed = [ i \in 1..n |-> i ]

Feed(v) == /\ Len(fed) < MaxLen
           /\ fed' = Append(fed, v)

Next == \E v \in Vals : Feed(v)

Spec == Init /\ [][Next]_fed

--------------------------------------------------------------------------------
(* Definitional laws, checked in every reachable state *)

BagInvariant ==          \* the result depends on the bag only, not on the arrival order
   LET s == Sorted(fed) IN
   /\ AggMin(s) = AggMin(fed) /\ AggMax(s) = AggMax(fed)
   /\ AggSum(s) = AggSum(fed) /\ AggCount(s) = AggCount(fed) /\ AggMean(s) = AggMean(fed)

Laws ==
   /\ fed # <<>> =>
         /\ AggMin(fed)[1] \in Elems(fed) /\ \A x \in Elems(fed) : AggMin(fed)[1] <= x
         /\ AggMax(fed)[1] \in Elems(fed) /\ \A x \in Elems(fed) : AggMax(fed)[1] >= x
         /\ AggMin(fed)[1] * Len(fed) <= SumSeq(fed) /\ SumSeq(fed) <= AggMax(fed)[1] * Len(fed)
   /\ fed = <<>> => /\ AggMin(fed) = <<>> /\ AggMax(fed) = <<>> /\ AggMean(fed) = <<>>
                    /\ AggSum(fed) = <<0>> /\ AggCount(fed) = <<0>> /\ AggNot(fed) = << <<>> >>
   /\ fed # <<>> => AggNot(fed) = <<>>
   /\ \A pm \in PMilles :
         /\ (fed = <<>>) <=> (PctAdmissible(fed, pm) = {})
         /\ PctAdmissible(fed, pm) \subseteq Elems(fed)
         /\ fed # <<>> => PctFloorRank(fed, pm)[1] \in PctAdmissible(fed, pm)

StepLaws ==              \* how one more value changes each result (action property)
   [][\E v \in Vals :
        /\ fed' = Append(fed, v)
        /\ AggCount(fed')[1] = AggCount(fed)[1] + 1
        /\ AggSum(fed')[1] = AggSum(fed)[1] + v
        /\ AggMin(fed')[1] = IF fed = <<>> \/ v < AggMin(fed)[1] THEN v ELSE AggMin(fed)[1]
        /\ AggMax(fed')[1] = IF fed = <<>> \/ v > AggMax(fed)[1] THEN v ELSE AggMax(fed)[1]
     ]_fed

--------------------------------------------------------------------------------
(* Replay vectors: one per state *)
Vector ==
   [ input |-> fed,
     min |-> AggMin(fed), max |-> AggMax(fed), sum |-> AggSum(fed), count |-> AggCount(fed),
     mean |-> AggMean(fed), nott |-> Len(AggNot(fed)),
     pct |-> [ i \in 1..Len(SetToSeq(PMilles)) |->
                 LET pm == SortSeq(SetToSeq(PMilles), LAMBDA a, b : a < b)[i] IN
                 [ pm |-> pm, adm |-> SetToSeq(PctAdmissible(fed, pm)), floor |-> PctFloorRank(fed, pm) ] ] ]

Emit == PrintT("VEC " \o ToJson(Vector))

(* constants of the shipped configurations (negative numbers cannot be written in a .cfg) *)
QuickVals == {-1, 0, 1, 2, 3}
ThoroughVals == {-1000000, -1, 0, 1, 2, 3, 1000000}
================================================================================
