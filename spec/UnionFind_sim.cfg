SPECIFICATION SimSpec
CONSTANTS
  Machines = {"trrel", "uf"}
  NTr = 8
  NUf = 8
  FullLenTr = 30
  MaxLenTr = 30
  FullLenUf = 30
  MaxLenUf = 30
  EmitMin = 6
  LeastBound = 0
INVARIANTS TypeOK TrClosureLaw TrLaws UfClosureLaw UfLaws Emit
CHECK_DEADLOCK FALSE
\* tlc -simulate num=K -depth 31 -seed S: SimNext draws ONE random successor per state (RandomElement), so a
\* behaviour is one random history of 30 operations and a vector is printed for each of its states of length
\* >= EmitMin.  Keep the *ClosureLaw invariants before the *Laws: comparing rel with its definition makes TLC
\* normalise the lazily built set, which the membership tests of the other invariants then profit from.
