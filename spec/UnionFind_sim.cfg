SPECIFICATION Spec
CONSTANTS
  Machines = {"trrel", "uf"}
  NTr = 8
  NUf = 8
  FullLenTr = 30
  MaxLenTr = 30
  FullLenUf = 30
  MaxLenUf = 30
  EmitMin = 6
  LeastBound = 0
INVARIANTS TypeOK TrClosureLaw TrLaws UfClosureLaw UfLaws Emit
CHECK_DEADLOCK FALSE
