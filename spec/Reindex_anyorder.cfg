SPECIFICATION Spec
CONSTANTS
  Keys = {k1, k2}
  Vals = {a, b}
  InOrder = FALSE
  MaxRows = 2
INVARIANTS IndexedRowIsJoin
CHECK_DEADLOCK FALSE
