--------------------------------- MODULE Reindex ---------------------------------
(***************************************************************************)
(* The start of run() for ONE lattice relation (update_indices_priv, then  *)
(* the re-derivation of everything derivable): the caller may have pushed  *)
(* further rows, also for keys that already have a row (finding F19).      *)
(*                                                                         *)
(*   rows   the relation field: a sequence of <<key, value>>, values are   *)
(*          sets ordered by inclusion (the Set lattice); rows are never    *)
(*          removed                                                        *)
(*   idx    the key index, key -> row number, rebuilt from scratch by      *)
(*          Index(i) steps: index_insert OVERWRITES                        *)
(*   todo   the facts <<key, value>> the rules derive again in this run    *)
(*          (everything derived in earlier runs is derived again, since    *)
(*          every stored row starts in delta)                              *)
(*                                                                         *)
(* Index(i) steps happen in row order when InOrder (serial macros; the     *)
(* parallel macros after the repair) and in ANY order otherwise (parallel  *)
(* macros before the repair: a rayon for_each over the row numbers).       *)
(* Derive(f) joins the fact into the row the index points at, or appends   *)
(* a row for a new key.                                                    *)
(*                                                                         *)
(* Property (C13 for lattices): when everything is indexed and re-derived, *)
(* for every key the row the index points at holds the join of ALL rows    *)
(* of that key - so a rule that needs the joined value fires, as it does   *)
(* in a fresh run on everything pushed.                                    *)
(***************************************************************************)
EXTENDS Naturals, Sequences, FiniteSets, SequencesExt, TLC

CONSTANTS Keys, Vals, InOrder, MaxRows

VARIABLES rows, idx, done, todo
vars == <<rows, idx, done, todo>>

RowSet == 1..Len(rows)
NoRow == 0

(* initial states: what an earlier run left (one row per key, each with the value derived for it) followed by the rows *)
(* the caller pushed afterwards (any keys, any values); the facts of the earlier run will be derived again            *)
Derived == [ Keys -> SUBSET Vals ]
InitRows(d, pushed) ==
   LET ks == SetToSeq({ k \in Keys : d[k] # {} })
   IN  [ i \in 1..Len(ks) |-> << ks[i], d[ks[i]] >> ] \o pushed

Init ==
   \E d \in Derived :
   \E n \in 0..MaxRows : \E pushed \in [ 1..n -> Keys \X ((SUBSET Vals) \ {{}}) ] :
      \* at most one pushed row per key (two pushed rows for one key are duplicates made by the caller: already a fresh
      \* run on them keeps one of them unjoined, so the properties say nothing about them)
      /\ \A i, j \in 1..n : i # j => pushed[i][1] # pushed[j][1]
      /\ rows = InitRows(d, pushed)
      /\ idx = [ k \in Keys |-> NoRow ]
      /\ done = {}
      /\ todo = { << k, d[k] >> : k \in { k2 \in Keys : d[k2] # {} } }

Index(i) ==
   /\ i \in RowSet \ done
   /\ InOrder => \A j \in RowSet : j < i => j \in done
   /\ idx' = [idx EXCEPT ![rows[i][1]] = i]             \* index_insert overwrites
   /\ done' = done \cup {i}
   /\ UNCHANGED <<rows, todo>>

Derive(f) ==
   /\ done = RowSet                                     \* evaluation starts after update_indices
   /\ f \in todo
   /\ todo' = todo \ {f}
   /\ IF idx[f[1]] = NoRow
      THEN /\ rows' = Append(rows, f) /\ idx' = [idx EXCEPT ![f[1]] = Len(rows) + 1] /\ done' = done \cup {Len(rows) + 1}
      ELSE /\ rows' = [rows EXCEPT ![idx[f[1]]] = << f[1], @[2] \cup f[2] >>]
           /\ UNCHANGED <<idx, done>>

Next == (\E i \in RowSet : Index(i)) \/ (\E f \in todo : Derive(f))
Spec == Init /\ [][Next]_vars

Finished == done = RowSet /\ todo = {}

JoinOfKey(k) == UNION { rows[i][2] : i \in { j \in RowSet : rows[j][1] = k } }

(* the row the index points at carries the join of everything stored for its key *)
IndexedRowIsJoin ==
   Finished => \A k \in Keys : idx[k] # NoRow => rows[idx[k]][2] = JoinOfKey(k)

(* every key with a row is indexed *)
EveryKeyIndexed ==
   Finished => \A i \in RowSet : idx[rows[i][1]] # NoRow
================================================================================
