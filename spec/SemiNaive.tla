-------------------------------- MODULE SemiNaive --------------------------------
(***************************************************************************)
(* The evaluation strategy of the generated code, written from             *)
(* ascent_mir.rs / ascent_codegen.rs (an implementation-shaped model):     *)
(*                                                                         *)
(*  Plan      disjunctions are multiplied out into conjunctive rules; the  *)
(*            rule dependency graph (r1 -> r2 iff a head relation of r1    *)
(*            occurs in a body clause, agg or negation of r2) is condensed *)
(*            into SCCs evaluated in a topological order; the head         *)
(*            relations of an SCC are its DYNAMIC relations; the SCC loops *)
(*            iff a dynamic relation occurs in one of its bodies.          *)
(*  Versions  a rule with n dynamic body clauses is compiled into the n    *)
(*            variants (delta, total+delta, ..), (total, delta, total+delta*)
(*            ..), .., (total, .., total, delta); no dynamic clause: one   *)
(*            variant reading total.                                       *)
(*  SCC       delta := what the dynamic relations hold, total := {};       *)
(*            repeat { new := heads of every variant that are not in total *)
(*            or delta; total := total + delta; delta := new }             *)
(*            until nothing was added (a non-looping SCC runs once).       *)
(*                                                                         *)
(* Theorem (checked by TLC for every corpus program and every enumerated   *)
(* input): the database this strategy computes equals AscentSem's          *)
(* LeastModel. Lattice relations: the model keeps one row per key and      *)
(* joins in place, as the generated code does.                             *)
(***************************************************************************)
EXTENDS AscentSem

--------------------------------------------------------------------------------
(* disjunction product (rule_desugar_disjunction_nodes) *)
RECURSIVE Conjunctions(_, _)
RECURSIVE AltConjunctions(_, _)
AltConjunctions(alts, a) ==      \* all conjunctions of all alternatives a..Len(alts)
   IF a > Len(alts) THEN {} ELSE Conjunctions(alts[a], 1) \cup AltConjunctions(alts, a + 1)
Conjunctions(items, i) ==        \* set of disjunction-free item sequences for items[i..]
   IF i > Len(items) THEN { <<>> }
   ELSE LET rest == Conjunctions(items, i + 1)
            here == IF items[i].t = "disj" THEN AltConjunctions(items[i].alts, 1) ELSE { << items[i] >> }
        IN  { h \o r : h \in here, r \in rest }

ConjRules(P) ==                  \* sequence of disjunction-free rules
   LET RECURSIVE From(_)
       From(j) == IF j > Len(P.rules) THEN <<>>
                  ELSE LET cs == SetToSeq(Conjunctions(P.rules[j].body, 1))
                       IN [ c \in 1..Len(cs) |-> [heads |-> P.rules[j].heads, body |-> cs[c]] ] \o From(j + 1)
   IN From(1)

--------------------------------------------------------------------------------
(* the plan *)
BodyRels(rule) == { d[1] : d \in RuleDeps(rule) }
RuleEdges(rs) == { <<a, b>> \in (1..Len(rs)) \X (1..Len(rs)) : HeadRels(rs[a]) \cap BodyRels(rs[b]) # {} }

RECURSIVE ReachR(_, _, _)
ReachR(N, R, n) ==
   IF n = 0 THEN R
   ELSE ReachR(N, TLCEval([ a \in N |-> TLCEval(R[a] \cup UNION { R[b] : b \in R[a] }) ]), n - 1)

RuleReach(rs) ==
   LET N == 1..Len(rs)
       E == RuleEdges(rs)
   IN  ReachR(N, TLCEval([ a \in N |-> TLCEval({ b \in N : <<a, b>> \in E }) ]), 6)

SccOf(reach, a) == { a } \cup { b \in DOMAIN reach : b \in reach[a] /\ a \in reach[b] }
Sccs(rs) == LET reach == RuleReach(rs) IN { SccOf(reach, a) : a \in 1..Len(rs) }

(* depth of an SCC in the condensation = length of the longest chain of SCCs it depends on *)
RECURSIVE DepthIter(_, _, _, _)
DepthIter(rs, reach, dp, n) ==
   IF n = 0 THEN dp
   ELSE DepthIter(rs, reach,
           TLCEval([ a \in 1..Len(rs) |->
              LET preds == { b \in 1..Len(rs) : a \in reach[b] /\ b \notin SccOf(reach, a) }
              IN  IF preds = {} THEN 0 ELSE 1 + Max({ dp[b] : b \in preds }) ]), n - 1)

Depths(rs) == LET reach == RuleReach(rs) IN DepthIter(rs, reach, TLCEval([ a \in 1..Len(rs) |-> 0 ]), Len(rs))

(* SCCs in an evaluation order (any topological order is allowed; ties broken by the smallest rule index) *)
SccOrder(rs) ==
   LET dp == Depths(rs)
       S == Sccs(rs)
       key(s) == << Max({ dp[a] : a \in s }), Min(s) >>
   IN  SortSeq(SetToSeq(S), LAMBDA s1, s2 : key(s1)[1] < key(s2)[1] \/ (key(s1)[1] = key(s2)[1] /\ key(s1)[2] < key(s2)[2]))

Dynamic(rs, scc) == UNION { HeadRels(rs[a]) : a \in scc }
IsLooping(rs, scc) == \E a \in scc : BodyRels(rs[a]) \cap Dynamic(rs, scc) # {}

(* positions of the dynamic body CLAUSES of a rule (agg / negation never read a dynamic relation in a      *)
(* stratifiable program)                                                                                  *)
DynPositions(rule, dyn) == { i \in 1..Len(rule.body) : rule.body[i].t = "cl" /\ rule.body[i].rel \in dyn }

(* negative control (overridden to TRUE by SemGen_sn_broken.cfg): the plan without the last version vector of    *)
(* rules with >= 2 dynamic clauses must NOT compute the least model, otherwise SemiNaiveCorrect is vacuous       *)
DropLastVariant == FALSE
Yes == TRUE

(* version vectors: for the k-th dynamic clause being the delta one: earlier ones total, later ones total+delta *)
Variants(rule, dyn) ==
   LET pos == SortSeq(SetToSeq(DynPositions(rule, dyn)), <)
   IN  IF pos = <<>> THEN { [ i \in {} |-> "t" ] }
       ELSE { [ i \in SeqRange(pos) |->
                 LET me == CHOOSE j \in 1..Len(pos) : pos[j] = i
                 IN  IF me < k THEN "t" ELSE IF me = k THEN "d" ELSE "td" ] :
                 k \in 1..(IF DropLastVariant /\ Len(pos) > 1 THEN Len(pos) - 1 ELSE Len(pos)) }

--------------------------------------------------------------------------------
(* evaluating one variant: dynamic clause i reads the version ver[i]; the three versions of a dynamic relation *)
(* r are offered to the interpreter under the names r@d, r@t, r@td                                           *)
Versioned(rule, ver) ==
   [ rule EXCEPT !.body = [ i \in DOMAIN @ |-> IF i \in DOMAIN ver THEN [ @[i] EXCEPT !.rel = @ \o "@" \o ver[i] ] ELSE @[i] ] ]

ViewDb(db, dyn, total, delta) ==
   LET names == DOMAIN db \cup { r \o "@d" : r \in dyn } \cup { r \o "@t" : r \in dyn } \cup { r \o "@td" : r \in dyn }
       base(n) == CHOOSE r \in dyn : n \in { r \o "@d", r \o "@t", r \o "@td" }
   IN  TLCEval([ n \in names |->
          IF n \in DOMAIN db THEN db[n]
          ELSE LET r == base(n) IN
               IF n = r \o "@d" THEN delta[r] ELSE IF n = r \o "@t" THEN total[r] ELSE TLCEval(total[r] \cup delta[r]) ])

(* one iteration of an SCC. st = [total, delta, db]: db holds ALL rows (lattice rows updated in place);          *)
(* returns the state after the merge and whether anything changed                                              *)
Iteration(P, rs, scc, dyn, st) ==
   LET view == ViewDb(st.db, dyn, st.total, st.delta)
       derived == UNION { UNION { Conseq(Versioned(rs[a], ver), view) : ver \in Variants(rs[a], dyn) } : a \in scc }
       \* relations: a tuple is inserted iff it is in none of total / delta (and once into new)
       \* lattices : the row of the key is joined in place; it is re-queued iff it is fresh or its value changed
       db2 == AddFacts(P, st.db, derived)
       newOf(r) == IF IsLat(P, r) THEN { t \in db2[r] : t \notin st.db[r] }
                   ELSE { f[2] : f \in { g \in derived : g[1] = r } } \ (st.total[r] \cup st.delta[r])
       new == TLCEval([ r \in dyn |-> TLCEval(newOf(r)) ])
       \* a lattice row that changed leaves total/delta under its old value and re-enters through new
       keep(r, S) == IF IsLat(P, r) THEN { t \in S : t \in db2[r] } ELSE S
   IN  [ total |-> TLCEval([ r \in dyn |-> TLCEval(keep(r, st.total[r] \cup st.delta[r])) ]),
         delta |-> new,
         db |-> db2,
         changed |-> \E r \in dyn : new[r] # {} ]

RECURSIVE Loop(_, _, _, _, _, _)
Loop(P, rs, scc, dyn, st, fuel) ==
   LET st2 == Iteration(P, rs, scc, dyn, st)
   IN  IF ~st2.changed \/ fuel = 0 THEN st2 ELSE Loop(P, rs, scc, dyn, st2, fuel - 1)

EvalScc(P, rs, scc, db) ==
   LET dyn == Dynamic(rs, scc)
       st0 == [ total |-> TLCEval([ r \in dyn |-> {} ]), delta |-> TLCEval([ r \in dyn |-> db[r] ]), db |-> db, changed |-> TRUE ]
   IN  IF IsLooping(rs, scc) THEN Loop(P, rs, scc, dyn, st0, 200).db
       ELSE Iteration(P, rs, scc, dyn, st0).db

RECURSIVE EvalSccs(_, _, _, _, _)
EvalSccs(P, rs, order, i, db) ==
   IF i > Len(order) THEN db ELSE EvalSccs(P, rs, order, i + 1, EvalScc(P, rs, order[i], db))

(* the database the generated code computes from the pushed facts *)
SemiNaiveResult(P0, edb) ==
   LET P == Elaborate(P0)
       rs == ConjRules(P)
       init == AddFacts(P, EmptyDb(P), UNION { { <<r, t>> : t \in edb[r] } : r \in DOMAIN edb })
   IN  EvalSccs(P, rs, SccOrder(rs), 1, init)

(* ---- run_timeout (C14) at the level of the strategy: the deadline is checked after every iteration of every SCC; *)
(* when it fires the program value keeps the rows it has (the indices are dropped) and a later run()/run_timeout  *)
(* starts again from those rows. PartialStates = every database a timeout can leave behind.                       *)
RECURSIVE LoopDbs(_, _, _, _, _, _)
LoopDbs(P, rs, scc, dyn, st, fuel) ==
   LET st2 == Iteration(P, rs, scc, dyn, st)
   IN  { st2.db } \cup (IF ~st2.changed \/ fuel = 0 THEN {} ELSE LoopDbs(P, rs, scc, dyn, st2, fuel - 1))

RECURSIVE PartialFrom(_, _, _, _, _)
PartialFrom(P, rs, order, i, db) ==
   IF i > Len(order) THEN {}
   ELSE LET scc == order[i]
            dyn == Dynamic(rs, scc)
            st0 == [ total |-> TLCEval([ r \in dyn |-> {} ]), delta |-> TLCEval([ r \in dyn |-> db[r] ]), db |-> db, changed |-> TRUE ]
            here == IF IsLooping(rs, scc) THEN LoopDbs(P, rs, scc, dyn, st0, 200) ELSE { Iteration(P, rs, scc, dyn, st0).db }
        IN  here \cup PartialFrom(P, rs, order, i + 1, EvalScc(P, rs, scc, db))

PartialStates(P0, edb) ==
   LET P == Elaborate(P0)
       rs == ConjRules(P)
       init == AddFacts(P, EmptyDb(P), UNION { { <<r, t>> : t \in edb[r] } : r \in DOMAIN edb })
   IN  PartialFrom(P, rs, SccOrder(rs), 1, init)

(* every state a timeout can leave is sound, and resuming from it (a fresh evaluation over the rows left behind) *)
(* reaches exactly the least model of an uninterrupted run                                                       *)
TimeoutStatesSoundAndResumable(P0, edb) ==
   LET lm == LeastModel(P0, edb)
       EP == Elaborate(P0)
   IN  \A s \in PartialStates(P0, edb) : DbBelow(EP, s, lm) /\ SemiNaiveResult(P0, s) = lm

(* the plan, for comparison with `Program::summary()` *)
PlanOf(P0) ==
   LET P == Elaborate(P0)
       rs == ConjRules(P)
       order == SccOrder(rs)
   IN  [ i \in 1..Len(order) |->
          [ looping |-> IsLooping(rs, order[i]),
            dynamic |-> Dynamic(rs, order[i]),
            rules |-> { [ id |-> a, heads |-> HeadRels(rs[a]),
                          variants |-> Cardinality(Variants(rs[a], Dynamic(rs, order[i]))) ] : a \in order[i] } ] ]
================================================================================
