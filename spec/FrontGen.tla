-------------------------------- MODULE FrontGen --------------------------------
(***************************************************************************)
(* Evaluates AscentSyntax!WellFormed on every program of the file named by *)
(* the environment variable PROGS (ill-formed mutants and their unmutated  *)
(* twins): one state per program; the invariant Emit prints the prescribed *)
(* verdict ("VERDICT {...}") for the Rust side, once for the serial macros *)
(* (ascent!, ascent_run!) and once for the parallel ones.  The invariant   *)
(* Theorems states what must hold of the predicates on every program.      *)
(***************************************************************************)
EXTENDS AscentSyntax, Json, IOUtils

Progs == JsonDeserialize(IOEnv.PROGS)

VARIABLES pi
vars == <<pi>>

Init == pi \in 1..Len(Progs)
Next == UNCHANGED pi
Spec == Init /\ [][Next]_vars

P == Progs[pi]

Verdict(Q, par) == [ wellformed |-> WellFormed(Q, par), failed |-> Failed(Q, par) ]

Theorems ==
   /\ WellFormed(P, FALSE) <=> Failed(P, FALSE) = {}
   /\ WellFormed(P, TRUE) <=> Failed(P, TRUE) = {}
   /\ WellFormed(P, FALSE) => WellFormed(P, TRUE)            \* the parallel macros admit every serial program
   /\ WellFormed(P, TRUE) => Stratifiable(MacroExpand(P))    \* a well-formed program has a meaning (LeastModel is defined)

Emit == PrintT("VERDICT " \o ToJson([ name |-> P.name, ser |-> Verdict(P, FALSE), par |-> Verdict(P, TRUE) ]))
================================================================================
