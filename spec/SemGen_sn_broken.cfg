SPECIFICATION Spec
CONSTANTS DropLastVariant <- Yes
INVARIANTS SemiNaiveCorrect
CHECK_DEADLOCK FALSE
