SPECIFICATION Spec
CONSTANTS
  Tasks = {t1, t2, t3}
  Keys = {k1}
  Vals = {1, 2, 3}
  VecBackedLatIndex = FALSE
  Lattice = TRUE
INVARIANTS OneRowPerKey OneWinner NothingLost Requeued IndexOnce MutexOk
PROPERTY Terminates
CHECK_DEADLOCK FALSE
