SPECIFICATION Spec
INVARIANTS Theorems Emit
PROPERTY MonotoneStep
CHECK_DEADLOCK FALSE
