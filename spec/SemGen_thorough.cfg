SPECIFICATION Spec
INVARIANTS Theorems SemiNaiveCorrect Emit EmitPlan
PROPERTY MonotoneStep
CHECK_DEADLOCK FALSE
