SPECIFICATION Spec
INVARIANTS Theorems SemiNaiveCorrect DesugarCorrect Emit EmitPlan
PROPERTY MonotoneStep
CHECK_DEADLOCK FALSE
