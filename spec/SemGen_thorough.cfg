SPECIFICATION Spec
INVARIANTS Theorems SemiNaiveCorrect DesugarCorrect CodePlanCorrect EmitCover Emit EmitPlan
PROPERTY MonotoneStep
CHECK_DEADLOCK FALSE
