------------------------------ MODULE LatticeCell ------------------------------
(***************************************************************************)
(* One lattice cell of a shipped lattice type (property C16).              *)
(*                                                                         *)
(* The machine picks a type NAME from the table `Types` and two values a,  *)
(* b of its carrier ("a pair", depth = 2) and may then pick a third value  *)
(* c ("a triple", depth = 3).  TLC checks the lattice laws of module       *)
(* Lattices in every state -- so they are theorems of the specification    *)
(* over the configured carriers -- and prints one replay vector per state: *)
(*   pair   : join, meet, join_mut, meet_mut (value + changed flag),       *)
(*            partial_cmp, top / bottom                                    *)
(*   triple : the history of a cell that starts at a and is then           *)
(*            join_mut(b), meet_mut(c), join_mut(c)'ed, plus               *)
(*            join(join(a,b),c) and meet(meet(a,b),c)                      *)
(* lat-replay executes every vector on the real Rust type of that name.    *)
(*                                                                         *)
(* The table maps a name to a type expression of module Lattices; the Rust *)
(* type of the same name is fixed in harness/lat-replay/src/main.rs.       *)
(***************************************************************************)
EXTENDS Lattices, Json

CONSTANTS PairNames,     \* names of the types whose pairs are enumerated
          TripleNames,   \* names of the types whose triples are enumerated as well
          Triples        \* BOOLEAN: enumerate triples at all

VARIABLES tyname, a, b, c, depth
vars == <<tyname, a, b, c, depth>>

--------------------------------------------------------------------------------
(* The type table (negative numbers cannot be written in a .cfg) *)
I8(vals) == [k |-> "int", lo |-> -128, hi |-> 127, vals |-> vals]
U8(vals) == [k |-> "int", lo |-> 0, hi |-> 255, vals |-> vals]
Bool == [k |-> "bool"]
Unit == [k |-> "unit"]
Dual(t) == [k |-> "dual", of |-> t]                         \* Dual<T>, std::cmp::Reverse<T>
Same(t) == [k |-> "same", of |-> t, bounded |-> FALSE]      \* Box / Rc / Arc / OrdLattice: no BoundedLattice
Opt(t) == [k |-> "opt", of |-> t]
SetOf(s) == [k |-> "set", el |-> s]
BSet(n, s) == [k |-> "bset", el |-> s, n |-> n]
Cp(s) == [k |-> "cp", el |-> s]
Prod(ts) == [k |-> "prod", of |-> ts]
Lex(ts) == [k |-> "lex", of |-> ts]

I8Full == I8({-128, -1, 0, 1, 2, 127})
I8Small == I8({-128, 0, 1, 127})
I8Tiny == I8({-128, 0, 127})
E3 == {0, 1, 2}

Types ==
   [ i8            |-> I8Full,                                  \* i8
     u8            |-> U8({0, 1, 2, 255}),                      \* u8
     bool          |-> Bool,                                    \* bool
     unit          |-> Unit,                                    \* ()
     dual_i8       |-> Dual(I8Full),                            \* Dual<i8>
     rev_i8        |-> Dual(I8Full),                            \* Reverse<i8>
     dual_dual_i8  |-> Dual(Dual(I8Full)),                      \* Dual<Dual<i8>>
     box_i8        |-> Same(I8Full),                            \* Box<i8>
     rc_i8         |-> Same(I8Full),                            \* Rc<i8>
     arc_i8        |-> Same(I8Full),                            \* Arc<i8>
     ordlat_i8     |-> Same(I8Full),                            \* OrdLattice<i8>
     rc_set        |-> Same(SetOf(E3)),                         \* Rc<Set<i8>>
     arc_prod      |-> Same(Prod(<<I8Small, I8Small>>)),        \* Arc<Product<(i8,i8)>>
     box_set       |-> Same(SetOf(E3)),                         \* Box<Set<i8>>
     opt_i8        |-> Opt(I8Full),                             \* Option<i8>
     opt_dual_i8   |-> Opt(Dual(I8Full)),                       \* Option<Dual<i8>>
     dual_opt_i8   |-> Dual(Opt(I8Full)),                       \* Dual<Option<i8>>
     opt_opt       |-> Opt(Opt(I8Small)),                       \* Option<Option<i8>>
     set_i8        |-> SetOf(E3),                               \* Set<i8>
     dual_set      |-> Dual(SetOf(E3)),                         \* Dual<Set<i8>>
     rev_set       |-> Dual(SetOf(E3)),                         \* Reverse<Set<i8>>
     bset2         |-> BSet(2, E3),                             \* BoundedSet<2,i8>
     bset1         |-> BSet(1, E3),                             \* BoundedSet<1,i8>
     bset0         |-> BSet(0, E3),                             \* BoundedSet<0,i8>
     dual_bset2    |-> Dual(BSet(2, E3)),                       \* Dual<BoundedSet<2,i8>>
     cp_i8         |-> Cp({0, 1}),                              \* ConstPropagation<i8>
     dual_cp       |-> Dual(Cp({0, 1})),                        \* Dual<ConstPropagation<i8>>
     opt_cp        |-> Opt(Cp({0, 1})),                         \* Option<ConstPropagation<i8>>
     prod1         |-> Prod(<<I8Full>>),                        \* Product<(i8,)>
     prod2         |-> Prod(<<I8Small, Dual(I8Small)>>),        \* Product<(i8,Dual<i8>)>
     prod3         |-> Prod(<<Bool, I8Tiny, Opt(I8Tiny)>>),     \* Product<(bool,i8,Option<i8>)>
     prod_set      |-> Prod(<<SetOf(E3), BSet(1, {0, 1})>>),    \* Product<(Set<i8>,BoundedSet<1,i8>)>
     prod_cp       |-> Prod(<<Cp({0, 1}), Cp({0, 1})>>),        \* Product<(ConstPropagation<i8>,ConstPropagation<i8>)>
     parr2         |-> Prod(<<I8Small, I8Small>>),              \* Product<[i8;2]>
     parr3         |-> Prod(<<Bool, Bool, Bool>>),              \* Product<[bool;3]>
     lex1          |-> Lex(<<I8Full>>),                         \* (i8,)
     lex2          |-> Lex(<<I8Small, Dual(I8Small)>>),         \* (i8,Dual<i8>)
     lex3          |-> Lex(<<Bool, I8Tiny, Opt(I8Tiny)>>),      \* (bool,i8,Option<i8>)
     dual_opt_prod |-> Dual(Opt(Prod(<<I8Small, Bool>>)))       \* Dual<Option<Product<(i8,bool)>>>
   ]

AllNames == DOMAIN Types
(* the types with a carrier of at most 8 values: their triples are cheap (quick tier) *)
SmallNames == { n \in AllNames : Cardinality(Carrier(Types[n])) <= 8 }

ASSUME PairNames \subseteq AllNames /\ TripleNames \subseteq PairNames /\ Triples \in BOOLEAN
(* the type expressions, once, for the type-directed comparison on the Python side *)
ASSUME PrintT("TYP " \o ToJson([ n \in PairNames |-> Types[n] ]))

--------------------------------------------------------------------------------
ty == Types[tyname]
NoValue == "-"

Init == /\ tyname \in PairNames
        /\ a \in Carrier(Types[tyname])
        /\ b \in Carrier(Types[tyname])
        /\ c = NoValue
        /\ depth = 2

Third == /\ Triples
         /\ depth = 2
         /\ tyname \in TripleNames
         /\ c' \in Carrier(ty)
         /\ depth' = 3
         /\ UNCHANGED <<tyname, a, b>>

Next == Third

Spec == Init /\ [][Next]_vars

--------------------------------------------------------------------------------
(* Invariants: the laws, as theorems of the specification over the carriers *)
TypeOK == /\ tyname \in PairNames
          /\ a \in Carrier(ty) /\ b \in Carrier(ty)
          /\ depth \in {2, 3}
          /\ (depth = 3) => c \in Carrier(ty)

Closed ==   \* the carriers are closed under the operations (so triples cover nested applications)
   /\ Join(ty, a, b) \in Carrier(ty)
   /\ Meet(ty, a, b) \in Carrier(ty)

PairLaws == LawsPair(ty, a, b)

BoundLaws ==
   /\ LawsBounds(ty, a)
   /\ IsBounded(ty) =>
         /\ Join(ty, a, Top(ty)) = Top(ty) /\ Meet(ty, a, Top(ty)) = a
         /\ Join(ty, a, Bottom(ty)) = a /\ Meet(ty, a, Bottom(ty)) = Bottom(ty)
         /\ (Leq(ty, Top(ty), a) => a = Top(ty)) /\ (Leq(ty, a, Bottom(ty)) => a = Bottom(ty))

DualLaws == LawsDual(ty, a, b)

MutLaws ==  \* join_mut / meet_mut leave join / meet and report `changed` truthfully
   LET j == JoinMut(ty, a, b)
       m == MeetMut(ty, a, b)
   IN  /\ j.v = Join(ty, a, b) /\ m.v = Meet(ty, a, b)
       /\ j.changed <=> (j.v # a)
       /\ m.changed <=> (m.v # a)
       /\ j.changed <=> ~Leq(ty, b, a)      \* nothing to learn from b exactly when b <= a
       /\ m.changed <=> ~Leq(ty, a, b)

(* types on which Rust's total order `Ord` (operator Cmp) is defined *)
RECURSIVE HasOrd(_)
HasOrd(t) ==
   CASE t.k \in {"int", "bool", "unit"} -> TRUE
     [] t.k \in {"dual", "same", "opt"} -> HasOrd(t.of)
     [] t.k = "lex" -> \A i \in 1..Len(t.of) : HasOrd(t.of[i])
     [] OTHER -> FALSE

OrdLaws ==  \* the lexicographic order is total and is the partial order of the type
   /\ ty.k = "lex" => HasOrd(ty) /\ PartialCmp(ty, a, b) # "none"
   /\ HasOrd(ty) =>
         /\ Cmp(ty, a, b) = 0 - Cmp(ty, b, a)
         /\ (Cmp(ty, a, b) = 0) <=> (a = b)
         /\ Leq(ty, a, b) <=> (Cmp(ty, a, b) <= 0)
         /\ PartialCmp(ty, a, b) # "none"
         /\ depth = 3 => ((Cmp(ty, a, b) <= 0 /\ Cmp(ty, b, c) <= 0) => Cmp(ty, a, c) <= 0)

TripleLaws == depth = 3 => LawsTriple(ty, a, b, c)

(* the cell history of a triple state *)
H1 == JoinMut(ty, a, b)
H2 == MeetMut(ty, H1.v, c)
H3 == JoinMut(ty, H2.v, c)

HistLaws ==
   depth = 3 =>
      /\ H3.v = c                                       \* absorption along the history
      /\ Leq(ty, a, H1.v) /\ Leq(ty, H2.v, H1.v) /\ Leq(ty, H2.v, H3.v)
      /\ H3.changed <=> ~Leq(ty, c, H1.v)

--------------------------------------------------------------------------------
(* Replay vectors: one per state *)
CmpName == PartialCmp(ty, a, b)

PairVector ==
   [ ty |-> tyname, a |-> a, b |-> b,
     join |-> Join(ty, a, b), meet |-> Meet(ty, a, b),
     join_mut |-> JoinMut(ty, a, b), meet_mut |-> MeetMut(ty, a, b),
     cmp |-> CmpName,
     bounded |-> IsBounded(ty),
     top |-> IF IsBounded(ty) THEN Top(ty) ELSE 0,
     bottom |-> IF IsBounded(ty) THEN Bottom(ty) ELSE 0 ]

TripleVector ==
   [ ty |-> tyname, a |-> a, b |-> b, c |-> c,
     hist |-> << H1, H2, H3 >>,
     jj |-> Join(ty, Join(ty, a, b), c),
     mm |-> Meet(ty, Meet(ty, a, b), c) ]

Emit == PrintT("VEC " \o (IF depth = 2 THEN ToJson(PairVector) ELSE ToJson(TripleVector)))
================================================================================
