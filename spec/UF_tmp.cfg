SPECIFICATION SimSpec
CONSTANTS
  Machines = {"trrel", "uf"}
  NTr = 8
  NUf = 8
  FullLenTr = 30
  MaxLenTr = 30
  FullLenUf = 30
  MaxLenUf = 30
  EmitMin = 6
  LeastBound = 0
INVARIANTS TypeOK TrLaws UfLaws
CHECK_DEADLOCK FALSE
