SPECIFICATION Spec
CONSTANTS
  Vals <- ThoroughVals
  MaxLen = 5
  PMilles = {0, 1, 10, 100, 250, 333, 500, 667, 750, 900, 990, 999, 1000}
INVARIANTS BagInvariant Laws Emit
PROPERTY StepLaws
CHECK_DEADLOCK FALSE
