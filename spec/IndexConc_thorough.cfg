SPECIFICATION Spec
CONSTANTS
  Callers = {1, 2, 3, 4}
  Keys = {1, 2}
  PerCaller = 2
  Scenarios = {"race", "inserts"}
  Atomic = TRUE
INVARIANTS TypeOK AtMostOneWinner OneWinner StoredIsWinner Retained NoDeadlock Emit
CHECK_DEADLOCK FALSE
