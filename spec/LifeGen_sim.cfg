SPECIFICATION Spec
CONSTANTS
  MaxRuns = 3
  MaxPush = 2
INVARIANTS IncrementalEqualsFresh Emit
CHECK_DEADLOCK FALSE
