SPECIFICATION Spec
INVARIANTS Theorems SemiNaiveCorrect DesugarCorrect Emit EmitPlan
CHECK_DEADLOCK FALSE
