SPECIFICATION Spec
INVARIANTS Theorems SemiNaiveCorrect DesugarCorrect CodePlanCorrect EmitCover Emit EmitPlan
CHECK_DEADLOCK FALSE
