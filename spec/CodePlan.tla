--------------------------------- MODULE CodePlan ---------------------------------
(***************************************************************************)
(* Executes, inside the model, the evaluation plan the MACRO ACTUALLY      *)
(* PRODUCED. `Program::summary()` of every compiled corpus program is      *)
(* parsed into the file named by the environment variable CODEPLAN:        *)
(*   [ <program name> |-> << scc_1, .., scc_n >> ]                          *)
(*   scc  = [ looping, dynamic : <<relation>>, lines : <<line>> ]           *)
(*   line = [ heads : <<relation>>, items : <<item>>, sj, nr ]              *)
(*   item = [ k : "cl"|"agg"|"for"|"if"|"iflet"|"let", rel, ver,            *)
(*            idx : <<columns the clause is looked up by (1-based)>> ]      *)
(* (one line per compiled rule variant; sj / nr = the flags [SIMPLE JOIN] / *)
(* [NOT REORDERABLE]).                                                      *)
(*                                                                         *)
(* The lines are matched with the model's disjunction-free rules by SHAPE  *)
(* (head relations + kind and relation of every body item). Then          *)
(*   CodePlanResult  runs SemiNaive's SCC loop with the code's SCC order,  *)
(*                   looping flags, dynamic sets, version vectors and      *)
(*                   INDEX COLUMNS (a clause is looked up by the values of *)
(*                   its index columns; every other variable argument is   *)
(*                   bound afresh from the row, shadowing an earlier       *)
(*                   binding - as the generated code does);                *)
(*   ReorderSafe     evaluates every rule whose line is a reorderable      *)
(*                   simple join in the swapped order the generated code   *)
(*                   takes when the first relation is the larger one (the  *)
(*                   second clause is iterated first and RE-BINDS all its  *)
(*                   variables).                                           *)
(* Theorem checked by TLC on every enumerated input database: both equal   *)
(* the declarative semantics. An input on which the code's plan fails is   *)
(* printed and replayed on the compiled program.                           *)
(***************************************************************************)
EXTENDS SemiNaive, Json, IOUtils

CP == JsonDeserialize(IOEnv.CODEPLAN)

ItemShape(it) ==
   CASE it.t = "cl"  -> << "cl", it.rel >>
     [] it.t = "neg" -> << "agg", it.rel >>
     [] it.t = "agg" -> << "agg", it.rel >>
     [] OTHER        -> << it.t, "-" >>

ShapeOf(rule) == << [ h \in 1..Len(rule.heads) |-> rule.heads[h].rel ],
                    [ i \in 1..Len(rule.body) |-> ItemShape(rule.body[i]) ] >>
LineShape(line) == << line.heads, [ i \in 1..Len(line.items) |-> << line.items[i].k, line.items[i].rel >> ] >>

(* ---- the index columns the MODEL expects for every clause (ascent_hir.rs: a column is part of the lookup key iff its ----*)
(* argument is a constant, an expression over variables bound before the clause, or a variable bound before the clause;  *)
(* aggregations and negations: every argument that is neither `_` nor an aggregated variable)                            *)
RECURSIVE ExprVars(_)
ExprVars(e) ==
   IF e.op = "var" THEN { e.n }
   ELSE UNION ( { ExprVars(e[f]) : f \in (DOMAIN e) \cap {"a", "b", "c"} }
                \cup (IF "es" \in DOMAIN e THEN { ExprVars(e.es[j]) : j \in 1..Len(e.es) } ELSE {}) )

RECURSIVE PVars(_)
PVars(p) ==
   CASE p.p = "var"  -> { p.n }
     [] p.p = "some" -> PVars(p.q)
     [] p.p = "tup"  -> UNION { PVars(p.qs[j]) : j \in 1..Len(p.qs) }
     [] OTHER        -> {}

CondBinds(c) == IF c.t \in {"let", "iflet"} THEN PVars(c.p) ELSE {}
ItemBinds(it) ==
   CASE it.t = "cl" -> UNION ( { IF it.args[j].k = "v" THEN { it.args[j].n }
                                  ELSE IF it.args[j].k = "p" THEN PVars(it.args[j].p) ELSE {} : j \in 1..Len(it.args) }
                               \cup { CondBinds(it.conds[j]) : j \in 1..Len(it.conds) } )
     [] it.t \in {"let", "iflet", "for", "agg"} -> PVars(it.p)
     [] OTHER -> {}

BoundBefore(rule, i) == UNION { ItemBinds(rule.body[j]) : j \in 1..(i - 1) }

RECURSIVE ClauseIdx(_, _, _, _)
ClauseIdx(args, G, i, here) ==          \* set of index columns of a body clause; G = variables bound before the clause
   IF i > Len(args) THEN {}
   ELSE LET a == args[i] IN
      CASE a.k = "v" -> IF a.n \in G THEN {i} \cup ClauseIdx(args, G, i + 1, here)
                        ELSE ClauseIdx(args, G, i + 1, here \cup {a.n})
        [] a.k = "c" -> {i} \cup ClauseIdx(args, G, i + 1, here)
        [] a.k = "e" -> (IF ExprVars(a.e) \cap here = {} THEN {i} ELSE {}) \cup ClauseIdx(args, G, i + 1, here)
        [] OTHER     -> ClauseIdx(args, G, i + 1, here)

ModelIdx(rule, i) ==
   LET it == rule.body[i] IN
   CASE it.t = "cl" -> ClauseIdx(it.args, BoundBefore(rule, i), 1, {})
     [] it.t = "neg" -> { j \in 1..Len(it.args) : it.args[j].k # "w" }
     [] it.t = "agg" -> { j \in 1..Len(it.args) : it.args[j].k \in {"c", "e"}
                                                  \/ (it.args[j].k = "v" /\ \A b \in 1..Len(it.bound) : it.bound[b] # it.args[j].n) }
     [] OTHER -> {}

FirstClause(rule) == IF \E i \in 1..Len(rule.body) : rule.body[i].t = "cl"
                     THEN Min({ i \in 1..Len(rule.body) : rule.body[i].t = "cl" }) ELSE 0

(* the line has the index columns the model expects (the first clause of a simple join is keyed by the join columns) *)
IdxAgrees(rule, line) ==
   \A i \in 1..Len(rule.body) :
      (line.sj /\ i = FirstClause(rule)) \/ { line.items[i].idx[j] : j \in 1..Len(line.items[i].idx) } = ModelIdx(rule, i)

HasPlan(P0) == P0.name \in DOMAIN CP
SccsOf(P0) == CP[P0.name]
AllLines(P0) == UNION { { SccsOf(P0)[s].lines[j] : j \in 1..Len(SccsOf(P0)[s].lines) } : s \in 1..Len(SccsOf(P0)) }

(* a line belongs to a rule iff the shapes agree; when several rules of the program share a shape (two rules with the *)
(* same head and the same body relations), the index columns tell them apart                                          *)
Ambiguous(rs, a) == \E b \in 1..Len(rs) : b # a /\ ShapeOf(rs[b]) = ShapeOf(rs[a]) /\ rs[b] # rs[a]
LineOf(rs, a, line) == LineShape(line) = ShapeOf(rs[a]) /\ (Ambiguous(rs, a) => IdxAgrees(rs[a], line))

(* every model rule is compiled (has a line of its shape) and every line is a rule of the model: only then is the  *)
(* code's plan executed by the model (otherwise model and code disagree about the RULES, which is reported as drift) *)
PlanCovers(P0) ==
   LET rs == ConjRules(Elaborate(P0))
   IN  /\ \A a \in 1..Len(rs) : \E l \in AllLines(P0) : LineOf(rs, a, l)
       /\ \A l \in AllLines(P0) : \E a \in 1..Len(rs) : LineOf(rs, a, l)

(* (reported, not required) every line has exactly the index columns the model expects *)
IndexColumnsAgree(P0) ==
   LET rs == ConjRules(Elaborate(P0))
   IN  \A l \in AllLines(P0) : \E a \in 1..Len(rs) : LineShape(l) = ShapeOf(rs[a]) /\ IdxAgrees(rs[a], l)

VerName(v) == CASE v = "total" -> "t" [] v = "delta" -> "d" [] v = "total+delta" -> "td" [] OTHER -> "t"

(* version vector of a line over the dynamic clause positions of its rule *)
LineVer(rule, line, dyn) == [ i \in DynPositions(rule, dyn) |-> VerName(line.items[i].ver) ]

(* ---- matching a clause the way the generated code does, given the index the macro chose for it ----                 *)
(* G = the variables bound before the clause (in the order the clauses are executed).                                   *)
(* looked-up clause (iter = FALSE): the index columns are compared with the values computed from G; a variable argument  *)
(*   outside the index is assigned from the row if it is new, and IGNORED (neither compared nor assigned) if it is in G.  *)
(* iterated clause (iter = TRUE, the first clause of a simple join): every variable argument is assigned from the row,    *)
(*   shadowing whatever was bound under that name.                                                                        *)
(* Independently of the execution order, an argument that repeats a variable FIRST bound inside the same clause (in   *)
(* the textual order of the rule), or an expression over such a variable, was desugared into a fresh variable plus an  *)
(* equality condition (rule_desugar_repeated_vars): such positions (`rep`) are always compared.                        *)
IdxSet(li) == { li.idx[j] : j \in 1..Len(li.idx) }

RepPos(rule, i) ==
   LET args == rule.body[i].args
       G0 == BoundBefore(rule, i)
       firstHere(j) == { args[k].n : k \in { k2 \in 1..(j - 1) : args[k2].k = "v" /\ args[k2].n \notin G0 } }
   IN  { j \in 1..Len(args) : \/ (args[j].k = "v" /\ args[j].n \in firstHere(j))
                               \/ (args[j].k = "e" /\ ExprVars(args[j].e) \cap firstHere(j) # {}) }

RECURSIVE MatchIdx(_, _, _, _, _, _, _, _)
MatchIdx(args, idx, rep, t, i, env, G, iter) ==
   IF i > Len(args) THEN {env}
   ELSE LET a == args[i]
            next(e) == MatchIdx(args, idx, rep, t, i + 1, e, G, iter)
            val == CASE a.k = "v" -> IF a.n \in DOMAIN env THEN << env[a.n] >> ELSE <<>>
                     [] a.k = "c" -> << a.v >>
                     [] a.k = "e" -> << EvalE(a.e, env) >>
                     [] OTHER     -> <<>>
        IN
      IF i \in rep \/ (~iter /\ i \in idx)
      THEN IF val # <<>> /\ val[1] = t[i] THEN next(env) ELSE {}
      ELSE CASE a.k = "w" -> next(env)
             [] a.k = "v" -> IF a.n \in G /\ ~iter THEN next(env) ELSE next((a.n :> t[i]) @@ env)
             [] a.k = "c" -> IF t[i] = a.v THEN next(env) ELSE {}
             [] a.k = "e" -> IF EvalE(a.e, env) = t[i] THEN next(env) ELSE {}
             [] a.k = "p" -> UNION { next(e2) : e2 \in MatchP(a.p, t[i], env) }

StepItemC(rule, k, li, env, db, sjFirst) ==
   LET it == rule.body[k]
       G == DOMAIN env IN
   CASE it.t = "cl" ->
          CondsEnvs(it.conds, 1, UNION { MatchIdx(it.args, IdxSet(li), RepPos(rule, k), t, 1, env, G, sjFirst) : t \in db[it.rel] })
     [] it.t = "neg" ->
          IF \E t \in db[it.rel] : MatchIdx(it.args, IdxSet(li), {}, t, 1, env, G, FALSE) # {} THEN {} ELSE {env}
     [] it.t = "agg" ->
          LET G2 == G \ { it.bound[j] : j \in 1..Len(it.bound) }
              M == { t \in db[it.rel] : MatchIdx(it.args, IdxSet(li), {}, t, 1, env, G2, FALSE) # {} }
              sq == SetToSeq(M)
              bag == [ i \in 1..Len(sq) |->
                        LET e2 == CHOOSE x \in MatchIdx(it.args, IdxSet(li), {}, sq[i], 1, env, G2, FALSE) : TRUE
                        IN [ j \in 1..Len(it.bound) |-> e2[it.bound[j]] ] ]
              res == AggApply(it.f, bag)
          IN UNION { MatchP(it.p, res[i], env) : i \in 1..Len(res) }
     [] OTHER -> StepItem(it, env, db)

RECURSIVE EnvsC(_, _, _, _, _, _, _)
EnvsC(rule, line, i, hi, envs, db, sjAt) ==       \* body items i..hi of the rule
   IF i > hi \/ envs = {} THEN envs
   ELSE EnvsC(rule, line, i + 1, hi, UNION { StepItemC(rule, i, line.items[i], e, db, i = sjAt) : e \in envs }, db, sjAt)

ConseqC(rule, line, db) ==
   LET es == EnvsC(rule, line, 1, Len(rule.body), { <<>> }, db, IF line.sj THEN FirstClause(rule) ELSE 0)
   IN  { << rule.heads[h].rel, [ i \in 1..Len(rule.heads[h].args) |-> EvalE(rule.heads[h].args[i], e) ] >> :
            h \in 1..Len(rule.heads), e \in es }

SccLines(cs) == { cs.lines[j] : j \in 1..Len(cs.lines) }
SccDyn(cs) == { cs.dynamic[j] : j \in 1..Len(cs.dynamic) }

IterationC(P, rs, cs, st) ==
   LET dyn == SccDyn(cs)
       view == ViewDb(st.db, dyn, st.total, st.delta)
       derived == UNION { UNION { ConseqC(Versioned(rs[a], LineVer(rs[a], l, dyn)), l, view) :
                                     l \in { l2 \in SccLines(cs) : LineOf(rs, a, l2) } } : a \in 1..Len(rs) }
       db2 == AddFacts(P, st.db, derived)
       newOf(r) == IF IsLat(P, r) THEN { t \in db2[r] : t \notin st.db[r] }
                   ELSE { f[2] : f \in { g \in derived : g[1] = r } } \ (st.total[r] \cup st.delta[r])
       new == TLCEval([ r \in dyn |-> TLCEval(newOf(r)) ])
       keep(r, S) == IF IsLat(P, r) THEN { t \in S : t \in db2[r] } ELSE S
   IN  [ total |-> TLCEval([ r \in dyn |-> TLCEval(keep(r, st.total[r] \cup st.delta[r])) ]),
         delta |-> new,
         db |-> db2,
         changed |-> \E r \in dyn : new[r] # {} ]

RECURSIVE LoopC(_, _, _, _, _)
LoopC(P, rs, cs, st, fuel) ==
   LET st2 == IterationC(P, rs, cs, st)
   IN  IF ~st2.changed \/ fuel = 0 THEN st2 ELSE LoopC(P, rs, cs, st2, fuel - 1)

EvalSccC(P, rs, cs, db) ==
   LET dyn == SccDyn(cs)
       st0 == [ total |-> TLCEval([ r \in dyn |-> {} ]), delta |-> TLCEval([ r \in dyn |-> db[r] ]), db |-> db, changed |-> TRUE ]
   IN  IF cs.looping THEN LoopC(P, rs, cs, st0, 200).db ELSE IterationC(P, rs, cs, st0).db

RECURSIVE EvalSccsC(_, _, _, _, _)
EvalSccsC(P, rs, sccs, i, db) ==
   IF i > Len(sccs) THEN db ELSE EvalSccsC(P, rs, sccs, i + 1, EvalSccC(P, rs, sccs[i], db))

CodePlanResult(P0, edb) ==
   LET P == Elaborate(P0)
       rs == ConjRules(P)
       init == AddFacts(P, EmptyDb(P), UNION { { <<r, t>> : t \in edb[r] } : r \in DOMAIN edb })
   IN  EvalSccsC(P, rs, SccsOf(P0), 1, init)

--------------------------------------------------------------------------------
(* the swapped order of a reorderable simple join (compile_mir_rule_inner swaps the two body items and compiles the    *)
(* result as an ordinary simple join): the clause at position i+1 becomes the ITERATED clause, the clause at position i *)
(* the LOOKED-UP one (by its own index columns, the join columns); then the conditions attached to the two clauses.    *)
SwappedEnvs(rule, line, i, envs, db) ==
   LET c1 == rule.body[i]
       c2 == rule.body[i + 1]
       after2 == UNION { UNION { MatchIdx(c2.args, {}, RepPos(rule, i + 1), t, 1, e, DOMAIN e, TRUE) : t \in db[c2.rel] } : e \in envs }
       after1 == UNION { UNION { MatchIdx(c1.args, IdxSet(line.items[i]), RepPos(rule, i), t, 1, e, DOMAIN e, FALSE) : t \in db[c1.rel] } : e \in after2 }
   IN  CondsEnvs(c2.conds, 1, CondsEnvs(c1.conds, 1, after1))

ConseqSwapped(rule, line, i, db) ==
   LET pre == EnvsC(rule, line, 1, i - 1, { <<>> }, db, 0)
       mid == SwappedEnvs(rule, line, i, pre, db)
       es == EnvsC(rule, line, i + 2, Len(rule.body), mid, db, 0)
   IN  { << rule.heads[h].rel, [ k \in 1..Len(rule.heads[h].args) |-> EvalE(rule.heads[h].args[k], e) ] >> :
            h \in 1..Len(rule.heads), e \in es }

(* every rule that the code compiled as a REORDERABLE simple join derives the same facts in both orders *)
ReorderSafe(P0, db) ==
   LET P == Elaborate(P0)
       rs == ConjRules(P)
   IN  \A a \in 1..Len(rs) :
          \A l \in { l2 \in AllLines(P0) : LineOf(rs, a, l2) /\ l2.sj /\ ~l2.nr } :
             LET i == FirstClause(rs[a]) IN
             i > 0 /\ i < Len(rs[a].body) /\ rs[a].body[i + 1].t = "cl"
             /\ ConseqSwapped(rs[a], l, i, db) = Conseq(rs[a], db)

(* negative control: the model's own plan printed in the code's format with EVERY simple join marked reorderable *)
(* must violate ReorderSafe on corpus program not_reorderable (engines/semlib.py)                                   *)
================================================================================
