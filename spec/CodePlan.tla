--------------------------------- MODULE CodePlan ---------------------------------
(***************************************************************************)
(* Executes, inside the model, the evaluation plan the MACRO ACTUALLY      *)
(* PRODUCED. `Program::summary()` of every compiled corpus program is      *)
(* parsed into the file named by the environment variable CODEPLAN:        *)
(*   [ <program name> |-> << scc_1, .., scc_n >> ]                          *)
(*   scc  = [ looping, dynamic : <<relation>>, lines : <<line>> ]           *)
(*   line = [ heads : <<relation>>, items : <<item>>, sj, nr ]              *)
(*   item = [ k : "cl"|"agg"|"for"|"if"|"iflet"|"let", rel, ver ]           *)
(* (one line per compiled rule variant; sj / nr = the flags [SIMPLE JOIN] / *)
(* [NOT REORDERABLE]).                                                      *)
(*                                                                         *)
(* The lines are matched with the model's disjunction-free rules by SHAPE  *)
(* (head relations + kind and relation of every body item). Then          *)
(*   CodePlanResult  runs SemiNaive's SCC loop with the code's SCC order,  *)
(*                   looping flags, dynamic sets and version vectors;      *)
(*   ReorderSafe     evaluates every rule whose line is a reorderable      *)
(*                   simple join in the swapped order the generated code   *)
(*                   takes when the first relation is the larger one (the  *)
(*                   second clause is iterated first and RE-BINDS all its  *)
(*                   variables).                                           *)
(* Theorem checked by TLC on every enumerated input database: both equal   *)
(* the declarative semantics. An input on which the code's plan fails is   *)
(* printed and replayed on the compiled program.                           *)
(***************************************************************************)
EXTENDS SemiNaive, Json, IOUtils

CP == JsonDeserialize(IOEnv.CODEPLAN)

ItemShape(it) ==
   CASE it.t = "cl"  -> << "cl", it.rel >>
     [] it.t = "neg" -> << "agg", it.rel >>
     [] it.t = "agg" -> << "agg", it.rel >>
     [] OTHER        -> << it.t, "-" >>

ShapeOf(rule) == << [ h \in 1..Len(rule.heads) |-> rule.heads[h].rel ],
                    [ i \in 1..Len(rule.body) |-> ItemShape(rule.body[i]) ] >>
LineShape(line) == << line.heads, [ i \in 1..Len(line.items) |-> << line.items[i].k, line.items[i].rel >> ] >>

HasPlan(P0) == P0.name \in DOMAIN CP
SccsOf(P0) == CP[P0.name]
AllLines(P0) == UNION { { SccsOf(P0)[s].lines[j] : j \in 1..Len(SccsOf(P0)[s].lines) } : s \in 1..Len(SccsOf(P0)) }

(* every model rule is compiled (has a line of its shape) and every line is a rule of the model: only then is the  *)
(* code's plan executed by the model (otherwise model and code disagree about the RULES, which is reported as drift) *)
PlanCovers(P0) ==
   LET rs == ConjRules(Elaborate(P0))
       shapes == { ShapeOf(rs[a]) : a \in 1..Len(rs) }
       lshapes == { LineShape(l) : l \in AllLines(P0) }
   IN  shapes = lshapes

VerName(v) == CASE v = "total" -> "t" [] v = "delta" -> "d" [] v = "total+delta" -> "td" [] OTHER -> "t"

(* version vector of a line over the dynamic clause positions of its rule *)
LineVer(rule, line, dyn) == [ i \in DynPositions(rule, dyn) |-> VerName(line.items[i].ver) ]

SccLines(cs) == { cs.lines[j] : j \in 1..Len(cs.lines) }
SccDyn(cs) == { cs.dynamic[j] : j \in 1..Len(cs.dynamic) }

IterationC(P, rs, cs, st) ==
   LET dyn == SccDyn(cs)
       view == ViewDb(st.db, dyn, st.total, st.delta)
       derived == UNION { UNION { Conseq(Versioned(rs[a], LineVer(rs[a], l, dyn)), view) :
                                     l \in { l2 \in SccLines(cs) : LineShape(l2) = ShapeOf(rs[a]) } } : a \in 1..Len(rs) }
       db2 == AddFacts(P, st.db, derived)
       newOf(r) == IF IsLat(P, r) THEN { t \in db2[r] : t \notin st.db[r] }
                   ELSE { f[2] : f \in { g \in derived : g[1] = r } } \ (st.total[r] \cup st.delta[r])
       new == TLCEval([ r \in dyn |-> TLCEval(newOf(r)) ])
       keep(r, S) == IF IsLat(P, r) THEN { t \in S : t \in db2[r] } ELSE S
   IN  [ total |-> TLCEval([ r \in dyn |-> TLCEval(keep(r, st.total[r] \cup st.delta[r])) ]),
         delta |-> new,
         db |-> db2,
         changed |-> \E r \in dyn : new[r] # {} ]

RECURSIVE LoopC(_, _, _, _, _)
LoopC(P, rs, cs, st, fuel) ==
   LET st2 == IterationC(P, rs, cs, st)
   IN  IF ~st2.changed \/ fuel = 0 THEN st2 ELSE LoopC(P, rs, cs, st2, fuel - 1)

EvalSccC(P, rs, cs, db) ==
   LET dyn == SccDyn(cs)
       st0 == [ total |-> TLCEval([ r \in dyn |-> {} ]), delta |-> TLCEval([ r \in dyn |-> db[r] ]), db |-> db, changed |-> TRUE ]
   IN  IF cs.looping THEN LoopC(P, rs, cs, st0, 200).db ELSE IterationC(P, rs, cs, st0).db

RECURSIVE EvalSccsC(_, _, _, _, _)
EvalSccsC(P, rs, sccs, i, db) ==
   IF i > Len(sccs) THEN db ELSE EvalSccsC(P, rs, sccs, i + 1, EvalSccC(P, rs, sccs[i], db))

CodePlanResult(P0, edb) ==
   LET P == Elaborate(P0)
       rs == ConjRules(P)
       init == AddFacts(P, EmptyDb(P), UNION { { <<r, t>> : t \in edb[r] } : r \in DOMAIN edb })
   IN  EvalSccsC(P, rs, SccsOf(P0), 1, init)

--------------------------------------------------------------------------------
(* the swapped order of a reorderable simple join: the clause at position i+1 is iterated over all its rows and binds *)
(* ALL its argument variables afresh (an earlier binding of the same name is shadowed, not compared); then the clause *)
(* at position i is looked up (its variables shared with the other clause are now bound, i.e. compared); then the     *)
(* conditions attached to the two clauses                                                                            *)
ArgVars(args) == { args[j].n : j \in { k \in 1..Len(args) : args[k].k = "v" } }
Forget(env, vs) == [ x \in (DOMAIN env) \ vs |-> env[x] ]

SwappedEnvs(items, i, envs, db) ==
   LET c1 == items[i]
       c2 == items[i + 1]
       after2 == UNION { UNION { MatchFrom(c2.args, t, 1, Forget(e, ArgVars(c2.args))) : t \in db[c2.rel] } : e \in envs }
       after1 == UNION { UNION { MatchFrom(c1.args, t, 1, e) : t \in db[c1.rel] } : e \in after2 }
   IN  CondsEnvs(c2.conds, 1, CondsEnvs(c1.conds, 1, after1))

ConseqSwapped(rule, i, db) ==
   LET pre == Envs(SubSeq(rule.body, 1, i - 1), 1, { <<>> }, db)
       mid == SwappedEnvs(rule.body, i, pre, db)
       es == Envs(SubSeq(rule.body, i + 2, Len(rule.body)), 1, mid, db)
   IN  { << rule.heads[h].rel, [ k \in 1..Len(rule.heads[h].args) |-> EvalE(rule.heads[h].args[k], e) ] >> :
            h \in 1..Len(rule.heads), e \in es }

FirstClause(rule) == IF \E i \in 1..Len(rule.body) : rule.body[i].t = "cl"
                     THEN Min({ i \in 1..Len(rule.body) : rule.body[i].t = "cl" }) ELSE 0

(* every rule that the code compiled as a REORDERABLE simple join derives the same facts in both orders *)
ReorderSafe(P0, db) ==
   LET P == Elaborate(P0)
       rs == ConjRules(P)
   IN  \A a \in 1..Len(rs) :
          (\E l \in AllLines(P0) : LineShape(l) = ShapeOf(rs[a]) /\ l.sj /\ ~l.nr)
          => LET i == FirstClause(rs[a]) IN
             i > 0 /\ i < Len(rs[a].body) /\ rs[a].body[i + 1].t = "cl"
             /\ ConseqSwapped(rs[a], i, db) = Conseq(rs[a], db)

(* negative control: the model's own plan printed in the code's format with EVERY simple join marked reorderable *)
(* must violate ReorderSafe on corpus program not_reorderable (engines/semlib.py)                                   *)
================================================================================
