SPECIFICATION Spec
INVARIANTS Theorems SemiNaiveCorrect Emit EmitPlan
CHECK_DEADLOCK FALSE
