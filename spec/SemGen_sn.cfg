SPECIFICATION Spec
INVARIANTS Theorems SemiNaiveCorrect CodePlanCorrect EmitCover Emit EmitPlan
CHECK_DEADLOCK FALSE
