------------------------------ MODULE IndexProto ------------------------------
(***************************************************************************)
(* One logical index of an Ascent relation with its three versions         *)
(* (`new`, `delta`, `total`) and the protocol the generated code drives    *)
(* it through (property C19).                                              *)
(*                                                                         *)
(* Abstract content of a version, per KIND of index:                       *)
(*   "multi"   key -> BAG of values   RelIndexType1<K,V>, CRelIndex<K,V>   *)
(*   "noindex" one bag of values      RelNoIndexType, CRelNoIndex<V>       *)
(*             (a multi index with the single key 1 standing for `()`)     *)
(*   "latset"  key -> SET of values   LatticeIndexType<K,V>, CLatIndex     *)
(*   "full"    key -> value           RelFullIndexType<K,V>, CRelFullIndex *)
(* All four are represented as  [key -> [value -> Nat]]  (a bag per key;   *)
(* a key is PRESENT iff its bag is not empty).  For "full" the bag of a    *)
(* key is the set of CANDIDATE values: a singleton except after a Merge    *)
(* whose two sides defined the same key -- `total (+) delta` is then       *)
(* either of the two values (the property does not say which).             *)
(*                                                                         *)
(* Operations (one history element each):                                  *)
(*   ins(ver,k,v)    index_insert                                          *)
(*   iinp(ver,k,v)   insert_if_not_present -> r      ("full" only)         *)
(*   merge           merge_delta_to_total_new_to_delta(new, delta, total), *)
(*                   written as the trait writes it: move delta into       *)
(*                   total, then swap new and delta                        *)
(*   freeze/unfreeze of total and delta (what the parallel code does       *)
(*                   around the rule evaluation): no change of content;    *)
(*                   while frozen only `new` is written, no merge          *)
(* Reads do not change the state; they are PRESCRIBED for the state a      *)
(* history ends in (operator Vector): index_get of every key, iter_all,    *)
(* contains_key, emptiness, for the three versions and for the             *)
(* Combined(total, delta) view.                                            *)
(*                                                                         *)
(* The machine carries its history, so every history up to the length      *)
(* bound is one state; TLC checks the lemmas below in all of them and      *)
(* prints one replay vector per history.  With Canon = TRUE only the       *)
(* histories are enumerated in which keys and values are NAMED in order of *)
(* first use (k, v <= 1 + largest one used so far): the content operators  *)
(* never look at the identity of a key or value, so every history is the   *)
(* image of exactly one canonical history under a renaming; idx-replay     *)
(* executes every renaming of every vector.                                *)
(***************************************************************************)
EXTENDS Integers, Sequences, FiniteSets, TLC, Json, SequencesExt, FiniteSetsExt

CONSTANTS Kinds,     \* subset of {"multi", "noindex", "latset", "full"}
          Keys,      \* 1..n
          Vals,      \* 1..m
          MaxLen,    \* [kind -> bound on the length of a history]
          Canon      \* BOOLEAN: enumerate canonically named histories only

VARIABLES kind, hist, total, delta, new, frozen, arms
vars == <<kind, hist, total, delta, new, frozen, arms>>

Versions == {"new", "delta", "total"}

KeysOf(kd) == IF kd = "noindex" THEN {1} ELSE Keys

--------------------------------------------------------------------------------
(* Bags and contents *)
NoBag == [v \in Vals |-> 0]
BagSize(b) == LET S[vs \in SUBSET Vals] == IF vs = {} THEN 0
                                           ELSE LET x == CHOOSE x \in vs : TRUE IN b[x] + S[vs \ {x}]
              IN S[Vals]
Support(b) == {v \in Vals : b[v] > 0}
Single(v) == [w \in Vals |-> IF w = v THEN 1 ELSE 0]
BagSum(a, b) == [v \in Vals |-> a[v] + b[v]]
BagMax(a, b) == [v \in Vals |-> IF a[v] >= b[v] THEN a[v] ELSE b[v]]

Empty(kd) == [k \in KeysOf(kd) |-> NoBag]
Present(c) == {k \in DOMAIN c : Support(c[k]) # {}}
IsEmpty(c) == Present(c) = {}
Mass(c, k, v) == c[k][v]
Entries(c) == LET S[ks \in SUBSET DOMAIN c] == IF ks = {} THEN 0
                                              ELSE LET x == CHOOSE x \in ks : TRUE IN BagSize(c[x]) + S[ks \ {x}]
              IN S[DOMAIN c]

(* one more value under a key *)
AddVal(kd, b, v) ==
   CASE kd \in {"multi", "noindex"} -> BagSum(b, Single(v))     \* a vector: duplicates are kept
     [] kd = "latset" -> BagMax(b, Single(v))                    \* a set
     [] kd = "full" -> Single(v)                                 \* a map: the last write wins

(* (+) of the merge lemma, per key *)
Plus(kd, a, b) ==
   CASE kd \in {"multi", "noindex"} -> BagSum(a, b)              \* bag union
     [] kd = "latset" -> BagMax(a, b)                            \* set union
     [] kd = "full" -> BagMax(a, b)                              \* map union; both defined: either value

PlusC(kd, c1, c2) == [k \in KeysOf(kd) |-> Plus(kd, c1[k], c2[k])]

(* RelIndexMerge::move_index_contents(from, to): `from` is drained into `to` *)
Move(kd, from, to) == [from |-> Empty(kd), to |-> PlusC(kd, to, from)]

(* RelIndexCombined(total, delta): the two indices chained *)
Combined(c1, c2) == [k \in DOMAIN c1 |-> BagSum(c1[k], c2[k])]

Ver(name) == CASE name = "new" -> new [] name = "delta" -> delta [] name = "total" -> total

--------------------------------------------------------------------------------
(* History elements (uniform shape; "-" / 0 / TRUE where a field does not apply) *)
Op(o, ver, k, v, r) == [op |-> o, ver |-> ver, k |-> k, v |-> v, r |-> r]

MaxOf(S) == IF S = {} THEN 0 ELSE Max(S)
UsedK == MaxOf({hist[i].k : i \in DOMAIN hist})
UsedV == MaxOf({hist[i].v : i \in DOMAIN hist})
NameOK(k, v) == Canon => (k <= UsedK + 1 /\ v <= UsedV + 1)

Room == Len(hist) < MaxLen[kind]
Writable(ver) == ~frozen \/ ver = "new"

Init == /\ kind \in Kinds
        /\ hist = <<>>
        /\ total = Empty(kind) /\ delta = Empty(kind) /\ new = Empty(kind)
        /\ frozen = FALSE
        /\ arms = {}

SetVer(ver, c) ==
   /\ new' = IF ver = "new" THEN c ELSE new
   /\ delta' = IF ver = "delta" THEN c ELSE delta
   /\ total' = IF ver = "total" THEN c ELSE total

Insert(ver, k, v) ==
   /\ Room /\ Writable(ver) /\ NameOK(k, v)
   /\ SetVer(ver, [Ver(ver) EXCEPT ![k] = AddVal(kind, @, v)])
   /\ hist' = Append(hist, Op("ins", ver, k, v, TRUE))
   /\ UNCHANGED <<kind, frozen, arms>>

InsertIfNotPresent(ver, k, v) ==
   /\ kind = "full"
   /\ Room /\ Writable(ver) /\ NameOK(k, v)
   /\ LET absent == k \notin Present(Ver(ver)) IN
      /\ SetVer(ver, IF absent THEN [Ver(ver) EXCEPT ![k] = Single(v)] ELSE Ver(ver))
      /\ hist' = Append(hist, Op("iinp", ver, k, v, absent))
   /\ UNCHANGED <<kind, frozen, arms>>

(* which arms of the size comparisons of the implementations a merge of these contents takes *)
MergeArms ==
   LET both == Present(delta) \cap Present(total) IN
      {IF Cardinality(Present(delta)) > Cardinality(Present(total)) THEN "map_from_larger" ELSE "map_from_not_larger"}
      \cup {"key_from_larger" : k \in {k \in both : BagSize(delta[k]) > BagSize(total[k])}}
      \cup {"key_from_not_larger" : k \in {k \in both : BagSize(delta[k]) <= BagSize(total[k])}}
      \cup {"key_vacant" : k \in Present(delta) \ Present(total)}

Merge ==
   /\ Room /\ ~frozen
   /\ LET m == Move(kind, delta, total) IN      \* move_index_contents(delta, total)
      /\ total' = m.to
      /\ delta' = new                            \* swap(new, delta)
      /\ new' = m.from
   /\ hist' = Append(hist, Op("merge", "-", 0, 0, TRUE))
   /\ arms' = arms \cup MergeArms
   /\ UNCHANGED <<kind, frozen>>

Freeze ==
   /\ Room /\ ~frozen
   /\ frozen' = TRUE
   /\ hist' = Append(hist, Op("freeze", "-", 0, 0, TRUE))
   /\ UNCHANGED <<kind, total, delta, new, arms>>

Unfreeze ==
   /\ Room /\ frozen
   /\ frozen' = FALSE
   /\ hist' = Append(hist, Op("unfreeze", "-", 0, 0, TRUE))
   /\ UNCHANGED <<kind, total, delta, new, arms>>

Next == \/ \E ver \in Versions, k \in KeysOf(kind), v \in Vals : Insert(ver, k, v) \/ InsertIfNotPresent(ver, k, v)
        \/ Merge \/ Freeze \/ Unfreeze

Spec == Init /\ [][Next]_vars

--------------------------------------------------------------------------------
(* Lemmas, checked by TLC in every state / on every step *)

TypeOK ==
   /\ kind \in Kinds /\ frozen \in BOOLEAN /\ Len(hist) <= MaxLen[kind]
   /\ \A c \in {total, delta, new} : DOMAIN c = KeysOf(kind) /\ \A k \in DOMAIN c : DOMAIN c[k] = Vals
   /\ kind \in {"latset", "full"} => \A c \in {total, delta, new} : \A k \in DOMAIN c : \A v \in Vals : c[k][v] <= 1
   \* outside a merge conflict a full index holds one value per key
   /\ kind = "full" => \A k \in KeysOf(kind) : Cardinality(Support(new[k])) <= 1 /\ Cardinality(Support(delta[k])) <= 1

(* X1: the merge lemma *)
MergeLemma ==
   [][ hist' # hist /\ hist'[Len(hist')].op = "merge" =>
         /\ total' = PlusC(kind, total, delta)
         /\ delta' = new
         /\ new' = Empty(kind)
     ]_vars

(* Merge neither loses nor duplicates an entry *)
MergeConserves ==
   [][ hist' # hist /\ hist'[Len(hist')].op = "merge" =>
         \A k \in KeysOf(kind) :
            /\ \A v \in Vals :
                  \* bags: the multiplicity summed over the three versions is preserved
                  /\ kind \in {"multi", "noindex"} =>
                        Mass(total', k, v) + Mass(delta', k, v) + Mass(new', k, v)
                           = Mass(total, k, v) + Mass(delta, k, v) + Mass(new, k, v)
                  \* sets / maps: the union over the three versions is preserved
                  /\ (Mass(total', k, v) + Mass(delta', k, v) + Mass(new', k, v) > 0)
                        <=> (Mass(total, k, v) + Mass(delta, k, v) + Mass(new, k, v) > 0)
            \* a key stays / becomes present in total exactly if it was in total or delta
            /\ (k \in Present(total')) <=> (k \in Present(total) \cup Present(delta))
            \* a full index offers a choice only where both sides defined the key
            /\ kind = "full" /\ ~(k \in Present(total) /\ k \in Present(delta)) =>
                  total'[k] = IF k \in Present(total) THEN total[k] ELSE delta[k]
     ]_vars

(* an insert adds exactly its value under its key to its version and touches nothing else *)
InsertLocal ==
   [][ hist' # hist /\ hist'[Len(hist')].op \in {"ins", "iinp"} =>
         LET o == hist'[Len(hist')] IN
         /\ \A ver \in Versions \ {o.ver} :
               (CASE ver = "new" -> new' = new [] ver = "delta" -> delta' = delta [] ver = "total" -> total' = total)
         /\ LET old == Ver(o.ver)
                now == CASE o.ver = "new" -> new' [] o.ver = "delta" -> delta' [] o.ver = "total" -> total'
            IN  /\ \A k \in KeysOf(kind) \ {o.k} : now[k] = old[k]
                /\ o.op = "ins" => now[o.k][o.v] >= 1 /\ o.k \in Present(now)
                /\ o.op = "ins" /\ kind \in {"multi", "noindex"} => now[o.k] = BagSum(old[o.k], Single(o.v))
                /\ o.op = "iinp" => /\ o.r <=> (o.k \notin Present(old))
                                    /\ o.r => now[o.k] = Single(o.v)
                                    /\ ~o.r => now = old
     ]_vars

(* X3: freezing and unfreezing preserve contents; the discipline: no write to a frozen version *)
FreezeLaws ==
   [][ /\ (hist' # hist /\ hist'[Len(hist')].op \in {"freeze", "unfreeze"}) => UNCHANGED <<total, delta, new>>
       /\ frozen => UNCHANGED <<total, delta>>
     ]_vars

(* the Combined(total, delta) view is the union of the two *)
CombinedIsUnion ==
   LET c == Combined(total, delta) IN
   /\ Present(c) = Present(total) \cup Present(delta)
   /\ IsEmpty(c) <=> (IsEmpty(total) /\ IsEmpty(delta))
   /\ Entries(c) = Entries(total) + Entries(delta)
   /\ \A k \in KeysOf(kind), v \in Vals : Mass(c, k, v) = Mass(total, k, v) + Mass(delta, k, v)

--------------------------------------------------------------------------------
(* Replay vectors: one per history *)
SortedVals == SetToSortSeq(Vals, LAMBDA a, b : a < b)
SortedKeys(kd) == SetToSortSeq(KeysOf(kd), LAMBDA a, b : a < b)

RECURSIVE Rep(_, _)
Rep(x, n) == IF n = 0 THEN <<>> ELSE <<x>> \o Rep(x, n - 1)

BagSeq(b) == FoldLeft(LAMBDA acc, v : acc \o Rep(v, b[v]), <<>>, SortedVals)

(* what the reads of a view return:                                               *)
(*  get[k]  index_get(k): the values under k, sorted (<<>>: index_get returns None; *)
(*          for "noindex" None and an empty iterator are the same answer);          *)
(*          for "full": the candidates, exactly one of which is returned            *)
(*  all     iter_all flattened to <<k, v>> entries, each once per multiplicity      *)
(*  has[k]  contains_key(k)                                                         *)
(*  empty   is_empty() may be TRUE only if this is TRUE                             *)
View(c) ==
   [ get |-> [i \in 1..Len(SortedKeys(kind)) |-> BagSeq(c[SortedKeys(kind)[i]])],
     all |-> FoldLeft(LAMBDA acc, k : acc \o [j \in 1..Len(BagSeq(c[k])) |-> <<k, BagSeq(c[k])[j]>>], <<>>, SortedKeys(kind)),
     has |-> [i \in 1..Len(SortedKeys(kind)) |-> SortedKeys(kind)[i] \in Present(c)],
     empty |-> IsEmpty(c),
     entries |-> Entries(c) ]

(* a history element is printed as <<op, version, key, value, result>> *)
Vector ==
   [ kind |-> kind,
     hist |-> [i \in 1..Len(hist) |-> <<hist[i].op, hist[i].ver, hist[i].k, hist[i].v, hist[i].r>>],
     frozen |-> frozen,
     total |-> View(total), delta |-> View(delta), new |-> View(new),
     comb |-> View(Combined(total, delta)),
     arms |-> SetToSeq(arms) ]

(* the domains, once *)
ASSUME PrintT("DOM " \o ToJson([keys |-> SetToSortSeq(Keys, LAMBDA a, b : a < b), vals |-> SortedVals,
                                canon |-> Canon, kinds |-> SetToSeq(Kinds),
                                maxlen |-> [k \in Kinds |-> MaxLen[k]]]))

Emit == PrintT("VEC " \o ToJson(Vector))

(* constants of the shipped configurations *)
AllKinds == {"multi", "noindex", "latset", "full"}
QuickLen == [k \in AllKinds |-> IF k = "full" THEN 3 ELSE 4]
ThoroughLen == [k \in AllKinds |-> IF k = "full" THEN 4 ELSE 5]
================================================================================
