SPECIFICATION ScriptSpec
CONSTANTS
  Machines = {"uf"}
  NTr = 8
  NUf = 8
  FullLenTr = 30
  MaxLenTr = 30
  FullLenUf = 30
  MaxLenUf = 30
  EmitMin = 8
  LeastBound = 0
INVARIANTS TypeOK TrClosureLaw TrLaws UfClosureLaw UfLaws Emit
CHECK_DEADLOCK FALSE
\* balanced tournaments over 8 items followed by one lookup (ScriptSpec), ordinary breadth-first run: 16 histories of length 8
