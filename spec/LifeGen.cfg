SPECIFICATION Spec
CONSTANTS
  MaxRuns = 2
  MaxPush = 1
INVARIANTS IncrementalEqualsFresh Emit
CHECK_DEADLOCK FALSE
