-------------------------------- MODULE TraceSem --------------------------------
(***************************************************************************)
(* Trace validation of compiled Ascent programs against the declarative    *)
(* semantics (impl -> spec direction of engine "sem").                     *)
(*                                                                         *)
(* The trace (NDJSON file named by the environment variable TRACE) is the  *)
(* concatenation of the traces of many cases. Events:                      *)
(*   case   : a fresh program value (pi = index into PROGS, mode)          *)
(*   push   : the caller appends rows to a relation field                  *)
(*   set    : the caller overwrites a relation field with other rows       *)
(*   call   : run() / run_timeout(k) is invoked                            *)
(*   ins    : (hook) a row was appended, or a lattice row increased        *)
(*   merged, scc_start, scc_end, run_start, run_end, deadline: (hooks)     *)
(*   ret    : the call returned true / false / panicked                    *)
(*   state  : the complete contents of every relation field                *)
(*                                                                         *)
(* The specification state tracks the database `db` the program must hold  *)
(* (inputs pushed + rows reported by `ins` events) and the least model     *)
(* `lm` of everything pushed so far. Every event is an action with a guard *)
(* stating what the properties demand at that point; an event that does    *)
(* not satisfy its guard is recorded in `bad` (and evaluation continues so *)
(* that one pass reports every discrepancy of every case).                 *)
(***************************************************************************)
EXTENDS AscentSem, Json, IOUtils

Progs == JsonDeserialize(IOEnv.PROGS)
Rec == ndJsonDeserialize(IOEnv.TRACE)

VARIABLES l,        \* index of the next event
          pi,       \* program of the current case
          cid,      \* id of the current case
          mode,     \* "ser" | "par"
          pushed,   \* everything the caller pushed (a database)
          db,       \* the database the program value must hold now
          lm,       \* LeastModel(P, pushed) (recomputed at every call)
          last,     \* outcome of the last call: "none" | "true" | "false" | "panic"
          nins,     \* ins events since the last `merged`
          relaxed,  \* lattice relations into which the CALLER pushed a row for a key that already had one
          bad       \* discrepancies found so far

vars == <<l, pi, cid, mode, pushed, db, lm, last, nins, relaxed, bad>>

P == Progs[pi]
Ev == Rec[l]

Flag(kind, detail) == Append(bad, [case |-> cid, line |-> l, kind |-> kind, detail |-> detail])

IsEvent(e) == l <= Len(Rec) /\ Rec[l].e = e /\ l' = l + 1

TraceInit ==
   /\ l = 1 /\ pi = 1 /\ cid = -1 /\ mode = "ser"
   /\ pushed = <<>> /\ db = <<>> /\ lm = <<>> /\ last = "none" /\ nins = 0 /\ relaxed = {} /\ bad = <<>>

--------------------------------------------------------------------------------
Case ==
   /\ IsEvent("case")
   /\ pi' = Ev.pi /\ cid' = Ev.id /\ mode' = Ev.mode
   /\ pushed' = EmptyDb(Progs[Ev.pi]) /\ db' = EmptyDb(Progs[Ev.pi]) /\ lm' = EmptyDb(Progs[Ev.pi])
   /\ last' = "none" /\ nins' = 0 /\ relaxed' = {}
   /\ UNCHANGED bad

(* the caller pushes rows: they are part of the program value from now on. A row pushed into a lattice relation *)
(* for a key that already has a row makes a second row for that key - the caller's doing: from then on that      *)
(* relation is compared key-wise joined (as a fresh run on everything pushed would hold it) and the one-row-per- *)
(* key obligations are waived for it                                                                             *)
Push ==
   /\ IsEvent("push")
   /\ LET rows == RowsFromJ(P, Ev.rel, Ev.rows) IN
      /\ pushed' = [pushed EXCEPT ![Ev.rel] = @ \cup rows]
      /\ db' = AddFacts(P, db, { <<Ev.rel, t>> : t \in rows })
      /\ relaxed' = IF IsLat(P, Ev.rel) /\ ( { Front(t) : t \in rows } \cap { Front(u) : u \in db[Ev.rel] } # {}
                                            \/ Cardinality({ Front(t) : t \in rows }) # Len(Ev.rows) )
                    THEN relaxed \cup {Ev.rel} ELSE relaxed
   /\ UNCHANGED <<pi, cid, mode, lm, last, nins, bad>>

(* the caller overwrites a relation field. Everything else the program value holds (earlier inputs and everything *)
(* derived from the overwritten rows) stays: from now on it is given, exactly like pushed facts. Only used on      *)
(* programs without negation / aggregation and without custom providers (the held database is then observable     *)
(* and the next run must produce the least model containing it).                                                  *)
Set ==
   /\ IsEvent("set")
   /\ LET rows == RowsFromJ(P, Ev.rel, Ev.rows)
          held == [ r \in DOMAIN db |-> IF r = Ev.rel THEN rows ELSE db[r] ]
      IN /\ pushed' = held
         /\ db' = held
   /\ UNCHANGED <<pi, cid, mode, lm, last, nins, relaxed, bad>>

Call ==
   /\ IsEvent("call")
   /\ lm' = LeastModel(P, pushed)
   /\ nins' = 0
   /\ UNCHANGED <<pi, cid, mode, pushed, db, last, relaxed, bad>>

(* ---- head insertion of a relation: the tuple must be new and derivable ---- *)
InsRel(r, t) ==
   /\ db' = [db EXCEPT ![r] = @ \cup {t}]
   /\ bad' = IF t \in db[r] THEN Flag("duplicate-insert", [rel |-> r, t |-> t])
             ELSE IF t \notin lm[r] THEN Flag("underivable-insert", [rel |-> r, t |-> t])
             ELSE bad

(* ---- lattice head update: one row per key, values only grow, never above the least fixed point ---- *)
InsLat(r, t) ==
   LET ty == LatTy(RelOf(P, r).lat)
       key == Front(t)
       old == { u \in db[r] : Front(u) = key }
       fin == { u \in lm[r] : Front(u) = key }
   IN
   /\ db' = [db EXCEPT ![r] = IF r \in relaxed THEN LatCollapse(ty, @ \cup {t}) ELSE (@ \ old) \cup {t}]
   /\ bad' = IF fin = {} THEN Flag("underivable-lattice-key", [rel |-> r, t |-> t])
             ELSE IF ~Leq(ty, Last(t), Last(CHOOSE u \in fin : TRUE))
                  THEN Flag("lattice-above-fixpoint", [rel |-> r, t |-> t])
             ELSE IF r \in relaxed THEN bad      \* the reported row is one of several rows of its key
             ELSE IF old # {} /\ ~Leq(ty, Last(CHOOSE u \in old : TRUE), Last(t))
                  THEN Flag("lattice-decreased", [rel |-> r, t |-> t])
             ELSE IF old # {} /\ mode = "ser" /\ Last(CHOOSE u \in old : TRUE) = Last(t)
                  THEN Flag("lattice-change-reported-without-change", [rel |-> r, t |-> t])
             ELSE bad

Ins ==
   /\ IsEvent("ins")
   /\ nins' = nins + 1
   /\ IF ~Ev.has_t
      THEN UNCHANGED <<db, bad>>                       \* relation with a custom provider: contents not observable here
      ELSE LET t == RowFromJ(P, Ev.rel, Ev.t) IN
           IF IsLat(P, Ev.rel) THEN InsLat(Ev.rel, t) ELSE InsRel(Ev.rel, t)
   /\ UNCHANGED <<pi, cid, mode, pushed, lm, last, relaxed>>

(* ---- end of a merge round: the `changed` flag must tell whether anything was inserted ---- *)
Merged ==
   /\ IsEvent("merged")
   /\ nins' = 0
   /\ bad' = IF nins > 0 /\ ~Ev.chg THEN Flag("changed-flag-lost", [scc |-> Ev.i, inserted |-> nins]) ELSE bad
   /\ UNCHANGED <<pi, cid, mode, pushed, db, lm, last, relaxed>>

Other ==     \* structural events carry no obligation at this level
   /\ l <= Len(Rec) /\ Rec[l].e \in {"run_start", "run_end", "scc_start", "scc_end", "deadline", "summary"}
   /\ l' = l + 1
   /\ UNCHANGED <<pi, cid, mode, pushed, db, lm, last, nins, relaxed, bad>>

Ret ==
   /\ IsEvent("ret")
   /\ last' = Ev.r                               \* "true" | "false" | "panic" | "unsupported"
   /\ bad' = IF Ev.r = "panic" THEN Flag("panic", [msg |-> Ev.msg]) ELSE bad
   /\ UNCHANGED <<pi, cid, mode, pushed, db, lm, nins, relaxed>>

(* ---- the observable state after a call ---- *)
RelCheck(r, rows) ==       \* set of discrepancy records for one relation
   LET relax == r \in relaxed
       n == Len(rows)
       S0 == RowsFromJ(P, r, rows)
       S == IF relax THEN LatCollapse(LatTy(RelOf(P, r).lat), S0) ELSE S0
       observable == RelOf(P, r).ds = "-"
   IN
   (IF ~relax /\ Cardinality(S) # n THEN { [kind |-> "duplicate-rows", rel |-> r, rows |-> n, distinct |-> Cardinality(S)] } ELSE {})
   \cup
   (IF IsLat(P, r) /\ Cardinality({ Front(t) : t \in S }) # Cardinality(S)
    THEN { [kind |-> "two-rows-for-one-lattice-key", rel |-> r] } ELSE {})
   \cup
   (IF last = "true" /\ S # lm[r]
    THEN { [kind |-> "wrong-result", rel |-> r, missing |-> SetToSeq(lm[r] \ S), extra |-> SetToSeq(S \ lm[r])] } ELSE {})
   \cup
   (IF last = "false" /\ ~(IF IsLat(P, r) THEN LatBelow(LatTy(RelOf(P, r).lat), S, lm[r]) ELSE S \subseteq lm[r])
    THEN { [kind |-> "unsound-partial-state", rel |-> r, extra |-> SetToSeq(S \ lm[r])] } ELSE {})
   \cup
   (IF ~(pushed[r] \subseteq S) /\ ~IsLat(P, r)
    THEN { [kind |-> "input-lost", rel |-> r, missing |-> SetToSeq(pushed[r] \ S)] } ELSE {})
   \cup
   (IF observable /\ S # db[r] /\ last # "panic"
    THEN { [kind |-> "state-differs-from-reported-insertions", rel |-> r,
            only_in_state |-> SetToSeq(S \ db[r]), only_in_events |-> SetToSeq(db[r] \ S)] } ELSE {})

State ==
   /\ IsEvent("state")
   /\ LET found == UNION { RelCheck(r, Ev.rels[r]) : r \in DOMAIN Ev.rels }
          sq == SetToSeq(found)
      IN bad' = bad \o [ i \in 1..Len(sq) |-> [case |-> cid, line |-> l, kind |-> sq[i].kind, detail |-> sq[i]] ]
   \* resynchronise with what the program really holds, so that one discrepancy is reported once
   /\ db' = [ r \in DOMAIN db |-> IF r \in DOMAIN Ev.rels /\ RelOf(P, r).ds = "-"
                                   THEN (IF r \in relaxed THEN LatCollapse(LatTy(RelOf(P, r).lat), RowsFromJ(P, r, Ev.rels[r]))
                                         ELSE RowsFromJ(P, r, Ev.rels[r]))
                                   ELSE db[r] ]
   /\ UNCHANGED <<pi, cid, mode, pushed, lm, last, nins, relaxed>>

Finish ==
   /\ l = Len(Rec) + 1
   /\ PrintT("DONE " \o ToJson([events |-> Len(Rec), bad |-> bad]))
   /\ l' = l + 1
   /\ UNCHANGED <<pi, cid, mode, pushed, db, lm, last, nins, relaxed, bad>>

TraceNext == Case \/ Push \/ Set \/ Call \/ Ins \/ Merged \/ Other \/ Ret \/ State \/ Finish

TraceSpec == TraceInit /\ [][TraceNext]_vars

(* every event was consumed: initial state + one state per event + Finish *)
TraceAccepted ==
   LET d == TLCGet("stats").diameter IN
   IF d = Len(Rec) + 2 THEN TRUE
   ELSE Print(<<"TRACE NOT CONSUMED: stopped before event", d, "of", Len(Rec)>>, FALSE)
================================================================================
