SPECIFICATION Spec
CONSTANTS
  Keys = {k1, k2}
  Vals = {a, b}
  InOrder = TRUE
  MaxRows = 2
INVARIANTS IndexedRowIsJoin EveryKeyIndexed
CHECK_DEADLOCK FALSE
