-------------------------------- MODULE AggDefs --------------------------------
(***************************************************************************)
(* Library aggregators of Ascent (ascent::aggregators) as pure functions   *)
(* of the SEQUENCE of values an agg clause feeds them; every result is     *)
(* independent of the order, i.e. a function of the bag (checked by        *)
(* Aggregators.tla). An aggregator yields a SEQUENCE of results            *)
(* (<<>> = "yields nothing").                                              *)
(***************************************************************************)
EXTENDS Integers, Sequences, FiniteSets, SequencesExt, FiniteSetsExt, Folds

Elems(s) == {s[i] : i \in DOMAIN s}

SumSeq(s) == FoldSeq(LAMBDA x, acc : x + acc, 0, s)

Sorted(s) == SortSeq(s, LAMBDA a, b : a < b)

AggMin(s) == IF s = <<>> THEN <<>> ELSE << CHOOSE m \in Elems(s) : \A x \in Elems(s) : m <= x >>
AggMax(s) == IF s = <<>> THEN <<>> ELSE << CHOOSE m \in Elems(s) : \A x \in Elems(s) : m >= x >>
AggSum(s) == << SumSeq(s) >>
AggCount(s) == << Len(s) >>
\* mean as the exact rational <<numerator, denominator>>
AggMean(s) == IF s = <<>> THEN <<>> ELSE << <<SumSeq(s), Len(s)>> >>
AggNot(s) == IF s = <<>> THEN << <<>> >> ELSE <<>>

Abs(x) == IF x < 0 THEN -x ELSE x

(* percentile(p): an element of the input whose rank (0-based index in the  *)
(* sorted input) is within one position of n*p/100; the end points are      *)
(* exact: p = 0 is the minimum, p = 100 the maximum.                        *)
PctAdmissible(s, pm) ==
   LET n == Len(s)
       srt == Sorted(s)
   IN  IF n = 0 THEN {}
       ELSE IF pm = 0 THEN {srt[1]}
       ELSE IF pm = 1000 THEN {srt[n]}
       ELSE { srt[i] : i \in { j \in 1..n : Abs((j - 1) * 1000 - n * pm) <= 1000 } }

(* what the current implementation's rank convention gives when it is defined: *)
(* index floor(n*p/100), clamped to the last element (diagnostic only)         *)
PctFloorRank(s, pm) ==
   LET n == Len(s)
       i == (n * pm) \div 1000
   IN  IF n = 0 THEN <<>> ELSE << Sorted(s)[IF i >= n THEN n ELSE i + 1] >>

================================================================================
