--------------------------------- MODULE LifeGen ---------------------------------
(***************************************************************************)
(* Histories of a program value (C13): the caller pushes facts, calls      *)
(* run(), pushes further facts into ANY plain relation (input or derived), *)
(* calls run() again, ...                                                  *)
(*   hist = <<seg_1, .., seg_n>>, seg_i = the set of <<relation, tuple>>   *)
(*   pushed before the i-th call of run() (order inside a segment is       *)
(*   irrelevant for the specification; the harness shuffles it).           *)
(* One state per history (modulo the order of pushes inside a segment).    *)
(* TLC checks on every history the model-level theorem behind C13 -        *)
(* re-running from a saturated database plus new facts equals a fresh run  *)
(* on everything pushed so far - and prints the history for replay.        *)
(* Used exhaustively with tiny bounds and with `tlc -simulate` beyond.     *)
(***************************************************************************)
EXTENDS AscentSem, Json, IOUtils

Progs == JsonDeserialize(IOEnv.PROGS)

CONSTANTS MaxRuns,      \* number of run() calls per history
          MaxPush       \* facts pushed between two runs

VARIABLES pi, hist, cur
vars == <<pi, hist, cur>>

P == Progs[pi]
InputRels(Q) == { Q.rels[i].name : i \in { j \in DOMAIN Q.rels : Q.rels[j].input } }
PlainRels(Q) == { Q.rels[i].name : i \in { j \in DOMAIN Q.rels : Q.rels[j].kind = "rel" /\ Q.rels[j].ds = "-" } }
(* lattice relations whose rows TLC can enumerate (integer-valued lattices): rows may be pushed into them after a run,  *)
(* also for keys that already have a row - the program value then holds two rows for that key and the next run must     *)
(* still reach, key-wise joined, what a fresh run on everything pushed reaches                                          *)
SimpleCol(ty) == ty \in {"int", "opt", "max_i32", "dual_i32", "set_i32"}
PushableLats(Q) == { Q.rels[i].name : i \in { j \in DOMAIN Q.rels : Q.rels[j].kind = "lat" /\ Q.rels[j].ds = "-"
                                                                   /\ \A c \in DOMAIN Q.rels[j].cols : SimpleCol(Q.rels[j].cols[c]) } }

ColVals(Q, ty) ==
   CASE ty = "int" -> 0 .. (Q.dom - 1)
     [] ty = "opt" -> {None} \cup { Some(x) : x \in 0 .. (Q.dom - 1) }
     [] ty \in {"max_i32", "dual_i32"} -> 0 .. (Q.dom - 1)
     [] ty = "set_i32" -> SUBSET (0 .. (Q.dom - 1))
RECURSIVE TuplesOver(_, _, _)
TuplesOver(Q, cols, i) ==
   IF i > Len(cols) THEN { <<>> }
   ELSE { <<h>> \o t : h \in ColVals(Q, cols[i]), t \in TuplesOver(Q, cols, i + 1) }
Tuples(Q, r) == TuplesOver(Q, RelOf(Q, r).cols, 1)

(* the database pushed by the segments s[1..n] plus the open segment c *)
DbOf(Q, segs, c) ==
   LET all == c \cup UNION { segs[i] : i \in DOMAIN segs }
   IN  [ r \in RelNames(Q) |-> { f[2] : f \in { g \in all : g[1] = r } } ]

Pushed == DbOf(P, hist, cur)
Sealed == DbOf(P, hist, {})

Init == /\ pi \in 1..Len(Progs)
        /\ hist = <<>> /\ cur = {}

(* before the first run only input relations are fed, at most P.bound facts *)
PushInput(r, t) ==
   /\ hist = <<>> /\ Cardinality(cur) < P.bound
   /\ r \in InputRels(P) /\ <<r, t>> \notin cur
   /\ IsLat(P, r) => \A f \in cur : f[1] = r => Front(f[2]) # Front(t)       \* one row per lattice key
   /\ cur' = cur \cup { <<r, t>> }
   /\ UNCHANGED <<pi, hist>>

(* after a run: any plain relation, only tuples the program does not hold yet *)
PushLater(r, t) ==
   /\ hist # <<>> /\ Len(hist) < MaxRuns /\ Cardinality(cur) < MaxPush
   /\ r \in PlainRels(P) \cup PushableLats(P) /\ <<r, t>> \notin cur
   /\ IF IsLat(P, r)
      THEN \* at most one pushed row per lattice key in the whole history (two pushed rows for one key are duplicates made
           \* by the caller: already a fresh run keeps one of them unjoined, the property says nothing about them)
           /\ \A f \in cur \cup UNION { hist[i] : i \in DOMAIN hist } : f[1] = r => Front(f[2]) # Front(t)
           \* new information only: not below what the program already holds for that key
           /\ ~ \E u \in LeastModel(P, Sealed)[r] : Front(u) = Front(t) /\ Leq(LatTy(RelOf(P, r).lat), Last(t), Last(u))
      ELSE t \notin LeastModel(P, Sealed)[r]
   /\ cur' = cur \cup { <<r, t>> }
   /\ UNCHANGED <<pi, hist>>

Run ==
   /\ Len(hist) < MaxRuns
   /\ hist' = Append(hist, cur) /\ cur' = {}
   /\ UNCHANGED pi

Next == \/ Run
        \/ \E r \in InputRels(P) : \E t \in Tuples(P, r) : PushInput(r, t)
        \/ \E r \in PlainRels(P) \cup PushableLats(P) : \E t \in Tuples(P, r) : PushLater(r, t)

Spec == Init /\ [][Next]_vars

--------------------------------------------------------------------------------
(* C13 at the level of the semantics: the program value after run i holds LeastModel(everything pushed so     *)
(* far); the next run starts from that saturated database plus the new facts and must reach the least model   *)
(* of everything pushed - i.e. saturating incrementally equals saturating from scratch (no neg / agg)          *)
RECURSIVE Incremental(_, _, _)
Incremental(Q, segs, i) ==     \* the database after run i when every run continues from the previous result
   IF i = 0 THEN EmptyDb(Q)
   ELSE LET prev == Incremental(Q, segs, i - 1)
            withNew == AddFacts(Q, prev, segs[i])
        IN  LeastModel(Q, withNew)

IncrementalEqualsFresh ==
   hist # <<>> => Incremental(P, hist, Len(hist)) = LeastModel(P, Sealed)

Done == Len(hist) = MaxRuns /\ cur = {}

SegJ(s) == SetToSeq({ [rel |-> f[1], row |-> f[2]] : f \in s })
Emit ==
   Done => PrintT("CASE " \o ToJson([ pi |-> pi, prog |-> P.name,
                                      segs |-> [ i \in DOMAIN hist |-> SegJ(hist[i]) ],
                                      lms |-> [ i \in DOMAIN hist |->
                                                  LET lm == LeastModel(P, DbOf(P, SubSeq(hist, 1, i), {}))
                                                  IN [ r \in RelNames(P) |-> SetToSeq(lm[r]) ] ] ]))
================================================================================
