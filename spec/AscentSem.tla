------------------------------- MODULE AscentSem -------------------------------
(***************************************************************************)
(* Declarative semantics of the Ascent rule language.                      *)
(*                                                                         *)
(* A program is a record read from JSON (see DESIGN.md, Appendix E):       *)
(*   rels  : sequence of [name, cols, kind ("rel"|"lat"), lat, ds, input]  *)
(*   rules : sequence of [heads : Seq([rel, args : Seq(expr)]),            *)
(*                        body  : Seq(item)]                               *)
(*   macros: sequence of [name, params, body] (see AscentSyntax)           *)
(* A database maps every relation name to a set of tuples; a lattice       *)
(* relation holds one tuple per key (all columns but the last).            *)
(*                                                                         *)
(* LeastModel(P, edb) is the stratified least model: relations are ranked  *)
(* so that a relation read through `agg` / `!` has a strictly smaller rank *)
(* than the reader's head; ranks are saturated in increasing order by      *)
(* naive iteration (lattice columns are joined key-wise).  Nothing here    *)
(* knows about indices, SCC order, delta/total versions or join order:     *)
(* this is the meaning that properties C01, C03, C04, C06-C09 refer to.    *)
(***************************************************************************)
EXTENDS Integers, Sequences, FiniteSets, TLC, SequencesExt, FiniteSetsExt, Lattices, AggDefs

--------------------------------------------------------------------------------
(* lattice types usable in programs (names as used in the JSON AST) *)
IntTy == [k |-> "int", lo |-> -2147483647, hi |-> 2147483647, vals |-> {}]
LatTy(name) ==
   CASE name = "max_i32"  -> IntTy
     [] name = "dual_i32" -> [k |-> "dual", of |-> IntTy]
     [] name = "set_i32"  -> [k |-> "set", el |-> {}]
     [] name = "bset2_i32" -> [k |-> "bset", el |-> {}, n |-> 2]
     [] name = "opt_i32"  -> [k |-> "opt", of |-> IntTy]
     [] name = "cp_i32"   -> [k |-> "cp", el |-> {}]
     [] name = "prod_max_dual" -> [k |-> "prod", of |-> <<IntTy, [k |-> "dual", of |-> IntTy]>>]
     [] name = "lex_pair" -> [k |-> "lex", of |-> <<IntTy, IntTy>>]
     [] name = "lex_dual_pair" -> [k |-> "lex", of |-> <<[k |-> "dual", of |-> IntTy], IntTy>>]     \* (Dual<i32>, i32)
     [] name = "bool_or"  -> [k |-> "bool"]

--------------------------------------------------------------------------------
(* program accessors *)
SeqRange(s) == { s[i] : i \in DOMAIN s }
RelNames(P) == { P.rels[i].name : i \in DOMAIN P.rels }
RelOf(P, name) == CHOOSE r \in SeqRange(P.rels) : r.name = name
IsLat(P, name) == RelOf(P, name).kind = "lat"
Arity(P, name) == Len(RelOf(P, name).cols)
EmptyDb(P) == TLCEval([ r \in RelNames(P) |-> {} ])

--------------------------------------------------------------------------------
(* expressions *)
RECURSIVE EvalE(_, _)
EvalE(e, env) ==
   CASE e.op = "var" -> env[e.n]
     [] e.op = "lit" -> e.v
     [] e.op = "add" -> EvalE(e.a, env) + EvalE(e.b, env)
     [] e.op = "sub" -> EvalE(e.a, env) - EvalE(e.b, env)
     [] e.op = "mul" -> EvalE(e.a, env) * EvalE(e.b, env)
     [] e.op = "mod" -> EvalE(e.a, env) % EvalE(e.b, env)
     [] e.op = "min" -> LET x == EvalE(e.a, env) y == EvalE(e.b, env) IN IF x <= y THEN x ELSE y
     [] e.op = "max" -> LET x == EvalE(e.a, env) y == EvalE(e.b, env) IN IF x >= y THEN x ELSE y
     [] e.op = "lt"  -> EvalE(e.a, env) < EvalE(e.b, env)
     [] e.op = "le"  -> EvalE(e.a, env) <= EvalE(e.b, env)
     [] e.op = "gt"  -> EvalE(e.a, env) > EvalE(e.b, env)
     [] e.op = "ge"  -> EvalE(e.a, env) >= EvalE(e.b, env)
     [] e.op = "eq"  -> EvalE(e.a, env) = EvalE(e.b, env)
     [] e.op = "ne"  -> EvalE(e.a, env) # EvalE(e.b, env)
     [] e.op = "and" -> EvalE(e.a, env) /\ EvalE(e.b, env)
     [] e.op = "or"  -> EvalE(e.a, env) \/ EvalE(e.b, env)
     [] e.op = "not" -> ~EvalE(e.a, env)
     [] e.op = "ite" -> IF EvalE(e.c, env) THEN EvalE(e.a, env) ELSE EvalE(e.b, env)
     [] e.op = "blk" -> EvalE(e.b, (e.n :> EvalE(e.a, env)) @@ env)      \* { let n = a; b }
     [] e.op = "some" -> Some(EvalE(e.a, env))
     [] e.op = "none" -> None
     [] e.op \in {"tup", "prod"} -> [ i \in 1..Len(e.es) |-> EvalE(e.es[i], env) ]
     [] e.op \in {"proj", "pproj"} -> EvalE(e.a, env)[e.i]
     [] e.op \in {"dual", "undual"} -> EvalE(e.a, env)
     [] e.op = "set1" -> { EvalE(e.a, env) }
     [] e.op = "setu" -> EvalE(e.a, env) \cup EvalE(e.b, env)
     [] e.op = "sethas" -> EvalE(e.b, env) \in EvalE(e.a, env)
     [] e.op = "setlen" -> Cardinality(EvalE(e.a, env))
     [] e.op = "bset1" -> Bs({ EvalE(e.a, env) })
     [] e.op = "bsethas" -> LET s == EvalE(e.a, env) IN s.top \/ EvalE(e.b, env) \in s.s
     [] e.op = "bsettop" -> EvalE(e.a, env).top
     [] e.op = "cpc"  -> CpConst(EvalE(e.a, env))
     [] e.op = "cptop" -> EvalE(e.a, env).tag = "top"
     [] e.op = "cpis" -> EvalE(e.a, env) = CpConst(EvalE(e.b, env))
     [] e.op = "optge" -> LET o == EvalE(e.a, env) IN o.tag = "some" /\ o.v >= EvalE(e.b, env)
     [] e.op = "issome" -> EvalE(e.a, env).tag = "some"

(* patterns: the set of environments (none or one) extending env in which p matches v *)
RECURSIVE MatchP(_, _, _)
RECURSIVE MatchPs(_, _, _, _)
MatchPs(ps, vs, i, env) ==
   IF i > Len(ps) THEN {env}
   ELSE UNION { MatchPs(ps, vs, i + 1, e2) : e2 \in MatchP(ps[i], vs[i], env) }
MatchP(p, v, env) ==
   CASE p.p = "var"  -> { (p.n :> v) @@ env }
     [] p.p = "wild" -> { env }
     [] p.p = "lit"  -> IF v = p.v THEN {env} ELSE {}
     [] p.p = "some" -> IF v.tag = "some" THEN MatchP(p.q, v.v, env) ELSE {}
     [] p.p = "none" -> IF v.tag = "none" THEN {env} ELSE {}
     [] p.p = "tup"  -> MatchPs(p.qs, v, 1, env)

(* clause arguments against a tuple, left to right: a bound variable, a constant or an expression  *)
(* is an equality test against the column, an unbound variable is bound, `_` matches anything, a   *)
(* `?pattern` must match                                                                           *)
RECURSIVE MatchFrom(_, _, _, _)
MatchFrom(args, t, i, env) ==
   IF i > Len(args) THEN {env}
   ELSE LET a == args[i] IN
      CASE a.k = "w" -> MatchFrom(args, t, i + 1, env)
        [] a.k = "v" -> IF a.n \in DOMAIN env
                        THEN (IF env[a.n] = t[i] THEN MatchFrom(args, t, i + 1, env) ELSE {})
                        ELSE MatchFrom(args, t, i + 1, (a.n :> t[i]) @@ env)
        [] a.k = "c" -> IF t[i] = a.v THEN MatchFrom(args, t, i + 1, env) ELSE {}
        [] a.k = "e" -> IF EvalE(a.e, env) = t[i] THEN MatchFrom(args, t, i + 1, env) ELSE {}
        [] a.k = "p" -> UNION { MatchFrom(args, t, i + 1, e2) : e2 \in MatchP(a.p, t[i], env) }

--------------------------------------------------------------------------------
(* aggregators: from the bag (a sequence, one entry per distinct matching tuple, each entry the *)
(* tuple of the aggregated variables) to the sequence of results                                *)
Col1(bag) == [ i \in 1..Len(bag) |-> bag[i][1] ]
AggApply(f, bag) ==
   CASE f = "count" -> AggCount(bag)
     [] f = "sum"   -> AggSum(Col1(bag))
     [] f = "min"   -> AggMin(Col1(bag))
     [] f = "max"   -> AggMax(Col1(bag))
     [] f = "not"   -> IF bag = <<>> THEN << "unit" >> ELSE <<>>
     [] f = "minmax" -> AggMin(Col1(bag)) \o AggMax(Col1(bag))       \* a user aggregator yielding two values
     [] f = "sumpairs" -> IF bag = <<>> THEN <<>>                   \* a user aggregator over two columns
                          ELSE << SumSeq([ i \in 1..Len(bag) |-> bag[i][1] * bag[i][2] ]) >>

--------------------------------------------------------------------------------
(* body items *)
RECURSIVE Envs(_, _, _, _)
RECURSIVE StepItem(_, _, _)

CondEnvs(c, env) ==
   CASE c.t = "if"    -> IF EvalE(c.e, env) THEN {env} ELSE {}
     [] c.t = "let"   -> MatchP(c.p, EvalE(c.e, env), env)
     [] c.t = "iflet" -> MatchP(c.p, EvalE(c.e, env), env)

RECURSIVE CondsEnvs(_, _, _)
CondsEnvs(cs, i, envs) ==
   IF i > Len(cs) \/ envs = {} THEN envs
   ELSE CondsEnvs(cs, i + 1, UNION { CondEnvs(cs[i], e) : e \in envs })

StepItem(it, env, db) ==
   CASE it.t = "cl" ->
          CondsEnvs(it.conds, 1, UNION { MatchFrom(it.args, t, 1, env) : t \in db[it.rel] })
     [] it.t \in {"if", "let", "iflet"} -> CondEnvs(it, env)
     [] it.t = "for" ->
          UNION { MatchP(it.p, v, env) : v \in EvalE(it.lo, env) .. (EvalE(it.hi, env) - 1) }
     [] it.t = "neg" ->
          IF \E t \in db[it.rel] : MatchFrom(it.args, t, 1, env) # {} THEN {} ELSE {env}
     [] it.t = "agg" ->
          LET M == { t \in db[it.rel] : MatchFrom(it.args, t, 1, env) # {} }
              sq == SetToSeq(M)
              bag == [ i \in 1..Len(sq) |->
                        LET e2 == CHOOSE x \in MatchFrom(it.args, sq[i], 1, env) : TRUE
                        IN [ j \in 1..Len(it.bound) |-> e2[it.bound[j]] ] ]
              res == AggApply(it.f, bag)
          IN UNION { MatchP(it.p, res[i], env) : i \in 1..Len(res) }
     [] it.t = "disj" ->
          UNION { Envs(it.alts[i], 1, {env}, db) : i \in 1..Len(it.alts) }

Envs(items, i, envs, db) ==
   IF i > Len(items) \/ envs = {} THEN envs
   ELSE Envs(items, i + 1, UNION { StepItem(items[i], e, db) : e \in envs }, db)

(* the facts <<relation, tuple>> a rule derives from db (one step) *)
Conseq(rule, db) ==
   LET es == Envs(rule.body, 1, { <<>> }, db)
   IN  { << rule.heads[h].rel, [ i \in 1..Len(rule.heads[h].args) |-> EvalE(rule.heads[h].args[i], e) ] >> :
            h \in 1..Len(rule.heads), e \in es }

--------------------------------------------------------------------------------
(* adding facts to a database; lattice relations keep one tuple per key *)
RECURSIVE JoinSet(_, _)
JoinSet(ty, S) ==
   LET x == CHOOSE y \in S : TRUE
   IN  IF S = {x} THEN x ELSE Join(ty, x, JoinSet(ty, S \ {x}))

LatCollapse(ty, S) ==
   LET keys == { Front(t) : t \in S }
   IN  { Append(k, JoinSet(ty, { Last(t) : t \in { u \in S : Front(u) = k } })) : k \in keys }

(* TLCEval: TLC represents [x \in S |-> e] lazily and would re-evaluate e at every application *)
AddFacts(P, db, facts) ==
   TLCEval([ r \in DOMAIN db |->
       LET new == { f[2] : f \in { g \in facts : g[1] = r } }
       IN  IF new = {} THEN db[r]
           ELSE IF IsLat(P, r) THEN TLCEval(LatCollapse(LatTy(RelOf(P, r).lat), db[r] \cup new))
           ELSE TLCEval(db[r] \cup new) ])

(* db1 below db2: relation-wise inclusion, lattice values key-wise below *)
LatBelow(ty, S1, S2) ==
   \A t \in S1 : \E u \in S2 : Front(u) = Front(t) /\ Leq(ty, Last(t), Last(u))
DbBelow(P, db1, db2) ==
   \A r \in DOMAIN db1 :
      IF IsLat(P, r) THEN LatBelow(LatTy(RelOf(P, r).lat), db1[r], db2[r]) ELSE db1[r] \subseteq db2[r]

--------------------------------------------------------------------------------
(* stratification: ranks of relations *)
RECURSIVE ItemsDeps(_, _)
ItemDeps(it) ==     \* set of <<relation, negative?>> read by a body item
   CASE it.t = "cl"  -> { <<it.rel, FALSE>> }
     [] it.t = "agg" -> { <<it.rel, TRUE>> }
     [] it.t = "neg" -> { <<it.rel, TRUE>> }
     [] it.t = "disj" -> UNION { ItemsDeps(it.alts[i], 1) : i \in 1..Len(it.alts) }
     [] OTHER -> {}
ItemsDeps(items, i) == IF i > Len(items) THEN {} ELSE ItemDeps(items[i]) \cup ItemsDeps(items, i + 1)

RuleDeps(rule) == ItemsDeps(rule.body, 1)
HeadRels(rule) == { rule.heads[h].rel : h \in 1..Len(rule.heads) }


(* relation dependency graph: d -> r when some rule with head r reads d *)
DepsOf(P, r) ==     \* set of <<relation, negative?>>
   UNION { RuleDeps(P.rules[j]) : j \in { j \in 1..Len(P.rules) : r \in HeadRels(P.rules[j]) } }

RECURSIVE ReachIter(_, _, _)
ReachIter(P, R, n) ==      \* R: relation -> set of relations it (transitively) depends on
   IF n = 0 THEN R
   ELSE ReachIter(P, TLCEval([ r \in RelNames(P) |-> TLCEval(R[r] \cup UNION { R[d] : d \in R[r] }) ]), n - 1)

NRels(P) == Len(P.rels)
(* each round squares the relation, so 6 rounds close dependency chains of up to 64 relations *)
DependsOn(P) == ReachIter(P, TLCEval([ r \in RelNames(P) |-> TLCEval({ d[1] : d \in DepsOf(P, r) }) ]), 6)
SameScc(dep, a, b) == a = b \/ (b \in dep[a] /\ a \in dep[b])

(* rank = length of the longest chain of strongly connected components below a relation: a relation is *)
(* evaluated after everything it depends on outside its own component has reached its fixed point      *)
RankStep(P, dep, rk) ==
   TLCEval([ r \in RelNames(P) |->
       Max({0} \cup { rk[d[1]] + (IF SameScc(dep, r, d[1]) THEN 0 ELSE 1) : d \in DepsOf(P, r) }) ])

RECURSIVE RankIter(_, _, _, _)
RankIter(P, dep, rk, n) == IF n = 0 THEN rk ELSE RankIter(P, dep, RankStep(P, dep, rk), n - 1)

Ranks(P) == LET dep == DependsOn(P) IN RankIter(P, dep, TLCEval([ r \in RelNames(P) |-> 0 ]), NRels(P) + 1)

(* stratifiable: no relation is read through agg / negation from inside its own component *)
Stratifiable(P) ==
   LET dep == DependsOn(P) IN
   \A r \in RelNames(P) : \A d \in DepsOf(P, r) : d[2] => ~SameScc(dep, r, d[1])

--------------------------------------------------------------------------------
(* in-program macros (C08): an invocation stands for the macro body with the parameters replaced by the   *)
(* call-site identifiers and every other identifier of the body renamed fresh for this invocation (the    *)
(* fresh name carries the position of the invocation, so two invocations never share a name and a nested  *)
(* invocation gets names of its own)                                                                      *)
BinOps == {"add", "sub", "mul", "mod", "min", "max", "lt", "le", "gt", "ge", "eq", "ne", "and", "or",
           "setu", "sethas", "bsethas", "cpis", "optge"}
UnOps == {"not", "some", "set1", "setlen", "bset1", "bsettop", "cpc", "cptop", "issome", "dual", "undual"}

MacroOf(P, name) == CHOOSE m \in SeqRange(P.macros) : m.name = name

(* ren: a record [params, args, sfx]: parameter names, the call-site identifiers, the suffix for locals *)
RenName(n, ren) ==
   IF \E i \in 1..Len(ren.params) : ren.params[i] = n
   THEN ren.args[CHOOSE i \in 1..Len(ren.params) : ren.params[i] = n].n
   ELSE n \o ren.sfx

RECURSIVE RenE(_, _)
RenE(e, ren) ==
   CASE e.op = "var" -> [e EXCEPT !.n = RenName(@, ren)]
     [] e.op \in BinOps -> [e EXCEPT !.a = RenE(@, ren), !.b = RenE(@, ren)]
     [] e.op \in UnOps -> [e EXCEPT !.a = RenE(@, ren)]
     [] e.op = "ite" -> [e EXCEPT !.c = RenE(@, ren), !.a = RenE(@, ren), !.b = RenE(@, ren)]
     [] e.op = "blk" -> [e EXCEPT !.n = RenName(@, ren), !.a = RenE(@, ren), !.b = RenE(@, ren)]
     [] e.op \in {"tup", "prod"} -> [e EXCEPT !.es = [ i \in DOMAIN @ |-> RenE(@[i], ren) ]]
     [] e.op \in {"proj", "pproj"} -> [e EXCEPT !.a = RenE(@, ren)]
     [] OTHER -> e

RECURSIVE RenP(_, _)
RenP(p, ren) ==
   CASE p.p = "var" -> [p EXCEPT !.n = RenName(@, ren)]
     [] p.p = "some" -> [p EXCEPT !.q = RenP(@, ren)]
     [] p.p = "tup" -> [p EXCEPT !.qs = [ i \in DOMAIN @ |-> RenP(@[i], ren) ]]
     [] OTHER -> p

RenArg(a, ren) ==
   CASE a.k = "v" -> [a EXCEPT !.n = RenName(@, ren)]
     [] a.k = "e" -> [a EXCEPT !.e = RenE(@, ren)]
     [] a.k = "p" -> [a EXCEPT !.p = RenP(@, ren)]
     [] OTHER -> a
RenArgs(as, ren) == [ i \in DOMAIN as |-> RenArg(as[i], ren) ]

RECURSIVE RenItem(_, _)
RenItem(it, ren) ==
   CASE it.t = "cl" -> [it EXCEPT !.args = RenArgs(@, ren), !.conds = [ i \in DOMAIN @ |-> RenItem(@[i], ren) ]]
     [] it.t = "if" -> [it EXCEPT !.e = RenE(@, ren)]
     [] it.t \in {"let", "iflet"} -> [it EXCEPT !.p = RenP(@, ren), !.e = RenE(@, ren)]
     [] it.t = "for" -> [it EXCEPT !.p = RenP(@, ren), !.lo = RenE(@, ren), !.hi = RenE(@, ren)]
     [] it.t = "neg" -> [it EXCEPT !.args = RenArgs(@, ren)]
     [] it.t = "agg" -> [it EXCEPT !.p = RenP(@, ren), !.args = RenArgs(@, ren),
                                   !.bound = [ i \in DOMAIN @ |-> RenName(@[i], ren) ]]
     [] it.t = "disj" -> [it EXCEPT !.alts = [ a \in DOMAIN @ |-> [ i \in DOMAIN @[a] |-> RenItem(@[a][i], ren) ] ]]
     [] it.t = "mac" -> [it EXCEPT !.args = [ i \in DOMAIN @ |-> RenE(@[i], ren) ]]

RECURSIVE ExpandItems(_, _, _, _)
ExpandItem(P, it, path) ==
   CASE it.t = "mac" ->
          LET m == MacroOf(P, it.name)
              ren == [params |-> m.params, args |-> it.args, sfx |-> "__" \o path]
          IN  ExpandItems(P, [ i \in DOMAIN m.body |-> RenItem(m.body[i], ren) ], 1, path)
     [] it.t = "disj" ->
          << [it EXCEPT !.alts = [ a \in DOMAIN @ |-> ExpandItems(P, @[a], 1, path \o "d" \o ToString(a)) ]] >>
     [] OTHER -> << it >>
ExpandItems(P, items, i, path) ==
   IF i > Len(items) THEN <<>>
   ELSE ExpandItem(P, items[i], path \o "_" \o ToString(i)) \o ExpandItems(P, items, i + 1, path)

HasMacros(P) == "macros" \in DOMAIN P /\ Len(P.macros) > 0
MacroExpand(P) ==
   IF ~HasMacros(P) THEN P
   ELSE [P EXCEPT !.rules = TLCEval([ j \in DOMAIN @ |->
            [ heads |-> @[j].heads, body |-> ExpandItems(P, @[j].body, 1, "r" \o ToString(j)) ] ])]

--------------------------------------------------------------------------------
(* BYODS providers (C10-C12): a relation tagged with a provider means the untagged relation plus explicit closure    *)
(* rules - reflexive on mentioned elements, symmetric, transitive, per key for the ternary form r(K, T, T)           *)
VarE(n) == [op |-> "var", n |-> n]
VarA(n) == [k |-> "v", n |-> n]
WildA == [k |-> "w"]
ClauseOf(r, args) == [t |-> "cl", rel |-> r, args |-> args, conds |-> <<>>]
RuleOf(r, hargs, body) == [heads |-> << [rel |-> r, args |-> hargs] >>, body |-> body]

ClosureRules(r, arity, provider) ==
   LET kA == IF arity = 3 THEN << VarA("k") >> ELSE <<>>       \* key prefix of clause arguments
       kE == IF arity = 3 THEN << VarE("k") >> ELSE <<>>       \* key prefix of head arguments
       refl == << RuleOf(r, kE \o <<VarE("x"), VarE("x")>>, << ClauseOf(r, kA \o <<VarA("x"), WildA>>) >>),
                  RuleOf(r, kE \o <<VarE("y"), VarE("y")>>, << ClauseOf(r, kA \o <<WildA, VarA("y")>>) >>) >>
       sym  == << RuleOf(r, kE \o <<VarE("y"), VarE("x")>>, << ClauseOf(r, kA \o <<VarA("x"), VarA("y")>>) >>) >>
       trans == << RuleOf(r, kE \o <<VarE("x"), VarE("z")>>,
                          << ClauseOf(r, kA \o <<VarA("x"), VarA("y")>>), ClauseOf(r, kA \o <<VarA("y"), VarA("z")>>) >>) >>
   IN  CASE provider = "eqrel"    -> refl \o sym \o trans
         [] provider = "trrel"    -> trans
         [] provider = "trrel_uf" -> refl \o trans

RECURSIVE DsRulesFrom(_, _)
DsRulesFrom(P, i) ==
   IF i > Len(P.rels) THEN <<>>
   ELSE (IF P.rels[i].ds = "-" THEN <<>> ELSE ClosureRules(P.rels[i].name, Len(P.rels[i].cols), P.rels[i].ds))
        \o DsRulesFrom(P, i + 1)

WithDsRules(P) ==
   LET extra == DsRulesFrom(P, 1) IN IF extra = <<>> THEN P ELSE [P EXCEPT !.rules = @ \o extra]

Elaborate(P) == WithDsRules(MacroExpand(P))

--------------------------------------------------------------------------------
(* the least model *)
(* rules are addressed by their index (sets of large rule records are costly for TLC to normalise) *)
RulesAtRank(P, rk, L) == { j \in 1..Len(P.rules) : \E r \in HeadRels(P.rules[j]) : rk[r] = L }

(* the facts rule j derives from db for its heads of rank L *)
ConseqAt(rule, rk, L, db) ==
   LET es == Envs(rule.body, 1, { <<>> }, db)
       hs == { h \in 1..Len(rule.heads) : rk[rule.heads[h].rel] = L }
   IN  { << rule.heads[h].rel, [ i \in 1..Len(rule.heads[h].args) |-> EvalE(rule.heads[h].args[i], e) ] >> :
            h \in hs, e \in es }

StepRules(P, js, rk, L, db) == AddFacts(P, db, UNION { ConseqAt(P.rules[j], rk, L, db) : j \in js })

RECURSIVE Saturate(_, _, _, _, _)
Saturate(P, js, rk, L, db) ==
   LET d2 == StepRules(P, js, rk, L, db) IN IF d2 = db THEN db ELSE Saturate(P, js, rk, L, d2)

RECURSIVE EvalRanks(_, _, _, _, _)
EvalRanks(P, rk, L, maxL, db) ==
   IF L > maxL THEN db
   ELSE EvalRanks(P, rk, L + 1, maxL, Saturate(P, RulesAtRank(P, rk, L), rk, L, db))

(* edb: any database (facts may be given for every relation, derived ones included) *)
LeastModelCore(P, edb) ==
   LET rk == Ranks(P)
       init == AddFacts(P, EmptyDb(P), UNION { { <<r, t>> : t \in edb[r] } : r \in DOMAIN edb })
   IN  EvalRanks(P, rk, 0, Max({ rk[r] : r \in RelNames(P) } \cup {0}), init)

LeastModel(P, edb) == LeastModelCore(Elaborate(P), edb)

(* a fixed point of all rules: nothing can be added (used as "evaluation stops only when no rule can add") *)
SaturatedCore(P, db) ==
   \A j \in 1..Len(P.rules) : AddFacts(P, db, Conseq(P.rules[j], db)) = db
Saturated(P, db) == SaturatedCore(Elaborate(P), db)

--------------------------------------------------------------------------------
(* JSON boundary: rows arrive as sequences of columns; set-valued lattice columns as arrays *)
RECURSIVE ValFromJ(_, _)
ValFromJ(ty, j) ==
   CASE ty.k = "set"  -> { j[i] : i \in DOMAIN j }
     [] ty.k = "bset" -> [ top |-> j.top, s |-> { j.s[i] : i \in DOMAIN j.s } ]
     [] ty.k = "dual" -> ValFromJ(ty.of, j)
     [] ty.k = "opt"  -> IF j.tag = "none" THEN None ELSE Some(ValFromJ(ty.of, j.v))
     [] ty.k = "prod" -> [ i \in 1..Len(ty.of) |-> ValFromJ(ty.of[i], j[i]) ]
     [] ty.k = "lex"  -> [ i \in 1..Len(ty.of) |-> ValFromJ(ty.of[i], j[i]) ]
     [] OTHER -> j

RowFromJ(P, r, row) ==
   IF IsLat(P, r)
   THEN [ i \in 1..Len(row) |-> IF i = Len(row) THEN ValFromJ(LatTy(RelOf(P, r).lat), row[i]) ELSE row[i] ]
   ELSE row

RowsFromJ(P, r, rows) == { RowFromJ(P, r, rows[i]) : i \in DOMAIN rows }
================================================================================
