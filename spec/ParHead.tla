--------------------------------- MODULE ParHead ---------------------------------
(***************************************************************************)
(* The head-update protocol of the PARALLEL macros (ascent_par!,           *)
(* ascent_run_par!) inside one iteration of one SCC: several rayon tasks   *)
(* derive head tuples at the same time; `total` and `delta` are frozen,    *)
(* `new` is written concurrently. One action per critical section of the   *)
(* generated code (ascent_codegen.rs, head_update_code, parallel arms):    *)
(*                                                                         *)
(* relation:  ChkTotal; ChkDelta; InsertIfAbsent (atomic under the shard   *)
(*            lock of the `new` full index); PushRow; IdxInsert; SetChanged*)
(* lattice:   GetNew; GetDelta; GetTotal;                                  *)
(*            found:   JoinRow (under the row write lock);                 *)
(*                     Reinsert + SetChanged iff changed and the key was   *)
(*                     not seen in `new`                                   *)
(*            missing: LockKey; Recheck; (JoinRowLocked | PushRowLocked;   *)
(*                     IdxInsertLocked; SetChangedLocked); Unlock          *)
(*                                                                         *)
(* Every task has one fact (key, value) to add. Properties C02 / C05 for   *)
(* this protocol are the invariants at the bottom; TLC explores every      *)
(* interleaving of 2-3 tasks over 1-2 keys and every initial placement of  *)
(* the keys (absent / new / delta / total).                                *)
(***************************************************************************)
EXTENDS Integers, Sequences, FiniteSets, TLC

CONSTANTS Tasks,     \* set of task ids
          Keys,      \* set of keys (a relation tuple, or the key columns of a lattice row)
          Vals,      \* lattice values (integers, join = max); ignored for relations
          Lattice,   \* TRUE: lattice protocol, FALSE: relation protocol
          VecBackedLatIndex  \* TRUE models the Vec-backed parallel lattice indices of the code BEFORE the repair of
                             \* finding F6 (negative control: IndexOnce must fail); FALSE = set-backed (current code)

NoRow == 0

VARIABLES
   pc,        \* task -> program counter
   fact,      \* task -> [k, v]: what the task derives
   rows,      \* sequence of [k, v]: the relation's row vector
   tot, dlt,  \* key -> row number or NoRow (frozen full / lattice-key indices)
   nw,        \* key -> row number or NoRow (the `new` full index, concurrent map)
   nwidx,     \* BAG of row numbers held by a non-full `new` index (row number -> multiplicity)
   changed,   \* the __changed flag
   seen,      \* task -> row found by the lookups (NoRow if none)
   newHas,    \* task -> whether the lookup in `new` succeeded
   lchg,      \* task -> result of join_mut
   mutex,     \* key -> holder task or "free"
   init,      \* key -> initial value of the key's row (0 = no row), for the final-value invariant
   won        \* set of tasks whose insertion succeeded (relation) / that pushed a row (lattice)

vars == <<pc, fact, rows, tot, dlt, nw, nwidx, changed, seen, newHas, lchg, mutex, init, won>>

Max(a, b) == IF a >= b THEN a ELSE b
Holds(ix, k) == ix[k] # NoRow

(* initial placement of every key: absent, or one row that is in exactly one of new / delta / total *)
Placements == {"absent", "new", "delta", "total"}

Init ==
   \E place \in [Keys -> Placements], v0 \in [Keys -> Vals], f \in [Tasks -> Keys \X Vals] :
      LET present == { k \in Keys : place[k] # "absent" }
          ord == CHOOSE s \in [1..Cardinality(present) -> present] : \A i, j \in DOMAIN s : i # j => s[i] # s[j]
          rowOf(k) == CHOOSE i \in DOMAIN ord : ord[i] = k
      IN
      /\ rows = [ i \in DOMAIN ord |-> [k |-> ord[i], v |-> v0[ord[i]]] ]
      /\ tot = [ k \in Keys |-> IF place[k] = "total" THEN rowOf(k) ELSE NoRow ]
      /\ dlt = [ k \in Keys |-> IF place[k] = "delta" THEN rowOf(k) ELSE NoRow ]
      /\ nw  = [ k \in Keys |-> IF place[k] = "new" THEN rowOf(k) ELSE NoRow ]
      /\ nwidx = [ i \in 1..(Cardinality(present) + Cardinality(Tasks)) |->
                     IF i \in DOMAIN ord /\ place[ord[i]] = "new" THEN 1 ELSE 0 ]
      /\ init = [ k \in Keys |-> IF k \in present THEN v0[k] ELSE 0 ]
      /\ fact = [ t \in Tasks |-> [k |-> f[t][1], v |-> f[t][2]] ]
      /\ pc = [ t \in Tasks |-> IF Lattice THEN "GetNew" ELSE "ChkTotal" ]
      /\ changed = (\E k \in Keys : place[k] = "new")     \* whoever put a row into `new` earlier in the iteration set the flag
      /\ seen = [ t \in Tasks |-> NoRow ] /\ newHas = [ t \in Tasks |-> FALSE ] /\ lchg = [ t \in Tasks |-> FALSE ]
      /\ mutex = [ k \in Keys |-> "free" ]
      /\ won = {}

Goto(t, l) == pc' = [pc EXCEPT ![t] = l]
K(t) == fact[t].k

--------------------------------------------------------------------------------
(* relation protocol *)
ChkTotal(t) ==
   /\ pc[t] = "ChkTotal"
   /\ Goto(t, IF Holds(tot, K(t)) THEN "Done" ELSE "ChkDelta")
   /\ UNCHANGED <<fact, rows, tot, dlt, nw, nwidx, changed, seen, newHas, lchg, mutex, init, won>>

ChkDelta(t) ==
   /\ pc[t] = "ChkDelta"
   /\ Goto(t, IF Holds(dlt, K(t)) THEN "Done" ELSE "InsertIfAbsent")
   /\ UNCHANGED <<fact, rows, tot, dlt, nw, nwidx, changed, seen, newHas, lchg, mutex, init, won>>

(* atomic: the shard write lock is held across the lookup and the insertion. The value stored is (), the *)
(* row number is only known after the push; here the entry is marked with -1 until PushRow fills it in   *)
InsertIfAbsent(t) ==
   /\ pc[t] = "InsertIfAbsent"
   /\ IF Holds(nw, K(t))
      THEN Goto(t, "Done") /\ UNCHANGED <<nw, won>>
      ELSE /\ nw' = [nw EXCEPT ![K(t)] = -1]
           /\ won' = won \cup {t}
           /\ Goto(t, "PushRow")
   /\ UNCHANGED <<fact, rows, tot, dlt, nwidx, changed, seen, newHas, lchg, mutex, init>>

PushRow(t) ==
   /\ pc[t] = "PushRow"
   /\ rows' = Append(rows, [k |-> K(t), v |-> fact[t].v])
   /\ seen' = [seen EXCEPT ![t] = Len(rows) + 1]
   /\ nw' = [nw EXCEPT ![K(t)] = Len(rows) + 1]
   /\ Goto(t, "IdxInsert")
   /\ UNCHANGED <<fact, tot, dlt, nwidx, changed, newHas, lchg, mutex, init, won>>

IdxInsert(t) ==
   /\ pc[t] = "IdxInsert"
   /\ nwidx' = [nwidx EXCEPT ![seen[t]] = @ + 1]
   /\ Goto(t, "SetChanged")
   /\ UNCHANGED <<fact, rows, tot, dlt, nw, changed, seen, newHas, lchg, mutex, init, won>>

SetChanged(t) ==
   /\ pc[t] = "SetChanged"
   /\ changed' = TRUE
   /\ Goto(t, "Done")
   /\ UNCHANGED <<fact, rows, tot, dlt, nw, nwidx, seen, newHas, lchg, mutex, init, won>>

--------------------------------------------------------------------------------
(* lattice protocol *)
GetNew(t) ==
   /\ pc[t] = "GetNew"
   /\ seen' = [seen EXCEPT ![t] = nw[K(t)]]
   /\ newHas' = [newHas EXCEPT ![t] = Holds(nw, K(t))]
   /\ Goto(t, IF Holds(nw, K(t)) THEN "JoinRow" ELSE "GetDelta")
   /\ UNCHANGED <<fact, rows, tot, dlt, nw, nwidx, changed, lchg, mutex, init, won>>

GetDelta(t) ==
   /\ pc[t] = "GetDelta"
   /\ seen' = [seen EXCEPT ![t] = dlt[K(t)]]
   /\ Goto(t, IF Holds(dlt, K(t)) THEN "JoinRow" ELSE "GetTotal")
   /\ UNCHANGED <<fact, rows, tot, dlt, nw, nwidx, changed, newHas, lchg, mutex, init, won>>

GetTotal(t) ==
   /\ pc[t] = "GetTotal"
   /\ seen' = [seen EXCEPT ![t] = tot[K(t)]]
   /\ Goto(t, IF Holds(tot, K(t)) THEN "JoinRow" ELSE "LockKey")
   /\ UNCHANGED <<fact, rows, tot, dlt, nw, nwidx, changed, newHas, lchg, mutex, init, won>>

(* join_mut under the row's write lock: atomic read-modify-write of one row *)
JoinRow(t) ==
   /\ pc[t] = "JoinRow"
   /\ LET i == seen[t]
          nv == Max(rows[i].v, fact[t].v)
      IN /\ rows' = [rows EXCEPT ![i].v = nv]
         /\ lchg' = [lchg EXCEPT ![t] = nv # rows[i].v]
         /\ Goto(t, IF nv # rows[i].v /\ ~newHas[t] THEN "Reinsert" ELSE "Done")
   /\ UNCHANGED <<fact, tot, dlt, nw, nwidx, changed, seen, newHas, mutex, init, won>>

(* the changed row is queued for the next iteration: its number goes into every `new` index.       *)
(* set-backed indices (CLatIndex / the map of the lattice-key index): inserting twice is idempotent *)
Reinsert(t) ==
   /\ pc[t] = "Reinsert"
   /\ nw' = [nw EXCEPT ![K(t)] = seen[t]]
   /\ nwidx' = [nwidx EXCEPT ![seen[t]] = IF VecBackedLatIndex THEN @ + 1 ELSE 1]
   /\ Goto(t, "SetChanged")
   /\ UNCHANGED <<fact, rows, tot, dlt, changed, seen, newHas, lchg, mutex, init, won>>

LockKey(t) ==
   /\ pc[t] = "LockKey"
   /\ mutex[K(t)] = "free"
   /\ mutex' = [mutex EXCEPT ![K(t)] = t]
   /\ Goto(t, "Recheck")
   /\ UNCHANGED <<fact, rows, tot, dlt, nw, nwidx, changed, seen, newHas, lchg, init, won>>

Recheck(t) ==
   /\ pc[t] = "Recheck"
   /\ seen' = [seen EXCEPT ![t] = nw[K(t)]]
   /\ Goto(t, IF Holds(nw, K(t)) THEN "JoinRowLocked" ELSE "PushRowLocked")
   /\ UNCHANGED <<fact, rows, tot, dlt, nw, nwidx, changed, newHas, lchg, mutex, init, won>>

JoinRowLocked(t) ==
   /\ pc[t] = "JoinRowLocked"
   /\ rows' = [rows EXCEPT ![seen[t]].v = Max(@, fact[t].v)]
   /\ Goto(t, "Unlock")
   /\ UNCHANGED <<fact, tot, dlt, nw, nwidx, changed, seen, newHas, lchg, mutex, init, won>>

PushRowLocked(t) ==
   /\ pc[t] = "PushRowLocked"
   /\ rows' = Append(rows, [k |-> K(t), v |-> fact[t].v])
   /\ seen' = [seen EXCEPT ![t] = Len(rows) + 1]
   /\ won' = won \cup {t}
   /\ Goto(t, "IdxInsertLocked")
   /\ UNCHANGED <<fact, tot, dlt, nw, nwidx, changed, newHas, lchg, mutex, init>>

IdxInsertLocked(t) ==
   /\ pc[t] = "IdxInsertLocked"
   /\ nw' = [nw EXCEPT ![K(t)] = seen[t]]
   /\ nwidx' = [nwidx EXCEPT ![seen[t]] = 1]
   /\ Goto(t, "SetChangedLocked")
   /\ UNCHANGED <<fact, rows, tot, dlt, changed, seen, newHas, lchg, mutex, init, won>>

SetChangedLocked(t) ==
   /\ pc[t] = "SetChangedLocked"
   /\ changed' = TRUE
   /\ Goto(t, "Unlock")
   /\ UNCHANGED <<fact, rows, tot, dlt, nw, nwidx, seen, newHas, lchg, mutex, init, won>>

Unlock(t) ==
   /\ pc[t] = "Unlock"
   /\ mutex' = [mutex EXCEPT ![K(t)] = "free"]
   /\ Goto(t, "Done")
   /\ UNCHANGED <<fact, rows, tot, dlt, nw, nwidx, changed, seen, newHas, lchg, init, won>>

Step(t) ==
   \/ ChkTotal(t) \/ ChkDelta(t) \/ InsertIfAbsent(t) \/ PushRow(t) \/ IdxInsert(t) \/ SetChanged(t)
   \/ GetNew(t) \/ GetDelta(t) \/ GetTotal(t) \/ JoinRow(t) \/ Reinsert(t)
   \/ LockKey(t) \/ Recheck(t) \/ JoinRowLocked(t) \/ PushRowLocked(t) \/ IdxInsertLocked(t)
   \/ SetChangedLocked(t) \/ Unlock(t)

Next == \E t \in Tasks : Step(t)

Spec == Init /\ [][Next]_vars /\ \A t \in Tasks : WF_vars(Step(t))

--------------------------------------------------------------------------------
AllDone == \A t \in Tasks : pc[t] = "Done"
RowsOf(k) == { i \in DOMAIN rows : rows[i].k = k }
Derived(k) == { t \in Tasks : K(t) = k }

(* C05: never a second row for a tuple / a lattice key - at every state, not only at the end *)
OneRowPerKey == \A k \in Keys : Cardinality(RowsOf(k)) <= 1

(* C05: at most one task wins the insertion of a tuple; only a winner pushes *)
OneWinner == \A k \in Keys : Cardinality({ t \in won : K(t) = k }) <= 1

(* C02: no derived fact is lost, lattice rows carry the join of everything derived for the key *)
NothingLost ==
   AllDone =>
      \A k \in Keys : Derived(k) # {} =>
         /\ Cardinality(RowsOf(k)) = 1
         /\ Lattice => LET i == CHOOSE j \in RowsOf(k) : TRUE
                           want == LET S == { fact[t].v : t \in Derived(k) } \cup {init[k]}
                                   IN CHOOSE m \in S : \A x \in S : x <= m
                       IN rows[i].v = want

(* C02: a fresh row, and a lattice row whose value increased in this iteration, is reachable through the `new` *)
(* indices (so it is `delta` in the next iteration) and the changed flag is raised                            *)
Requeued ==
   AllDone =>
      \A k \in Keys :
         LET rs == RowsOf(k) IN
         rs # {} =>
            LET i == CHOOSE j \in rs : TRUE
                fresh == ~Holds(tot, k) /\ ~Holds(dlt, k)
                grew == Lattice /\ rows[i].v # init[k]
            IN (fresh \/ grew) => (nw[k] = i /\ nwidx[i] >= 1 /\ changed)

(* C04 relies on it: every `new` index lists a row at most once *)
IndexOnce == \A i \in DOMAIN nwidx : nwidx[i] <= 1

MutexOk == \A k \in Keys : mutex[k] = "free" \/ (mutex[k] \in Tasks /\ pc[mutex[k]] \in
              {"Recheck", "JoinRowLocked", "PushRowLocked", "IdxInsertLocked", "SetChangedLocked", "Unlock"})

(* no deadlock, every task finishes (checked as a liveness property under weak fairness) *)
Terminates == <>AllDone
================================================================================
