SPECIFICATION Spec
CONSTANTS
  PoolSizes = {1, 2, 3, 4}
  MaxRuns = 2
  InitRows = 2
  ResetOnRun = FALSE
INVARIANTS IndexOnce
CHECK_DEADLOCK FALSE
