SPECIFICATION Spec
INVARIANTS Theorems TimeoutTheorem Emit
CHECK_DEADLOCK FALSE
