SPECIFICATION Spec
INVARIANTS Theorems Emit EmitPlan
CHECK_DEADLOCK FALSE
