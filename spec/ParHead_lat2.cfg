SPECIFICATION Spec
CONSTANTS
  Tasks = {t1, t2}
  Keys = {k1, k2}
  Vals = {1, 2}
  VecBackedLatIndex = FALSE
  Lattice = TRUE
INVARIANTS OneRowPerKey OneWinner NothingLost Requeued IndexOnce MutexOk
PROPERTY Terminates
CHECK_DEADLOCK FALSE
