SPECIFICATION Spec
CONSTANTS
  Tasks = {t1, t2, t3}
  Keys = {k1, k2}
  Vals = {1}
  VecBackedLatIndex = FALSE
  Lattice = FALSE
INVARIANTS OneRowPerKey OneWinner NothingLost Requeued IndexOnce MutexOk
PROPERTY Terminates
CHECK_DEADLOCK FALSE
