"""Common machinery of the /verif checks: TLC runs, cargo builds, evidence, verdicts."""
import json, os, re, shutil, subprocess, sys, time, hashlib

ROOT = os.path.dirname(os.path.dirname(os.path.abspath(__file__)))
SPEC = os.path.join(ROOT, "spec")
BUILD = os.path.join(ROOT, "build")
HARNESS = os.path.join(ROOT, "harness")
TARGET = os.path.join(BUILD, "target")
EVIDENCE = os.path.join(ROOT, "evidence")
REPLAYS = os.path.join(ROOT, "replays")
KNOWN = os.path.join(ROOT, "known_findings.json")
TLA_JAR = "/opt/veriftools/tla/tla2tools.jar"


class ToolError(Exception):
    """Something in the machinery (not in the code under test) failed: exit code 2."""


def log(*a):
    print(*a, file=sys.stderr, flush=True)


def env_offline():
    e = dict(os.environ)
    e.setdefault("CARGO_NET_OFFLINE", "true")
    e["CARGO_TERM_COLOR"] = "never"
    return e


# --------------------------------------------------------------------------------------------
# cargo

def cargo_build(packages, features=None, release=False, timeout=3600, target_dir=None):
    """Builds harness packages against /repo's working tree. Returns the directory with the binaries."""
    cmd = ["cargo", "build", "--offline"]
    if target_dir:
        cmd += ["--target-dir", target_dir]
    for p in packages:
        cmd += ["-p", p]
    if release:
        cmd.append("--release")
    if features:
        cmd += ["--features", ",".join(features)]
    t0 = time.time()
    r = subprocess.run(cmd, cwd=HARNESS, env=env_offline(), stdout=subprocess.PIPE, stderr=subprocess.STDOUT,
                       text=True, timeout=timeout)
    log(f"[cargo] {' '.join(cmd[1:])}: rc={r.returncode} {time.time()-t0:.1f}s")
    return r.returncode, r.stdout, os.path.join(target_dir or TARGET, "release" if release else "debug")


def cargo_build_or_die(packages, **kw):
    rc, out, d = cargo_build(packages, **kw)
    if rc != 0:
        raise BuildFailed(out)
    return d


class BuildFailed(Exception):
    """The harness does not build against the current /repo tree. For a conformance harness that only
    uses public API this means the API a property is stated over is gone or changed: reported by the
    caller (violation for properties that state it, tool error otherwise)."""


# --------------------------------------------------------------------------------------------
# TLC

class TlcResult:
    def __init__(self):
        self.rc = None
        self.out = ""
        self.generated = 0
        self.distinct = 0
        self.lines = []      # decoded PrintT payloads: (tag, json)
        self.violated = None  # name of violated invariant / property, if any
        self.wall = 0.0
        self.coverage = {}   # action name -> (distinct, total)


def run_tlc(module, cfg, workdir=None, env=None, workers=4, simulate=None, depth=None, timeout=1800,
            tags=("VEC",), deque=False, xss=False, coverage=False, heap="4g", seed=None):
    """Runs TLC on spec/<module>.tla with spec/<cfg>. PrintT lines of the form "TAG {json}" are decoded."""
    import uuid
    metadir = os.path.join(BUILD, "tlc", f"{module}-{os.getpid()}-{uuid.uuid4().hex[:12]}")
    os.makedirs(metadir, exist_ok=True)
    jopts = []
    if xss:
        jopts.append("-Xss1g")
    if deque:
        jopts.append("-Dtlc2.tool.queue.IStateQueue=StateDeque")
    e = dict(os.environ)
    if env:
        e.update({k: str(v) for k, v in env.items()})
    cmd = ["java", f"-Xmx{heap}", "-XX:+UseParallelGC"] + jopts + [
        "-cp", TLA_JAR + ":" + os.environ.get("TLA_CM_JAR", "/opt/veriftools/tla/CommunityModules-deps.jar"),
        "tlc2.TLC"]
    # prefer the wrapper on PATH (it knows the classpath); fall back to java directly only if missing
    if shutil.which("tlc"):
        cmd = ["tlc"]
        if jopts or heap:
            e["JAVA_TOOL_OPTIONS"] = " ".join(jopts + [f"-Xmx{heap}"])
    cmd += ["-workers", str(workers), "-metadir", metadir, "-cleanup", "-noGenerateSpecTE",
            "-config", cfg]
    if coverage:
        cmd += ["-coverage", "1"]
    if simulate:
        cmd += ["-simulate", f"num={simulate}"]
        if depth:
            cmd += ["-depth", str(depth)]
        if seed is not None:
            cmd += ["-seed", str(seed)]
    cmd.append(module + ".tla")
    res = TlcResult()
    t0 = time.time()
    try:
        r = subprocess.run(["timeout", str(timeout)] + cmd, cwd=workdir or SPEC, env=e, stdout=subprocess.PIPE,
                           stderr=subprocess.STDOUT, text=True, errors="replace")
    finally:
        shutil.rmtree(metadir, ignore_errors=True)
    res.wall = time.time() - t0
    res.rc = r.returncode
    res.out = r.stdout
    for line in r.stdout.splitlines():
        if line.startswith('"'):
            try:
                inner = json.loads(line)
            except Exception:
                continue
            for tag in tags:
                if inner.startswith(tag + " "):
                    try:
                        res.lines.append((tag, json.loads(inner[len(tag) + 1:])))
                    except Exception as ex:
                        raise ToolError(f"undecodable TLC payload: {line[:200]}: {ex}")
            continue
        m = re.match(r"(\d+) states generated, (\d+) distinct states found", line)
        if m:
            res.generated, res.distinct = int(m.group(1)), int(m.group(2))
        m = re.match(r"Error: Invariant (\S+) is violated", line)
        if m:
            res.violated = m.group(1)
        if "Error: Action property" in line or "Error: Temporal properties were violated" in line:
            res.violated = res.violated or line.strip()
        m = re.match(r"<(\w+) line .*>: (\d+):(\d+)", line)
        if m:
            res.coverage[m.group(1)] = (int(m.group(2)), int(m.group(3)))
    log(f"[tlc] {module} {cfg}: rc={res.rc} generated={res.generated} distinct={res.distinct} "
        f"payloads={len(res.lines)} {res.wall:.1f}s")
    if res.rc == 124:
        raise ToolError(f"TLC timed out after {timeout}s on {module}/{cfg}")
    return res


def tlc_ok(res, what):
    """TLC finished without any error (model-level)."""
    if res.rc != 0 or res.violated:
        tail = "\n".join(res.out.splitlines()[-60:])
        raise ToolError(f"TLC reported a problem in {what} (rc={res.rc}, violated={res.violated}):\n{tail}")


# --------------------------------------------------------------------------------------------
# verdicts / evidence

class Outcome:
    def __init__(self, pid, tier, seed, level="model_checking"):
        self.pid, self.tier, self.seed, self.level = pid, tier, seed, level
        self.t0 = time.time()
        self.states = 0
        self.transitions = 0
        self.traces = 0
        self.evaluations = 0
        self.nontrivial = set()
        self.nontrivial_count = None
        self.samples = []
        self.rule = ""
        self.exhaustive = False
        self.violations = []     # list of dict (each becomes a replay file)
        self.known = []          # list of (finding id, text)
        self.extra = {}
        self.assumptions = []
        self.models = []

    def add_tlc(self, res, name):
        self.states += res.distinct
        self.transitions += res.generated
        self.models.append({"model": name, "distinct_states": res.distinct, "states_generated": res.generated,
                            "wall_s": round(res.wall, 1)})

    def sample(self, s, cap=5):
        if len(self.samples) < cap:
            self.samples.append(s)

    def nontriv(self, key):
        self.nontrivial.add(key if isinstance(key, (str, int, tuple)) else json.dumps(key, sort_keys=True))

    def violation(self, record):
        self.violations.append(record)

    def finish(self):
        os.makedirs(EVIDENCE, exist_ok=True)
        cov = {
            "states": self.states, "transitions": self.transitions,
            "traces_validated_against_impl": self.traces,
            "samples": self.samples if self.samples else ["<no case was explored>"],
            "evaluations": self.evaluations,
            "distinct_nontrivial": self.nontrivial_count if self.nontrivial_count is not None else len(self.nontrivial),
            "rule": self.rule, "exhaustive": self.exhaustive, "models": self.models,
        }
        cov.update(self.extra)
        ev = {"property_id": self.pid, "tier": self.tier, "seed": self.seed, "level": self.level,
              "coverage": cov, "assumptions": self.assumptions, "wall_s": round(time.time() - self.t0, 2),
              "violations": len(self.violations),
              "known_findings_seen": [k[0] for k in self.known]}
        with open(os.path.join(EVIDENCE, f"{self.pid}.json"), "w") as f:
            json.dump(ev, f, indent=1, sort_keys=True, default=str)
        for fid, text in self.known:
            print(f"KNOWN-FINDING: property={self.pid} {fid}: {text}", flush=True)
        if self.violations:
            d = os.path.join(REPLAYS, self.pid)
            os.makedirs(d, exist_ok=True)
            for i, v in enumerate(self.violations[:5]):
                h = hashlib.sha1(json.dumps(v, sort_keys=True, default=str).encode()).hexdigest()[:10]
                path = os.path.join(d, f"{h}.json")
                with open(path, "w") as f:
                    json.dump(v, f, indent=1, sort_keys=True, default=str)
                print(f"VIOLATION property={self.pid} replay={path}", flush=True)
                log(f"  -> {str(v.get('summary', ''))[:300]}")
            return 1
        return 0


def load_known():
    if not os.path.exists(KNOWN):
        return []
    with open(KNOWN) as f:
        return json.load(f).get("findings", [])


def canon(v):
    """Canonical hashable form of a JSON value (lists stay ordered)."""
    if isinstance(v, list):
        return tuple(canon(x) for x in v)
    if isinstance(v, dict):
        return tuple(sorted((k, canon(x)) for k, x in v.items()))
    return v


def write_ndjson(path, records):
    os.makedirs(os.path.dirname(path), exist_ok=True)
    with open(path, "w") as f:
        for r in records:
            f.write(json.dumps(r, separators=(",", ":")))
            f.write("\n")


def read_ndjson(path):
    with open(path) as f:
        return [json.loads(l) for l in f if l.strip()]


def run_bin(bindir, name, cases_path, out_path, timeout=1800, env=None):
    e = dict(os.environ)
    if env:
        e.update({k: str(v) for k, v in env.items()})
    t0 = time.time()
    r = subprocess.run(["timeout", str(timeout), os.path.join(bindir, name), cases_path, out_path], env=e,
                       stdout=subprocess.PIPE, stderr=subprocess.STDOUT, text=True, errors="replace")
    log(f"[run] {name}: rc={r.returncode} {time.time()-t0:.1f}s")
    return r.returncode, r.stdout


def read_ndjson_lenient(path):
    out = []
    with open(path, errors="replace") as f:
        for l in f:
            l = l.strip()
            if not l:
                continue
            try:
                out.append(json.loads(l))
            except Exception:
                break          # a truncated last line of a process that died
    return out
