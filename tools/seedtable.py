#!/usr/bin/env python3
"""Prints the markdown table of seeded faults (DESIGN.md 11.6) from /verif/seeded/*/meta.json."""
import json, glob, os, re
ROOT = os.path.dirname(os.path.dirname(os.path.abspath(__file__)))
rows = []
for f in sorted(glob.glob(os.path.join(ROOT, "seeded", "*", "meta.json"))):
    m = json.load(open(f))
    d = os.path.dirname(f)
    patch = open(os.path.join(d, "patch.diff")).read()
    files = sorted(set(re.findall(r"^\+\+\+ b/(\S+)", patch, re.M)))
    notes = open(os.path.join(d, "notes.md")).read().strip().splitlines()
    title = next((l.strip("# ").strip() for l in notes if l.strip()), "")
    det = ", ".join(f"{k} ({'VIOLATION' if v['exit'] == 1 else 'missed' if v['exit'] == 0 else 'tool error'})" for k, v in m.get("detected_by", {}).items())
    rows.append((m["seed"], ", ".join(os.path.basename(x) for x in files), title[:110], det))
print("| seed | file(s) | change | quick checks run against it |")
print("|---|---|---|---|")
for r in rows:
    print("| " + " | ".join(r) + " |")
