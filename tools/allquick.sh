#!/bin/sh
# Runs every quick check once on the current tree with the given VERIF_SEED (default 1); one summary line per check.
# usage: tools/allquick.sh [seed] [logdir]
seed=${1:-1}
logdir=${2:-/tmp/allquick_$seed}
mkdir -p "$logdir"
cd "$(dirname "$0")/.."
for c in C01 C02 C03 C04 C05 C06 C07 C08 C09 C10 C11 C12 C13 C14 C15 C16 C17 C18 C19 C20; do
  s=$(date +%s)
  VERIF_SEED=$seed ./check $c quick > "$logdir/$c.log" 2>&1
  rc=$?
  echo "$c seed=$seed rc=$rc $(( $(date +%s) - s ))s violations=$(grep -c '^VIOLATION' "$logdir/$c.log")" | tee -a "$logdir/summary.log"
done
