#!/usr/bin/env python3
"""Seeded-fault bookkeeping.

  tools/seed.py verify <ID> <n>      confirm a sub-agent's change in ITS scratch worktree /tmp/seed/<ID>:
                                     test suite passes with the change, demo fails with it, demo passes without;
                                     then store it as /verif/seeded/<ID>-<n>/ (patch.diff, demo/, notes.md, meta.json)
  tools/seed.py run <seed> <PID>...  apply the seed to /repo, run `./check <PID> quick` for each PID, undo the change,
                                     record which checks reported a VIOLATION in seeded/<seed>/meta.json
"""
import json, os, re, shutil, subprocess, sys, time
ROOT = os.path.dirname(os.path.dirname(os.path.abspath(__file__)))
SEEDED = os.path.join(ROOT, "seeded")


def sh(cmd, cwd=None, timeout=3600):
    r = subprocess.run(cmd, shell=True, cwd=cwd, stdout=subprocess.PIPE, stderr=subprocess.STDOUT, text=True, timeout=timeout)
    return r.returncode, r.stdout


def verify(pid, n):
    wt = f"/tmp/seed/{pid}"
    sd = f"{wt}/_seed/{n}"
    meta = {"property": pid[:3], "seed": f"{pid}-{n}", "verified_at": time.strftime("%Y-%m-%d %H:%M:%S"), "steps": []}
    sh("git checkout -- .", cwd=wt)
    rc, out = sh(f"git apply --check {sd}/patch.diff", cwd=wt)
    if rc != 0:
        print("patch does not apply", out)
        return 1
    sh(f"git apply {sd}/patch.diff", cwd=wt)
    rc, out = sh("cargo test --workspace --no-fail-fast --offline 2>&1 | grep -E '^test result|FAILED|failed' ", cwd=wt)
    ok_tests = "FAILED" not in out and "failed;" in out and not re.search(r"[1-9]\d* failed", out)
    meta["steps"].append({"cmd": "cargo test --workspace --no-fail-fast --offline (change applied)", "passed": ok_tests, "summary": out.strip().splitlines()[-8:]})
    rc1, out1 = sh("cargo run --offline 2>&1 | tail -5", cwd=f"{sd}/demo")
    rc1 = subprocess.run("cargo run --offline >/dev/null 2>&1", shell=True, cwd=f"{sd}/demo").returncode
    meta["steps"].append({"cmd": "demo: cargo run --offline (change applied)", "exit": rc1, "tail": out1.strip().splitlines()[-3:]})
    sh("git checkout -- .", cwd=wt)
    rc2 = subprocess.run("cargo run --offline >/dev/null 2>&1", shell=True, cwd=f"{sd}/demo").returncode
    meta["steps"].append({"cmd": "demo: cargo run --offline (unchanged worktree)", "exit": rc2})
    good = ok_tests and rc1 != 0 and rc2 == 0
    meta["confirmed"] = good
    print(f"{pid}-{n}: tests_pass={ok_tests} demo_with_change_exit={rc1} demo_without_exit={rc2} -> {'CONFIRMED' if good else 'REJECTED'}")
    if good:
        dst = os.path.join(SEEDED, f"{pid}-{n}")
        shutil.rmtree(dst, ignore_errors=True)
        os.makedirs(dst)
        shutil.copy(f"{sd}/patch.diff", dst)
        shutil.copy(f"{sd}/notes.md", dst)
        shutil.copytree(f"{sd}/demo", f"{dst}/demo", ignore=shutil.ignore_patterns("target"))
        # the stored demo builds against /repo
        ct = open(f"{dst}/demo/Cargo.toml").read().replace(wt, "/repo")
        open(f"{dst}/demo/Cargo.toml", "w").write(ct)
        notes = open(f"{sd}/notes.md").read()
        meta["breaks"] = pid[:3]
        meta["needs_to_manifest"] = notes[:1500]
        meta["detected_by"] = {}
        json.dump(meta, open(f"{dst}/meta.json", "w"), indent=1)
    shutil.rmtree(f"{sd}/demo/target", ignore_errors=True)
    return 0 if good else 1


def run(seed, pids):
    dst = os.path.join(SEEDED, seed)
    meta = json.load(open(f"{dst}/meta.json"))
    rc, out = sh("git status --short | grep -v '^??'", cwd="/repo")
    if out.strip():
        print("refusing: /repo has uncommitted changes", out)
        return 2
    rc, out = sh(f"git apply {dst}/patch.diff", cwd="/repo")
    if rc != 0:
        print("patch does not apply to /repo:", out)
        return 2
    try:
        for pid in pids:
            t0 = time.time()
            # the committed evidence must describe the UNCHANGED tree: keep it aside while the seeded tree is checked
            evf = os.path.join(ROOT, "evidence", f"{pid}.json")
            saved = open(evf).read() if os.path.exists(evf) else None
            try:
                rc, out = sh(f"./check {pid} quick", cwd=ROOT, timeout=5400)
            finally:
                if saved is not None:
                    open(evf, "w").write(saved)
            viol = [l for l in out.splitlines() if l.startswith("VIOLATION")]
            desc = [l.strip() for l in out.splitlines() if l.startswith("  -> ")]
            meta["detected_by"][pid] = {"exit": rc, "violations": len(viol), "first": (desc[0][:400] if desc else ""),
                                        "wall_s": round(time.time() - t0)}
            print(f"{seed} vs {pid}: exit={rc} violations={len(viol)} {desc[0][:200] if desc else ''}")
    finally:
        sh("git checkout -- .", cwd="/repo")
        shutil.rmtree(os.path.join(ROOT, "replays"), ignore_errors=True)
    json.dump(meta, open(f"{dst}/meta.json", "w"), indent=1)
    return 0


if __name__ == "__main__":
    if sys.argv[1] == "verify":
        sys.exit(verify(sys.argv[2], sys.argv[3]))
    if sys.argv[1] == "run":
        sys.exit(run(sys.argv[2], sys.argv[3:]))
