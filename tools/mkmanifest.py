#!/usr/bin/env python3
"""Writes /verif/MANIFEST.json from the table below (single source of truth for the check registry)."""
import json, os, subprocess
ROOT = os.path.dirname(os.path.dirname(os.path.abspath(__file__)))

def repo_commits():
    try:
        out = subprocess.run(["git", "-C", "/repo", "log", "--format=%h %s"], capture_output=True, text=True).stdout
        return [l.split()[0] for l in out.splitlines() if l.split(" ", 1)[1].startswith("verif hooks")]
    except Exception:
        return []

CHECKS = {
 "C17": dict(engine="agg", ref="DESIGN.md section 6 (C17)",
   technique="TLA+ spec Aggregators.tla model-checked by TLC (all input sequences up to the bound, definitional laws as invariants and an action property); TLC-printed vectors replayed through ascent::aggregators",
   text="Exhaustive inside the bound: TLC enumerates every input sequence (quick: length <= 4 over 5 values; thorough: length <= 5 over 7 values incl. +-10^6) and 11-13 percentile arguments incl. both end points, proves the definitional laws on the specification and prescribes every result; each vector is executed on the real functions with iterators of exact, inexact and absent size hints, panics captured. Right level: the aggregators are pure functions of a bag, so spec-to-implementation replay of the complete small scope is a decision procedure for that scope.",
   note="Trusted: TLC, the comparison code in engines/agg.py. percentile is judged by property-level constraints (element of the input, rank within one position of n*p/100, exact at p=0/100, monotone in p), so a different legitimate rank convention does not alarm. Values are small integers (i64/i32)."),
 "C01": dict(engine='sem', ref='DESIGN.md section 6 (C01)',
   technique='TLA+ specification of the rule language (AscentSem.tla: stratified least model interpreted by TLC from the program AST) + SemGen.tla (TLC enumerates every small input database, checks the theorems of the semantics, prints behaviours) replayed on the compiled macros + TraceSem.tla (TLC validates every recorded hook event and final state against the semantics)',
   text='Model checking of the declarative semantics (fixpoint, inputs included, idempotence, monotonicity as TLC invariants / action property over every enumerated database) and conformance in both directions: every TLC-enumerated behaviour (program x input database) is executed on the compiled ascent! program (plain and generate_run_timeout variants) and the recorded trace - every head insertion, every merge round, return value, final rows - is validated by TLC against the specification, which recomputes the least model: an inserted tuple must be new and derivable at the moment it is inserted, the final relations must equal the least model as sets and as multisets. Right level: the property quantifies over programs x inputs; the semantics is executable in TLC, so the oracle is exact, and small inputs are enumerated exhaustively per program.',
   note='Trusted: TLC and the CommunityModules JSON reader, rustc, the AST renderer gen/render.py (its agreement with the TLA+ interpreter is itself exercised by every run), the normalisation of Debug-printed rows in engines/semlib.py, hooks being observation-only. Programs and inputs are exhaustive only inside the stated bounds (program corpus of hand-written shapes; inputs: all databases with <= bound tuples over a 2-4 element domain).'),
 "C03": dict(engine='sem', ref='DESIGN.md section 6 (C03)',
   technique='TLA+ specification of the rule language (AscentSem.tla: stratified least model interpreted by TLC from the program AST) + SemGen.tla (TLC enumerates every small input database, checks the theorems of the semantics, prints behaviours) replayed on the compiled macros + TraceSem.tla (TLC validates every recorded hook event and final state against the semantics)',
   text="As C01, for lattice relations over max/Dual/Set/BoundedSet/Option/ConstPropagation/tuple/bool lattices: TLC computes the key-wise least fixed point with Lattices.tla's join; every recorded lattice update must keep one row per key, never decrease, never exceed the least fixed point; the final rows must carry exactly the least-fixed-point value per key and every dependent relation must be complete.",
   note='Trusted: TLC and the CommunityModules JSON reader, rustc, the AST renderer gen/render.py (its agreement with the TLA+ interpreter is itself exercised by every run), the normalisation of Debug-printed rows in engines/semlib.py, hooks being observation-only. Programs and inputs are exhaustive only inside the stated bounds (program corpus of hand-written shapes; inputs: all databases with <= bound tuples over a 2-4 element domain). Lattice programs of the corpus use lattice values monotonically inside recursion (premise of the property); reads from later strata are unrestricted.'),
 "C04": dict(engine='sem', ref='DESIGN.md section 6 (C04)',
   technique='TLA+ specification of the rule language (AscentSem.tla: stratified least model interpreted by TLC from the program AST) + SemGen.tla (TLC enumerates every small input database, checks the theorems of the semantics, prints behaviours) replayed on the compiled macros + TraceSem.tla (TLC validates every recorded hook event and final state against the semantics)',
   text='As C01 for stratified programs with negation and aggregation (count, sum, min, max, not, two user aggregators incl. one exposing multiplicity and one yielding several values), serial and parallel macros: the oracle aggregates over the set of distinct matching tuples of the COMPLETE lower stratum, so an aggregate evaluated too early or fed a tuple twice produces an underivable insertion that TraceSem rejects at that very event.',
   note='Trusted: TLC and the CommunityModules JSON reader, rustc, the AST renderer gen/render.py (its agreement with the TLA+ interpreter is itself exercised by every run), the normalisation of Debug-printed rows in engines/semlib.py, hooks being observation-only. Programs and inputs are exhaustive only inside the stated bounds (program corpus of hand-written shapes; inputs: all databases with <= bound tuples over a 2-4 element domain).'),
 "C05": dict(engine='sem', ref='DESIGN.md section 6 (C05)',
   technique='TLA+ specification of the rule language (AscentSem.tla: stratified least model interpreted by TLC from the program AST) + SemGen.tla (TLC enumerates every small input database, checks the theorems of the semantics, prints behaviours) replayed on the compiled macros + TraceSem.tla (TLC validates every recorded hook event and final state against the semantics)',
   text='Every corpus program (all tags), serial and parallel: TraceSem rejects an insertion event for a tuple already present (duplicate-insert), a final state whose row count differs from its number of distinct tuples, two rows for one lattice key, and a pushed input row that is missing afterwards.',
   note='Trusted: TLC and the CommunityModules JSON reader, rustc, the AST renderer gen/render.py (its agreement with the TLA+ interpreter is itself exercised by every run), the normalisation of Debug-printed rows in engines/semlib.py, hooks being observation-only. Programs and inputs are exhaustive only inside the stated bounds (program corpus of hand-written shapes; inputs: all databases with <= bound tuples over a 2-4 element domain).'),
 "C06": dict(engine='sem', ref='DESIGN.md section 6 (C06)',
   technique='TLA+ specification of the rule language (AscentSem.tla: stratified least model interpreted by TLC from the program AST) + SemGen.tla (TLC enumerates every small input database, checks the theorems of the semantics, prints behaviours) replayed on the compiled macros + TraceSem.tla (TLC validates every recorded hook event and final state against the semantics)',
   text='Variant families of one logical program - permuted rules, declarations, head clauses and adjacent independent clauses; alpha-renamed variables and relations; constants mapped injectively to Strings and to large u64s with the column type changed; shuffled input vectors; serial and parallel - are all compiled and each must produce the image of the single least model TLC computes from the logical program.',
   note='Trusted: TLC and the CommunityModules JSON reader, rustc, the AST renderer gen/render.py (its agreement with the TLA+ interpreter is itself exercised by every run), the normalisation of Debug-printed rows in engines/semlib.py, hooks being observation-only. Programs and inputs are exhaustive only inside the stated bounds (program corpus of hand-written shapes; inputs: all databases with <= bound tuples over a 2-4 element domain). Independence of body items is decided conservatively (adjacent clauses without conditions / expression arguments).'),
 "C07": dict(engine='sem', ref='DESIGN.md section 6 (C07)',
   technique='TLA+ specification of the rule language (AscentSem.tla: stratified least model interpreted by TLC from the program AST) + SemGen.tla (TLC enumerates every small input database, checks the theorems of the semantics, prints behaviours) replayed on the compiled macros + TraceSem.tla (TLC validates every recorded hook event and final state against the semantics)',
   text='Each sugared corpus program (disjunctions incl. nested, ?pattern arguments, repeated variables, expression arguments over earlier columns of the same clause, wildcards, negation, multi-head rules, facts) is compiled as written and as its hand-written core expansion, serial and parallel; both must equal the least model TLC computes from the sugared AST.',
   note='Trusted: TLC and the CommunityModules JSON reader, rustc, the AST renderer gen/render.py (its agreement with the TLA+ interpreter is itself exercised by every run), the normalisation of Debug-printed rows in engines/semlib.py, hooks being observation-only. Programs and inputs are exhaustive only inside the stated bounds (program corpus of hand-written shapes; inputs: all databases with <= bound tuples over a 2-4 element domain). The hand expansion is produced by gen/xforms.py (documented desugaring written out as core syntax); the oracle gives the sugared forms their meaning directly (disjunction = union of environments, ! = emptiness test, ?pattern = match, repeated variable / non-variable argument = equality).'),
 "C08": dict(engine='sem', ref='DESIGN.md section 6 (C08)',
   technique='TLA+ specification of the rule language (AscentSem.tla: stratified least model interpreted by TLC from the program AST) + SemGen.tla (TLC enumerates every small input database, checks the theorems of the semantics, prints behaviours) replayed on the compiled macros + TraceSem.tla (TLC validates every recorded hook event and final state against the semantics)',
   text='Programs with in-program macros (same macro twice in one rule, call-site variable spelled like a macro-local one, nested invocations, macro containing a disjunction) are compiled as written (real rustc, because hygiene is implemented on token spans) and as their hand-written hygienic expansion; both must equal the least model of MacroExpand(P) computed by TLC.',
   note='Trusted: TLC and the CommunityModules JSON reader, rustc, the AST renderer gen/render.py (its agreement with the TLA+ interpreter is itself exercised by every run), the normalisation of Debug-printed rows in engines/semlib.py, hooks being observation-only. Programs and inputs are exhaustive only inside the stated bounds (program corpus of hand-written shapes; inputs: all databases with <= bound tuples over a 2-4 element domain). MacroExpand in AscentSem.tla is the specification of hygiene (parameters unify with call-site identifiers, every other identifier of the body is renamed per invocation path).'),
 "C09": dict(engine='sem', ref='DESIGN.md section 6 (C09)',
   technique='TLA+ specification of the rule language (AscentSem.tla: stratified least model interpreted by TLC from the program AST) + SemGen.tla (TLC enumerates every small input database, checks the theorems of the semantics, prints behaviours) replayed on the compiled macros + TraceSem.tla (TLC validates every recorded hook event and final state against the semantics)',
   text='Packaging variants of one logical program - ascent!, ascent_run! and ascent_run_par! with captured locals, ascent_source!/include_source! with the include first / in the middle / last (serial and parallel), relation r(..) = expr initialisers, re-declared relations (last declaration wins), generic struct signature, measure_rule_times, generate_run_timeout - are compiled and each must produce the least model TLC computes.',
   note='Trusted: TLC and the CommunityModules JSON reader, rustc, the AST renderer gen/render.py (its agreement with the TLA+ interpreter is itself exercised by every run), the normalisation of Debug-printed rows in engines/semlib.py, hooks being observation-only. Programs and inputs are exhaustive only inside the stated bounds (program corpus of hand-written shapes; inputs: all databases with <= bound tuples over a 2-4 element domain). segment-codegen is covered by the thorough tier only (needs a second build of the corpus).'),
 "C16": dict(engine='lat', ref='DESIGN.md section 6 (C16)',
   technique='TLA+ spec Lattices.tla (order/join/meet over a language of type expressions) model-checked by TLC through LatticeCell.tla (all pairs and triples of every carrier; lattice laws, bounds, Dual/Reverse swap, changed-flag truthfulness as invariants); TLC-printed vectors and cell histories replayed through the real Lattice impls',
   text='Exhaustive over small carriers: for 39 lattice types (all shipped implementations and nested compositions) TLC enumerates every pair (quick: plus triples of the 30 smallest types; thorough: every triple), proves the laws on the specification and prescribes join, meet, join_mut/meet_mut result and changed flag, partial_cmp, top/bottom; lat-replay executes each vector and each three-step cell history on the real types (shared and uniquely owned Rc/Arc operands). Right level: each implementation is a finite case analysis; replaying the complete small scope is a decision procedure for it.',
   note='Trusted: TLC, the JSON codec in harness/lat-replay. Carriers are small (<= 32 values per type); generic element types are instantiated with i8/u8/bool/small sets.'),
 "C13": dict(engine='life', ref='DESIGN.md section 6 (C13)',
   technique='TLA+ specs AscentSem.tla (semantics) + LifeGen.tla (TLC enumerates / simulates run-push-run histories and checks incremental = fresh saturation on each) replayed on compiled programs; TraceSem.tla validates every recorded event of every call of the history',
   text='Histories of one program value: (a) push* run (push* run)* with facts pushed into input AND derived relations between runs - exhaustive within tiny bounds, TLC simulation beyond - for programs without negation/aggregation; (b) run; run; run for every corpus program incl. negation, aggregation, lattices; serial, parallel and generate_run_timeout variants. TLC proves on each history that saturating incrementally equals a fresh run (model level) and TraceSem validates the real trace of every call: nothing may be inserted by a re-run of an unmodified value, no panic, after each run the relations equal the least model of everything pushed so far.',
   note='Trusted: as C01. Pushed tuples are never already present; lattice relations are not pushed into after a run.'),
 "C14": dict(engine='life', ref='DESIGN.md section 6 (C14)',
   technique='crash-point enumeration under a virtual clock hook (the deadline fires at a chosen deadline check) + TLA+ trace validation (TraceSem.tla over AscentSem.tla): sound partial state after `false`, exact least model after the resuming call',
   text='Fault enumeration over every point at which the deadline is observable: the number N of deadline checks of an uninterrupted run is measured per (program, input, serial/parallel variant), then run_timeout is made to return at every check k < N (all of them when N <= 8), followed by run() or by a chain of further interruptions; every event of every call is validated by TLC against the semantics (TraceSem): after `false` every tuple present is derivable and lattice values are below the final ones, after the final call the relations equal the least model of a single uninterrupted run.',
   note='Trusted: as C01, plus the virtual clock (ascent::internal::verif::Instant) returning the number of deadline checks as elapsed time for the instant created by run_timeout. The deadline can only be observed where the generated code reads the clock; those points are enumerated.'),
}

REASON_TODO = "check under construction in this round: not claimed until its engine is registered here"

def main():
    props = [json.loads(l) for l in open(os.path.join(ROOT, "properties.jsonl"))]
    checks = []
    for p in props:
        pid = p["id"]
        if pid not in CHECKS:
            continue
        c = CHECKS[pid]
        checks.append({
            "property_id": pid,
            "quick_cmd": f"./check {pid} quick",
            "thorough_cmd": f"./check {pid} thorough",
            "evidence_file": f"/verif/evidence/{pid}.json",
            "replay_cmd_template": f"./check {pid} quick --replay {{path}}",
            "engine": c["engine"],
            "level_claimed": {"category": c.get("level", "model_checking"), "text": c["text"], "design_ref": c["ref"]},
            "level_note": c["note"],
            "technique": c["technique"],
        })
    engines = {}
    for pid, c in CHECKS.items():
        engines.setdefault(c["engine"], []).append(pid)
    manifest = {
        "version": 1,
        "setup_cmd": "./setup.sh",
        "hooks": {
            "guard": "cargo feature `verif` (ascent, ascent_macro, ascent-byods-rels)",
            "enable": "the harness workspace /verif/harness depends on /repo/ascent and /repo/byods/ascent-byods-rels by path with features=[\"verif\"]; every check runs `cargo build --offline` there first",
            "baseline_off_cmd": "cd /repo && cargo test --workspace --no-fail-fast --offline",
            "source_commits": repo_commits(),
            "add_only": True,
        },
        "engines": [{"name": n, "path": f"/verif/engines/{n}.py", "serves_properties": sorted(v),
                     "kind_free_text": "TLA+/TLC model + spec-to-implementation replay / trace validation"} for n, v in sorted(engines.items())],
        "checks": checks,
        "notes": "Driver: ./check <ID> quick|thorough [--replay file]; exit 0 held / 1 VIOLATION / 2 tool error. Known findings: /verif/known_findings.json.",
        "not_applicable": [{"property_id": p["id"], "reason": NA.get(p["id"], REASON_TODO)} for p in props if p["id"] not in CHECKS],
    }
    with open(os.path.join(ROOT, "MANIFEST.json"), "w") as f:
        json.dump(manifest, f, indent=1)
    print(f"MANIFEST.json: {len(checks)} checks, {len(manifest['not_applicable'])} not claimed")

NA = {}
if __name__ == "__main__":
    main()
