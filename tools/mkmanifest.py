#!/usr/bin/env python3
"""Writes /verif/MANIFEST.json from the table below (single source of truth for the check registry)."""
import json, os, subprocess
ROOT = os.path.dirname(os.path.dirname(os.path.abspath(__file__)))

def repo_commits():
    try:
        out = subprocess.run(["git", "-C", "/repo", "log", "--format=%h %s"], capture_output=True, text=True).stdout
        return [l.split()[0] for l in out.splitlines() if l.split(" ", 1)[1].startswith("verif hooks")]
    except Exception:
        return []

CHECKS = {
 "C17": dict(engine="agg", ref="DESIGN.md section 6 (C17)",
   technique="TLA+ spec Aggregators.tla model-checked by TLC (all input sequences up to the bound, definitional laws as invariants and an action property); TLC-printed vectors replayed through ascent::aggregators",
   text="Exhaustive inside the bound: TLC enumerates every input sequence (quick: length <= 4 over 5 values; thorough: length <= 5 over 7 values incl. +-10^6) and 11-13 percentile arguments incl. both end points, proves the definitional laws on the specification and prescribes every result; each vector is executed on the real functions with iterators of exact, inexact and absent size hints, panics captured. Right level: the aggregators are pure functions of a bag, so spec-to-implementation replay of the complete small scope is a decision procedure for that scope.",
   note="Trusted: TLC, the comparison code in engines/agg.py. percentile is judged by property-level constraints (element of the input, rank within one position of n*p/100, exact at p=0/100, monotone in p), so a different legitimate rank convention does not alarm. Values are small integers (i64/i32)."),
}

REASON_TODO = "check under construction in this round: not claimed until its engine is registered here"

def main():
    props = [json.loads(l) for l in open(os.path.join(ROOT, "properties.jsonl"))]
    checks = []
    for p in props:
        pid = p["id"]
        if pid not in CHECKS:
            continue
        c = CHECKS[pid]
        checks.append({
            "property_id": pid,
            "quick_cmd": f"./check {pid} quick",
            "thorough_cmd": f"./check {pid} thorough",
            "evidence_file": f"/verif/evidence/{pid}.json",
            "replay_cmd_template": f"./check {pid} quick --replay {{path}}",
            "engine": c["engine"],
            "level_claimed": {"category": c.get("level", "model_checking"), "text": c["text"], "design_ref": c["ref"]},
            "level_note": c["note"],
            "technique": c["technique"],
        })
    engines = {}
    for pid, c in CHECKS.items():
        engines.setdefault(c["engine"], []).append(pid)
    manifest = {
        "version": 1,
        "setup_cmd": "./setup.sh",
        "hooks": {
            "guard": "cargo feature `verif` (ascent, ascent_macro, ascent-byods-rels)",
            "enable": "the harness workspace /verif/harness depends on /repo/ascent and /repo/byods/ascent-byods-rels by path with features=[\"verif\"]; every check runs `cargo build --offline` there first",
            "baseline_off_cmd": "cd /repo && cargo test --workspace --no-fail-fast --offline",
            "source_commits": repo_commits(),
            "add_only": True,
        },
        "engines": [{"name": n, "path": f"/verif/engines/{n}.py", "serves_properties": sorted(v),
                     "kind_free_text": "TLA+/TLC model + spec-to-implementation replay / trace validation"} for n, v in sorted(engines.items())],
        "checks": checks,
        "notes": "Driver: ./check <ID> quick|thorough [--replay file]; exit 0 held / 1 VIOLATION / 2 tool error. Known findings: /verif/known_findings.json.",
        "not_applicable": [{"property_id": p["id"], "reason": NA.get(p["id"], REASON_TODO)} for p in props if p["id"] not in CHECKS],
    }
    with open(os.path.join(ROOT, "MANIFEST.json"), "w") as f:
        json.dump(manifest, f, indent=1)
    print(f"MANIFEST.json: {len(checks)} checks, {len(manifest['not_applicable'])} not claimed")

NA = {}
if __name__ == "__main__":
    main()
