#![allow(unused_imports, unused_variables, unused_mut, dead_code, non_snake_case, unused_parens, clippy::all)]
use ascent::lattice::bounded_set::BoundedSet;
use ascent::lattice::constant_propagation::ConstPropagation;
use ascent::lattice::set::Set;
use ascent::lattice::Product;
use ascent::{Dual, Lattice};
use vh_lite::{rows_json, Driven, Value};
ascent::ascent! {
   pub struct Prog;
   relation sched(i32, i32, i32);
   relation never();
   relation step(i32);
   relation dom(i32);
   #[ds(ascent_byods_rels::trrel)] relation r(i32, i32);
   relation iff(i32, i32);
   relation ibf(i32, i32);
   relation ifb(i32, i32);
   relation ibb(i32, i32);
   relation off(i32, i32);
   relation obf(i32, i32);
   relation ofb(i32, i32);
   relation obb(i32, i32);
   relation j(i32, i32);
   relation nr(i32, i32);
   relation cnt(i32);
   relation outdeg(i32, i32);
   relation indeg(i32, i32);
   relation insum(i32, i32);
   step(0);
   step(((*i) + 1)) <-- step(i), if ((*i) < 2);
   step(0) <-- r(_, _), never();
   dom(x) <-- for x in (0)..(3);
   r(x, y) <-- step(i), sched(i, x, y);
   r(x, y) <-- step(i), sched(i, x, y), dom(x);
   iff(x, y) <-- r(x, y);
   ibf(x, y) <-- dom(x), r(x, y);
   ifb(x, y) <-- dom(y), r(x, y);
   ibb(x, y) <-- dom(x), dom(y), r(x, y);
   r(x, y) <-- iff(x, y), never();
   r(x, y) <-- ibf(x, y), never();
   r(x, y) <-- ifb(x, y), never();
   r(x, y) <-- ibb(x, y), never();
   off(x, y) <-- r(x, y);
   obf(x, y) <-- dom(x), r(x, y);
   ofb(x, y) <-- dom(y), r(x, y);
   obb(x, y) <-- dom(x), dom(y), r(x, y);
   j(x, z) <-- sched(_, x, y), r(y, z);
   nr(x, y) <-- dom(x), dom(y), !r(x, y);
   cnt((n as i32)) <-- agg n = ascent::aggregators::count() in r(_, _);
   outdeg(x, (n as i32)) <-- dom(x), agg n = ascent::aggregators::count() in r(x, _);
   indeg(y, (n as i32)) <-- dom(y), agg n = ascent::aggregators::count() in r(_, y);
   insum(y, s) <-- dom(y), agg s = ascent::aggregators::sum(x) in r(x, y);
}

pub struct D(Prog);
impl Driven for D {
   fn push(&mut self, rel: &str, row: &Value) {
      match rel {
         "sched" => { self.0.sched.push((row[0].as_i64().unwrap() as i32, row[1].as_i64().unwrap() as i32, row[2].as_i64().unwrap() as i32,)); },
         "never" => { self.0.never.push(()); },
         "step" => { self.0.step.push((row[0].as_i64().unwrap() as i32,)); },
         "dom" => { self.0.dom.push((row[0].as_i64().unwrap() as i32,)); },
         "iff" => { self.0.iff.push((row[0].as_i64().unwrap() as i32, row[1].as_i64().unwrap() as i32,)); },
         "ibf" => { self.0.ibf.push((row[0].as_i64().unwrap() as i32, row[1].as_i64().unwrap() as i32,)); },
         "ifb" => { self.0.ifb.push((row[0].as_i64().unwrap() as i32, row[1].as_i64().unwrap() as i32,)); },
         "ibb" => { self.0.ibb.push((row[0].as_i64().unwrap() as i32, row[1].as_i64().unwrap() as i32,)); },
         "off" => { self.0.off.push((row[0].as_i64().unwrap() as i32, row[1].as_i64().unwrap() as i32,)); },
         "obf" => { self.0.obf.push((row[0].as_i64().unwrap() as i32, row[1].as_i64().unwrap() as i32,)); },
         "ofb" => { self.0.ofb.push((row[0].as_i64().unwrap() as i32, row[1].as_i64().unwrap() as i32,)); },
         "obb" => { self.0.obb.push((row[0].as_i64().unwrap() as i32, row[1].as_i64().unwrap() as i32,)); },
         "j" => { self.0.j.push((row[0].as_i64().unwrap() as i32, row[1].as_i64().unwrap() as i32,)); },
         "nr" => { self.0.nr.push((row[0].as_i64().unwrap() as i32, row[1].as_i64().unwrap() as i32,)); },
         "cnt" => { self.0.cnt.push((row[0].as_i64().unwrap() as i32,)); },
         "outdeg" => { self.0.outdeg.push((row[0].as_i64().unwrap() as i32, row[1].as_i64().unwrap() as i32,)); },
         "indeg" => { self.0.indeg.push((row[0].as_i64().unwrap() as i32, row[1].as_i64().unwrap() as i32,)); },
         "insum" => { self.0.insum.push((row[0].as_i64().unwrap() as i32, row[1].as_i64().unwrap() as i32,)); },
         _ => panic!("verif harness: unknown relation {}", rel),
      }
   }
   fn clear(&mut self, rel: &str) {
      match rel {
         "sched" => { self.0.sched = Default::default(); },
         "never" => { self.0.never = Default::default(); },
         "step" => { self.0.step = Default::default(); },
         "dom" => { self.0.dom = Default::default(); },
         "iff" => { self.0.iff = Default::default(); },
         "ibf" => { self.0.ibf = Default::default(); },
         "ifb" => { self.0.ifb = Default::default(); },
         "ibb" => { self.0.ibb = Default::default(); },
         "off" => { self.0.off = Default::default(); },
         "obf" => { self.0.obf = Default::default(); },
         "ofb" => { self.0.ofb = Default::default(); },
         "obb" => { self.0.obb = Default::default(); },
         "j" => { self.0.j = Default::default(); },
         "nr" => { self.0.nr = Default::default(); },
         "cnt" => { self.0.cnt = Default::default(); },
         "outdeg" => { self.0.outdeg = Default::default(); },
         "indeg" => { self.0.indeg = Default::default(); },
         "insum" => { self.0.insum = Default::default(); },
         _ => panic!("verif harness: unknown relation {}", rel),
      }
   }
   fn run(&mut self) { self.0.run(); }
   fn dump(&self) -> Value {
      let mut m: Vec<(String, Value)> = vec![];
      m.push(("sched".to_string(), rows_json(self.0.sched.iter())));
      m.push(("never".to_string(), rows_json(self.0.never.iter())));
      m.push(("step".to_string(), rows_json(self.0.step.iter())));
      m.push(("dom".to_string(), rows_json(self.0.dom.iter())));
      m.push(("iff".to_string(), rows_json(self.0.iff.iter())));
      m.push(("ibf".to_string(), rows_json(self.0.ibf.iter())));
      m.push(("ifb".to_string(), rows_json(self.0.ifb.iter())));
      m.push(("ibb".to_string(), rows_json(self.0.ibb.iter())));
      m.push(("off".to_string(), rows_json(self.0.off.iter())));
      m.push(("obf".to_string(), rows_json(self.0.obf.iter())));
      m.push(("ofb".to_string(), rows_json(self.0.ofb.iter())));
      m.push(("obb".to_string(), rows_json(self.0.obb.iter())));
      m.push(("j".to_string(), rows_json(self.0.j.iter())));
      m.push(("nr".to_string(), rows_json(self.0.nr.iter())));
      m.push(("cnt".to_string(), rows_json(self.0.cnt.iter())));
      m.push(("outdeg".to_string(), rows_json(self.0.outdeg.iter())));
      m.push(("indeg".to_string(), rows_json(self.0.indeg.iter())));
      m.push(("insum".to_string(), rows_json(self.0.insum.iter())));
      Value::Obj(m)
   }
   fn summary(&self) -> String { Prog::summary().to_string() }
}
pub fn make() -> Box<dyn Driven> { Box::new(D(Prog::default())) }
