#![allow(unused_imports, unused_variables, unused_mut, dead_code, non_snake_case, unused_parens, clippy::all)]
use ascent::lattice::bounded_set::BoundedSet;
use ascent::lattice::constant_propagation::ConstPropagation;
use ascent::lattice::set::Set;
use ascent::lattice::Product;
use ascent::{Dual, Lattice};
use serde_json::{json, Value};
use vh_core::{rows_json, Driven};
ascent::ascent_par! {
   pub struct Prog;
   relation e(i32, i32);
   lattice pr(i32, Product<(i32, Dual<i32>)>);
   relation span(i32, i32);
   pr(x, Product(((*y), Dual((*y)),))) <-- e(x, y);
   pr(x, p) <-- e(x, y), pr(y, p);
   span(x, (((*p)).0.0 - (((*p)).0.1).0)) <-- pr(x, p);
}

pub struct D(Prog);
impl Driven for D {
   fn push(&mut self, rel: &str, row: &Value) {
      match rel {
         "e" => { self.0.e.push((row[0].as_i64().unwrap() as i32, row[1].as_i64().unwrap() as i32,)); },
         "pr" => { self.0.pr.push(std::sync::RwLock::new((row[0].as_i64().unwrap() as i32, panic!("verif harness: cannot push a value of lattice type prod_max_dual"),))); },
         "span" => { self.0.span.push((row[0].as_i64().unwrap() as i32, row[1].as_i64().unwrap() as i32,)); },
         _ => panic!("verif harness: unknown relation {}", rel),
      }
   }
   fn run(&mut self) { self.0.run(); }
   fn dump(&self) -> Value {
      let mut m = serde_json::Map::new();
      m.insert("e".to_string(), rows_json(self.0.e.iter()));
      let __v: Vec<(i32, Product<(i32, Dual<i32>)>,)> = self.0.pr.iter().map(|r| r.read().unwrap().clone()).collect();
      m.insert("pr".to_string(), rows_json(__v.iter()));
      m.insert("span".to_string(), rows_json(self.0.span.iter()));
      Value::Object(m)
   }
   fn summary(&self) -> String { Prog::summary().to_string() }
}
pub fn make() -> Box<dyn Driven> { Box::new(D(Prog::default())) }
