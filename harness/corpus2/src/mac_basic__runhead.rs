#![allow(unused_imports, unused_variables, unused_mut, dead_code, non_snake_case, unused_parens, clippy::all)]
use ascent::lattice::bounded_set::BoundedSet;
use ascent::lattice::constant_propagation::ConstPropagation;
use ascent::lattice::set::Set;
use ascent::lattice::Product;
use ascent::{Dual, Lattice};
use vh_lite::{rows_json, Driven, Value};
#[derive(Default)]
pub struct D {
   e: Vec<(i32, i32,)>,
   p2: Vec<(i32, i32,)>,
   p4: Vec<(i32, i32,)>,
   out: Option<Value>,
}
impl Driven for D {
   fn push(&mut self, rel: &str, row: &Value) {
      match rel {
         "e" => { self.e.push((row[0].as_i64().unwrap() as i32, row[1].as_i64().unwrap() as i32,)); },
         "p2" => { self.p2.push((row[0].as_i64().unwrap() as i32, row[1].as_i64().unwrap() as i32,)); },
         "p4" => { self.p4.push((row[0].as_i64().unwrap() as i32, row[1].as_i64().unwrap() as i32,)); },
         _ => panic!("verif harness: unknown relation {}", rel),
      }
   }
   fn run(&mut self) {
      let e_init = self.e.clone();
      let p2_init = self.p2.clone();
      let p4_init = self.p4.clone();
      let res = ascent::ascent_run! {
         relation e(i32, i32);
         relation p2(i32, i32) = p2_init;
         relation p4(i32, i32) = p4_init;
         macro two($a: ident, $b: ident) { e($a, t), e(t, $b) }
         e(a0.clone(), a1.clone()) <-- for (a0, a1, ) in e_init.iter();
         p2(x, y) <-- two!(x, y);
         p4(x, z) <-- two!(x, y), two!(y, z);
      };
      let mut m: Vec<(String, Value)> = vec![];
      m.push(("e".to_string(), rows_json(res.e.iter())));
      m.push(("p2".to_string(), rows_json(res.p2.iter())));
      m.push(("p4".to_string(), rows_json(res.p4.iter())));
      self.out = Some(Value::Obj(m));
   }
   fn dump(&self) -> Value { self.out.clone().unwrap_or(Value::Null) }
}
pub fn make() -> Box<dyn Driven> { Box::new(D::default()) }
