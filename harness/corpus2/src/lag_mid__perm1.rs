#![allow(unused_imports, unused_variables, unused_mut, dead_code, non_snake_case, unused_parens, clippy::all)]
use ascent::lattice::bounded_set::BoundedSet;
use ascent::lattice::constant_propagation::ConstPropagation;
use ascent::lattice::set::Set;
use ascent::lattice::Product;
use ascent::{Dual, Lattice};
use vh_lite::{rows_json, Driven, Value};
ascent::ascent! {
   pub struct Prog;
   relation f(i32, i32);
   relation r(i32, i32);
   relation a(i32, i32);
   relation e(i32, i32);
   relation c(i32, i32);
   relation b(i32, i32);
   a(x, y) <-- e(x, y);
   b(x, y) <-- f(y, y), r(y, x), e(y, y);
   c(x, y) <-- e(y, x);
   b(x, z) <-- b(x, y), f(y, z);
   b(x, y) <-- f(x, y);
   c(x, y) <-- r(x, y), e(x, x), f(y, y);
   a(x, y) <-- f(x, x), r(x, y);
   r(x, w) <-- c(z, w), b(y, z), a(x, y);
}

pub struct D(Prog);
impl Driven for D {
   fn push(&mut self, rel: &str, row: &Value) {
      match rel {
         "f" => { self.0.f.push((row[0].as_i64().unwrap() as i32, row[1].as_i64().unwrap() as i32,)); },
         "r" => { self.0.r.push((row[0].as_i64().unwrap() as i32, row[1].as_i64().unwrap() as i32,)); },
         "a" => { self.0.a.push((row[0].as_i64().unwrap() as i32, row[1].as_i64().unwrap() as i32,)); },
         "e" => { self.0.e.push((row[0].as_i64().unwrap() as i32, row[1].as_i64().unwrap() as i32,)); },
         "c" => { self.0.c.push((row[0].as_i64().unwrap() as i32, row[1].as_i64().unwrap() as i32,)); },
         "b" => { self.0.b.push((row[0].as_i64().unwrap() as i32, row[1].as_i64().unwrap() as i32,)); },
         _ => panic!("verif harness: unknown relation {}", rel),
      }
   }
   fn clear(&mut self, rel: &str) {
      match rel {
         "f" => { self.0.f = Default::default(); },
         "r" => { self.0.r = Default::default(); },
         "a" => { self.0.a = Default::default(); },
         "e" => { self.0.e = Default::default(); },
         "c" => { self.0.c = Default::default(); },
         "b" => { self.0.b = Default::default(); },
         _ => panic!("verif harness: unknown relation {}", rel),
      }
   }
   fn run(&mut self) { self.0.run(); }
   fn dump(&self) -> Value {
      let mut m: Vec<(String, Value)> = vec![];
      m.push(("f".to_string(), rows_json(self.0.f.iter())));
      m.push(("r".to_string(), rows_json(self.0.r.iter())));
      m.push(("a".to_string(), rows_json(self.0.a.iter())));
      m.push(("e".to_string(), rows_json(self.0.e.iter())));
      m.push(("c".to_string(), rows_json(self.0.c.iter())));
      m.push(("b".to_string(), rows_json(self.0.b.iter())));
      Value::Obj(m)
   }
   fn summary(&self) -> String { Prog::summary().to_string() }
}
pub fn make() -> Box<dyn Driven> { Box::new(D(Prog::default())) }
