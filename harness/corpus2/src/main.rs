#![allow(unused_imports, unused_variables, unused_mut, dead_code, non_snake_case, unused_parens, clippy::all)]
use ascent::lattice::bounded_set::BoundedSet;
use ascent::lattice::constant_propagation::ConstPropagation;
use ascent::lattice::set::Set;
use ascent::lattice::Product;
use ascent::{Dual, Lattice};
use vh_lite::{rows_json, Driven, Value};

use vh_lite::{read_cases, drive, drive_group, quiet_panics, Out};

mod tc_right__pari;
mod tc_left__run;
mod tc_left__redecl;
mod tc_left__ren;
mod tc_nonlin__to;
mod tc_nonlin__strpar;
mod mutual__gen;
mod mutual__init3;
mod mutual__str;
mod scc_chain__perm1;
mod diamond__par;
mod repeated__perm1;
mod three_dyn__par;
mod three_dyn__str;
mod conds__pari;
mod conds__srcred;
mod conds__perm2;
mod count_up__pari;
mod multi_head__perm1;
mod facts__mrt;
mod facts__init;
mod facts__permpar;
mod opt_cols__mrt;
mod opt_cols__init;
mod same_gen__ser;
mod same_gen__permpar;
mod not_reorderable__topar;
mod pre_join_rec__to;
mod two_inputs__pari;
mod two_inputs__src2;
mod two_inputs__srcpar;
mod wild__ser;
mod ternary__ren;
mod bound_mix__perm1;
mod join_chain__par;
mod join_chain__strpar;
mod reach__topar;
mod lag_right__par;
mod lag_right__str;
mod lag_three__ser;
mod lag_mid__perm1;
mod lag_late_delta__par;
mod multi_head_rec__topar;
mod sp_dual__run;
mod sp_dual__redecl;
mod sp_dual__ren;
mod longest_capped__par;
mod set_reach__topar;
mod set_reach__srcred;
mod bset__par;
mod cp__topar;
mod lat_tree__topar;
mod bool_lat__par;
mod lat_multi_improve__to;
mod lat_count_all__par;
mod lat_input__to;
mod lat_input__srcto;
mod count_paths__ser;
mod count_paths__src0;
mod count_paths__runhead;
mod neg_basic__run;
mod neg_basic__redecl;
mod neg_basic__ren;
mod agg_depth__par;
mod agg_lattice__topar;
mod neg_rec_after__exppar;
mod agg_empty__topar;
mod agg_const_args__pari;
mod disj__pari;
mod disj__src2;
mod disj__srcpar;
mod disj_nested__par;
mod pat_args__exppar;
mod multi_head_disj__pari;
mod mac_basic__ser;
mod mac_basic__src0;
mod mac_basic__runhead;
mod mac_capture__exp;
mod mac_gensym_disj__par;
mod mac_local_names__exppar;
mod mac_disj__pari;
mod stress_set__pari;
mod rnd_core_02__par;
mod rnd_core_05__ser;
mod rnd_core_07__pari;
mod rnd_core_10__par;
mod rnd_core_13__ser;
mod rnd_core_15__pari;
mod rnd_core_18__par;
mod rnd_core_21__ser;
mod rnd_core_23__pari;
mod rnd_core_26__par;
mod rnd_core_29__ser;
mod rnd_agg_01__pari;
mod rnd_agg_04__par;
mod rnd_agg_07__ser;
mod rnd_agg_09__pari;
mod rnd_agg_12__par;
mod rnd_agg_15__ser;
mod rnd_prec_02__ser;
mod rnd_prec_03__to;
mod rnd_prec_05__par;
mod rnd_prec_06__topar;
mod rnd_prec_08__pari;
mod rnd_prea_02__pari;
mod rnd_prea_05__par;
mod rnd_prea_08__ser;

fn lookup(name: &str) -> fn() -> Box<dyn Driven> {
   match name {
      "tc_right__pari" => tc_right__pari::make,
      "tc_left__run" => tc_left__run::make,
      "tc_left__redecl" => tc_left__redecl::make,
      "tc_left__ren" => tc_left__ren::make,
      "tc_nonlin__to" => tc_nonlin__to::make,
      "tc_nonlin__strpar" => tc_nonlin__strpar::make,
      "mutual__gen" => mutual__gen::make,
      "mutual__init3" => mutual__init3::make,
      "mutual__str" => mutual__str::make,
      "scc_chain__perm1" => scc_chain__perm1::make,
      "diamond__par" => diamond__par::make,
      "repeated__perm1" => repeated__perm1::make,
      "three_dyn__par" => three_dyn__par::make,
      "three_dyn__str" => three_dyn__str::make,
      "conds__pari" => conds__pari::make,
      "conds__srcred" => conds__srcred::make,
      "conds__perm2" => conds__perm2::make,
      "count_up__pari" => count_up__pari::make,
      "multi_head__perm1" => multi_head__perm1::make,
      "facts__mrt" => facts__mrt::make,
      "facts__init" => facts__init::make,
      "facts__permpar" => facts__permpar::make,
      "opt_cols__mrt" => opt_cols__mrt::make,
      "opt_cols__init" => opt_cols__init::make,
      "same_gen__ser" => same_gen__ser::make,
      "same_gen__permpar" => same_gen__permpar::make,
      "not_reorderable__topar" => not_reorderable__topar::make,
      "pre_join_rec__to" => pre_join_rec__to::make,
      "two_inputs__pari" => two_inputs__pari::make,
      "two_inputs__src2" => two_inputs__src2::make,
      "two_inputs__srcpar" => two_inputs__srcpar::make,
      "wild__ser" => wild__ser::make,
      "ternary__ren" => ternary__ren::make,
      "bound_mix__perm1" => bound_mix__perm1::make,
      "join_chain__par" => join_chain__par::make,
      "join_chain__strpar" => join_chain__strpar::make,
      "reach__topar" => reach__topar::make,
      "lag_right__par" => lag_right__par::make,
      "lag_right__str" => lag_right__str::make,
      "lag_three__ser" => lag_three__ser::make,
      "lag_mid__perm1" => lag_mid__perm1::make,
      "lag_late_delta__par" => lag_late_delta__par::make,
      "multi_head_rec__topar" => multi_head_rec__topar::make,
      "sp_dual__run" => sp_dual__run::make,
      "sp_dual__redecl" => sp_dual__redecl::make,
      "sp_dual__ren" => sp_dual__ren::make,
      "longest_capped__par" => longest_capped__par::make,
      "set_reach__topar" => set_reach__topar::make,
      "set_reach__srcred" => set_reach__srcred::make,
      "bset__par" => bset__par::make,
      "cp__topar" => cp__topar::make,
      "lat_tree__topar" => lat_tree__topar::make,
      "bool_lat__par" => bool_lat__par::make,
      "lat_multi_improve__to" => lat_multi_improve__to::make,
      "lat_count_all__par" => lat_count_all__par::make,
      "lat_input__to" => lat_input__to::make,
      "lat_input__srcto" => lat_input__srcto::make,
      "count_paths__ser" => count_paths__ser::make,
      "count_paths__src0" => count_paths__src0::make,
      "count_paths__runhead" => count_paths__runhead::make,
      "neg_basic__run" => neg_basic__run::make,
      "neg_basic__redecl" => neg_basic__redecl::make,
      "neg_basic__ren" => neg_basic__ren::make,
      "agg_depth__par" => agg_depth__par::make,
      "agg_lattice__topar" => agg_lattice__topar::make,
      "neg_rec_after__exppar" => neg_rec_after__exppar::make,
      "agg_empty__topar" => agg_empty__topar::make,
      "agg_const_args__pari" => agg_const_args__pari::make,
      "disj__pari" => disj__pari::make,
      "disj__src2" => disj__src2::make,
      "disj__srcpar" => disj__srcpar::make,
      "disj_nested__par" => disj_nested__par::make,
      "pat_args__exppar" => pat_args__exppar::make,
      "multi_head_disj__pari" => multi_head_disj__pari::make,
      "mac_basic__ser" => mac_basic__ser::make,
      "mac_basic__src0" => mac_basic__src0::make,
      "mac_basic__runhead" => mac_basic__runhead::make,
      "mac_capture__exp" => mac_capture__exp::make,
      "mac_gensym_disj__par" => mac_gensym_disj__par::make,
      "mac_local_names__exppar" => mac_local_names__exppar::make,
      "mac_disj__pari" => mac_disj__pari::make,
      "stress_set__pari" => stress_set__pari::make,
      "rnd_core_02__par" => rnd_core_02__par::make,
      "rnd_core_05__ser" => rnd_core_05__ser::make,
      "rnd_core_07__pari" => rnd_core_07__pari::make,
      "rnd_core_10__par" => rnd_core_10__par::make,
      "rnd_core_13__ser" => rnd_core_13__ser::make,
      "rnd_core_15__pari" => rnd_core_15__pari::make,
      "rnd_core_18__par" => rnd_core_18__par::make,
      "rnd_core_21__ser" => rnd_core_21__ser::make,
      "rnd_core_23__pari" => rnd_core_23__pari::make,
      "rnd_core_26__par" => rnd_core_26__par::make,
      "rnd_core_29__ser" => rnd_core_29__ser::make,
      "rnd_agg_01__pari" => rnd_agg_01__pari::make,
      "rnd_agg_04__par" => rnd_agg_04__par::make,
      "rnd_agg_07__ser" => rnd_agg_07__ser::make,
      "rnd_agg_09__pari" => rnd_agg_09__pari::make,
      "rnd_agg_12__par" => rnd_agg_12__par::make,
      "rnd_agg_15__ser" => rnd_agg_15__ser::make,
      "rnd_prec_02__ser" => rnd_prec_02__ser::make,
      "rnd_prec_03__to" => rnd_prec_03__to::make,
      "rnd_prec_05__par" => rnd_prec_05__par::make,
      "rnd_prec_06__topar" => rnd_prec_06__topar::make,
      "rnd_prec_08__pari" => rnd_prec_08__pari::make,
      "rnd_prea_02__pari" => rnd_prea_02__pari::make,
      "rnd_prea_05__par" => rnd_prea_05__par::make,
      "rnd_prea_08__ser" => rnd_prea_08__ser::make,
      _ => panic!("no such program variant in this shard: {}", name),
   }
}

fn main() {
   quiet_panics();
   let mut out = Out::open();
   let cases = read_cases();
   let mut i = 0;
   while i < cases.len() {
      let case = &cases[i];
      let m = format!("{}__{}", case["prog"].as_str().unwrap(), case["var"].as_str().unwrap());
      if let Some(g) = case["group"].as_i64() {
         // cases of one group run simultaneously
         let mut grp = vec![];
         while i < cases.len() && cases[i]["group"].as_i64() == Some(g) {
            let m = format!("{}__{}", cases[i]["prog"].as_str().unwrap(), cases[i]["var"].as_str().unwrap());
            grp.push((cases[i].clone(), lookup(&m)));
            i += 1;
         }
         drive_group(&grp, &mut out);
      } else {
         drive(case, &mut out, lookup(&m));
         i += 1;
      }
   }
   out.flush();
}
