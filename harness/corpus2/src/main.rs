#![allow(unused_imports, unused_variables, unused_mut, dead_code, non_snake_case, unused_parens, clippy::all)]
use ascent::lattice::bounded_set::BoundedSet;
use ascent::lattice::constant_propagation::ConstPropagation;
use ascent::lattice::set::Set;
use ascent::lattice::Product;
use ascent::{Dual, Lattice};
use vh_lite::{rows_json, Driven, Value};

use vh_lite::{read_cases, drive, drive_group, quiet_panics, Out};

mod tc_right__pari;
mod tc_left__run;
mod tc_left__redecl;
mod tc_left__str;
mod tc_nonlin__perm1;
mod mutual__par;
mod mutual__src1;
mod mutual__perm1;
mod scc_chain__par;
mod scc_chain__str;
mod consts__pari;
mod repeated__str;
mod three_dyn__perm1;
mod four_dyn__par;
mod conds__src0;
mod conds__srcpar;
mod count_up__ser;
mod multi_head__to;
mod facts__pari;
mod facts__srcred;
mod facts__permpar;
mod opt_cols__mrt;
mod opt_cols__init;
mod same_gen__pari;
mod same_gen__u64;
mod not_reorderable__perm2;
mod pre_join_rec__perm1;
mod two_inputs__topar;
mod two_inputs__srcred;
mod two_inputs__permpar;
mod ternary__par;
mod ternary__strpar;
mod bound_mix__str;
mod join_chain__ren;
mod reach__ser;
mod self_join3__ser;
mod lag_right__perm1;
mod lag_left__par;
mod lag_three__topar;
mod lag_mid__str;
mod multi_head_rec__ser;
mod sp_dual__par;
mod sp_dual__src1;
mod sp_dual__perm1;
mod sp_weighted__topar;
mod set_reach__pari;
mod set_reach__src2;
mod bset__par;
mod cp__topar;
mod lex_lat__par;
mod lat_multi_improve__ser;
mod lat_pre_join__to;
mod lat_input__ser;
mod lat_input__src0;
mod lat_input__srcpar;
mod count_paths__gen;
mod count_paths__runpar;
mod neg_basic__mrt;
mod neg_basic__init;
mod neg_basic__exppar;
mod agg_depth__topar;
mod agg_user__pari;
mod agg_bound_mix__pari;
mod agg_empty_rel__pari;
mod agg_pre_join__ser;
mod disj__run;
mod disj__redecl;
mod disj__exp;
mod pat_args__par;
mod rep_expr__exppar;
mod neg_in_disj__pari;
mod mac_basic__run;
mod mac_basic__redecl;
mod mac_capture__pari;
mod mac_gensym_disj__ser;
mod mac_local_names__exp;
mod mac_disj__par;
mod stress_set__par;
mod rnd_core_02__ser;
mod rnd_core_04__pari;
mod rnd_core_07__par;
mod rnd_core_10__ser;
mod rnd_core_12__pari;
mod rnd_core_15__par;
mod rnd_core_18__ser;
mod rnd_core_20__pari;
mod rnd_core_23__par;
mod rnd_core_26__ser;
mod rnd_core_28__pari;
mod rnd_agg_01__par;
mod rnd_agg_04__ser;
mod rnd_agg_06__pari;
mod rnd_agg_09__par;
mod rnd_agg_12__ser;
mod rnd_agg_14__pari;
mod rnd_prec_01__topar;
mod rnd_prec_03__pari;
mod rnd_prec_05__ser;
mod rnd_prec_06__to;
mod rnd_prec_08__par;
mod rnd_prea_02__par;
mod rnd_prea_05__ser;
mod rnd_prea_07__pari;

fn lookup(name: &str) -> fn() -> Box<dyn Driven> {
   match name {
      "tc_right__pari" => tc_right__pari::make,
      "tc_left__run" => tc_left__run::make,
      "tc_left__redecl" => tc_left__redecl::make,
      "tc_left__str" => tc_left__str::make,
      "tc_nonlin__perm1" => tc_nonlin__perm1::make,
      "mutual__par" => mutual__par::make,
      "mutual__src1" => mutual__src1::make,
      "mutual__perm1" => mutual__perm1::make,
      "scc_chain__par" => scc_chain__par::make,
      "scc_chain__str" => scc_chain__str::make,
      "consts__pari" => consts__pari::make,
      "repeated__str" => repeated__str::make,
      "three_dyn__perm1" => three_dyn__perm1::make,
      "four_dyn__par" => four_dyn__par::make,
      "conds__src0" => conds__src0::make,
      "conds__srcpar" => conds__srcpar::make,
      "count_up__ser" => count_up__ser::make,
      "multi_head__to" => multi_head__to::make,
      "facts__pari" => facts__pari::make,
      "facts__srcred" => facts__srcred::make,
      "facts__permpar" => facts__permpar::make,
      "opt_cols__mrt" => opt_cols__mrt::make,
      "opt_cols__init" => opt_cols__init::make,
      "same_gen__pari" => same_gen__pari::make,
      "same_gen__u64" => same_gen__u64::make,
      "not_reorderable__perm2" => not_reorderable__perm2::make,
      "pre_join_rec__perm1" => pre_join_rec__perm1::make,
      "two_inputs__topar" => two_inputs__topar::make,
      "two_inputs__srcred" => two_inputs__srcred::make,
      "two_inputs__permpar" => two_inputs__permpar::make,
      "ternary__par" => ternary__par::make,
      "ternary__strpar" => ternary__strpar::make,
      "bound_mix__str" => bound_mix__str::make,
      "join_chain__ren" => join_chain__ren::make,
      "reach__ser" => reach__ser::make,
      "self_join3__ser" => self_join3__ser::make,
      "lag_right__perm1" => lag_right__perm1::make,
      "lag_left__par" => lag_left__par::make,
      "lag_three__topar" => lag_three__topar::make,
      "lag_mid__str" => lag_mid__str::make,
      "multi_head_rec__ser" => multi_head_rec__ser::make,
      "sp_dual__par" => sp_dual__par::make,
      "sp_dual__src1" => sp_dual__src1::make,
      "sp_dual__perm1" => sp_dual__perm1::make,
      "sp_weighted__topar" => sp_weighted__topar::make,
      "set_reach__pari" => set_reach__pari::make,
      "set_reach__src2" => set_reach__src2::make,
      "bset__par" => bset__par::make,
      "cp__topar" => cp__topar::make,
      "lex_lat__par" => lex_lat__par::make,
      "lat_multi_improve__ser" => lat_multi_improve__ser::make,
      "lat_pre_join__to" => lat_pre_join__to::make,
      "lat_input__ser" => lat_input__ser::make,
      "lat_input__src0" => lat_input__src0::make,
      "lat_input__srcpar" => lat_input__srcpar::make,
      "count_paths__gen" => count_paths__gen::make,
      "count_paths__runpar" => count_paths__runpar::make,
      "neg_basic__mrt" => neg_basic__mrt::make,
      "neg_basic__init" => neg_basic__init::make,
      "neg_basic__exppar" => neg_basic__exppar::make,
      "agg_depth__topar" => agg_depth__topar::make,
      "agg_user__pari" => agg_user__pari::make,
      "agg_bound_mix__pari" => agg_bound_mix__pari::make,
      "agg_empty_rel__pari" => agg_empty_rel__pari::make,
      "agg_pre_join__ser" => agg_pre_join__ser::make,
      "disj__run" => disj__run::make,
      "disj__redecl" => disj__redecl::make,
      "disj__exp" => disj__exp::make,
      "pat_args__par" => pat_args__par::make,
      "rep_expr__exppar" => rep_expr__exppar::make,
      "neg_in_disj__pari" => neg_in_disj__pari::make,
      "mac_basic__run" => mac_basic__run::make,
      "mac_basic__redecl" => mac_basic__redecl::make,
      "mac_capture__pari" => mac_capture__pari::make,
      "mac_gensym_disj__ser" => mac_gensym_disj__ser::make,
      "mac_local_names__exp" => mac_local_names__exp::make,
      "mac_disj__par" => mac_disj__par::make,
      "stress_set__par" => stress_set__par::make,
      "rnd_core_02__ser" => rnd_core_02__ser::make,
      "rnd_core_04__pari" => rnd_core_04__pari::make,
      "rnd_core_07__par" => rnd_core_07__par::make,
      "rnd_core_10__ser" => rnd_core_10__ser::make,
      "rnd_core_12__pari" => rnd_core_12__pari::make,
      "rnd_core_15__par" => rnd_core_15__par::make,
      "rnd_core_18__ser" => rnd_core_18__ser::make,
      "rnd_core_20__pari" => rnd_core_20__pari::make,
      "rnd_core_23__par" => rnd_core_23__par::make,
      "rnd_core_26__ser" => rnd_core_26__ser::make,
      "rnd_core_28__pari" => rnd_core_28__pari::make,
      "rnd_agg_01__par" => rnd_agg_01__par::make,
      "rnd_agg_04__ser" => rnd_agg_04__ser::make,
      "rnd_agg_06__pari" => rnd_agg_06__pari::make,
      "rnd_agg_09__par" => rnd_agg_09__par::make,
      "rnd_agg_12__ser" => rnd_agg_12__ser::make,
      "rnd_agg_14__pari" => rnd_agg_14__pari::make,
      "rnd_prec_01__topar" => rnd_prec_01__topar::make,
      "rnd_prec_03__pari" => rnd_prec_03__pari::make,
      "rnd_prec_05__ser" => rnd_prec_05__ser::make,
      "rnd_prec_06__to" => rnd_prec_06__to::make,
      "rnd_prec_08__par" => rnd_prec_08__par::make,
      "rnd_prea_02__par" => rnd_prea_02__par::make,
      "rnd_prea_05__ser" => rnd_prea_05__ser::make,
      "rnd_prea_07__pari" => rnd_prea_07__pari::make,
      _ => panic!("no such program variant in this shard: {}", name),
   }
}

fn main() {
   quiet_panics();
   let mut out = Out::open();
   let cases = read_cases();
   let mut i = 0;
   while i < cases.len() {
      let case = &cases[i];
      let m = format!("{}__{}", case["prog"].as_str().unwrap(), case["var"].as_str().unwrap());
      if let Some(g) = case["group"].as_i64() {
         // cases of one group run simultaneously
         let mut grp = vec![];
         while i < cases.len() && cases[i]["group"].as_i64() == Some(g) {
            let m = format!("{}__{}", cases[i]["prog"].as_str().unwrap(), cases[i]["var"].as_str().unwrap());
            grp.push((cases[i].clone(), lookup(&m)));
            i += 1;
         }
         drive_group(&grp, &mut out);
      } else {
         drive(case, &mut out, lookup(&m));
         i += 1;
      }
   }
   out.flush();
}
