#![allow(unused_imports, unused_variables, unused_mut, dead_code, non_snake_case, unused_parens, clippy::all)]
use ascent::lattice::bounded_set::BoundedSet;
use ascent::lattice::constant_propagation::ConstPropagation;
use ascent::lattice::set::Set;
use ascent::lattice::Product;
use ascent::{Dual, Lattice};
use vh_lite::{rows_json, Driven, Value};

use vh_lite::{read_cases, drive, drive_group, quiet_panics, Out};

mod tc_right__pari;
mod tc_left__run;
mod tc_left__init;
mod tc_left__u64;
mod tc_nonlin__perm2;
mod mutual__pari;
mod mutual__src2;
mod mutual__ren;
mod scc_chain__to;
mod scc_chain__strpar;
mod repeated__par;
mod repeated__strpar;
mod three_dyn__ren;
mod conds__ser;
mod conds__src2;
mod conds__ren;
mod count_up__to;
mod multi_head__perm2;
mod facts__gen;
mod facts__srcpar;
mod opt_cols__ser;
mod opt_cols__src2;
mod cartesian__pari;
mod same_gen__ren;
mod not_reorderable__to;
mod pre_join_rec__pari;
mod two_inputs__par;
mod two_inputs__src1;
mod two_inputs__perm2;
mod wild__pari;
mod ternary__str;
mod bound_mix__ren;
mod join_chain__perm1;
mod cond_simple_join__par;
mod zero_arity__par;
mod lag_right__to;
mod lag_right__strpar;
mod lag_three__pari;
mod lag_mid__ren;
mod lag_late_delta__to;
mod multi_head_rec__exppar;
mod sp_dual__gen;
mod sp_dual__srcpar;
mod sp_weighted__to;
mod set_reach__par;
mod set_reach__src1;
mod bset__par;
mod cp__topar;
mod bool_lat__par;
mod lat_multi_improve__to;
mod lat_count_all__par;
mod lat_input__to;
mod lat_input__srcto;
mod count_paths__to;
mod count_paths__srcto;
mod neg_basic__to;
mod neg_basic__srcto;
mod neg_basic__permpar;
mod agg_depth__pari;
mod agg_user__ser;
mod agg_bound_mix__ser;
mod agg_empty_rel__ser;
mod agg_const_args__exp;
mod disj__to;
mod disj__srcto;
mod disj__permpar;
mod pat_args__ser;
mod rep_expr__exp;
mod neg_in_disj__par;
mod mac_basic__topar;
mod mac_basic__redecl;
mod mac_capture__pari;
mod mac_gensym_disj__ser;
mod mac_disj__exp;
mod rnd_core_01__ser;
mod rnd_core_03__pari;
mod rnd_core_06__par;
mod rnd_core_09__ser;
mod rnd_core_11__pari;
mod rnd_core_14__par;
mod rnd_core_17__ser;
mod rnd_core_19__pari;
mod rnd_core_22__par;
mod rnd_core_25__ser;
mod rnd_core_27__pari;
mod rnd_core_30__par;
mod rnd_agg_03__ser;
mod rnd_agg_05__pari;
mod rnd_agg_08__par;
mod rnd_agg_11__ser;
mod rnd_agg_13__pari;
mod rnd_prec_01__par;
mod rnd_prec_02__topar;
mod rnd_prec_04__pari;
mod rnd_prec_06__ser;
mod rnd_prec_07__to;
mod rnd_prea_01__par;
mod rnd_prea_04__ser;
mod rnd_prea_06__pari;

fn lookup(name: &str) -> fn() -> Box<dyn Driven> {
   match name {
      "tc_right__pari" => tc_right__pari::make,
      "tc_left__run" => tc_left__run::make,
      "tc_left__init" => tc_left__init::make,
      "tc_left__u64" => tc_left__u64::make,
      "tc_nonlin__perm2" => tc_nonlin__perm2::make,
      "mutual__pari" => mutual__pari::make,
      "mutual__src2" => mutual__src2::make,
      "mutual__ren" => mutual__ren::make,
      "scc_chain__to" => scc_chain__to::make,
      "scc_chain__strpar" => scc_chain__strpar::make,
      "repeated__par" => repeated__par::make,
      "repeated__strpar" => repeated__strpar::make,
      "three_dyn__ren" => three_dyn__ren::make,
      "conds__ser" => conds__ser::make,
      "conds__src2" => conds__src2::make,
      "conds__ren" => conds__ren::make,
      "count_up__to" => count_up__to::make,
      "multi_head__perm2" => multi_head__perm2::make,
      "facts__gen" => facts__gen::make,
      "facts__srcpar" => facts__srcpar::make,
      "opt_cols__ser" => opt_cols__ser::make,
      "opt_cols__src2" => opt_cols__src2::make,
      "cartesian__pari" => cartesian__pari::make,
      "same_gen__ren" => same_gen__ren::make,
      "not_reorderable__to" => not_reorderable__to::make,
      "pre_join_rec__pari" => pre_join_rec__pari::make,
      "two_inputs__par" => two_inputs__par::make,
      "two_inputs__src1" => two_inputs__src1::make,
      "two_inputs__perm2" => two_inputs__perm2::make,
      "wild__pari" => wild__pari::make,
      "ternary__str" => ternary__str::make,
      "bound_mix__ren" => bound_mix__ren::make,
      "join_chain__perm1" => join_chain__perm1::make,
      "cond_simple_join__par" => cond_simple_join__par::make,
      "zero_arity__par" => zero_arity__par::make,
      "lag_right__to" => lag_right__to::make,
      "lag_right__strpar" => lag_right__strpar::make,
      "lag_three__pari" => lag_three__pari::make,
      "lag_mid__ren" => lag_mid__ren::make,
      "lag_late_delta__to" => lag_late_delta__to::make,
      "multi_head_rec__exppar" => multi_head_rec__exppar::make,
      "sp_dual__gen" => sp_dual__gen::make,
      "sp_dual__srcpar" => sp_dual__srcpar::make,
      "sp_weighted__to" => sp_weighted__to::make,
      "set_reach__par" => set_reach__par::make,
      "set_reach__src1" => set_reach__src1::make,
      "bset__par" => bset__par::make,
      "cp__topar" => cp__topar::make,
      "bool_lat__par" => bool_lat__par::make,
      "lat_multi_improve__to" => lat_multi_improve__to::make,
      "lat_count_all__par" => lat_count_all__par::make,
      "lat_input__to" => lat_input__to::make,
      "lat_input__srcto" => lat_input__srcto::make,
      "count_paths__to" => count_paths__to::make,
      "count_paths__srcto" => count_paths__srcto::make,
      "neg_basic__to" => neg_basic__to::make,
      "neg_basic__srcto" => neg_basic__srcto::make,
      "neg_basic__permpar" => neg_basic__permpar::make,
      "agg_depth__pari" => agg_depth__pari::make,
      "agg_user__ser" => agg_user__ser::make,
      "agg_bound_mix__ser" => agg_bound_mix__ser::make,
      "agg_empty_rel__ser" => agg_empty_rel__ser::make,
      "agg_const_args__exp" => agg_const_args__exp::make,
      "disj__to" => disj__to::make,
      "disj__srcto" => disj__srcto::make,
      "disj__permpar" => disj__permpar::make,
      "pat_args__ser" => pat_args__ser::make,
      "rep_expr__exp" => rep_expr__exp::make,
      "neg_in_disj__par" => neg_in_disj__par::make,
      "mac_basic__topar" => mac_basic__topar::make,
      "mac_basic__redecl" => mac_basic__redecl::make,
      "mac_capture__pari" => mac_capture__pari::make,
      "mac_gensym_disj__ser" => mac_gensym_disj__ser::make,
      "mac_disj__exp" => mac_disj__exp::make,
      "rnd_core_01__ser" => rnd_core_01__ser::make,
      "rnd_core_03__pari" => rnd_core_03__pari::make,
      "rnd_core_06__par" => rnd_core_06__par::make,
      "rnd_core_09__ser" => rnd_core_09__ser::make,
      "rnd_core_11__pari" => rnd_core_11__pari::make,
      "rnd_core_14__par" => rnd_core_14__par::make,
      "rnd_core_17__ser" => rnd_core_17__ser::make,
      "rnd_core_19__pari" => rnd_core_19__pari::make,
      "rnd_core_22__par" => rnd_core_22__par::make,
      "rnd_core_25__ser" => rnd_core_25__ser::make,
      "rnd_core_27__pari" => rnd_core_27__pari::make,
      "rnd_core_30__par" => rnd_core_30__par::make,
      "rnd_agg_03__ser" => rnd_agg_03__ser::make,
      "rnd_agg_05__pari" => rnd_agg_05__pari::make,
      "rnd_agg_08__par" => rnd_agg_08__par::make,
      "rnd_agg_11__ser" => rnd_agg_11__ser::make,
      "rnd_agg_13__pari" => rnd_agg_13__pari::make,
      "rnd_prec_01__par" => rnd_prec_01__par::make,
      "rnd_prec_02__topar" => rnd_prec_02__topar::make,
      "rnd_prec_04__pari" => rnd_prec_04__pari::make,
      "rnd_prec_06__ser" => rnd_prec_06__ser::make,
      "rnd_prec_07__to" => rnd_prec_07__to::make,
      "rnd_prea_01__par" => rnd_prea_01__par::make,
      "rnd_prea_04__ser" => rnd_prea_04__ser::make,
      "rnd_prea_06__pari" => rnd_prea_06__pari::make,
      _ => panic!("no such program variant in this shard: {}", name),
   }
}

fn main() {
   quiet_panics();
   let mut out = Out::open();
   let cases = read_cases();
   let mut i = 0;
   while i < cases.len() {
      let case = &cases[i];
      let m = format!("{}__{}", case["prog"].as_str().unwrap(), case["var"].as_str().unwrap());
      if let Some(g) = case["group"].as_i64() {
         // cases of one group run simultaneously
         let mut grp = vec![];
         while i < cases.len() && cases[i]["group"].as_i64() == Some(g) {
            let m = format!("{}__{}", cases[i]["prog"].as_str().unwrap(), cases[i]["var"].as_str().unwrap());
            grp.push((cases[i].clone(), lookup(&m)));
            i += 1;
         }
         drive_group(&grp, &mut out);
      } else {
         drive(case, &mut out, lookup(&m));
         i += 1;
      }
   }
   out.flush();
}
