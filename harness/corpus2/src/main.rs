#![allow(unused_imports, unused_variables, unused_mut, dead_code, non_snake_case, unused_parens, clippy::all)]
use ascent::lattice::bounded_set::BoundedSet;
use ascent::lattice::constant_propagation::ConstPropagation;
use ascent::lattice::set::Set;
use ascent::lattice::Product;
use ascent::{Dual, Lattice};
use vh_lite::{rows_json, Driven, Value};

use vh_lite::{read_cases, drive, drive_group, quiet_panics, Out};

mod tc_right__pari;
mod tc_left__run;
mod tc_left__init;
mod tc_left__u64;
mod tc_nonlin__perm2;
mod mutual__pari;
mod mutual__src2;
mod mutual__ren;
mod scc_chain__to;
mod scc_chain__strpar;
mod repeated__par;
mod repeated__strpar;
mod three_dyn__ren;
mod conds__ser;
mod conds__src2;
mod conds__ren;
mod count_up__to;
mod multi_head__perm2;
mod facts__gen;
mod facts__srcpar;
mod opt_cols__ser;
mod opt_cols__src2;
mod cartesian__pari;
mod same_gen__ren;
mod two_inputs__ser;
mod two_inputs__src0;
mod two_inputs__perm1;
mod wild__par;
mod ternary__permpar;
mod bound_mix__perm2;
mod join_chain__pari;
mod cond_simple_join__ser;
mod zero_arity__ser;
mod lag_right__pari;
mod lag_right__u64;
mod lag_three__par;
mod lag_mid__perm2;
mod lag_late_delta__pari;
mod multi_head_rec__exp;
mod sp_dual__mrt;
mod sp_dual__runpar;
mod sp_weighted__pari;
mod set_reach__ser;
mod set_reach__src0;
mod bset__ser;
mod cp__to;
mod bool_lat__ser;
mod lat_multi_improve__pari;
mod lat_input__pari;
mod lat_input__src2;
mod count_paths__pari;
mod count_paths__src2;
mod neg_basic__pari;
mod neg_basic__src2;
mod neg_basic__ren;
mod agg_depth__par;
mod agg_lattice__topar;
mod neg_rec_after__exppar;
mod agg_empty__topar;
mod agg_const_args__pari;
mod disj__run;
mod disj__init;
mod disj__exppar;
mod pat_args__pari;
mod multi_head_disj__ser;
mod neg_in_disj__exp;
mod mac_basic__mrt;
mod mac_basic__runpar;
mod mac_capture__exppar;
mod mac_gensym_disj__pari;
mod rnd_core_01__ser;
mod rnd_core_03__pari;
mod rnd_core_06__par;
mod rnd_core_09__ser;
mod rnd_core_11__pari;
mod rnd_core_14__par;
mod rnd_core_17__ser;
mod rnd_core_19__pari;
mod rnd_core_22__par;
mod rnd_core_25__ser;
mod rnd_core_27__pari;
mod rnd_core_30__par;
mod rnd_agg_03__ser;
mod rnd_agg_05__pari;
mod rnd_agg_08__par;
mod rnd_agg_11__ser;
mod rnd_agg_13__pari;

fn lookup(name: &str) -> fn() -> Box<dyn Driven> {
   match name {
      "tc_right__pari" => tc_right__pari::make,
      "tc_left__run" => tc_left__run::make,
      "tc_left__init" => tc_left__init::make,
      "tc_left__u64" => tc_left__u64::make,
      "tc_nonlin__perm2" => tc_nonlin__perm2::make,
      "mutual__pari" => mutual__pari::make,
      "mutual__src2" => mutual__src2::make,
      "mutual__ren" => mutual__ren::make,
      "scc_chain__to" => scc_chain__to::make,
      "scc_chain__strpar" => scc_chain__strpar::make,
      "repeated__par" => repeated__par::make,
      "repeated__strpar" => repeated__strpar::make,
      "three_dyn__ren" => three_dyn__ren::make,
      "conds__ser" => conds__ser::make,
      "conds__src2" => conds__src2::make,
      "conds__ren" => conds__ren::make,
      "count_up__to" => count_up__to::make,
      "multi_head__perm2" => multi_head__perm2::make,
      "facts__gen" => facts__gen::make,
      "facts__srcpar" => facts__srcpar::make,
      "opt_cols__ser" => opt_cols__ser::make,
      "opt_cols__src2" => opt_cols__src2::make,
      "cartesian__pari" => cartesian__pari::make,
      "same_gen__ren" => same_gen__ren::make,
      "two_inputs__ser" => two_inputs__ser::make,
      "two_inputs__src0" => two_inputs__src0::make,
      "two_inputs__perm1" => two_inputs__perm1::make,
      "wild__par" => wild__par::make,
      "ternary__permpar" => ternary__permpar::make,
      "bound_mix__perm2" => bound_mix__perm2::make,
      "join_chain__pari" => join_chain__pari::make,
      "cond_simple_join__ser" => cond_simple_join__ser::make,
      "zero_arity__ser" => zero_arity__ser::make,
      "lag_right__pari" => lag_right__pari::make,
      "lag_right__u64" => lag_right__u64::make,
      "lag_three__par" => lag_three__par::make,
      "lag_mid__perm2" => lag_mid__perm2::make,
      "lag_late_delta__pari" => lag_late_delta__pari::make,
      "multi_head_rec__exp" => multi_head_rec__exp::make,
      "sp_dual__mrt" => sp_dual__mrt::make,
      "sp_dual__runpar" => sp_dual__runpar::make,
      "sp_weighted__pari" => sp_weighted__pari::make,
      "set_reach__ser" => set_reach__ser::make,
      "set_reach__src0" => set_reach__src0::make,
      "bset__ser" => bset__ser::make,
      "cp__to" => cp__to::make,
      "bool_lat__ser" => bool_lat__ser::make,
      "lat_multi_improve__pari" => lat_multi_improve__pari::make,
      "lat_input__pari" => lat_input__pari::make,
      "lat_input__src2" => lat_input__src2::make,
      "count_paths__pari" => count_paths__pari::make,
      "count_paths__src2" => count_paths__src2::make,
      "neg_basic__pari" => neg_basic__pari::make,
      "neg_basic__src2" => neg_basic__src2::make,
      "neg_basic__ren" => neg_basic__ren::make,
      "agg_depth__par" => agg_depth__par::make,
      "agg_lattice__topar" => agg_lattice__topar::make,
      "neg_rec_after__exppar" => neg_rec_after__exppar::make,
      "agg_empty__topar" => agg_empty__topar::make,
      "agg_const_args__pari" => agg_const_args__pari::make,
      "disj__run" => disj__run::make,
      "disj__init" => disj__init::make,
      "disj__exppar" => disj__exppar::make,
      "pat_args__pari" => pat_args__pari::make,
      "multi_head_disj__ser" => multi_head_disj__ser::make,
      "neg_in_disj__exp" => neg_in_disj__exp::make,
      "mac_basic__mrt" => mac_basic__mrt::make,
      "mac_basic__runpar" => mac_basic__runpar::make,
      "mac_capture__exppar" => mac_capture__exppar::make,
      "mac_gensym_disj__pari" => mac_gensym_disj__pari::make,
      "rnd_core_01__ser" => rnd_core_01__ser::make,
      "rnd_core_03__pari" => rnd_core_03__pari::make,
      "rnd_core_06__par" => rnd_core_06__par::make,
      "rnd_core_09__ser" => rnd_core_09__ser::make,
      "rnd_core_11__pari" => rnd_core_11__pari::make,
      "rnd_core_14__par" => rnd_core_14__par::make,
      "rnd_core_17__ser" => rnd_core_17__ser::make,
      "rnd_core_19__pari" => rnd_core_19__pari::make,
      "rnd_core_22__par" => rnd_core_22__par::make,
      "rnd_core_25__ser" => rnd_core_25__ser::make,
      "rnd_core_27__pari" => rnd_core_27__pari::make,
      "rnd_core_30__par" => rnd_core_30__par::make,
      "rnd_agg_03__ser" => rnd_agg_03__ser::make,
      "rnd_agg_05__pari" => rnd_agg_05__pari::make,
      "rnd_agg_08__par" => rnd_agg_08__par::make,
      "rnd_agg_11__ser" => rnd_agg_11__ser::make,
      "rnd_agg_13__pari" => rnd_agg_13__pari::make,
      _ => panic!("no such program variant in this shard: {}", name),
   }
}

fn main() {
   quiet_panics();
   let mut out = Out::open();
   let cases = read_cases();
   let mut i = 0;
   while i < cases.len() {
      let case = &cases[i];
      let m = format!("{}__{}", case["prog"].as_str().unwrap(), case["var"].as_str().unwrap());
      if let Some(g) = case["group"].as_i64() {
         // cases of one group run simultaneously
         let mut grp = vec![];
         while i < cases.len() && cases[i]["group"].as_i64() == Some(g) {
            let m = format!("{}__{}", cases[i]["prog"].as_str().unwrap(), cases[i]["var"].as_str().unwrap());
            grp.push((cases[i].clone(), lookup(&m)));
            i += 1;
         }
         drive_group(&grp, &mut out);
      } else {
         drive(case, &mut out, lookup(&m));
         i += 1;
      }
   }
   out.flush();
}
