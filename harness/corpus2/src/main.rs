#![allow(unused_imports, unused_variables, unused_mut, dead_code, non_snake_case, unused_parens, clippy::all)]
use ascent::lattice::bounded_set::BoundedSet;
use ascent::lattice::constant_propagation::ConstPropagation;
use ascent::lattice::set::Set;
use ascent::lattice::Product;
use ascent::{Dual, Lattice};
use vh_lite::{rows_json, Driven, Value};

use vh_lite::{read_cases, drive, drive_group, quiet_panics, Out};

mod tc_right__pari;
mod tc_left__run;
mod tc_left__redecl;
mod tc_left__str;
mod tc_nonlin__perm1;
mod mutual__par;
mod mutual__src1;
mod mutual__perm1;
mod scc_chain__par;
mod scc_chain__str;
mod consts__pari;
mod repeated__str;
mod three_dyn__perm1;
mod four_dyn__par;
mod conds__src0;
mod conds__srcpar;
mod count_up__ser;
mod multi_head__to;
mod facts__pari;
mod facts__srcred;
mod facts__permpar;
mod opt_cols__mrt;
mod opt_cols__init;
mod same_gen__pari;
mod same_gen__u64;
mod not_reorderable__perm2;
mod pre_join_rec__perm1;
mod two_inputs__topar;
mod two_inputs__srcred;
mod two_inputs__permpar;
mod ternary__par;
mod ternary__strpar;
mod bound_mix__str;
mod join_chain__ren;
mod reach__ser;
mod self_join3__ser;
mod lag_right__perm1;
mod lag_left__par;
mod lag_three__topar;
mod lag_mid__str;
mod multi_head_rec__ser;
mod sp_dual__par;
mod sp_dual__src1;
mod sp_dual__perm1;
mod sp_weighted__topar;
mod set_reach__pari;
mod set_reach__src2;
mod bset__par;
mod cp__topar;
mod lat_tree__topar;
mod bool_lat__par;
mod lat_multi_improve__to;
mod lat_count_all__par;
mod lat_input__to;
mod lat_input__srcto;
mod count_paths__pari;
mod count_paths__src2;
mod neg_basic__par;
mod neg_basic__src1;
mod neg_basic__perm1;
mod agg_minmaxsum__pari;
mod agg_lattice__pari;
mod neg_rec_after__pari;
mod agg_empty__pari;
mod agg_const_args__ser;
mod disj__ser;
mod disj__src0;
mod disj__srcpar;
mod disj_nested__par;
mod pat_args__exppar;
mod multi_head_disj__pari;
mod mac_basic__ser;
mod mac_basic__src0;
mod mac_basic__srcpar;
mod mac_nested__ser;
mod mac_gensym_disj__exp;
mod mac_block__par;
mod mac_disj__exppar;
mod stress_rel__par;
mod rnd_core_03__ser;
mod rnd_core_05__pari;
mod rnd_core_08__par;
mod rnd_core_11__ser;
mod rnd_core_13__pari;
mod rnd_core_16__par;
mod rnd_core_19__ser;
mod rnd_core_21__pari;
mod rnd_core_24__par;
mod rnd_core_27__ser;
mod rnd_core_29__pari;
mod rnd_agg_02__par;
mod rnd_agg_05__ser;
mod rnd_agg_07__pari;
mod rnd_agg_10__par;
mod rnd_agg_13__ser;
mod rnd_agg_15__pari;
mod rnd_prec_02__pari;
mod rnd_prec_04__ser;
mod rnd_prec_05__to;
mod rnd_prec_07__par;
mod rnd_prec_08__topar;
mod rnd_prea_03__par;
mod rnd_prea_06__ser;
mod rnd_prea_08__pari;

fn lookup(name: &str) -> fn() -> Box<dyn Driven> {
   match name {
      "tc_right__pari" => tc_right__pari::make,
      "tc_left__run" => tc_left__run::make,
      "tc_left__redecl" => tc_left__redecl::make,
      "tc_left__str" => tc_left__str::make,
      "tc_nonlin__perm1" => tc_nonlin__perm1::make,
      "mutual__par" => mutual__par::make,
      "mutual__src1" => mutual__src1::make,
      "mutual__perm1" => mutual__perm1::make,
      "scc_chain__par" => scc_chain__par::make,
      "scc_chain__str" => scc_chain__str::make,
      "consts__pari" => consts__pari::make,
      "repeated__str" => repeated__str::make,
      "three_dyn__perm1" => three_dyn__perm1::make,
      "four_dyn__par" => four_dyn__par::make,
      "conds__src0" => conds__src0::make,
      "conds__srcpar" => conds__srcpar::make,
      "count_up__ser" => count_up__ser::make,
      "multi_head__to" => multi_head__to::make,
      "facts__pari" => facts__pari::make,
      "facts__srcred" => facts__srcred::make,
      "facts__permpar" => facts__permpar::make,
      "opt_cols__mrt" => opt_cols__mrt::make,
      "opt_cols__init" => opt_cols__init::make,
      "same_gen__pari" => same_gen__pari::make,
      "same_gen__u64" => same_gen__u64::make,
      "not_reorderable__perm2" => not_reorderable__perm2::make,
      "pre_join_rec__perm1" => pre_join_rec__perm1::make,
      "two_inputs__topar" => two_inputs__topar::make,
      "two_inputs__srcred" => two_inputs__srcred::make,
      "two_inputs__permpar" => two_inputs__permpar::make,
      "ternary__par" => ternary__par::make,
      "ternary__strpar" => ternary__strpar::make,
      "bound_mix__str" => bound_mix__str::make,
      "join_chain__ren" => join_chain__ren::make,
      "reach__ser" => reach__ser::make,
      "self_join3__ser" => self_join3__ser::make,
      "lag_right__perm1" => lag_right__perm1::make,
      "lag_left__par" => lag_left__par::make,
      "lag_three__topar" => lag_three__topar::make,
      "lag_mid__str" => lag_mid__str::make,
      "multi_head_rec__ser" => multi_head_rec__ser::make,
      "sp_dual__par" => sp_dual__par::make,
      "sp_dual__src1" => sp_dual__src1::make,
      "sp_dual__perm1" => sp_dual__perm1::make,
      "sp_weighted__topar" => sp_weighted__topar::make,
      "set_reach__pari" => set_reach__pari::make,
      "set_reach__src2" => set_reach__src2::make,
      "bset__par" => bset__par::make,
      "cp__topar" => cp__topar::make,
      "lat_tree__topar" => lat_tree__topar::make,
      "bool_lat__par" => bool_lat__par::make,
      "lat_multi_improve__to" => lat_multi_improve__to::make,
      "lat_count_all__par" => lat_count_all__par::make,
      "lat_input__to" => lat_input__to::make,
      "lat_input__srcto" => lat_input__srcto::make,
      "count_paths__pari" => count_paths__pari::make,
      "count_paths__src2" => count_paths__src2::make,
      "neg_basic__par" => neg_basic__par::make,
      "neg_basic__src1" => neg_basic__src1::make,
      "neg_basic__perm1" => neg_basic__perm1::make,
      "agg_minmaxsum__pari" => agg_minmaxsum__pari::make,
      "agg_lattice__pari" => agg_lattice__pari::make,
      "neg_rec_after__pari" => neg_rec_after__pari::make,
      "agg_empty__pari" => agg_empty__pari::make,
      "agg_const_args__ser" => agg_const_args__ser::make,
      "disj__ser" => disj__ser::make,
      "disj__src0" => disj__src0::make,
      "disj__srcpar" => disj__srcpar::make,
      "disj_nested__par" => disj_nested__par::make,
      "pat_args__exppar" => pat_args__exppar::make,
      "multi_head_disj__pari" => multi_head_disj__pari::make,
      "mac_basic__ser" => mac_basic__ser::make,
      "mac_basic__src0" => mac_basic__src0::make,
      "mac_basic__srcpar" => mac_basic__srcpar::make,
      "mac_nested__ser" => mac_nested__ser::make,
      "mac_gensym_disj__exp" => mac_gensym_disj__exp::make,
      "mac_block__par" => mac_block__par::make,
      "mac_disj__exppar" => mac_disj__exppar::make,
      "stress_rel__par" => stress_rel__par::make,
      "rnd_core_03__ser" => rnd_core_03__ser::make,
      "rnd_core_05__pari" => rnd_core_05__pari::make,
      "rnd_core_08__par" => rnd_core_08__par::make,
      "rnd_core_11__ser" => rnd_core_11__ser::make,
      "rnd_core_13__pari" => rnd_core_13__pari::make,
      "rnd_core_16__par" => rnd_core_16__par::make,
      "rnd_core_19__ser" => rnd_core_19__ser::make,
      "rnd_core_21__pari" => rnd_core_21__pari::make,
      "rnd_core_24__par" => rnd_core_24__par::make,
      "rnd_core_27__ser" => rnd_core_27__ser::make,
      "rnd_core_29__pari" => rnd_core_29__pari::make,
      "rnd_agg_02__par" => rnd_agg_02__par::make,
      "rnd_agg_05__ser" => rnd_agg_05__ser::make,
      "rnd_agg_07__pari" => rnd_agg_07__pari::make,
      "rnd_agg_10__par" => rnd_agg_10__par::make,
      "rnd_agg_13__ser" => rnd_agg_13__ser::make,
      "rnd_agg_15__pari" => rnd_agg_15__pari::make,
      "rnd_prec_02__pari" => rnd_prec_02__pari::make,
      "rnd_prec_04__ser" => rnd_prec_04__ser::make,
      "rnd_prec_05__to" => rnd_prec_05__to::make,
      "rnd_prec_07__par" => rnd_prec_07__par::make,
      "rnd_prec_08__topar" => rnd_prec_08__topar::make,
      "rnd_prea_03__par" => rnd_prea_03__par::make,
      "rnd_prea_06__ser" => rnd_prea_06__ser::make,
      "rnd_prea_08__pari" => rnd_prea_08__pari::make,
      _ => panic!("no such program variant in this shard: {}", name),
   }
}

fn main() {
   quiet_panics();
   let mut out = Out::open();
   let cases = read_cases();
   let mut i = 0;
   while i < cases.len() {
      let case = &cases[i];
      let m = format!("{}__{}", case["prog"].as_str().unwrap(), case["var"].as_str().unwrap());
      if let Some(g) = case["group"].as_i64() {
         // cases of one group run simultaneously
         let mut grp = vec![];
         while i < cases.len() && cases[i]["group"].as_i64() == Some(g) {
            let m = format!("{}__{}", cases[i]["prog"].as_str().unwrap(), cases[i]["var"].as_str().unwrap());
            grp.push((cases[i].clone(), lookup(&m)));
            i += 1;
         }
         drive_group(&grp, &mut out);
      } else {
         drive(case, &mut out, lookup(&m));
         i += 1;
      }
   }
   out.flush();
}
