#![allow(unused_imports, unused_variables, unused_mut, dead_code, non_snake_case, unused_parens, clippy::all)]
use ascent::lattice::bounded_set::BoundedSet;
use ascent::lattice::constant_propagation::ConstPropagation;
use ascent::lattice::set::Set;
use ascent::lattice::Product;
use ascent::{Dual, Lattice};
use vh_lite::{rows_json, Driven, Value};

use vh_lite::{read_cases, drive, drive_group, quiet_panics, Out};

mod tc_right__pari;
mod tc_left__run;
mod tc_left__runpar;
mod tc_left__strpar;
mod tc_nonlin__ren;
mod mutual__to;
mod mutual__redecl;
mod mutual__str;
mod scc_chain__perm1;
mod diamond__par;
mod repeated__perm1;
mod three_dyn__par;
mod three_dyn__str;
mod conds__pari;
mod conds__init;
mod expr_args__par;
mod multi_head__par;
mod facts__ser;
mod facts__src2;
mod facts__permpar;
mod opt_cols__mrt;
mod opt_cols__srcpar;
mod same_gen__topar;
mod not_reorderable__ser;
mod two_inputs__run;
mod two_inputs__runpar;
mod two_inputs__strpar;
mod ternary__perm2;
mod bound_mix__pari;
mod join_chain__ser;
mod join_chain__u64;
mod reach__to;
mod lag_right__ser;
mod lag_right__permpar;
mod lag_left__topar;
mod lag_mid__pari;
mod lag_late_delta__ser;
mod sp_dual__to;
mod sp_dual__redecl;
mod sp_weighted__ser;
mod longest_capped__to;
mod set_reach__mrt;
mod set_reach__srcpar;
mod cp__pari;
mod lex_lat__pari;
mod lat_multi_improve__par;
mod count_paths__par;
mod count_paths__src1;
mod neg_basic__pari;
mod neg_basic__src2;
mod neg_basic__permpar;
mod agg_depth__pari;
mod agg_user__ser;
mod agg_bound_mix__ser;
mod agg_empty_rel__ser;
mod agg_const_args__exp;
mod disj__mrt;
mod disj__srcpar;
mod disj_nested__par;
mod pat_args__exppar;
mod multi_head_disj__pari;
mod mac_basic__ser;
mod mac_basic__src0;
mod mac_basic__exppar;
mod mac_nested__pari;
mod mac_disj__ser;
mod rnd_core_02__ser;
mod rnd_core_04__pari;
mod rnd_core_07__par;
mod rnd_core_10__ser;
mod rnd_core_12__pari;
mod rnd_core_15__par;
mod rnd_core_18__ser;
mod rnd_core_20__pari;
mod rnd_core_23__par;
mod rnd_core_26__ser;
mod rnd_core_28__pari;
mod rnd_agg_01__par;
mod rnd_agg_04__ser;
mod rnd_agg_06__pari;
mod rnd_agg_09__par;
mod rnd_agg_12__ser;
mod rnd_agg_14__pari;

fn lookup(name: &str) -> fn() -> Box<dyn Driven> {
   match name {
      "tc_right__pari" => tc_right__pari::make,
      "tc_left__run" => tc_left__run::make,
      "tc_left__runpar" => tc_left__runpar::make,
      "tc_left__strpar" => tc_left__strpar::make,
      "tc_nonlin__ren" => tc_nonlin__ren::make,
      "mutual__to" => mutual__to::make,
      "mutual__redecl" => mutual__redecl::make,
      "mutual__str" => mutual__str::make,
      "scc_chain__perm1" => scc_chain__perm1::make,
      "diamond__par" => diamond__par::make,
      "repeated__perm1" => repeated__perm1::make,
      "three_dyn__par" => three_dyn__par::make,
      "three_dyn__str" => three_dyn__str::make,
      "conds__pari" => conds__pari::make,
      "conds__init" => conds__init::make,
      "expr_args__par" => expr_args__par::make,
      "multi_head__par" => multi_head__par::make,
      "facts__ser" => facts__ser::make,
      "facts__src2" => facts__src2::make,
      "facts__permpar" => facts__permpar::make,
      "opt_cols__mrt" => opt_cols__mrt::make,
      "opt_cols__srcpar" => opt_cols__srcpar::make,
      "same_gen__topar" => same_gen__topar::make,
      "not_reorderable__ser" => not_reorderable__ser::make,
      "two_inputs__run" => two_inputs__run::make,
      "two_inputs__runpar" => two_inputs__runpar::make,
      "two_inputs__strpar" => two_inputs__strpar::make,
      "ternary__perm2" => ternary__perm2::make,
      "bound_mix__pari" => bound_mix__pari::make,
      "join_chain__ser" => join_chain__ser::make,
      "join_chain__u64" => join_chain__u64::make,
      "reach__to" => reach__to::make,
      "lag_right__ser" => lag_right__ser::make,
      "lag_right__permpar" => lag_right__permpar::make,
      "lag_left__topar" => lag_left__topar::make,
      "lag_mid__pari" => lag_mid__pari::make,
      "lag_late_delta__ser" => lag_late_delta__ser::make,
      "sp_dual__to" => sp_dual__to::make,
      "sp_dual__redecl" => sp_dual__redecl::make,
      "sp_weighted__ser" => sp_weighted__ser::make,
      "longest_capped__to" => longest_capped__to::make,
      "set_reach__mrt" => set_reach__mrt::make,
      "set_reach__srcpar" => set_reach__srcpar::make,
      "cp__pari" => cp__pari::make,
      "lex_lat__pari" => lex_lat__pari::make,
      "lat_multi_improve__par" => lat_multi_improve__par::make,
      "count_paths__par" => count_paths__par::make,
      "count_paths__src1" => count_paths__src1::make,
      "neg_basic__pari" => neg_basic__pari::make,
      "neg_basic__src2" => neg_basic__src2::make,
      "neg_basic__permpar" => neg_basic__permpar::make,
      "agg_depth__pari" => agg_depth__pari::make,
      "agg_user__ser" => agg_user__ser::make,
      "agg_bound_mix__ser" => agg_bound_mix__ser::make,
      "agg_empty_rel__ser" => agg_empty_rel__ser::make,
      "agg_const_args__exp" => agg_const_args__exp::make,
      "disj__mrt" => disj__mrt::make,
      "disj__srcpar" => disj__srcpar::make,
      "disj_nested__par" => disj_nested__par::make,
      "pat_args__exppar" => pat_args__exppar::make,
      "multi_head_disj__pari" => multi_head_disj__pari::make,
      "mac_basic__ser" => mac_basic__ser::make,
      "mac_basic__src0" => mac_basic__src0::make,
      "mac_basic__exppar" => mac_basic__exppar::make,
      "mac_nested__pari" => mac_nested__pari::make,
      "mac_disj__ser" => mac_disj__ser::make,
      "rnd_core_02__ser" => rnd_core_02__ser::make,
      "rnd_core_04__pari" => rnd_core_04__pari::make,
      "rnd_core_07__par" => rnd_core_07__par::make,
      "rnd_core_10__ser" => rnd_core_10__ser::make,
      "rnd_core_12__pari" => rnd_core_12__pari::make,
      "rnd_core_15__par" => rnd_core_15__par::make,
      "rnd_core_18__ser" => rnd_core_18__ser::make,
      "rnd_core_20__pari" => rnd_core_20__pari::make,
      "rnd_core_23__par" => rnd_core_23__par::make,
      "rnd_core_26__ser" => rnd_core_26__ser::make,
      "rnd_core_28__pari" => rnd_core_28__pari::make,
      "rnd_agg_01__par" => rnd_agg_01__par::make,
      "rnd_agg_04__ser" => rnd_agg_04__ser::make,
      "rnd_agg_06__pari" => rnd_agg_06__pari::make,
      "rnd_agg_09__par" => rnd_agg_09__par::make,
      "rnd_agg_12__ser" => rnd_agg_12__ser::make,
      "rnd_agg_14__pari" => rnd_agg_14__pari::make,
      _ => panic!("no such program variant in this shard: {}", name),
   }
}

fn main() {
   quiet_panics();
   let mut out = Out::open();
   let cases = read_cases();
   let mut i = 0;
   while i < cases.len() {
      let case = &cases[i];
      let m = format!("{}__{}", case["prog"].as_str().unwrap(), case["var"].as_str().unwrap());
      if let Some(g) = case["group"].as_i64() {
         // cases of one group run simultaneously
         let mut grp = vec![];
         while i < cases.len() && cases[i]["group"].as_i64() == Some(g) {
            let m = format!("{}__{}", cases[i]["prog"].as_str().unwrap(), cases[i]["var"].as_str().unwrap());
            grp.push((cases[i].clone(), lookup(&m)));
            i += 1;
         }
         drive_group(&grp, &mut out);
      } else {
         drive(case, &mut out, lookup(&m));
         i += 1;
      }
   }
   out.flush();
}
