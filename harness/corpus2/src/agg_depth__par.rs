#![allow(unused_imports, unused_variables, unused_mut, dead_code, non_snake_case, unused_parens, clippy::all)]
use ascent::lattice::bounded_set::BoundedSet;
use ascent::lattice::constant_propagation::ConstPropagation;
use ascent::lattice::set::Set;
use ascent::lattice::Product;
use ascent::{Dual, Lattice};
use vh_lite::{rows_json, Driven, Value};
ascent::ascent_par! {
   pub struct Prog;
   relation e(i32, i32);
   relation deg(i32, i32);
   relation maxdeg(i32);
   relation top(i32);
   relation ntop(i32);
   relation cnt2(i32);
   deg(x, (n as i32)) <-- e(x, _), agg n = ascent::aggregators::count() in e(x, _);
   maxdeg(m) <-- agg m = ascent::aggregators::max(n) in deg(_, n);
   top(x) <-- deg(x, n), maxdeg(n);
   ntop(x) <-- deg(x, _), !top(x);
   cnt2((c as i32)) <-- agg c = ascent::aggregators::count() in ntop(_);
}

pub struct D(Prog);
impl Driven for D {
   fn push(&mut self, rel: &str, row: &Value) {
      match rel {
         "e" => { self.0.e.push((row[0].as_i64().unwrap() as i32, row[1].as_i64().unwrap() as i32,)); },
         "deg" => { self.0.deg.push((row[0].as_i64().unwrap() as i32, row[1].as_i64().unwrap() as i32,)); },
         "maxdeg" => { self.0.maxdeg.push((row[0].as_i64().unwrap() as i32,)); },
         "top" => { self.0.top.push((row[0].as_i64().unwrap() as i32,)); },
         "ntop" => { self.0.ntop.push((row[0].as_i64().unwrap() as i32,)); },
         "cnt2" => { self.0.cnt2.push((row[0].as_i64().unwrap() as i32,)); },
         _ => panic!("verif harness: unknown relation {}", rel),
      }
   }
   fn clear(&mut self, rel: &str) {
      match rel {
         "e" => { self.0.e = Default::default(); },
         "deg" => { self.0.deg = Default::default(); },
         "maxdeg" => { self.0.maxdeg = Default::default(); },
         "top" => { self.0.top = Default::default(); },
         "ntop" => { self.0.ntop = Default::default(); },
         "cnt2" => { self.0.cnt2 = Default::default(); },
         _ => panic!("verif harness: unknown relation {}", rel),
      }
   }
   fn run(&mut self) { self.0.run(); }
   fn dump(&self) -> Value {
      let mut m: Vec<(String, Value)> = vec![];
      m.push(("e".to_string(), rows_json(self.0.e.iter())));
      m.push(("deg".to_string(), rows_json(self.0.deg.iter())));
      m.push(("maxdeg".to_string(), rows_json(self.0.maxdeg.iter())));
      m.push(("top".to_string(), rows_json(self.0.top.iter())));
      m.push(("ntop".to_string(), rows_json(self.0.ntop.iter())));
      m.push(("cnt2".to_string(), rows_json(self.0.cnt2.iter())));
      Value::Obj(m)
   }
   fn summary(&self) -> String { Prog::summary().to_string() }
}
pub fn make() -> Box<dyn Driven> { Box::new(D(Prog::default())) }
