#![allow(unused_imports, unused_variables, unused_mut, dead_code, non_snake_case, unused_parens, clippy::all)]
use ascent::lattice::bounded_set::BoundedSet;
use ascent::lattice::constant_propagation::ConstPropagation;
use ascent::lattice::set::Set;
use ascent::lattice::Product;
use ascent::{Dual, Lattice};
use vh_lite::{rows_json, Driven, Value};
ascent::ascent! {
   pub struct Prog;
   relation t_rn(i32, i32, i32);
   relation a_rn(i32, i32);
   relation b_rn(i32);
   relation c_rn(i32, i32, i32);
   a_rn(v_x_q, v_z_q) <-- t_rn(v_x_q, _, v_z_q);
   b_rn(v_y_q) <-- t_rn(v_x_q, v_y_q, v_x_q);
   c_rn(v_x_q, v_y_q, v_z_q) <-- t_rn(v_x_q, v_y_q, v_z_q), t_rn(v_z_q, v_y_q, v_x_q);
   c_rn(v_x_q, v_y_q, v_z_q) <-- c_rn(v_y_q, v_x_q, v_z_q), t_rn(v_x_q, _, _);
   a_rn(v_x_q, v_y_q) <-- a_rn(v_x_q, v_z_q), t_rn(v_z_q, 0, v_y_q);
}

pub struct D(Prog);
impl Driven for D {
   fn push(&mut self, rel: &str, row: &Value) {
      match rel {
         "t_rn" => { self.0.t_rn.push((row[0].as_i64().unwrap() as i32, row[1].as_i64().unwrap() as i32, row[2].as_i64().unwrap() as i32,)); },
         "a_rn" => { self.0.a_rn.push((row[0].as_i64().unwrap() as i32, row[1].as_i64().unwrap() as i32,)); },
         "b_rn" => { self.0.b_rn.push((row[0].as_i64().unwrap() as i32,)); },
         "c_rn" => { self.0.c_rn.push((row[0].as_i64().unwrap() as i32, row[1].as_i64().unwrap() as i32, row[2].as_i64().unwrap() as i32,)); },
         _ => panic!("verif harness: unknown relation {}", rel),
      }
   }
   fn clear(&mut self, rel: &str) {
      match rel {
         "t_rn" => { self.0.t_rn = Default::default(); },
         "a_rn" => { self.0.a_rn = Default::default(); },
         "b_rn" => { self.0.b_rn = Default::default(); },
         "c_rn" => { self.0.c_rn = Default::default(); },
         _ => panic!("verif harness: unknown relation {}", rel),
      }
   }
   fn run(&mut self) { self.0.run(); }
   fn dump(&self) -> Value {
      let mut m: Vec<(String, Value)> = vec![];
      m.push(("t_rn".to_string(), rows_json(self.0.t_rn.iter())));
      m.push(("a_rn".to_string(), rows_json(self.0.a_rn.iter())));
      m.push(("b_rn".to_string(), rows_json(self.0.b_rn.iter())));
      m.push(("c_rn".to_string(), rows_json(self.0.c_rn.iter())));
      Value::Obj(m)
   }
   fn summary(&self) -> String { Prog::summary().to_string() }
}
pub fn make() -> Box<dyn Driven> { Box::new(D(Prog::default())) }
