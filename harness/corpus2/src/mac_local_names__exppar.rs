#![allow(unused_imports, unused_variables, unused_mut, dead_code, non_snake_case, unused_parens, clippy::all)]
use ascent::lattice::bounded_set::BoundedSet;
use ascent::lattice::constant_propagation::ConstPropagation;
use ascent::lattice::set::Set;
use ascent::lattice::Product;
use ascent::{Dual, Lattice};
use vh_lite::{rows_json, Driven, Value};
ascent::ascent_par! {
   pub struct Prog;
   relation e(i32, i32);
   relation three(i32, i32);
   relation six(i32, i32);
   three(a, b) <-- e(a, m__x1), e(m__x1__x3, m1__x2) if ((*m__x1__x3) == (*m__x1)), e(m1__x2__x4, b) if ((*m1__x2__x4) == (*m1__x2));
   six(a, c) <-- e(a, m__x5), e(m__x5__x9, m1__x6) if ((*m__x5__x9) == (*m__x5)), e(m1__x6__x10, b) if ((*m1__x6__x10) == (*m1__x6)), e(b__x11, m__x7) if ((*b__x11) == (*b)), e(m__x7__x12, m1__x8) if ((*m__x7__x12) == (*m__x7)), e(m1__x8__x13, c) if ((*m1__x8__x13) == (*m1__x8));
}

pub struct D(Prog);
impl Driven for D {
   fn push(&mut self, rel: &str, row: &Value) {
      match rel {
         "e" => { self.0.e.push((row[0].as_i64().unwrap() as i32, row[1].as_i64().unwrap() as i32,)); },
         "three" => { self.0.three.push((row[0].as_i64().unwrap() as i32, row[1].as_i64().unwrap() as i32,)); },
         "six" => { self.0.six.push((row[0].as_i64().unwrap() as i32, row[1].as_i64().unwrap() as i32,)); },
         _ => panic!("verif harness: unknown relation {}", rel),
      }
   }
   fn clear(&mut self, rel: &str) {
      match rel {
         "e" => { self.0.e = Default::default(); },
         "three" => { self.0.three = Default::default(); },
         "six" => { self.0.six = Default::default(); },
         _ => panic!("verif harness: unknown relation {}", rel),
      }
   }
   fn run(&mut self) { self.0.run(); }
   fn dump(&self) -> Value {
      let mut m: Vec<(String, Value)> = vec![];
      m.push(("e".to_string(), rows_json(self.0.e.iter())));
      m.push(("three".to_string(), rows_json(self.0.three.iter())));
      m.push(("six".to_string(), rows_json(self.0.six.iter())));
      Value::Obj(m)
   }
   fn summary(&self) -> String { Prog::summary().to_string() }
}
pub fn make() -> Box<dyn Driven> { Box::new(D(Prog::default())) }
