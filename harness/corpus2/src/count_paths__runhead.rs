#![allow(unused_imports, unused_variables, unused_mut, dead_code, non_snake_case, unused_parens, clippy::all)]
use ascent::lattice::bounded_set::BoundedSet;
use ascent::lattice::constant_propagation::ConstPropagation;
use ascent::lattice::set::Set;
use ascent::lattice::Product;
use ascent::{Dual, Lattice};
use vh_lite::{rows_json, Driven, Value};
#[derive(Default)]
pub struct D {
   e: Vec<(i32, i32,)>,
   p: Vec<(i32, i32,)>,
   cnt: Vec<(i32,)>,
   outdeg: Vec<(i32, i32,)>,
   out: Option<Value>,
}
impl Driven for D {
   fn push(&mut self, rel: &str, row: &Value) {
      match rel {
         "e" => { self.e.push((row[0].as_i64().unwrap() as i32, row[1].as_i64().unwrap() as i32,)); },
         "p" => { self.p.push((row[0].as_i64().unwrap() as i32, row[1].as_i64().unwrap() as i32,)); },
         "cnt" => { self.cnt.push((row[0].as_i64().unwrap() as i32,)); },
         "outdeg" => { self.outdeg.push((row[0].as_i64().unwrap() as i32, row[1].as_i64().unwrap() as i32,)); },
         _ => panic!("verif harness: unknown relation {}", rel),
      }
   }
   fn run(&mut self) {
      let e_init = self.e.clone();
      let cnt_init = self.cnt.clone();
      let outdeg_init = self.outdeg.clone();
      let res = ascent::ascent_run! {
         relation e(i32, i32);
         relation p(i32, i32);
         relation cnt(i32) = cnt_init;
         relation outdeg(i32, i32) = outdeg_init;
         e(a0.clone(), a1.clone()) <-- for (a0, a1, ) in e_init.iter();
         p(x, y) <-- e(x, y);
         p(x, z) <-- e(x, y), p(y, z);
         cnt((n as i32)) <-- agg n = ascent::aggregators::count() in p(_, _);
         outdeg(x, (n as i32)) <-- e(x, _), agg n = ascent::aggregators::count() in p(x, _);
      };
      let mut m: Vec<(String, Value)> = vec![];
      m.push(("e".to_string(), rows_json(res.e.iter())));
      m.push(("p".to_string(), rows_json(res.p.iter())));
      m.push(("cnt".to_string(), rows_json(res.cnt.iter())));
      m.push(("outdeg".to_string(), rows_json(res.outdeg.iter())));
      self.out = Some(Value::Obj(m));
   }
   fn dump(&self) -> Value { self.out.clone().unwrap_or(Value::Null) }
}
pub fn make() -> Box<dyn Driven> { Box::new(D::default()) }
