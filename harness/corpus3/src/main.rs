#![allow(unused_imports, unused_variables, unused_mut, dead_code, non_snake_case, unused_parens, clippy::all)]
use ascent::lattice::bounded_set::BoundedSet;
use ascent::lattice::constant_propagation::ConstPropagation;
use ascent::lattice::set::Set;
use ascent::lattice::Product;
use ascent::{Dual, Lattice};
use vh_lite::{rows_json, Driven, Value};

use vh_lite::{read_cases, drive, drive_group, quiet_panics, Out};

mod tc_right__to;
mod tc_left__mrt;
mod tc_left__srcpar;
mod tc_nonlin__ser;
mod tc_nonlin__permpar;
mod mutual__topar;
mod mutual__init;
mod mutual__u64;
mod scc_chain__perm2;
mod diamond__pari;
mod repeated__perm2;
mod three_dyn__pari;
mod three_dyn__u64;
mod conds__run;
mod conds__runpar;
mod expr_args__pari;
mod multi_head__pari;
mod facts__par;
mod facts__redecl;
mod facts__str;
mod opt_cols__gen;
mod cartesian__ser;
mod same_gen__perm1;
mod not_reorderable__par;
mod two_inputs__mrt;
mod two_inputs__srcpar;
mod wild__ser;
mod ternary__ren;
mod bound_mix__perm1;
mod join_chain__par;
mod join_chain__strpar;
mod reach__topar;
mod lag_right__par;
mod lag_right__str;
mod lag_three__ser;
mod lag_mid__perm1;
mod lag_late_delta__par;
mod sp_dual__topar;
mod sp_dual__init;
mod sp_weighted__par;
mod longest_capped__topar;
mod set_reach__gen;
mod bset__ser;
mod cp__to;
mod bool_lat__ser;
mod lat_multi_improve__pari;
mod count_paths__pari;
mod count_paths__src2;
mod neg_basic__to;
mod neg_basic__redecl;
mod neg_basic__exp;
mod agg_depth__to;
mod agg_user__par;
mod agg_bound_mix__par;
mod agg_empty_rel__par;
mod agg_const_args__exppar;
mod disj__gen;
mod disj__perm1;
mod disj_nested__pari;
mod rep_expr__ser;
mod multi_head_disj__exp;
mod mac_basic__par;
mod mac_basic__src1;
mod mac_capture__ser;
mod mac_nested__exp;
mod mac_disj__par;
mod rnd_core_02__par;
mod rnd_core_05__ser;
mod rnd_core_07__pari;
mod rnd_core_10__par;
mod rnd_core_13__ser;
mod rnd_core_15__pari;
mod rnd_core_18__par;
mod rnd_core_21__ser;
mod rnd_core_23__pari;
mod rnd_core_26__par;
mod rnd_core_29__ser;
mod rnd_agg_01__pari;
mod rnd_agg_04__par;
mod rnd_agg_07__ser;
mod rnd_agg_09__pari;
mod rnd_agg_12__par;
mod rnd_agg_15__ser;

fn lookup(name: &str) -> fn() -> Box<dyn Driven> {
   match name {
      "tc_right__to" => tc_right__to::make,
      "tc_left__mrt" => tc_left__mrt::make,
      "tc_left__srcpar" => tc_left__srcpar::make,
      "tc_nonlin__ser" => tc_nonlin__ser::make,
      "tc_nonlin__permpar" => tc_nonlin__permpar::make,
      "mutual__topar" => mutual__topar::make,
      "mutual__init" => mutual__init::make,
      "mutual__u64" => mutual__u64::make,
      "scc_chain__perm2" => scc_chain__perm2::make,
      "diamond__pari" => diamond__pari::make,
      "repeated__perm2" => repeated__perm2::make,
      "three_dyn__pari" => three_dyn__pari::make,
      "three_dyn__u64" => three_dyn__u64::make,
      "conds__run" => conds__run::make,
      "conds__runpar" => conds__runpar::make,
      "expr_args__pari" => expr_args__pari::make,
      "multi_head__pari" => multi_head__pari::make,
      "facts__par" => facts__par::make,
      "facts__redecl" => facts__redecl::make,
      "facts__str" => facts__str::make,
      "opt_cols__gen" => opt_cols__gen::make,
      "cartesian__ser" => cartesian__ser::make,
      "same_gen__perm1" => same_gen__perm1::make,
      "not_reorderable__par" => not_reorderable__par::make,
      "two_inputs__mrt" => two_inputs__mrt::make,
      "two_inputs__srcpar" => two_inputs__srcpar::make,
      "wild__ser" => wild__ser::make,
      "ternary__ren" => ternary__ren::make,
      "bound_mix__perm1" => bound_mix__perm1::make,
      "join_chain__par" => join_chain__par::make,
      "join_chain__strpar" => join_chain__strpar::make,
      "reach__topar" => reach__topar::make,
      "lag_right__par" => lag_right__par::make,
      "lag_right__str" => lag_right__str::make,
      "lag_three__ser" => lag_three__ser::make,
      "lag_mid__perm1" => lag_mid__perm1::make,
      "lag_late_delta__par" => lag_late_delta__par::make,
      "sp_dual__topar" => sp_dual__topar::make,
      "sp_dual__init" => sp_dual__init::make,
      "sp_weighted__par" => sp_weighted__par::make,
      "longest_capped__topar" => longest_capped__topar::make,
      "set_reach__gen" => set_reach__gen::make,
      "bset__ser" => bset__ser::make,
      "cp__to" => cp__to::make,
      "bool_lat__ser" => bool_lat__ser::make,
      "lat_multi_improve__pari" => lat_multi_improve__pari::make,
      "count_paths__pari" => count_paths__pari::make,
      "count_paths__src2" => count_paths__src2::make,
      "neg_basic__to" => neg_basic__to::make,
      "neg_basic__redecl" => neg_basic__redecl::make,
      "neg_basic__exp" => neg_basic__exp::make,
      "agg_depth__to" => agg_depth__to::make,
      "agg_user__par" => agg_user__par::make,
      "agg_bound_mix__par" => agg_bound_mix__par::make,
      "agg_empty_rel__par" => agg_empty_rel__par::make,
      "agg_const_args__exppar" => agg_const_args__exppar::make,
      "disj__gen" => disj__gen::make,
      "disj__perm1" => disj__perm1::make,
      "disj_nested__pari" => disj_nested__pari::make,
      "rep_expr__ser" => rep_expr__ser::make,
      "multi_head_disj__exp" => multi_head_disj__exp::make,
      "mac_basic__par" => mac_basic__par::make,
      "mac_basic__src1" => mac_basic__src1::make,
      "mac_capture__ser" => mac_capture__ser::make,
      "mac_nested__exp" => mac_nested__exp::make,
      "mac_disj__par" => mac_disj__par::make,
      "rnd_core_02__par" => rnd_core_02__par::make,
      "rnd_core_05__ser" => rnd_core_05__ser::make,
      "rnd_core_07__pari" => rnd_core_07__pari::make,
      "rnd_core_10__par" => rnd_core_10__par::make,
      "rnd_core_13__ser" => rnd_core_13__ser::make,
      "rnd_core_15__pari" => rnd_core_15__pari::make,
      "rnd_core_18__par" => rnd_core_18__par::make,
      "rnd_core_21__ser" => rnd_core_21__ser::make,
      "rnd_core_23__pari" => rnd_core_23__pari::make,
      "rnd_core_26__par" => rnd_core_26__par::make,
      "rnd_core_29__ser" => rnd_core_29__ser::make,
      "rnd_agg_01__pari" => rnd_agg_01__pari::make,
      "rnd_agg_04__par" => rnd_agg_04__par::make,
      "rnd_agg_07__ser" => rnd_agg_07__ser::make,
      "rnd_agg_09__pari" => rnd_agg_09__pari::make,
      "rnd_agg_12__par" => rnd_agg_12__par::make,
      "rnd_agg_15__ser" => rnd_agg_15__ser::make,
      _ => panic!("no such program variant in this shard: {}", name),
   }
}

fn main() {
   quiet_panics();
   let mut out = Out::open();
   let cases = read_cases();
   let mut i = 0;
   while i < cases.len() {
      let case = &cases[i];
      let m = format!("{}__{}", case["prog"].as_str().unwrap(), case["var"].as_str().unwrap());
      if let Some(g) = case["group"].as_i64() {
         // cases of one group run simultaneously
         let mut grp = vec![];
         while i < cases.len() && cases[i]["group"].as_i64() == Some(g) {
            let m = format!("{}__{}", cases[i]["prog"].as_str().unwrap(), cases[i]["var"].as_str().unwrap());
            grp.push((cases[i].clone(), lookup(&m)));
            i += 1;
         }
         drive_group(&grp, &mut out);
      } else {
         drive(case, &mut out, lookup(&m));
         i += 1;
      }
   }
   out.flush();
}
