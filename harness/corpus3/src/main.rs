#![allow(unused_imports, unused_variables, unused_mut, dead_code, non_snake_case, unused_parens, clippy::all)]
use ascent::lattice::bounded_set::BoundedSet;
use ascent::lattice::constant_propagation::ConstPropagation;
use ascent::lattice::set::Set;
use ascent::lattice::Product;
use ascent::{Dual, Lattice};
use vh_lite::{rows_json, Driven, Value};

use vh_lite::{read_cases, drive, drive_group, quiet_panics, Out};

mod tc_right__to;
mod tc_left__mrt;
mod tc_left__init;
mod tc_left__u64;
mod tc_nonlin__perm2;
mod mutual__pari;
mod mutual__src2;
mod mutual__perm2;
mod scc_chain__pari;
mod scc_chain__u64;
mod repeated__ser;
mod repeated__u64;
mod three_dyn__perm2;
mod four_dyn__pari;
mod conds__src1;
mod conds__perm1;
mod count_up__par;
mod multi_head__topar;
mod facts__run;
mod facts__redecl;
mod facts__str;
mod opt_cols__gen;
mod opt_cols__runpar;
mod same_gen__to;
mod same_gen__strpar;
mod not_reorderable__ren;
mod pre_join_rec__perm2;
mod two_inputs__run;
mod two_inputs__redecl;
mod two_inputs__str;
mod ternary__pari;
mod bound_mix__ser;
mod bound_mix__u64;
mod join_chain__permpar;
mod reach__par;
mod self_join3__par;
mod lag_right__perm2;
mod lag_left__pari;
mod lag_mid__ser;
mod lag_mid__u64;
mod multi_head_rec__par;
mod sp_dual__pari;
mod sp_dual__src2;
mod sp_dual__perm2;
mod longest_capped__ser;
mod set_reach__to;
mod set_reach__srcto;
mod bset__pari;
mod opt_lat__ser;
mod lex_dual_lat__ser;
mod bool_lat__pari;
mod lat_multi_improve__topar;
mod lat_count_all__pari;
mod lat_input__topar;
mod lat_input__srcred;
mod count_paths__to;
mod count_paths__srcto;
mod neg_basic__pari;
mod neg_basic__src2;
mod neg_basic__perm2;
mod agg_depth__ser;
mod agg_lattice__to;
mod neg_rec_after__exp;
mod agg_empty__to;
mod agg_const_args__par;
mod disj__par;
mod disj__src1;
mod disj__perm1;
mod disj_nested__pari;
mod rep_expr__ser;
mod multi_head_disj__exp;
mod mac_basic__par;
mod mac_basic__src1;
mod mac_basic__exp;
mod mac_nested__par;
mod mac_gensym_disj__exppar;
mod mac_block__pari;
mod stress_lat__ser;
mod stress_rel__pari;
mod rnd_core_03__par;
mod rnd_core_06__ser;
mod rnd_core_08__pari;
mod rnd_core_11__par;
mod rnd_core_14__ser;
mod rnd_core_16__pari;
mod rnd_core_19__par;
mod rnd_core_22__ser;
mod rnd_core_24__pari;
mod rnd_core_27__par;
mod rnd_core_30__ser;
mod rnd_agg_02__pari;
mod rnd_agg_05__par;
mod rnd_agg_08__ser;
mod rnd_agg_10__pari;
mod rnd_agg_13__par;
mod rnd_prec_01__ser;
mod rnd_prec_02__to;
mod rnd_prec_04__par;
mod rnd_prec_05__topar;
mod rnd_prec_07__pari;
mod rnd_prea_01__ser;
mod rnd_prea_03__pari;
mod rnd_prea_06__par;

fn lookup(name: &str) -> fn() -> Box<dyn Driven> {
   match name {
      "tc_right__to" => tc_right__to::make,
      "tc_left__mrt" => tc_left__mrt::make,
      "tc_left__init" => tc_left__init::make,
      "tc_left__u64" => tc_left__u64::make,
      "tc_nonlin__perm2" => tc_nonlin__perm2::make,
      "mutual__pari" => mutual__pari::make,
      "mutual__src2" => mutual__src2::make,
      "mutual__perm2" => mutual__perm2::make,
      "scc_chain__pari" => scc_chain__pari::make,
      "scc_chain__u64" => scc_chain__u64::make,
      "repeated__ser" => repeated__ser::make,
      "repeated__u64" => repeated__u64::make,
      "three_dyn__perm2" => three_dyn__perm2::make,
      "four_dyn__pari" => four_dyn__pari::make,
      "conds__src1" => conds__src1::make,
      "conds__perm1" => conds__perm1::make,
      "count_up__par" => count_up__par::make,
      "multi_head__topar" => multi_head__topar::make,
      "facts__run" => facts__run::make,
      "facts__redecl" => facts__redecl::make,
      "facts__str" => facts__str::make,
      "opt_cols__gen" => opt_cols__gen::make,
      "opt_cols__runpar" => opt_cols__runpar::make,
      "same_gen__to" => same_gen__to::make,
      "same_gen__strpar" => same_gen__strpar::make,
      "not_reorderable__ren" => not_reorderable__ren::make,
      "pre_join_rec__perm2" => pre_join_rec__perm2::make,
      "two_inputs__run" => two_inputs__run::make,
      "two_inputs__redecl" => two_inputs__redecl::make,
      "two_inputs__str" => two_inputs__str::make,
      "ternary__pari" => ternary__pari::make,
      "bound_mix__ser" => bound_mix__ser::make,
      "bound_mix__u64" => bound_mix__u64::make,
      "join_chain__permpar" => join_chain__permpar::make,
      "reach__par" => reach__par::make,
      "self_join3__par" => self_join3__par::make,
      "lag_right__perm2" => lag_right__perm2::make,
      "lag_left__pari" => lag_left__pari::make,
      "lag_mid__ser" => lag_mid__ser::make,
      "lag_mid__u64" => lag_mid__u64::make,
      "multi_head_rec__par" => multi_head_rec__par::make,
      "sp_dual__pari" => sp_dual__pari::make,
      "sp_dual__src2" => sp_dual__src2::make,
      "sp_dual__perm2" => sp_dual__perm2::make,
      "longest_capped__ser" => longest_capped__ser::make,
      "set_reach__to" => set_reach__to::make,
      "set_reach__srcto" => set_reach__srcto::make,
      "bset__pari" => bset__pari::make,
      "opt_lat__ser" => opt_lat__ser::make,
      "lex_dual_lat__ser" => lex_dual_lat__ser::make,
      "bool_lat__pari" => bool_lat__pari::make,
      "lat_multi_improve__topar" => lat_multi_improve__topar::make,
      "lat_count_all__pari" => lat_count_all__pari::make,
      "lat_input__topar" => lat_input__topar::make,
      "lat_input__srcred" => lat_input__srcred::make,
      "count_paths__to" => count_paths__to::make,
      "count_paths__srcto" => count_paths__srcto::make,
      "neg_basic__pari" => neg_basic__pari::make,
      "neg_basic__src2" => neg_basic__src2::make,
      "neg_basic__perm2" => neg_basic__perm2::make,
      "agg_depth__ser" => agg_depth__ser::make,
      "agg_lattice__to" => agg_lattice__to::make,
      "neg_rec_after__exp" => neg_rec_after__exp::make,
      "agg_empty__to" => agg_empty__to::make,
      "agg_const_args__par" => agg_const_args__par::make,
      "disj__par" => disj__par::make,
      "disj__src1" => disj__src1::make,
      "disj__perm1" => disj__perm1::make,
      "disj_nested__pari" => disj_nested__pari::make,
      "rep_expr__ser" => rep_expr__ser::make,
      "multi_head_disj__exp" => multi_head_disj__exp::make,
      "mac_basic__par" => mac_basic__par::make,
      "mac_basic__src1" => mac_basic__src1::make,
      "mac_basic__exp" => mac_basic__exp::make,
      "mac_nested__par" => mac_nested__par::make,
      "mac_gensym_disj__exppar" => mac_gensym_disj__exppar::make,
      "mac_block__pari" => mac_block__pari::make,
      "stress_lat__ser" => stress_lat__ser::make,
      "stress_rel__pari" => stress_rel__pari::make,
      "rnd_core_03__par" => rnd_core_03__par::make,
      "rnd_core_06__ser" => rnd_core_06__ser::make,
      "rnd_core_08__pari" => rnd_core_08__pari::make,
      "rnd_core_11__par" => rnd_core_11__par::make,
      "rnd_core_14__ser" => rnd_core_14__ser::make,
      "rnd_core_16__pari" => rnd_core_16__pari::make,
      "rnd_core_19__par" => rnd_core_19__par::make,
      "rnd_core_22__ser" => rnd_core_22__ser::make,
      "rnd_core_24__pari" => rnd_core_24__pari::make,
      "rnd_core_27__par" => rnd_core_27__par::make,
      "rnd_core_30__ser" => rnd_core_30__ser::make,
      "rnd_agg_02__pari" => rnd_agg_02__pari::make,
      "rnd_agg_05__par" => rnd_agg_05__par::make,
      "rnd_agg_08__ser" => rnd_agg_08__ser::make,
      "rnd_agg_10__pari" => rnd_agg_10__pari::make,
      "rnd_agg_13__par" => rnd_agg_13__par::make,
      "rnd_prec_01__ser" => rnd_prec_01__ser::make,
      "rnd_prec_02__to" => rnd_prec_02__to::make,
      "rnd_prec_04__par" => rnd_prec_04__par::make,
      "rnd_prec_05__topar" => rnd_prec_05__topar::make,
      "rnd_prec_07__pari" => rnd_prec_07__pari::make,
      "rnd_prea_01__ser" => rnd_prea_01__ser::make,
      "rnd_prea_03__pari" => rnd_prea_03__pari::make,
      "rnd_prea_06__par" => rnd_prea_06__par::make,
      _ => panic!("no such program variant in this shard: {}", name),
   }
}

fn main() {
   quiet_panics();
   let mut out = Out::open();
   let cases = read_cases();
   let mut i = 0;
   while i < cases.len() {
      let case = &cases[i];
      let m = format!("{}__{}", case["prog"].as_str().unwrap(), case["var"].as_str().unwrap());
      if let Some(g) = case["group"].as_i64() {
         // cases of one group run simultaneously
         let mut grp = vec![];
         while i < cases.len() && cases[i]["group"].as_i64() == Some(g) {
            let m = format!("{}__{}", cases[i]["prog"].as_str().unwrap(), cases[i]["var"].as_str().unwrap());
            grp.push((cases[i].clone(), lookup(&m)));
            i += 1;
         }
         drive_group(&grp, &mut out);
      } else {
         drive(case, &mut out, lookup(&m));
         i += 1;
      }
   }
   out.flush();
}
