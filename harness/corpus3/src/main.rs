#![allow(unused_imports, unused_variables, unused_mut, dead_code, non_snake_case, unused_parens, clippy::all)]
use ascent::lattice::bounded_set::BoundedSet;
use ascent::lattice::constant_propagation::ConstPropagation;
use ascent::lattice::set::Set;
use ascent::lattice::Product;
use ascent::{Dual, Lattice};
use vh_lite::{rows_json, Driven, Value};

use vh_lite::{read_cases, drive, drive_group, quiet_panics, Out};

mod tc_right__to;
mod tc_left__mrt;
mod tc_left__init;
mod tc_left__u64;
mod tc_nonlin__perm2;
mod mutual__pari;
mod mutual__src2;
mod mutual__perm2;
mod scc_chain__pari;
mod scc_chain__u64;
mod repeated__ser;
mod repeated__u64;
mod three_dyn__perm2;
mod four_dyn__pari;
mod conds__src1;
mod conds__perm1;
mod count_up__par;
mod multi_head__topar;
mod facts__run;
mod facts__redecl;
mod facts__str;
mod opt_cols__gen;
mod opt_cols__runpar;
mod same_gen__to;
mod same_gen__strpar;
mod not_reorderable__ren;
mod pre_join_rec__perm2;
mod two_inputs__run;
mod two_inputs__redecl;
mod two_inputs__str;
mod ternary__pari;
mod bound_mix__ser;
mod bound_mix__u64;
mod join_chain__permpar;
mod reach__par;
mod self_join3__par;
mod lag_right__perm2;
mod lag_left__pari;
mod lag_mid__ser;
mod lag_mid__u64;
mod multi_head_rec__par;
mod sp_dual__pari;
mod sp_dual__src2;
mod sp_dual__perm2;
mod longest_capped__ser;
mod set_reach__to;
mod set_reach__srcto;
mod bset__pari;
mod opt_lat__ser;
mod lex_lat__pari;
mod lat_multi_improve__par;
mod lat_pre_join__topar;
mod lat_input__par;
mod lat_input__src1;
mod count_paths__ser;
mod count_paths__src0;
mod count_paths__srcpar;
mod neg_basic__gen;
mod neg_basic__runpar;
mod agg_minmaxsum__ser;
mod agg_lattice__ser;
mod neg_rec_after__ser;
mod agg_empty__ser;
mod agg_empty_rel__to;
mod agg_pre_join__par;
mod disj__mrt;
mod disj__init;
mod disj__exppar;
mod pat_args__pari;
mod multi_head_disj__ser;
mod neg_in_disj__exp;
mod mac_basic__mrt;
mod mac_basic__init;
mod mac_capture__exp;
mod mac_gensym_disj__par;
mod mac_local_names__exppar;
mod mac_disj__pari;
mod stress_set__pari;
mod rnd_core_02__par;
mod rnd_core_05__ser;
mod rnd_core_07__pari;
mod rnd_core_10__par;
mod rnd_core_13__ser;
mod rnd_core_15__pari;
mod rnd_core_18__par;
mod rnd_core_21__ser;
mod rnd_core_23__pari;
mod rnd_core_26__par;
mod rnd_core_29__ser;
mod rnd_agg_01__pari;
mod rnd_agg_04__par;
mod rnd_agg_07__ser;
mod rnd_agg_09__pari;
mod rnd_agg_12__par;
mod rnd_agg_15__ser;
mod rnd_prec_02__ser;
mod rnd_prec_03__to;
mod rnd_prec_05__par;
mod rnd_prec_06__topar;
mod rnd_prec_08__pari;
mod rnd_prea_02__pari;
mod rnd_prea_05__par;
mod rnd_prea_08__ser;

fn lookup(name: &str) -> fn() -> Box<dyn Driven> {
   match name {
      "tc_right__to" => tc_right__to::make,
      "tc_left__mrt" => tc_left__mrt::make,
      "tc_left__init" => tc_left__init::make,
      "tc_left__u64" => tc_left__u64::make,
      "tc_nonlin__perm2" => tc_nonlin__perm2::make,
      "mutual__pari" => mutual__pari::make,
      "mutual__src2" => mutual__src2::make,
      "mutual__perm2" => mutual__perm2::make,
      "scc_chain__pari" => scc_chain__pari::make,
      "scc_chain__u64" => scc_chain__u64::make,
      "repeated__ser" => repeated__ser::make,
      "repeated__u64" => repeated__u64::make,
      "three_dyn__perm2" => three_dyn__perm2::make,
      "four_dyn__pari" => four_dyn__pari::make,
      "conds__src1" => conds__src1::make,
      "conds__perm1" => conds__perm1::make,
      "count_up__par" => count_up__par::make,
      "multi_head__topar" => multi_head__topar::make,
      "facts__run" => facts__run::make,
      "facts__redecl" => facts__redecl::make,
      "facts__str" => facts__str::make,
      "opt_cols__gen" => opt_cols__gen::make,
      "opt_cols__runpar" => opt_cols__runpar::make,
      "same_gen__to" => same_gen__to::make,
      "same_gen__strpar" => same_gen__strpar::make,
      "not_reorderable__ren" => not_reorderable__ren::make,
      "pre_join_rec__perm2" => pre_join_rec__perm2::make,
      "two_inputs__run" => two_inputs__run::make,
      "two_inputs__redecl" => two_inputs__redecl::make,
      "two_inputs__str" => two_inputs__str::make,
      "ternary__pari" => ternary__pari::make,
      "bound_mix__ser" => bound_mix__ser::make,
      "bound_mix__u64" => bound_mix__u64::make,
      "join_chain__permpar" => join_chain__permpar::make,
      "reach__par" => reach__par::make,
      "self_join3__par" => self_join3__par::make,
      "lag_right__perm2" => lag_right__perm2::make,
      "lag_left__pari" => lag_left__pari::make,
      "lag_mid__ser" => lag_mid__ser::make,
      "lag_mid__u64" => lag_mid__u64::make,
      "multi_head_rec__par" => multi_head_rec__par::make,
      "sp_dual__pari" => sp_dual__pari::make,
      "sp_dual__src2" => sp_dual__src2::make,
      "sp_dual__perm2" => sp_dual__perm2::make,
      "longest_capped__ser" => longest_capped__ser::make,
      "set_reach__to" => set_reach__to::make,
      "set_reach__srcto" => set_reach__srcto::make,
      "bset__pari" => bset__pari::make,
      "opt_lat__ser" => opt_lat__ser::make,
      "lex_lat__pari" => lex_lat__pari::make,
      "lat_multi_improve__par" => lat_multi_improve__par::make,
      "lat_pre_join__topar" => lat_pre_join__topar::make,
      "lat_input__par" => lat_input__par::make,
      "lat_input__src1" => lat_input__src1::make,
      "count_paths__ser" => count_paths__ser::make,
      "count_paths__src0" => count_paths__src0::make,
      "count_paths__srcpar" => count_paths__srcpar::make,
      "neg_basic__gen" => neg_basic__gen::make,
      "neg_basic__runpar" => neg_basic__runpar::make,
      "agg_minmaxsum__ser" => agg_minmaxsum__ser::make,
      "agg_lattice__ser" => agg_lattice__ser::make,
      "neg_rec_after__ser" => neg_rec_after__ser::make,
      "agg_empty__ser" => agg_empty__ser::make,
      "agg_empty_rel__to" => agg_empty_rel__to::make,
      "agg_pre_join__par" => agg_pre_join__par::make,
      "disj__mrt" => disj__mrt::make,
      "disj__init" => disj__init::make,
      "disj__exppar" => disj__exppar::make,
      "pat_args__pari" => pat_args__pari::make,
      "multi_head_disj__ser" => multi_head_disj__ser::make,
      "neg_in_disj__exp" => neg_in_disj__exp::make,
      "mac_basic__mrt" => mac_basic__mrt::make,
      "mac_basic__init" => mac_basic__init::make,
      "mac_capture__exp" => mac_capture__exp::make,
      "mac_gensym_disj__par" => mac_gensym_disj__par::make,
      "mac_local_names__exppar" => mac_local_names__exppar::make,
      "mac_disj__pari" => mac_disj__pari::make,
      "stress_set__pari" => stress_set__pari::make,
      "rnd_core_02__par" => rnd_core_02__par::make,
      "rnd_core_05__ser" => rnd_core_05__ser::make,
      "rnd_core_07__pari" => rnd_core_07__pari::make,
      "rnd_core_10__par" => rnd_core_10__par::make,
      "rnd_core_13__ser" => rnd_core_13__ser::make,
      "rnd_core_15__pari" => rnd_core_15__pari::make,
      "rnd_core_18__par" => rnd_core_18__par::make,
      "rnd_core_21__ser" => rnd_core_21__ser::make,
      "rnd_core_23__pari" => rnd_core_23__pari::make,
      "rnd_core_26__par" => rnd_core_26__par::make,
      "rnd_core_29__ser" => rnd_core_29__ser::make,
      "rnd_agg_01__pari" => rnd_agg_01__pari::make,
      "rnd_agg_04__par" => rnd_agg_04__par::make,
      "rnd_agg_07__ser" => rnd_agg_07__ser::make,
      "rnd_agg_09__pari" => rnd_agg_09__pari::make,
      "rnd_agg_12__par" => rnd_agg_12__par::make,
      "rnd_agg_15__ser" => rnd_agg_15__ser::make,
      "rnd_prec_02__ser" => rnd_prec_02__ser::make,
      "rnd_prec_03__to" => rnd_prec_03__to::make,
      "rnd_prec_05__par" => rnd_prec_05__par::make,
      "rnd_prec_06__topar" => rnd_prec_06__topar::make,
      "rnd_prec_08__pari" => rnd_prec_08__pari::make,
      "rnd_prea_02__pari" => rnd_prea_02__pari::make,
      "rnd_prea_05__par" => rnd_prea_05__par::make,
      "rnd_prea_08__ser" => rnd_prea_08__ser::make,
      _ => panic!("no such program variant in this shard: {}", name),
   }
}

fn main() {
   quiet_panics();
   let mut out = Out::open();
   let cases = read_cases();
   let mut i = 0;
   while i < cases.len() {
      let case = &cases[i];
      let m = format!("{}__{}", case["prog"].as_str().unwrap(), case["var"].as_str().unwrap());
      if let Some(g) = case["group"].as_i64() {
         // cases of one group run simultaneously
         let mut grp = vec![];
         while i < cases.len() && cases[i]["group"].as_i64() == Some(g) {
            let m = format!("{}__{}", cases[i]["prog"].as_str().unwrap(), cases[i]["var"].as_str().unwrap());
            grp.push((cases[i].clone(), lookup(&m)));
            i += 1;
         }
         drive_group(&grp, &mut out);
      } else {
         drive(case, &mut out, lookup(&m));
         i += 1;
      }
   }
   out.flush();
}
