#![allow(unused_imports, unused_variables, unused_mut, dead_code, non_snake_case, unused_parens, clippy::all)]
use ascent::lattice::bounded_set::BoundedSet;
use ascent::lattice::constant_propagation::ConstPropagation;
use ascent::lattice::set::Set;
use ascent::lattice::Product;
use ascent::{Dual, Lattice};
use vh_lite::{rows_json, Driven, Value};

use vh_lite::{read_cases, drive, drive_group, quiet_panics, Out};

mod tc_right__to;
mod tc_left__mrt;
mod tc_left__runpar;
mod tc_left__strpar;
mod tc_nonlin__ren;
mod mutual__to;
mod mutual__srcto;
mod mutual__permpar;
mod scc_chain__topar;
mod diamond__ser;
mod repeated__pari;
mod three_dyn__ser;
mod three_dyn__permpar;
mod conds__par;
mod conds__srcto;
mod conds__permpar;
mod count_up__topar;
mod multi_head__ren;
mod facts__src0;
mod facts__perm1;
mod opt_cols__par;
mod opt_cols__srcto;
mod same_gen__ser;
mod same_gen__permpar;
mod two_inputs__par;
mod two_inputs__src1;
mod two_inputs__perm2;
mod wild__pari;
mod ternary__str;
mod bound_mix__ren;
mod join_chain__perm1;
mod cond_simple_join__par;
mod zero_arity__par;
mod lag_right__to;
mod lag_right__strpar;
mod lag_three__pari;
mod lag_mid__ren;
mod lag_late_delta__to;
mod multi_head_rec__exppar;
mod sp_dual__gen;
mod sp_dual__srcpar;
mod sp_weighted__to;
mod set_reach__par;
mod set_reach__src1;
mod bset__par;
mod cp__topar;
mod bool_lat__par;
mod lat_multi_improve__to;
mod lat_input__to;
mod lat_input__srcto;
mod count_paths__to;
mod count_paths__srcto;
mod neg_basic__to;
mod neg_basic__srcto;
mod neg_basic__permpar;
mod agg_depth__pari;
mod agg_user__ser;
mod agg_bound_mix__ser;
mod agg_empty_rel__ser;
mod agg_const_args__exp;
mod disj__mrt;
mod disj__runpar;
mod disj_nested__ser;
mod pat_args__exp;
mod multi_head_disj__par;
mod neg_in_disj__exppar;
mod mac_basic__gen;
mod mac_basic__srcpar;
mod mac_nested__ser;
mod mac_gensym_disj__exp;
mod rnd_core_01__par;
mod rnd_core_04__ser;
mod rnd_core_06__pari;
mod rnd_core_09__par;
mod rnd_core_12__ser;
mod rnd_core_14__pari;
mod rnd_core_17__par;
mod rnd_core_20__ser;
mod rnd_core_22__pari;
mod rnd_core_25__par;
mod rnd_core_28__ser;
mod rnd_core_30__pari;
mod rnd_agg_03__par;
mod rnd_agg_06__ser;
mod rnd_agg_08__pari;
mod rnd_agg_11__par;
mod rnd_agg_14__ser;

fn lookup(name: &str) -> fn() -> Box<dyn Driven> {
   match name {
      "tc_right__to" => tc_right__to::make,
      "tc_left__mrt" => tc_left__mrt::make,
      "tc_left__runpar" => tc_left__runpar::make,
      "tc_left__strpar" => tc_left__strpar::make,
      "tc_nonlin__ren" => tc_nonlin__ren::make,
      "mutual__to" => mutual__to::make,
      "mutual__srcto" => mutual__srcto::make,
      "mutual__permpar" => mutual__permpar::make,
      "scc_chain__topar" => scc_chain__topar::make,
      "diamond__ser" => diamond__ser::make,
      "repeated__pari" => repeated__pari::make,
      "three_dyn__ser" => three_dyn__ser::make,
      "three_dyn__permpar" => three_dyn__permpar::make,
      "conds__par" => conds__par::make,
      "conds__srcto" => conds__srcto::make,
      "conds__permpar" => conds__permpar::make,
      "count_up__topar" => count_up__topar::make,
      "multi_head__ren" => multi_head__ren::make,
      "facts__src0" => facts__src0::make,
      "facts__perm1" => facts__perm1::make,
      "opt_cols__par" => opt_cols__par::make,
      "opt_cols__srcto" => opt_cols__srcto::make,
      "same_gen__ser" => same_gen__ser::make,
      "same_gen__permpar" => same_gen__permpar::make,
      "two_inputs__par" => two_inputs__par::make,
      "two_inputs__src1" => two_inputs__src1::make,
      "two_inputs__perm2" => two_inputs__perm2::make,
      "wild__pari" => wild__pari::make,
      "ternary__str" => ternary__str::make,
      "bound_mix__ren" => bound_mix__ren::make,
      "join_chain__perm1" => join_chain__perm1::make,
      "cond_simple_join__par" => cond_simple_join__par::make,
      "zero_arity__par" => zero_arity__par::make,
      "lag_right__to" => lag_right__to::make,
      "lag_right__strpar" => lag_right__strpar::make,
      "lag_three__pari" => lag_three__pari::make,
      "lag_mid__ren" => lag_mid__ren::make,
      "lag_late_delta__to" => lag_late_delta__to::make,
      "multi_head_rec__exppar" => multi_head_rec__exppar::make,
      "sp_dual__gen" => sp_dual__gen::make,
      "sp_dual__srcpar" => sp_dual__srcpar::make,
      "sp_weighted__to" => sp_weighted__to::make,
      "set_reach__par" => set_reach__par::make,
      "set_reach__src1" => set_reach__src1::make,
      "bset__par" => bset__par::make,
      "cp__topar" => cp__topar::make,
      "bool_lat__par" => bool_lat__par::make,
      "lat_multi_improve__to" => lat_multi_improve__to::make,
      "lat_input__to" => lat_input__to::make,
      "lat_input__srcto" => lat_input__srcto::make,
      "count_paths__to" => count_paths__to::make,
      "count_paths__srcto" => count_paths__srcto::make,
      "neg_basic__to" => neg_basic__to::make,
      "neg_basic__srcto" => neg_basic__srcto::make,
      "neg_basic__permpar" => neg_basic__permpar::make,
      "agg_depth__pari" => agg_depth__pari::make,
      "agg_user__ser" => agg_user__ser::make,
      "agg_bound_mix__ser" => agg_bound_mix__ser::make,
      "agg_empty_rel__ser" => agg_empty_rel__ser::make,
      "agg_const_args__exp" => agg_const_args__exp::make,
      "disj__mrt" => disj__mrt::make,
      "disj__runpar" => disj__runpar::make,
      "disj_nested__ser" => disj_nested__ser::make,
      "pat_args__exp" => pat_args__exp::make,
      "multi_head_disj__par" => multi_head_disj__par::make,
      "neg_in_disj__exppar" => neg_in_disj__exppar::make,
      "mac_basic__gen" => mac_basic__gen::make,
      "mac_basic__srcpar" => mac_basic__srcpar::make,
      "mac_nested__ser" => mac_nested__ser::make,
      "mac_gensym_disj__exp" => mac_gensym_disj__exp::make,
      "rnd_core_01__par" => rnd_core_01__par::make,
      "rnd_core_04__ser" => rnd_core_04__ser::make,
      "rnd_core_06__pari" => rnd_core_06__pari::make,
      "rnd_core_09__par" => rnd_core_09__par::make,
      "rnd_core_12__ser" => rnd_core_12__ser::make,
      "rnd_core_14__pari" => rnd_core_14__pari::make,
      "rnd_core_17__par" => rnd_core_17__par::make,
      "rnd_core_20__ser" => rnd_core_20__ser::make,
      "rnd_core_22__pari" => rnd_core_22__pari::make,
      "rnd_core_25__par" => rnd_core_25__par::make,
      "rnd_core_28__ser" => rnd_core_28__ser::make,
      "rnd_core_30__pari" => rnd_core_30__pari::make,
      "rnd_agg_03__par" => rnd_agg_03__par::make,
      "rnd_agg_06__ser" => rnd_agg_06__ser::make,
      "rnd_agg_08__pari" => rnd_agg_08__pari::make,
      "rnd_agg_11__par" => rnd_agg_11__par::make,
      "rnd_agg_14__ser" => rnd_agg_14__ser::make,
      _ => panic!("no such program variant in this shard: {}", name),
   }
}

fn main() {
   quiet_panics();
   let mut out = Out::open();
   let cases = read_cases();
   let mut i = 0;
   while i < cases.len() {
      let case = &cases[i];
      let m = format!("{}__{}", case["prog"].as_str().unwrap(), case["var"].as_str().unwrap());
      if let Some(g) = case["group"].as_i64() {
         // cases of one group run simultaneously
         let mut grp = vec![];
         while i < cases.len() && cases[i]["group"].as_i64() == Some(g) {
            let m = format!("{}__{}", cases[i]["prog"].as_str().unwrap(), cases[i]["var"].as_str().unwrap());
            grp.push((cases[i].clone(), lookup(&m)));
            i += 1;
         }
         drive_group(&grp, &mut out);
      } else {
         drive(case, &mut out, lookup(&m));
         i += 1;
      }
   }
   out.flush();
}
