#![allow(unused_imports, unused_variables, unused_mut, dead_code, non_snake_case, unused_parens, clippy::all)]
use ascent::lattice::bounded_set::BoundedSet;
use ascent::lattice::constant_propagation::ConstPropagation;
use ascent::lattice::set::Set;
use ascent::lattice::Product;
use ascent::{Dual, Lattice};
use vh_lite::{rows_json, Driven, Value};

use vh_lite::{read_cases, drive, drive_group, quiet_panics, Out};

mod tc_right__to;
mod tc_left__mrt;
mod tc_left__init;
mod tc_left__permpar;
mod tc_nonlin__topar;
mod mutual__ser;
mod mutual__src0;
mod mutual__runhead;
mod mutual__u64;
mod scc_chain__perm2;
mod diamond__pari;
mod repeated__perm2;
mod three_dyn__pari;
mod three_dyn__u64;
mod conds__run;
mod conds__redecl;
mod conds__ren;
mod count_up__to;
mod multi_head__perm2;
mod facts__gen;
mod facts__init3;
mod facts__str;
mod opt_cols__gen;
mod opt_cols__init3;
mod same_gen__par;
mod same_gen__str;
mod not_reorderable__perm1;
mod pre_join_rec__topar;
mod two_inputs__to;
mod two_inputs__srcto;
mod two_inputs__perm1;
mod wild__par;
mod ternary__permpar;
mod bound_mix__perm2;
mod join_chain__pari;
mod cond_simple_join__ser;
mod zero_arity__ser;
mod lag_right__pari;
mod lag_right__u64;
mod lag_three__par;
mod lag_mid__perm2;
mod lag_late_delta__pari;
mod multi_head_rec__exp;
mod sp_dual__mrt;
mod sp_dual__init;
mod sp_dual__permpar;
mod longest_capped__pari;
mod set_reach__run;
mod set_reach__redecl;
mod bset__pari;
mod opt_lat__ser;
mod lex_dual_lat__ser;
mod bool_lat__pari;
mod lat_multi_improve__topar;
mod lat_count_all__pari;
mod lat_input__topar;
mod lat_input__srcred;
mod count_paths__par;
mod count_paths__src1;
mod count_paths__runpar;
mod neg_basic__mrt;
mod neg_basic__init;
mod neg_basic__permpar;
mod agg_depth__pari;
mod agg_user__ser;
mod agg_bound_mix__ser;
mod agg_empty_rel__ser;
mod agg_const_args__exp;
mod disj__to;
mod disj__srcto;
mod disj__perm1;
mod disj_nested__pari;
mod rep_expr__ser;
mod multi_head_disj__exp;
mod mac_basic__par;
mod mac_basic__src1;
mod mac_basic__runpar;
mod mac_capture__exppar;
mod mac_gensym_disj__pari;
mod mac_block__ser;
mod mac_disj__exp;
mod stress_rel__ser;
mod rnd_core_02__pari;
mod rnd_core_05__par;
mod rnd_core_08__ser;
mod rnd_core_10__pari;
mod rnd_core_13__par;
mod rnd_core_16__ser;
mod rnd_core_18__pari;
mod rnd_core_21__par;
mod rnd_core_24__ser;
mod rnd_core_26__pari;
mod rnd_core_29__par;
mod rnd_agg_02__ser;
mod rnd_agg_04__pari;
mod rnd_agg_07__par;
mod rnd_agg_10__ser;
mod rnd_agg_12__pari;
mod rnd_agg_15__par;
mod rnd_prec_02__par;
mod rnd_prec_03__topar;
mod rnd_prec_05__pari;
mod rnd_prec_07__ser;
mod rnd_prec_08__to;
mod rnd_prea_03__ser;
mod rnd_prea_05__pari;
mod rnd_prea_08__par;

fn lookup(name: &str) -> fn() -> Box<dyn Driven> {
   match name {
      "tc_right__to" => tc_right__to::make,
      "tc_left__mrt" => tc_left__mrt::make,
      "tc_left__init" => tc_left__init::make,
      "tc_left__permpar" => tc_left__permpar::make,
      "tc_nonlin__topar" => tc_nonlin__topar::make,
      "mutual__ser" => mutual__ser::make,
      "mutual__src0" => mutual__src0::make,
      "mutual__runhead" => mutual__runhead::make,
      "mutual__u64" => mutual__u64::make,
      "scc_chain__perm2" => scc_chain__perm2::make,
      "diamond__pari" => diamond__pari::make,
      "repeated__perm2" => repeated__perm2::make,
      "three_dyn__pari" => three_dyn__pari::make,
      "three_dyn__u64" => three_dyn__u64::make,
      "conds__run" => conds__run::make,
      "conds__redecl" => conds__redecl::make,
      "conds__ren" => conds__ren::make,
      "count_up__to" => count_up__to::make,
      "multi_head__perm2" => multi_head__perm2::make,
      "facts__gen" => facts__gen::make,
      "facts__init3" => facts__init3::make,
      "facts__str" => facts__str::make,
      "opt_cols__gen" => opt_cols__gen::make,
      "opt_cols__init3" => opt_cols__init3::make,
      "same_gen__par" => same_gen__par::make,
      "same_gen__str" => same_gen__str::make,
      "not_reorderable__perm1" => not_reorderable__perm1::make,
      "pre_join_rec__topar" => pre_join_rec__topar::make,
      "two_inputs__to" => two_inputs__to::make,
      "two_inputs__srcto" => two_inputs__srcto::make,
      "two_inputs__perm1" => two_inputs__perm1::make,
      "wild__par" => wild__par::make,
      "ternary__permpar" => ternary__permpar::make,
      "bound_mix__perm2" => bound_mix__perm2::make,
      "join_chain__pari" => join_chain__pari::make,
      "cond_simple_join__ser" => cond_simple_join__ser::make,
      "zero_arity__ser" => zero_arity__ser::make,
      "lag_right__pari" => lag_right__pari::make,
      "lag_right__u64" => lag_right__u64::make,
      "lag_three__par" => lag_three__par::make,
      "lag_mid__perm2" => lag_mid__perm2::make,
      "lag_late_delta__pari" => lag_late_delta__pari::make,
      "multi_head_rec__exp" => multi_head_rec__exp::make,
      "sp_dual__mrt" => sp_dual__mrt::make,
      "sp_dual__init" => sp_dual__init::make,
      "sp_dual__permpar" => sp_dual__permpar::make,
      "longest_capped__pari" => longest_capped__pari::make,
      "set_reach__run" => set_reach__run::make,
      "set_reach__redecl" => set_reach__redecl::make,
      "bset__pari" => bset__pari::make,
      "opt_lat__ser" => opt_lat__ser::make,
      "lex_dual_lat__ser" => lex_dual_lat__ser::make,
      "bool_lat__pari" => bool_lat__pari::make,
      "lat_multi_improve__topar" => lat_multi_improve__topar::make,
      "lat_count_all__pari" => lat_count_all__pari::make,
      "lat_input__topar" => lat_input__topar::make,
      "lat_input__srcred" => lat_input__srcred::make,
      "count_paths__par" => count_paths__par::make,
      "count_paths__src1" => count_paths__src1::make,
      "count_paths__runpar" => count_paths__runpar::make,
      "neg_basic__mrt" => neg_basic__mrt::make,
      "neg_basic__init" => neg_basic__init::make,
      "neg_basic__permpar" => neg_basic__permpar::make,
      "agg_depth__pari" => agg_depth__pari::make,
      "agg_user__ser" => agg_user__ser::make,
      "agg_bound_mix__ser" => agg_bound_mix__ser::make,
      "agg_empty_rel__ser" => agg_empty_rel__ser::make,
      "agg_const_args__exp" => agg_const_args__exp::make,
      "disj__to" => disj__to::make,
      "disj__srcto" => disj__srcto::make,
      "disj__perm1" => disj__perm1::make,
      "disj_nested__pari" => disj_nested__pari::make,
      "rep_expr__ser" => rep_expr__ser::make,
      "multi_head_disj__exp" => multi_head_disj__exp::make,
      "mac_basic__par" => mac_basic__par::make,
      "mac_basic__src1" => mac_basic__src1::make,
      "mac_basic__runpar" => mac_basic__runpar::make,
      "mac_capture__exppar" => mac_capture__exppar::make,
      "mac_gensym_disj__pari" => mac_gensym_disj__pari::make,
      "mac_block__ser" => mac_block__ser::make,
      "mac_disj__exp" => mac_disj__exp::make,
      "stress_rel__ser" => stress_rel__ser::make,
      "rnd_core_02__pari" => rnd_core_02__pari::make,
      "rnd_core_05__par" => rnd_core_05__par::make,
      "rnd_core_08__ser" => rnd_core_08__ser::make,
      "rnd_core_10__pari" => rnd_core_10__pari::make,
      "rnd_core_13__par" => rnd_core_13__par::make,
      "rnd_core_16__ser" => rnd_core_16__ser::make,
      "rnd_core_18__pari" => rnd_core_18__pari::make,
      "rnd_core_21__par" => rnd_core_21__par::make,
      "rnd_core_24__ser" => rnd_core_24__ser::make,
      "rnd_core_26__pari" => rnd_core_26__pari::make,
      "rnd_core_29__par" => rnd_core_29__par::make,
      "rnd_agg_02__ser" => rnd_agg_02__ser::make,
      "rnd_agg_04__pari" => rnd_agg_04__pari::make,
      "rnd_agg_07__par" => rnd_agg_07__par::make,
      "rnd_agg_10__ser" => rnd_agg_10__ser::make,
      "rnd_agg_12__pari" => rnd_agg_12__pari::make,
      "rnd_agg_15__par" => rnd_agg_15__par::make,
      "rnd_prec_02__par" => rnd_prec_02__par::make,
      "rnd_prec_03__topar" => rnd_prec_03__topar::make,
      "rnd_prec_05__pari" => rnd_prec_05__pari::make,
      "rnd_prec_07__ser" => rnd_prec_07__ser::make,
      "rnd_prec_08__to" => rnd_prec_08__to::make,
      "rnd_prea_03__ser" => rnd_prea_03__ser::make,
      "rnd_prea_05__pari" => rnd_prea_05__pari::make,
      "rnd_prea_08__par" => rnd_prea_08__par::make,
      _ => panic!("no such program variant in this shard: {}", name),
   }
}

fn main() {
   quiet_panics();
   let mut out = Out::open();
   let cases = read_cases();
   let mut i = 0;
   while i < cases.len() {
      let case = &cases[i];
      let m = format!("{}__{}", case["prog"].as_str().unwrap(), case["var"].as_str().unwrap());
      if let Some(g) = case["group"].as_i64() {
         // cases of one group run simultaneously
         let mut grp = vec![];
         while i < cases.len() && cases[i]["group"].as_i64() == Some(g) {
            let m = format!("{}__{}", cases[i]["prog"].as_str().unwrap(), cases[i]["var"].as_str().unwrap());
            grp.push((cases[i].clone(), lookup(&m)));
            i += 1;
         }
         drive_group(&grp, &mut out);
      } else {
         drive(case, &mut out, lookup(&m));
         i += 1;
      }
   }
   out.flush();
}
