#![allow(unused_imports, unused_variables, unused_mut, dead_code, non_snake_case, unused_parens, clippy::all)]
use ascent::lattice::bounded_set::BoundedSet;
use ascent::lattice::constant_propagation::ConstPropagation;
use ascent::lattice::set::Set;
use ascent::lattice::Product;
use ascent::{Dual, Lattice};
use vh_lite::{rows_json, Driven, Value};

use vh_lite::{read_cases, drive, drive_group, quiet_panics, Out};

mod tc_right__to;
mod tc_left__mrt;
mod tc_left__runpar;
mod tc_left__strpar;
mod tc_nonlin__ren;
mod mutual__to;
mod mutual__srcto;
mod mutual__permpar;
mod scc_chain__topar;
mod diamond__ser;
mod repeated__pari;
mod three_dyn__ser;
mod three_dyn__permpar;
mod conds__par;
mod conds__srcto;
mod conds__permpar;
mod count_up__topar;
mod multi_head__ren;
mod facts__src0;
mod facts__perm1;
mod opt_cols__par;
mod opt_cols__srcto;
mod same_gen__ser;
mod same_gen__permpar;
mod not_reorderable__topar;
mod pre_join_rec__to;
mod two_inputs__pari;
mod two_inputs__src2;
mod two_inputs__ren;
mod ternary__ser;
mod ternary__u64;
mod bound_mix__permpar;
mod join_chain__perm2;
mod cond_simple_join__pari;
mod zero_arity__pari;
mod lag_right__topar;
mod lag_left__ser;
mod lag_three__to;
mod lag_mid__permpar;
mod lag_late_delta__topar;
mod sp_dual__ser;
mod sp_dual__src0;
mod sp_dual__perm1;
mod sp_weighted__topar;
mod set_reach__pari;
mod set_reach__src2;
mod bset__pari;
mod opt_lat__ser;
mod bool_lat__pari;
mod lat_multi_improve__topar;
mod lat_count_all__pari;
mod lat_input__topar;
mod lat_input__redecl;
mod count_paths__topar;
mod count_paths__redecl;
mod neg_basic__topar;
mod neg_basic__redecl;
mod neg_basic__exp;
mod agg_depth__to;
mod agg_user__par;
mod agg_bound_mix__par;
mod agg_empty_rel__par;
mod agg_const_args__exppar;
mod disj__topar;
mod disj__redecl;
mod disj__exp;
mod pat_args__par;
mod rep_expr__exppar;
mod neg_in_disj__pari;
mod mac_basic__run;
mod mac_basic__init;
mod mac_capture__exp;
mod mac_gensym_disj__par;
mod mac_disj__exppar;
mod rnd_core_01__par;
mod rnd_core_04__ser;
mod rnd_core_06__pari;
mod rnd_core_09__par;
mod rnd_core_12__ser;
mod rnd_core_14__pari;
mod rnd_core_17__par;
mod rnd_core_20__ser;
mod rnd_core_22__pari;
mod rnd_core_25__par;
mod rnd_core_28__ser;
mod rnd_core_30__pari;
mod rnd_agg_03__par;
mod rnd_agg_06__ser;
mod rnd_agg_08__pari;
mod rnd_agg_11__par;
mod rnd_agg_14__ser;
mod rnd_prec_01__pari;
mod rnd_prec_03__ser;
mod rnd_prec_04__to;
mod rnd_prec_06__par;
mod rnd_prec_07__topar;
mod rnd_prea_01__pari;
mod rnd_prea_04__par;
mod rnd_prea_07__ser;

fn lookup(name: &str) -> fn() -> Box<dyn Driven> {
   match name {
      "tc_right__to" => tc_right__to::make,
      "tc_left__mrt" => tc_left__mrt::make,
      "tc_left__runpar" => tc_left__runpar::make,
      "tc_left__strpar" => tc_left__strpar::make,
      "tc_nonlin__ren" => tc_nonlin__ren::make,
      "mutual__to" => mutual__to::make,
      "mutual__srcto" => mutual__srcto::make,
      "mutual__permpar" => mutual__permpar::make,
      "scc_chain__topar" => scc_chain__topar::make,
      "diamond__ser" => diamond__ser::make,
      "repeated__pari" => repeated__pari::make,
      "three_dyn__ser" => three_dyn__ser::make,
      "three_dyn__permpar" => three_dyn__permpar::make,
      "conds__par" => conds__par::make,
      "conds__srcto" => conds__srcto::make,
      "conds__permpar" => conds__permpar::make,
      "count_up__topar" => count_up__topar::make,
      "multi_head__ren" => multi_head__ren::make,
      "facts__src0" => facts__src0::make,
      "facts__perm1" => facts__perm1::make,
      "opt_cols__par" => opt_cols__par::make,
      "opt_cols__srcto" => opt_cols__srcto::make,
      "same_gen__ser" => same_gen__ser::make,
      "same_gen__permpar" => same_gen__permpar::make,
      "not_reorderable__topar" => not_reorderable__topar::make,
      "pre_join_rec__to" => pre_join_rec__to::make,
      "two_inputs__pari" => two_inputs__pari::make,
      "two_inputs__src2" => two_inputs__src2::make,
      "two_inputs__ren" => two_inputs__ren::make,
      "ternary__ser" => ternary__ser::make,
      "ternary__u64" => ternary__u64::make,
      "bound_mix__permpar" => bound_mix__permpar::make,
      "join_chain__perm2" => join_chain__perm2::make,
      "cond_simple_join__pari" => cond_simple_join__pari::make,
      "zero_arity__pari" => zero_arity__pari::make,
      "lag_right__topar" => lag_right__topar::make,
      "lag_left__ser" => lag_left__ser::make,
      "lag_three__to" => lag_three__to::make,
      "lag_mid__permpar" => lag_mid__permpar::make,
      "lag_late_delta__topar" => lag_late_delta__topar::make,
      "sp_dual__ser" => sp_dual__ser::make,
      "sp_dual__src0" => sp_dual__src0::make,
      "sp_dual__perm1" => sp_dual__perm1::make,
      "sp_weighted__topar" => sp_weighted__topar::make,
      "set_reach__pari" => set_reach__pari::make,
      "set_reach__src2" => set_reach__src2::make,
      "bset__pari" => bset__pari::make,
      "opt_lat__ser" => opt_lat__ser::make,
      "bool_lat__pari" => bool_lat__pari::make,
      "lat_multi_improve__topar" => lat_multi_improve__topar::make,
      "lat_count_all__pari" => lat_count_all__pari::make,
      "lat_input__topar" => lat_input__topar::make,
      "lat_input__redecl" => lat_input__redecl::make,
      "count_paths__topar" => count_paths__topar::make,
      "count_paths__redecl" => count_paths__redecl::make,
      "neg_basic__topar" => neg_basic__topar::make,
      "neg_basic__redecl" => neg_basic__redecl::make,
      "neg_basic__exp" => neg_basic__exp::make,
      "agg_depth__to" => agg_depth__to::make,
      "agg_user__par" => agg_user__par::make,
      "agg_bound_mix__par" => agg_bound_mix__par::make,
      "agg_empty_rel__par" => agg_empty_rel__par::make,
      "agg_const_args__exppar" => agg_const_args__exppar::make,
      "disj__topar" => disj__topar::make,
      "disj__redecl" => disj__redecl::make,
      "disj__exp" => disj__exp::make,
      "pat_args__par" => pat_args__par::make,
      "rep_expr__exppar" => rep_expr__exppar::make,
      "neg_in_disj__pari" => neg_in_disj__pari::make,
      "mac_basic__run" => mac_basic__run::make,
      "mac_basic__init" => mac_basic__init::make,
      "mac_capture__exp" => mac_capture__exp::make,
      "mac_gensym_disj__par" => mac_gensym_disj__par::make,
      "mac_disj__exppar" => mac_disj__exppar::make,
      "rnd_core_01__par" => rnd_core_01__par::make,
      "rnd_core_04__ser" => rnd_core_04__ser::make,
      "rnd_core_06__pari" => rnd_core_06__pari::make,
      "rnd_core_09__par" => rnd_core_09__par::make,
      "rnd_core_12__ser" => rnd_core_12__ser::make,
      "rnd_core_14__pari" => rnd_core_14__pari::make,
      "rnd_core_17__par" => rnd_core_17__par::make,
      "rnd_core_20__ser" => rnd_core_20__ser::make,
      "rnd_core_22__pari" => rnd_core_22__pari::make,
      "rnd_core_25__par" => rnd_core_25__par::make,
      "rnd_core_28__ser" => rnd_core_28__ser::make,
      "rnd_core_30__pari" => rnd_core_30__pari::make,
      "rnd_agg_03__par" => rnd_agg_03__par::make,
      "rnd_agg_06__ser" => rnd_agg_06__ser::make,
      "rnd_agg_08__pari" => rnd_agg_08__pari::make,
      "rnd_agg_11__par" => rnd_agg_11__par::make,
      "rnd_agg_14__ser" => rnd_agg_14__ser::make,
      "rnd_prec_01__pari" => rnd_prec_01__pari::make,
      "rnd_prec_03__ser" => rnd_prec_03__ser::make,
      "rnd_prec_04__to" => rnd_prec_04__to::make,
      "rnd_prec_06__par" => rnd_prec_06__par::make,
      "rnd_prec_07__topar" => rnd_prec_07__topar::make,
      "rnd_prea_01__pari" => rnd_prea_01__pari::make,
      "rnd_prea_04__par" => rnd_prea_04__par::make,
      "rnd_prea_07__ser" => rnd_prea_07__ser::make,
      _ => panic!("no such program variant in this shard: {}", name),
   }
}

fn main() {
   quiet_panics();
   let mut out = Out::open();
   let cases = read_cases();
   let mut i = 0;
   while i < cases.len() {
      let case = &cases[i];
      let m = format!("{}__{}", case["prog"].as_str().unwrap(), case["var"].as_str().unwrap());
      if let Some(g) = case["group"].as_i64() {
         // cases of one group run simultaneously
         let mut grp = vec![];
         while i < cases.len() && cases[i]["group"].as_i64() == Some(g) {
            let m = format!("{}__{}", cases[i]["prog"].as_str().unwrap(), cases[i]["var"].as_str().unwrap());
            grp.push((cases[i].clone(), lookup(&m)));
            i += 1;
         }
         drive_group(&grp, &mut out);
      } else {
         drive(case, &mut out, lookup(&m));
         i += 1;
      }
   }
   out.flush();
}
