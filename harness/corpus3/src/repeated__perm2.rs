#![allow(unused_imports, unused_variables, unused_mut, dead_code, non_snake_case, unused_parens, clippy::all)]
use ascent::lattice::bounded_set::BoundedSet;
use ascent::lattice::constant_propagation::ConstPropagation;
use ascent::lattice::set::Set;
use ascent::lattice::Product;
use ascent::{Dual, Lattice};
use vh_lite::{rows_json, Driven, Value};
ascent::ascent! {
   pub struct Prog;
   relation e(i32, i32);
   relation lp(i32);
   relation tri(i32, i32, i32);
   relation sym(i32, i32);
   lp(x) <-- e(x, x);
   sym(x, y) <-- e(y, x), e(x, y);
   tri(x, y, z) <-- e(z, x), e(y, z), e(x, y);
}

pub struct D(Prog);
impl Driven for D {
   fn push(&mut self, rel: &str, row: &Value) {
      match rel {
         "e" => { self.0.e.push((row[0].as_i64().unwrap() as i32, row[1].as_i64().unwrap() as i32,)); },
         "lp" => { self.0.lp.push((row[0].as_i64().unwrap() as i32,)); },
         "tri" => { self.0.tri.push((row[0].as_i64().unwrap() as i32, row[1].as_i64().unwrap() as i32, row[2].as_i64().unwrap() as i32,)); },
         "sym" => { self.0.sym.push((row[0].as_i64().unwrap() as i32, row[1].as_i64().unwrap() as i32,)); },
         _ => panic!("verif harness: unknown relation {}", rel),
      }
   }
   fn clear(&mut self, rel: &str) {
      match rel {
         "e" => { self.0.e = Default::default(); },
         "lp" => { self.0.lp = Default::default(); },
         "tri" => { self.0.tri = Default::default(); },
         "sym" => { self.0.sym = Default::default(); },
         _ => panic!("verif harness: unknown relation {}", rel),
      }
   }
   fn run(&mut self) { self.0.run(); }
   fn dump(&self) -> Value {
      let mut m: Vec<(String, Value)> = vec![];
      m.push(("e".to_string(), rows_json(self.0.e.iter())));
      m.push(("lp".to_string(), rows_json(self.0.lp.iter())));
      m.push(("tri".to_string(), rows_json(self.0.tri.iter())));
      m.push(("sym".to_string(), rows_json(self.0.sym.iter())));
      Value::Obj(m)
   }
   fn summary(&self) -> String { Prog::summary().to_string() }
}
pub fn make() -> Box<dyn Driven> { Box::new(D(Prog::default())) }
