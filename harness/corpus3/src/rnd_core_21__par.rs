#![allow(unused_imports, unused_variables, unused_mut, dead_code, non_snake_case, unused_parens, clippy::all)]
use ascent::lattice::bounded_set::BoundedSet;
use ascent::lattice::constant_propagation::ConstPropagation;
use ascent::lattice::set::Set;
use ascent::lattice::Product;
use ascent::{Dual, Lattice};
use vh_lite::{rows_json, Driven, Value};
ascent::ascent_par! {
   pub struct Prog;
   relation e(i32, i32);
   relation f(i32, i32);
   relation u(i32);
   relation r0(i32, i32);
   relation r1(i32, i32);
   relation r2(i32, i32);
   r0(x, x) <-- f(x, x), if ((*x) < 0), f(x, 1) if ((*x) < 0), f(_, x);
   r0(z, y) <-- let y = 1, r0(0, x), if (y == 2), r0(w, y), if ((*w) == y), f(z, w), if (y > 2);
   r0(z, w) <-- u(w), r0(_, w), let z = std::cmp::min(((*w) * 2), 4), r0(z, _) if (z == (*w));
   r1(v, x) <-- e(x, 0), let z = std::cmp::min(((*x) * 2), 4), r0(x, v) if ((*x) > 2), if ((*x) < (*v)), f(x, ((*v) + 1)), for w in (0)..((*v));
   r1(z, z) <-- r1(z, z) if ((*z) < 0), u(y);
   r1(0, x) <-- r1(1, w) if ((*w) < 1), r1(v, w), for x in (0)..((*v)), f(z, _);
   r2(1, v) <-- e(v, v), r1(v, v), if ((*v) == 1), u(v);
   r2(w, y) <-- let y = 2, r2(w, _), for x in (0)..((*w)), r2(0, y), if ((*w) < y);
   r2(x, z) <-- r2(x, 1) if ((*x) == 2), let z = std::cmp::min(((*x) + 1), 4);
}

pub struct D(Prog);
impl Driven for D {
   fn push(&mut self, rel: &str, row: &Value) {
      match rel {
         "e" => { self.0.e.push((row[0].as_i64().unwrap() as i32, row[1].as_i64().unwrap() as i32,)); },
         "f" => { self.0.f.push((row[0].as_i64().unwrap() as i32, row[1].as_i64().unwrap() as i32,)); },
         "u" => { self.0.u.push((row[0].as_i64().unwrap() as i32,)); },
         "r0" => { self.0.r0.push((row[0].as_i64().unwrap() as i32, row[1].as_i64().unwrap() as i32,)); },
         "r1" => { self.0.r1.push((row[0].as_i64().unwrap() as i32, row[1].as_i64().unwrap() as i32,)); },
         "r2" => { self.0.r2.push((row[0].as_i64().unwrap() as i32, row[1].as_i64().unwrap() as i32,)); },
         _ => panic!("verif harness: unknown relation {}", rel),
      }
   }
   fn clear(&mut self, rel: &str) {
      match rel {
         "e" => { self.0.e = Default::default(); },
         "f" => { self.0.f = Default::default(); },
         "u" => { self.0.u = Default::default(); },
         "r0" => { self.0.r0 = Default::default(); },
         "r1" => { self.0.r1 = Default::default(); },
         "r2" => { self.0.r2 = Default::default(); },
         _ => panic!("verif harness: unknown relation {}", rel),
      }
   }
   fn run(&mut self) { self.0.run(); }
   fn dump(&self) -> Value {
      let mut m: Vec<(String, Value)> = vec![];
      m.push(("e".to_string(), rows_json(self.0.e.iter())));
      m.push(("f".to_string(), rows_json(self.0.f.iter())));
      m.push(("u".to_string(), rows_json(self.0.u.iter())));
      m.push(("r0".to_string(), rows_json(self.0.r0.iter())));
      m.push(("r1".to_string(), rows_json(self.0.r1.iter())));
      m.push(("r2".to_string(), rows_json(self.0.r2.iter())));
      Value::Obj(m)
   }
   fn summary(&self) -> String { Prog::summary().to_string() }
}
pub fn make() -> Box<dyn Driven> { Box::new(D(Prog::default())) }
