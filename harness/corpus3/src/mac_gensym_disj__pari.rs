#![allow(unused_imports, unused_variables, unused_mut, dead_code, non_snake_case, unused_parens, clippy::all)]
use ascent::lattice::bounded_set::BoundedSet;
use ascent::lattice::constant_propagation::ConstPropagation;
use ascent::lattice::set::Set;
use ascent::lattice::Product;
use ascent::{Dual, Lattice};
use vh_lite::{rows_json, Driven, Value};
ascent::ascent_par! {
   #![inter_rule_parallelism]
   pub struct Prog;
   relation score(i32, i32);
   relation vip(i32);
   relation cand(i32);
   relation okp(i32, i32);
   relation ok3(i32, i32, i32);
   macro good($x: ident) { score($x, s), if ((*s) >= 1) }
   macro better($x: ident, $y: ident) { score($x, s), score($y, t), if ((*s) > (*t)) }
   cand(x) <-- score(x, _);
   cand(x) <-- vip(x);
   okp(a, b) <-- cand(a), cand(b), (good!(a) | vip(a)), good!(b);
   ok3(a, b, c) <-- cand(a), cand(b), cand(c), good!(a), (better!(a, b) | good!(b)), better!(b, c);
}

pub struct D(Prog);
impl Driven for D {
   fn push(&mut self, rel: &str, row: &Value) {
      match rel {
         "score" => { self.0.score.push((row[0].as_i64().unwrap() as i32, row[1].as_i64().unwrap() as i32,)); },
         "vip" => { self.0.vip.push((row[0].as_i64().unwrap() as i32,)); },
         "cand" => { self.0.cand.push((row[0].as_i64().unwrap() as i32,)); },
         "okp" => { self.0.okp.push((row[0].as_i64().unwrap() as i32, row[1].as_i64().unwrap() as i32,)); },
         "ok3" => { self.0.ok3.push((row[0].as_i64().unwrap() as i32, row[1].as_i64().unwrap() as i32, row[2].as_i64().unwrap() as i32,)); },
         _ => panic!("verif harness: unknown relation {}", rel),
      }
   }
   fn clear(&mut self, rel: &str) {
      match rel {
         "score" => { self.0.score = Default::default(); },
         "vip" => { self.0.vip = Default::default(); },
         "cand" => { self.0.cand = Default::default(); },
         "okp" => { self.0.okp = Default::default(); },
         "ok3" => { self.0.ok3 = Default::default(); },
         _ => panic!("verif harness: unknown relation {}", rel),
      }
   }
   fn run(&mut self) { self.0.run(); }
   fn dump(&self) -> Value {
      let mut m: Vec<(String, Value)> = vec![];
      m.push(("score".to_string(), rows_json(self.0.score.iter())));
      m.push(("vip".to_string(), rows_json(self.0.vip.iter())));
      m.push(("cand".to_string(), rows_json(self.0.cand.iter())));
      m.push(("okp".to_string(), rows_json(self.0.okp.iter())));
      m.push(("ok3".to_string(), rows_json(self.0.ok3.iter())));
      Value::Obj(m)
   }
   fn summary(&self) -> String { Prog::summary().to_string() }
}
pub fn make() -> Box<dyn Driven> { Box::new(D(Prog::default())) }
