#![allow(unused_imports, unused_variables, unused_mut, dead_code, non_snake_case, unused_parens, clippy::all)]
use ascent::lattice::bounded_set::BoundedSet;
use ascent::lattice::constant_propagation::ConstPropagation;
use ascent::lattice::set::Set;
use ascent::lattice::Product;
use ascent::{Dual, Lattice};
use vh_lite::{rows_json, Driven, Value};
ascent::ascent_source! {
   disj__srcto_src:
   n(x) <-- (e(x, _) | e(_, x) | f(x, x));
}

ascent::ascent! {
   #![generate_run_timeout]
   pub struct Prog;
   relation e(i32, i32);
   relation f(i32, i32);
   relation n(i32);
   relation r(i32, i32);
   include_source!(disj__srcto_src);
   r(x, y) <-- (e(x, y) | f(x, y)), (if ((*x) > 0), n(x) | if ((*y) > 0), n(y));
}

pub struct D(Prog);
impl Driven for D {
   fn push(&mut self, rel: &str, row: &Value) {
      match rel {
         "e" => { self.0.e.push((row[0].as_i64().unwrap() as i32, row[1].as_i64().unwrap() as i32,)); },
         "f" => { self.0.f.push((row[0].as_i64().unwrap() as i32, row[1].as_i64().unwrap() as i32,)); },
         "n" => { self.0.n.push((row[0].as_i64().unwrap() as i32,)); },
         "r" => { self.0.r.push((row[0].as_i64().unwrap() as i32, row[1].as_i64().unwrap() as i32,)); },
         _ => panic!("verif harness: unknown relation {}", rel),
      }
   }
   fn clear(&mut self, rel: &str) {
      match rel {
         "e" => { self.0.e = Default::default(); },
         "f" => { self.0.f = Default::default(); },
         "n" => { self.0.n = Default::default(); },
         "r" => { self.0.r = Default::default(); },
         _ => panic!("verif harness: unknown relation {}", rel),
      }
   }
   fn run(&mut self) { self.0.run(); }
   fn run_timeout(&mut self, nanos: u64) -> Option<bool> { Some(self.0.run_timeout(std::time::Duration::from_nanos(nanos))) }
   fn dump(&self) -> Value {
      let mut m: Vec<(String, Value)> = vec![];
      m.push(("e".to_string(), rows_json(self.0.e.iter())));
      m.push(("f".to_string(), rows_json(self.0.f.iter())));
      m.push(("n".to_string(), rows_json(self.0.n.iter())));
      m.push(("r".to_string(), rows_json(self.0.r.iter())));
      Value::Obj(m)
   }
   fn summary(&self) -> String { Prog::summary().to_string() }
}
pub fn make() -> Box<dyn Driven> { Box::new(D(Prog::default())) }
