#![allow(unused_imports, unused_variables, unused_mut, dead_code, non_snake_case, unused_parens, clippy::all)]
use ascent::lattice::bounded_set::BoundedSet;
use ascent::lattice::constant_propagation::ConstPropagation;
use ascent::lattice::set::Set;
use ascent::lattice::Product;
use ascent::{Dual, Lattice};
use vh_lite::{rows_json, Driven, Value};
ascent::ascent! {
   pub struct Prog;
   relation inp(i32, i32);
   relation nxt(i32, i32);
   relation res(i32, i32, i32);
   macro bump($a: ident, $r: ident) { let v = (*$a), nxt({ let v = (v + 1); (v * 2) }, $r) }
   res(v, w, r) <-- inp(v, w), bump!(w, r);
}

pub struct D(Prog);
impl Driven for D {
   fn push(&mut self, rel: &str, row: &Value) {
      match rel {
         "inp" => { self.0.inp.push((row[0].as_i64().unwrap() as i32, row[1].as_i64().unwrap() as i32,)); },
         "nxt" => { self.0.nxt.push((row[0].as_i64().unwrap() as i32, row[1].as_i64().unwrap() as i32,)); },
         "res" => { self.0.res.push((row[0].as_i64().unwrap() as i32, row[1].as_i64().unwrap() as i32, row[2].as_i64().unwrap() as i32,)); },
         _ => panic!("verif harness: unknown relation {}", rel),
      }
   }
   fn clear(&mut self, rel: &str) {
      match rel {
         "inp" => { self.0.inp = Default::default(); },
         "nxt" => { self.0.nxt = Default::default(); },
         "res" => { self.0.res = Default::default(); },
         _ => panic!("verif harness: unknown relation {}", rel),
      }
   }
   fn run(&mut self) { self.0.run(); }
   fn dump(&self) -> Value {
      let mut m: Vec<(String, Value)> = vec![];
      m.push(("inp".to_string(), rows_json(self.0.inp.iter())));
      m.push(("nxt".to_string(), rows_json(self.0.nxt.iter())));
      m.push(("res".to_string(), rows_json(self.0.res.iter())));
      Value::Obj(m)
   }
   fn summary(&self) -> String { Prog::summary().to_string() }
}
pub fn make() -> Box<dyn Driven> { Box::new(D(Prog::default())) }
