#![allow(unused_imports, unused_variables, unused_mut, dead_code, non_snake_case, unused_parens, clippy::all)]
use ascent::lattice::bounded_set::BoundedSet;
use ascent::lattice::constant_propagation::ConstPropagation;
use ascent::lattice::set::Set;
use ascent::lattice::Product;
use ascent::{Dual, Lattice};
use vh_lite::{rows_json, Driven, Value};
ascent::ascent! {
   pub struct Prog;
   relation e_rn(i32, i32);
   relation lt_rn(i32, i32);
   relation n_rn(i32, i32);
   relation s_rn(i32, i32);
   relation m_rn(i32);
   lt_rn(v_x_q, v_y_q) <-- e_rn(v_x_q, v_y_q), if ((*v_x_q) < (*v_y_q));
   n_rn(v_x_q, v_y_q) <-- e_rn(v_x_q, _), let v_y_q = ((*v_x_q) + 1), if (v_y_q < 3);
   s_rn(v_x_q, v_k_q) <-- e_rn(v_x_q, _), for v_k_q in (0)..((*v_x_q));
   m_rn(v_z_q) <-- e_rn(v_x_q, v_y_q) if ((*v_x_q) != (*v_y_q)), let v_z_q = (((*v_x_q) * 2) + (*v_y_q)), if (((v_z_q % 2) == 0) || (v_z_q > 4));
}

pub struct D(Prog);
impl Driven for D {
   fn push(&mut self, rel: &str, row: &Value) {
      match rel {
         "e_rn" => { self.0.e_rn.push((row[0].as_i64().unwrap() as i32, row[1].as_i64().unwrap() as i32,)); },
         "lt_rn" => { self.0.lt_rn.push((row[0].as_i64().unwrap() as i32, row[1].as_i64().unwrap() as i32,)); },
         "n_rn" => { self.0.n_rn.push((row[0].as_i64().unwrap() as i32, row[1].as_i64().unwrap() as i32,)); },
         "s_rn" => { self.0.s_rn.push((row[0].as_i64().unwrap() as i32, row[1].as_i64().unwrap() as i32,)); },
         "m_rn" => { self.0.m_rn.push((row[0].as_i64().unwrap() as i32,)); },
         _ => panic!("verif harness: unknown relation {}", rel),
      }
   }
   fn clear(&mut self, rel: &str) {
      match rel {
         "e_rn" => { self.0.e_rn = Default::default(); },
         "lt_rn" => { self.0.lt_rn = Default::default(); },
         "n_rn" => { self.0.n_rn = Default::default(); },
         "s_rn" => { self.0.s_rn = Default::default(); },
         "m_rn" => { self.0.m_rn = Default::default(); },
         _ => panic!("verif harness: unknown relation {}", rel),
      }
   }
   fn run(&mut self) { self.0.run(); }
   fn dump(&self) -> Value {
      let mut m: Vec<(String, Value)> = vec![];
      m.push(("e_rn".to_string(), rows_json(self.0.e_rn.iter())));
      m.push(("lt_rn".to_string(), rows_json(self.0.lt_rn.iter())));
      m.push(("n_rn".to_string(), rows_json(self.0.n_rn.iter())));
      m.push(("s_rn".to_string(), rows_json(self.0.s_rn.iter())));
      m.push(("m_rn".to_string(), rows_json(self.0.m_rn.iter())));
      Value::Obj(m)
   }
   fn summary(&self) -> String { Prog::summary().to_string() }
}
pub fn make() -> Box<dyn Driven> { Box::new(D(Prog::default())) }
