#![allow(unused_imports, unused_variables, unused_mut, dead_code, non_snake_case, unused_parens, clippy::all)]
use ascent::lattice::bounded_set::BoundedSet;
use ascent::lattice::constant_propagation::ConstPropagation;
use ascent::lattice::set::Set;
use ascent::lattice::Product;
use ascent::{Dual, Lattice};
use vh_lite::{rows_json, Driven, Value};
#[derive(Default)]
pub struct D {
   e: Vec<(i32, i32,)>,
   rs: Vec<(i32, Set<i32>,)>,
   has: Vec<(i32, i32,)>,
   both: Vec<(i32,)>,
   out: Option<Value>,
}
impl Driven for D {
   fn push(&mut self, rel: &str, row: &Value) {
      match rel {
         "e" => { self.e.push((row[0].as_i64().unwrap() as i32, row[1].as_i64().unwrap() as i32,)); },
         "rs" => { self.rs.push((row[0].as_i64().unwrap() as i32, Set(row[1].as_array().unwrap().iter().map(|v| v.as_i64().unwrap() as i32).collect()),)); },
         "has" => { self.has.push((row[0].as_i64().unwrap() as i32, row[1].as_i64().unwrap() as i32,)); },
         "both" => { self.both.push((row[0].as_i64().unwrap() as i32,)); },
         _ => panic!("verif harness: unknown relation {}", rel),
      }
   }
   fn run(&mut self) {
      let e_init = self.e.clone();
      let has_init = self.has.clone();
      let both_init = self.both.clone();
      let res = ascent::ascent_run! {
         relation e(i32, i32) = e_init;
         lattice rs(i32, Set<i32>);
         relation has(i32, i32) = has_init;
         relation both(i32) = both_init;
         rs(x, Set::singleton((*y))) <-- e(x, y);
         rs(x, s) <-- e(x, y), rs(y, s);
         has(x, y) <-- rs(x, s), for y in (0)..(3), if ((*s).clone()).contains(&(y));
         both(x) <-- rs(x, s), if ((*s).clone()).contains(&(0)), if ((*s).clone()).contains(&(1));
      };
      let mut m: Vec<(String, Value)> = vec![];
      m.push(("e".to_string(), rows_json(res.e.iter())));
      m.push(("rs".to_string(), rows_json(res.rs.iter())));
      m.push(("has".to_string(), rows_json(res.has.iter())));
      m.push(("both".to_string(), rows_json(res.both.iter())));
      self.out = Some(Value::Obj(m));
   }
   fn dump(&self) -> Value { self.out.clone().unwrap_or(Value::Null) }
}
pub fn make() -> Box<dyn Driven> { Box::new(D::default()) }
