#![allow(unused_imports, unused_variables, unused_mut, dead_code, non_snake_case, unused_parens, clippy::all)]
use ascent::lattice::bounded_set::BoundedSet;
use ascent::lattice::constant_propagation::ConstPropagation;
use ascent::lattice::set::Set;
use ascent::lattice::Product;
use ascent::{Dual, Lattice};
use vh_lite::{rows_json, Driven, Value};
ascent::ascent! {
   pub struct Prog;
   relation edge(i32, i32);
   relation via(i32, i32);
   relation tgt(i32);
   relation sw(i32, i32);
   relation low(i32, i32);
   relation two(i32, i32);
   two(x, z) <-- edge(x, y), via(y, z);
   tgt(y) <-- edge(_, y);
   sw(y, x) <-- edge(x, y);
   sw(x, y) <-- edge(x, y);
   low(x, y) <-- sw(x, y), if ((*x) < (*y));
}

pub struct D(Prog);
impl Driven for D {
   fn push(&mut self, rel: &str, row: &Value) {
      match rel {
         "edge" => { self.0.edge.push((row[0].as_i64().unwrap() as i32, row[1].as_i64().unwrap() as i32,)); },
         "via" => { self.0.via.push((row[0].as_i64().unwrap() as i32, row[1].as_i64().unwrap() as i32,)); },
         "tgt" => { self.0.tgt.push((row[0].as_i64().unwrap() as i32,)); },
         "sw" => { self.0.sw.push((row[0].as_i64().unwrap() as i32, row[1].as_i64().unwrap() as i32,)); },
         "low" => { self.0.low.push((row[0].as_i64().unwrap() as i32, row[1].as_i64().unwrap() as i32,)); },
         "two" => { self.0.two.push((row[0].as_i64().unwrap() as i32, row[1].as_i64().unwrap() as i32,)); },
         _ => panic!("verif harness: unknown relation {}", rel),
      }
   }
   fn clear(&mut self, rel: &str) {
      match rel {
         "edge" => { self.0.edge = Default::default(); },
         "via" => { self.0.via = Default::default(); },
         "tgt" => { self.0.tgt = Default::default(); },
         "sw" => { self.0.sw = Default::default(); },
         "low" => { self.0.low = Default::default(); },
         "two" => { self.0.two = Default::default(); },
         _ => panic!("verif harness: unknown relation {}", rel),
      }
   }
   fn run(&mut self) { self.0.run(); }
   fn dump(&self) -> Value {
      let mut m: Vec<(String, Value)> = vec![];
      m.push(("edge".to_string(), rows_json(self.0.edge.iter())));
      m.push(("via".to_string(), rows_json(self.0.via.iter())));
      m.push(("tgt".to_string(), rows_json(self.0.tgt.iter())));
      m.push(("sw".to_string(), rows_json(self.0.sw.iter())));
      m.push(("low".to_string(), rows_json(self.0.low.iter())));
      m.push(("two".to_string(), rows_json(self.0.two.iter())));
      Value::Obj(m)
   }
   fn summary(&self) -> String { Prog::summary().to_string() }
}
pub fn make() -> Box<dyn Driven> { Box::new(D(Prog::default())) }
