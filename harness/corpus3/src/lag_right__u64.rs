#![allow(unused_imports, unused_variables, unused_mut, dead_code, non_snake_case, unused_parens, clippy::all)]
use ascent::lattice::bounded_set::BoundedSet;
use ascent::lattice::constant_propagation::ConstPropagation;
use ascent::lattice::set::Set;
use ascent::lattice::Product;
use ascent::{Dual, Lattice};
use vh_lite::{rows_json, Driven, Value};
ascent::ascent! {
   pub struct Prog;
   relation e(u64, u64);
   relation f(u64, u64);
   relation a(u64, u64);
   relation b(u64, u64);
   relation r(u64, u64);
   a(x, y) <-- e(x, y);
   b(x, y) <-- f(x, y);
   b(x, z) <-- b(x, y), f(y, z);
   r(x, z) <-- a(x, y), b(y, z);
   a(x, y) <-- r(x, y), f(x, x);
   b(x, y) <-- r(y, x), e(y, y);
}

pub struct D(Prog);
impl Driven for D {
   fn push(&mut self, rel: &str, row: &Value) {
      match rel {
         "e" => { self.0.e.push((((row[0].as_i64().unwrap() + 7) * 1000003) as u64, ((row[1].as_i64().unwrap() + 7) * 1000003) as u64,)); },
         "f" => { self.0.f.push((((row[0].as_i64().unwrap() + 7) * 1000003) as u64, ((row[1].as_i64().unwrap() + 7) * 1000003) as u64,)); },
         "a" => { self.0.a.push((((row[0].as_i64().unwrap() + 7) * 1000003) as u64, ((row[1].as_i64().unwrap() + 7) * 1000003) as u64,)); },
         "b" => { self.0.b.push((((row[0].as_i64().unwrap() + 7) * 1000003) as u64, ((row[1].as_i64().unwrap() + 7) * 1000003) as u64,)); },
         "r" => { self.0.r.push((((row[0].as_i64().unwrap() + 7) * 1000003) as u64, ((row[1].as_i64().unwrap() + 7) * 1000003) as u64,)); },
         _ => panic!("verif harness: unknown relation {}", rel),
      }
   }
   fn clear(&mut self, rel: &str) {
      match rel {
         "e" => { self.0.e = Default::default(); },
         "f" => { self.0.f = Default::default(); },
         "a" => { self.0.a = Default::default(); },
         "b" => { self.0.b = Default::default(); },
         "r" => { self.0.r = Default::default(); },
         _ => panic!("verif harness: unknown relation {}", rel),
      }
   }
   fn run(&mut self) { self.0.run(); }
   fn dump(&self) -> Value {
      let mut m: Vec<(String, Value)> = vec![];
      m.push(("e".to_string(), rows_json(self.0.e.iter())));
      m.push(("f".to_string(), rows_json(self.0.f.iter())));
      m.push(("a".to_string(), rows_json(self.0.a.iter())));
      m.push(("b".to_string(), rows_json(self.0.b.iter())));
      m.push(("r".to_string(), rows_json(self.0.r.iter())));
      Value::Obj(m)
   }
   fn summary(&self) -> String { Prog::summary().to_string() }
}
pub fn make() -> Box<dyn Driven> { Box::new(D(Prog::default())) }
