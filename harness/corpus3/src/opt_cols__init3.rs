#![allow(unused_imports, unused_variables, unused_mut, dead_code, non_snake_case, unused_parens, clippy::all)]
use ascent::lattice::bounded_set::BoundedSet;
use ascent::lattice::constant_propagation::ConstPropagation;
use ascent::lattice::set::Set;
use ascent::lattice::Product;
use ascent::{Dual, Lattice};
use vh_lite::{rows_json, Driven, Value};
ascent::ascent! {
   pub struct Prog;
   relation o(Option<i32>) = vh_lite::init_rows("o").iter().map(|row| ((if row[0]["tag"].is_str("some") { Some(row[0]["v"].as_i64().unwrap() as i32) } else { None }),)).collect();
   relation v(i32);
   relation w(i32);
   relation nn();
   relation oo(Option<i32>);
   relation o(Option<i32>);
   relation o(Option<i32>) = vh_lite::init_rows("o").iter().map(|row| ((if row[0]["tag"].is_str("some") { Some(row[0]["v"].as_i64().unwrap() as i32) } else { None }),)).collect();
   v(x) <-- o(ox), if let Some(x) = (*ox);
   w(x) <-- o(?Some(x));
   nn() <-- o(?None);
   oo(Some(((*x) + 1))) <-- v(x), if ((*x) < 2);
   oo(None::<i32>) <-- nn();
}

pub struct D(Prog);
impl Driven for D {
   fn push(&mut self, rel: &str, row: &Value) {
      match rel {
         "o" => { self.0.o.push(((if row[0]["tag"].is_str("some") { Some(row[0]["v"].as_i64().unwrap() as i32) } else { None }),)); },
         "v" => { self.0.v.push((row[0].as_i64().unwrap() as i32,)); },
         "w" => { self.0.w.push((row[0].as_i64().unwrap() as i32,)); },
         "nn" => { self.0.nn.push(()); },
         "oo" => { self.0.oo.push(((if row[0]["tag"].is_str("some") { Some(row[0]["v"].as_i64().unwrap() as i32) } else { None }),)); },
         _ => panic!("verif harness: unknown relation {}", rel),
      }
   }
   fn clear(&mut self, rel: &str) {
      match rel {
         "o" => { self.0.o = Default::default(); },
         "v" => { self.0.v = Default::default(); },
         "w" => { self.0.w = Default::default(); },
         "nn" => { self.0.nn = Default::default(); },
         "oo" => { self.0.oo = Default::default(); },
         _ => panic!("verif harness: unknown relation {}", rel),
      }
   }
   fn run(&mut self) { self.0.run(); }
   fn dump(&self) -> Value {
      let mut m: Vec<(String, Value)> = vec![];
      m.push(("o".to_string(), rows_json(self.0.o.iter())));
      m.push(("v".to_string(), rows_json(self.0.v.iter())));
      m.push(("w".to_string(), rows_json(self.0.w.iter())));
      m.push(("nn".to_string(), rows_json(self.0.nn.iter())));
      m.push(("oo".to_string(), rows_json(self.0.oo.iter())));
      Value::Obj(m)
   }
   fn summary(&self) -> String { Prog::summary().to_string() }
}
pub fn make() -> Box<dyn Driven> { Box::new(D(Prog::default())) }
