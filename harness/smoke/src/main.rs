use ascent::ascent;
ascent! {
   struct P;
   relation sched(i32, i32, i32, i32);
   relation never();
   relation step(i32);
   #[ds(ascent_byods_rels::eqrel)] relation r(i32, i32, i32);
   relation i000(i32, i32, i32);
   relation o000(i32, i32, i32);
   step(0);
   step(i + 1) <-- step(i), if *i < 2;
   step(0) <-- r(_, _, _), never();
   r(k, x, y) <-- step(i), sched(i, k, x, y), if {eprintln!("derive r {} {} {} at step {}", k, x, y, i); true};
   i000(k, x, y) <-- r(k, x, y), if {eprintln!("read r {} {} {}", k, x, y); true};
   r(k, x, y) <-- i000(k, x, y), never();
   o000(k, x, y) <-- r(k, x, y);
}
ascent! {
   struct Q;
   relation sched(i32, i32, i32, i32);
   relation never();
   #[ds(ascent_byods_rels::eqrel)] relation r(i32, i32, i32);
   relation i000(i32, i32, i32);
   r(k, x, y) <-- sched(_, k, x, y);
   i000(k, x, y) <-- r(k, x, y);
   r(k, x, y) <-- i000(k, x, y), never();
}
fn main() {
   let mut p = P::default();
   p.sched = vec![(0, 1, 2, 1)];
   p.run();
   println!("P i000={:?} o000={:?}", p.i000, p.o000);
   let mut q = Q::default();
   q.sched = vec![(0, 1, 2, 1)];
   q.run();
   println!("Q i000={:?}", q.i000);
   println!("{}", Q::summary());
}
