use ascent::internal::verif;
use ascent::{ascent, ascent_par, ascent_run};
use ascent::Dual;

ascent! {
   #![generate_run_timeout]
   struct Tc;
   relation e(i32, i32);
   relation p(i32, i32);
   p(x, y) <-- e(x, y);
   p(x, z) <-- e(x, y), p(y, z);
}

ascent! {
   struct Sp;
   relation e(i32, i32, u32);
   lattice sp(i32, i32, Dual<u32>);
   sp(x, y, Dual(*w)) <-- e(x, y, w);
   sp(x, z, Dual(w + l.0)) <-- e(x, y, w), sp(y, z, l);
}

ascent_par! {
   struct SpPar;
   relation e(i32, i32, u32);
   lattice sp(i32, i32, Dual<u32>);
   relation cnt(usize);
   sp(x, y, Dual(*w)) <-- e(x, y, w);
   sp(x, z, Dual(w + l.0)) <-- e(x, y, w), sp(y, z, l);
   cnt(n) <-- agg n = ascent::aggregators::count() in sp(_, _, _);
}

fn main() {
   verif::arm();
   verif::clock_arm();
   let mut tc = Tc::default();
   tc.e = vec![(0, 1), (1, 2), (2, 0)];
   let r = tc.run_timeout(std::time::Duration::from_nanos(2));
   println!("ret {} checks {}", r, verif::clock_disarm());
   tc.run();
   for e in vh_core::hook_events(verif::disarm()) { println!("{}", e); }
   println!("{}", vh_core::rows_json(tc.p.iter()));

   verif::arm();
   let mut sp = Sp::default();
   sp.e = vec![(0, 1, 5), (1, 2, 1), (0, 2, 9)];
   sp.run();
   for e in vh_core::hook_events(verif::disarm()) { println!("{}", e); }
   println!("{}", vh_core::rows_json(sp.sp.iter()));

   verif::arm();
   let mut sp = SpPar::default();
   sp.e = [(0, 1, 5), (1, 2, 1), (0, 2, 9)].into_iter().collect();
   sp.run();
   for e in vh_core::hook_events(verif::disarm()) { println!("{}", e); }
   let rows: Vec<_> = sp.sp.iter().map(|r| r.read().unwrap().clone()).collect();
   println!("{}", vh_core::rows_json(rows.iter()));
   let r = ascent_run! { relation a(i32); a(1); a(x+1) <-- a(x), if *x < 3; };
   println!("{:?}", r.a);
}
