use ascent::ascent_par;
ascent_par! {
   struct R;
   relation e(i32, i32);
   relation lp(i32);
   relation sym(i32, i32);
   lp(x) <-- e(x, x);
   sym(x, y) <-- e(x, y), e(y, x);
}
fn main() {
   let mut r = R::default();
   r.e = [(0, 0), (0, 1)].into_iter().collect();
   r.run();
   println!("{:?}", r.lp);
}
