use ascent::ascent;
ascent! {
   struct P;
   relation sched(i32, i32, i32, i32);
   relation never();
   relation step(i32);
   relation dom(i32);
   relation kd(i32);
   #[ds(ascent_byods_rels::trrel_uf)] relation r(i32, i32, i32);
   relation i010(i32, i32, i32);
   relation i001(i32, i32, i32);
   relation i011(i32, i32, i32);
   step(0);
   step(i + 1) <-- step(i), if *i < 2;
   step(0) <-- r(_, _, _), never();
   dom(x) <-- for x in 0..3;
   r(k, x, y) <-- step(i), sched(i, k, x, y);
   i010(k, x, y) <-- dom(x), r(k, x, y);
   r(k, x, y) <-- i010(k, x, y), never();
   i001(k, x, y) <-- dom(y), r(k, x, y);
   r(k, x, y) <-- i001(k, x, y), never();
   i011(k, x, y) <-- dom(x), dom(y), r(k, x, y);
   r(k, x, y) <-- i011(k, x, y), never();
}
fn main() {
   let mut p = P::default();
   p.sched = vec![(1, 0, 2, 0), (2, 0, 1, 1)];
   p.run();
   println!("{:?}", p.i010);
}
