//! Shared pieces of the conformance harnesses: a parser for Rust `Debug` output (so that rows and
//! hook events can be turned into JSON without any trait on the column types), panic capture and
//! NDJSON helpers.

use serde_json::{json, Value};
use std::fmt::Debug;
use std::panic::{catch_unwind, AssertUnwindSafe};

/// Parses the `Debug` rendering of the value shapes used by the harness programs:
/// integers, booleans, strings, tuples, arrays, `{..}` sets, `Name`, `Name(args)`, `Name { f: v }`.
/// Result: ints / bools / strings as JSON scalars, tuples and arrays as JSON arrays, sets as
/// `{"c":"#set","a":[..]}`, constructors as `{"c":"Name","a":[..]}`.
pub fn dbg_to_json(s: &str) -> Value {
   let b: Vec<char> = s.chars().collect();
   let mut p = P { b: &b, i: 0 };
   let v = p.val();
   p.ws();
   if p.i != b.len() {
      return json!({"c": "#unparsed", "a": [s]});
   }
   v
}

struct P<'a> {
   b: &'a [char],
   i: usize,
}

impl<'a> P<'a> {
   fn ws(&mut self) {
      while self.i < self.b.len() && self.b[self.i].is_whitespace() {
         self.i += 1;
      }
   }
   fn peek(&mut self) -> Option<char> {
      self.ws();
      self.b.get(self.i).copied()
   }
   fn list(&mut self, close: char) -> Vec<Value> {
      let mut res = vec![];
      loop {
         match self.peek() {
            None => break,
            Some(c) if c == close => {
               self.i += 1;
               break;
            },
            Some(',') => {
               self.i += 1;
            },
            _ => {
               let before = self.i;
               res.push(self.val());
               if self.i == before {
                  self.i += 1; // never loop forever on garbage
               }
            },
         }
      }
      res
   }
   fn val(&mut self) -> Value {
      match self.peek() {
         None => Value::Null,
         Some('(') => {
            self.i += 1;
            Value::Array(self.list(')'))
         },
         Some('[') => {
            self.i += 1;
            Value::Array(self.list(']'))
         },
         Some('{') => {
            self.i += 1;
            json!({"c": "#set", "a": self.list('}')})
         },
         Some('"') => {
            self.i += 1;
            let mut s = String::new();
            while self.i < self.b.len() && self.b[self.i] != '"' {
               if self.b[self.i] == '\\' && self.i + 1 < self.b.len() {
                  self.i += 1;
               }
               s.push(self.b[self.i]);
               self.i += 1;
            }
            self.i += 1;
            Value::String(s)
         },
         Some(c) if c == '-' || c.is_ascii_digit() => {
            let st = self.i;
            self.i += 1;
            while self.i < self.b.len() && (self.b[self.i].is_ascii_digit() || self.b[self.i] == '.') {
               self.i += 1;
            }
            let t: String = self.b[st..self.i].iter().collect();
            if let Ok(n) = t.parse::<i64>() {
               json!(n)
            } else if let Ok(n) = t.parse::<u64>() {
               json!(n)
            } else if let Ok(f) = t.parse::<f64>() {
               json!(f)
            } else {
               json!({"c": "#num", "a": [t]})
            }
         },
         Some(c) if c.is_alphabetic() || c == '_' => {
            let st = self.i;
            while self.i < self.b.len()
               && (self.b[self.i].is_alphanumeric() || self.b[self.i] == '_' || self.b[self.i] == ':')
            {
               self.i += 1;
            }
            let name: String = self.b[st..self.i].iter().collect();
            if name == "true" {
               return json!(true);
            }
            if name == "false" {
               return json!(false);
            }
            match self.peek() {
               Some('(') => {
                  self.i += 1;
                  json!({"c": name, "a": self.list(')')})
               },
               Some('{') => {
                  // struct syntax: Name { field: value, .. }
                  self.i += 1;
                  let mut args = vec![];
                  loop {
                     match self.peek() {
                        None => break,
                        Some('}') => {
                           self.i += 1;
                           break;
                        },
                        Some(',') => {
                           self.i += 1;
                        },
                        _ => {
                           // field name
                           let st = self.i;
                           while self.i < self.b.len() && self.b[self.i] != ':' && self.b[self.i] != '}' {
                              self.i += 1;
                           }
                           if self.i < self.b.len() && self.b[self.i] == ':' {
                              self.i += 1;
                              args.push(self.val());
                           } else if st == self.i {
                              self.i += 1;
                           }
                        },
                     }
                  }
                  json!({"c": name, "a": args})
               },
               _ => json!({"c": name, "a": []}),
            }
         },
         Some(_) => {
            self.i += 1;
            Value::Null
         },
      }
   }
}

pub fn row_json<T: Debug>(row: &T) -> Value { dbg_to_json(&format!("{:?}", row)) }

pub fn rows_json<'a, T: Debug + 'a>(rows: impl Iterator<Item = &'a T>) -> Value {
   Value::Array(rows.map(|r| row_json(r)).collect())
}

/// Converts the raw hook events (JSON text with `Debug` strings) into JSON values with parsed tuples.
pub fn hook_events(raw: Vec<String>) -> Vec<Value> {
   raw.into_iter()
      .map(|s| {
         let mut v: Value = serde_json::from_str(&s).unwrap_or_else(|_| json!({"e": "garbled", "raw": s}));
         if v["e"] == "ins" {
            let t = v["t"].as_str().unwrap_or("").to_string();
            v["t"] = if t.is_empty() { Value::Null } else { dbg_to_json(&t) };
         }
         v
      })
      .collect()
}

/// Runs `f`, turning a panic into `Err(message)`.
pub fn guarded<R>(f: impl FnOnce() -> R) -> Result<R, String> {
   match catch_unwind(AssertUnwindSafe(f)) {
      Ok(r) => Ok(r),
      Err(e) => {
         let msg = if let Some(s) = e.downcast_ref::<&str>() {
            s.to_string()
         } else if let Some(s) = e.downcast_ref::<String>() {
            s.clone()
         } else {
            "<non-string panic>".to_string()
         };
         Err(msg)
      },
   }
}

/// Silences the default panic message (panics are data for the harness).
pub fn quiet_panics() { std::panic::set_hook(Box::new(|_| {})); }

pub fn read_cases() -> Vec<Value> {
   use std::io::BufRead;
   let path = std::env::args().nth(1).expect("usage: <bin> <cases.ndjson> <out.ndjson>");
   let f = std::fs::File::open(&path).expect("cannot open cases file");
   std::io::BufReader::new(f)
      .lines()
      .map(|l| l.unwrap())
      .filter(|l| !l.trim().is_empty())
      .map(|l| serde_json::from_str(&l).expect("bad case line"))
      .collect()
}

pub struct Out {
   w: std::io::BufWriter<std::fs::File>,
}

impl Out {
   pub fn open() -> Out {
      let path = std::env::args().nth(2).expect("usage: <bin> <cases.ndjson> <out.ndjson>");
      Out { w: std::io::BufWriter::new(std::fs::File::create(path).expect("cannot create output file")) }
   }
   pub fn line(&mut self, v: &Value) {
      use std::io::Write;
      serde_json::to_writer(&mut self.w, v).unwrap();
      self.w.write_all(b"\n").unwrap();
   }
   pub fn flush(&mut self) {
      use std::io::Write;
      self.w.flush().unwrap();
   }
}

#[cfg(test)]
mod tests {
   use super::*;
   #[test]
   fn parse() {
      assert_eq!(dbg_to_json("(1, -2)"), json!([1, -2]));
      assert_eq!(dbg_to_json("Some(3)"), json!({"c":"Some","a":[3]}));
      assert_eq!(dbg_to_json("(1, Dual(3))"), json!([1, {"c":"Dual","a":[3]}]));
      assert_eq!(dbg_to_json("Set({1, 2})"), json!({"c":"Set","a":[{"c":"#set","a":[1,2]}]}));
      assert_eq!(dbg_to_json("(\"a\\\"b\",)"), json!(["a\"b"]));
      assert_eq!(dbg_to_json("None"), json!({"c":"None","a":[]}));
   }
}

