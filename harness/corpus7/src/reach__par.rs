#![allow(unused_imports, unused_variables, unused_mut, dead_code, non_snake_case, unused_parens, clippy::all)]
use ascent::lattice::bounded_set::BoundedSet;
use ascent::lattice::constant_propagation::ConstPropagation;
use ascent::lattice::set::Set;
use ascent::lattice::Product;
use ascent::{Dual, Lattice};
use vh_lite::{rows_json, Driven, Value};
ascent::ascent_par! {
   pub struct Prog;
   relation e(i32, i32);
   relation src(i32);
   relation reach(i32);
   relation unre(i32, i32);
   reach(x) <-- src(x);
   reach(y) <-- reach(x), e(x, y);
   unre(x, y) <-- e(x, y), reach(y), reach(x), if ((*x) > (*y));
}

pub struct D(Prog);
impl Driven for D {
   fn push(&mut self, rel: &str, row: &Value) {
      match rel {
         "e" => { self.0.e.push((row[0].as_i64().unwrap() as i32, row[1].as_i64().unwrap() as i32,)); },
         "src" => { self.0.src.push((row[0].as_i64().unwrap() as i32,)); },
         "reach" => { self.0.reach.push((row[0].as_i64().unwrap() as i32,)); },
         "unre" => { self.0.unre.push((row[0].as_i64().unwrap() as i32, row[1].as_i64().unwrap() as i32,)); },
         _ => panic!("verif harness: unknown relation {}", rel),
      }
   }
   fn clear(&mut self, rel: &str) {
      match rel {
         "e" => { self.0.e = Default::default(); },
         "src" => { self.0.src = Default::default(); },
         "reach" => { self.0.reach = Default::default(); },
         "unre" => { self.0.unre = Default::default(); },
         _ => panic!("verif harness: unknown relation {}", rel),
      }
   }
   fn run(&mut self) { self.0.run(); }
   fn dump(&self) -> Value {
      let mut m: Vec<(String, Value)> = vec![];
      m.push(("e".to_string(), rows_json(self.0.e.iter())));
      m.push(("src".to_string(), rows_json(self.0.src.iter())));
      m.push(("reach".to_string(), rows_json(self.0.reach.iter())));
      m.push(("unre".to_string(), rows_json(self.0.unre.iter())));
      Value::Obj(m)
   }
   fn summary(&self) -> String { Prog::summary().to_string() }
}
pub fn make() -> Box<dyn Driven> { Box::new(D(Prog::default())) }
