#![allow(unused_imports, unused_variables, unused_mut, dead_code, non_snake_case, unused_parens, clippy::all)]
use ascent::lattice::bounded_set::BoundedSet;
use ascent::lattice::constant_propagation::ConstPropagation;
use ascent::lattice::set::Set;
use ascent::lattice::Product;
use ascent::{Dual, Lattice};
use vh_lite::{rows_json, Driven, Value};
#[derive(Default)]
pub struct D {
   e: Vec<(i32, i32,)>,
   best: Vec<(i32, Dual<i32>,)>,
   reached: Vec<(i32,)>,
   close: Vec<(i32,)>,
   out: Option<Value>,
}
impl Driven for D {
   fn push(&mut self, rel: &str, row: &Value) {
      match rel {
         "e" => { self.e.push((row[0].as_i64().unwrap() as i32, row[1].as_i64().unwrap() as i32,)); },
         "best" => { self.best.push((row[0].as_i64().unwrap() as i32, Dual(row[1].as_i64().unwrap() as i32),)); },
         "reached" => { self.reached.push((row[0].as_i64().unwrap() as i32,)); },
         "close" => { self.close.push((row[0].as_i64().unwrap() as i32,)); },
         _ => panic!("verif harness: unknown relation {}", rel),
      }
   }
   fn run(&mut self) {
      let e_init = self.e.clone();
      let best_init = self.best.clone();
      let reached_init = self.reached.clone();
      let close_init = self.close.clone();
      let res = ascent::ascent_run! {
         relation e(i32, i32);
         lattice best(i32, Dual<i32>);
         relation reached(i32) = reached_init;
         relation close(i32) = close_init;
         e(a0.clone(), a1.clone()) <-- for (a0, a1, ) in e_init.iter();
         best(a0.clone(), a1.clone()) <-- for (a0, a1, ) in best_init.iter();
         best(y, Dual((((*l)).0 + 1))) <-- best(x, l), e(x, y);
         reached(x) <-- best(x, _);
         close(x) <-- best(x, l), if (((*l)).0 <= 1);
      };
      let mut m: Vec<(String, Value)> = vec![];
      m.push(("e".to_string(), rows_json(res.e.iter())));
      m.push(("best".to_string(), rows_json(res.best.iter())));
      m.push(("reached".to_string(), rows_json(res.reached.iter())));
      m.push(("close".to_string(), rows_json(res.close.iter())));
      self.out = Some(Value::Obj(m));
   }
   fn dump(&self) -> Value { self.out.clone().unwrap_or(Value::Null) }
}
pub fn make() -> Box<dyn Driven> { Box::new(D::default()) }
