#![allow(unused_imports, unused_variables, unused_mut, dead_code, non_snake_case, unused_parens, clippy::all)]
use ascent::lattice::bounded_set::BoundedSet;
use ascent::lattice::constant_propagation::ConstPropagation;
use ascent::lattice::set::Set;
use ascent::lattice::Product;
use ascent::{Dual, Lattice};
use vh_lite::{rows_json, Driven, Value};
ascent::ascent_par! {
   pub struct Prog;
   relation u(i32);
   relation limit(i32);
   relation reach(i32);
   relation bucket(i32);
   relation reach2(i32);
   relation bucket2(i32);
   reach(x) <-- u(x);
   reach(std::cmp::min(((*x) + 1), 5)), bucket(std::cmp::min((*x), 1)) <-- reach(x), limit(l), if ((*x) < (*l));
   reach2(x) <-- u(x);
   bucket2(std::cmp::min((*x), 1)), reach2(std::cmp::min(((*x) + 1), 5)) <-- reach2(x), limit(l), if ((*x) < (*l));
}

pub struct D(Prog);
impl Driven for D {
   fn push(&mut self, rel: &str, row: &Value) {
      match rel {
         "u" => { self.0.u.push((row[0].as_i64().unwrap() as i32,)); },
         "limit" => { self.0.limit.push((row[0].as_i64().unwrap() as i32,)); },
         "reach" => { self.0.reach.push((row[0].as_i64().unwrap() as i32,)); },
         "bucket" => { self.0.bucket.push((row[0].as_i64().unwrap() as i32,)); },
         "reach2" => { self.0.reach2.push((row[0].as_i64().unwrap() as i32,)); },
         "bucket2" => { self.0.bucket2.push((row[0].as_i64().unwrap() as i32,)); },
         _ => panic!("verif harness: unknown relation {}", rel),
      }
   }
   fn clear(&mut self, rel: &str) {
      match rel {
         "u" => { self.0.u = Default::default(); },
         "limit" => { self.0.limit = Default::default(); },
         "reach" => { self.0.reach = Default::default(); },
         "bucket" => { self.0.bucket = Default::default(); },
         "reach2" => { self.0.reach2 = Default::default(); },
         "bucket2" => { self.0.bucket2 = Default::default(); },
         _ => panic!("verif harness: unknown relation {}", rel),
      }
   }
   fn run(&mut self) { self.0.run(); }
   fn dump(&self) -> Value {
      let mut m: Vec<(String, Value)> = vec![];
      m.push(("u".to_string(), rows_json(self.0.u.iter())));
      m.push(("limit".to_string(), rows_json(self.0.limit.iter())));
      m.push(("reach".to_string(), rows_json(self.0.reach.iter())));
      m.push(("bucket".to_string(), rows_json(self.0.bucket.iter())));
      m.push(("reach2".to_string(), rows_json(self.0.reach2.iter())));
      m.push(("bucket2".to_string(), rows_json(self.0.bucket2.iter())));
      Value::Obj(m)
   }
   fn summary(&self) -> String { Prog::summary().to_string() }
}
pub fn make() -> Box<dyn Driven> { Box::new(D(Prog::default())) }
