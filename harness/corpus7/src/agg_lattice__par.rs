#![allow(unused_imports, unused_variables, unused_mut, dead_code, non_snake_case, unused_parens, clippy::all)]
use ascent::lattice::bounded_set::BoundedSet;
use ascent::lattice::constant_propagation::ConstPropagation;
use ascent::lattice::set::Set;
use ascent::lattice::Product;
use ascent::{Dual, Lattice};
use vh_lite::{rows_json, Driven, Value};
ascent::ascent_par! {
   pub struct Prog;
   relation w(i32, i32, i32);
   lattice sp(i32, i32, Dual<i32>);
   relation far(i32, i32);
   relation nsp(i32);
   relation tot(i32);
   sp(x, y, Dual((*c))) <-- w(x, y, c);
   sp(x, z, Dual(((*c) + ((*l)).0))) <-- w(x, y, c), sp(y, z, l), if (((*c) + ((*l)).0) < 9);
   far(x, (m as i32)) <-- w(x, _, _), agg m = ascent::aggregators::count() in sp(x, _, _);
   nsp((n as i32)) <-- agg n = ascent::aggregators::count() in sp(_, _, _);
   tot(s) <-- agg s = vh_lite::aggs::sumpairs(x, y) in far(x, y);
}

pub struct D(Prog);
impl Driven for D {
   fn push(&mut self, rel: &str, row: &Value) {
      match rel {
         "w" => { self.0.w.push((row[0].as_i64().unwrap() as i32, row[1].as_i64().unwrap() as i32, row[2].as_i64().unwrap() as i32,)); },
         "sp" => { self.0.sp.push(std::sync::RwLock::new((row[0].as_i64().unwrap() as i32, row[1].as_i64().unwrap() as i32, Dual(row[2].as_i64().unwrap() as i32),))); },
         "far" => { self.0.far.push((row[0].as_i64().unwrap() as i32, row[1].as_i64().unwrap() as i32,)); },
         "nsp" => { self.0.nsp.push((row[0].as_i64().unwrap() as i32,)); },
         "tot" => { self.0.tot.push((row[0].as_i64().unwrap() as i32,)); },
         _ => panic!("verif harness: unknown relation {}", rel),
      }
   }
   fn clear(&mut self, rel: &str) {
      match rel {
         "w" => { self.0.w = Default::default(); },
         "sp" => { self.0.sp = Default::default(); },
         "far" => { self.0.far = Default::default(); },
         "nsp" => { self.0.nsp = Default::default(); },
         "tot" => { self.0.tot = Default::default(); },
         _ => panic!("verif harness: unknown relation {}", rel),
      }
   }
   fn run(&mut self) { self.0.run(); }
   fn dump(&self) -> Value {
      let mut m: Vec<(String, Value)> = vec![];
      m.push(("w".to_string(), rows_json(self.0.w.iter())));
      let __v: Vec<(i32, i32, Dual<i32>,)> = self.0.sp.iter().map(|r| r.read().unwrap().clone()).collect();
      m.push(("sp".to_string(), rows_json(__v.iter())));
      m.push(("far".to_string(), rows_json(self.0.far.iter())));
      m.push(("nsp".to_string(), rows_json(self.0.nsp.iter())));
      m.push(("tot".to_string(), rows_json(self.0.tot.iter())));
      Value::Obj(m)
   }
   fn summary(&self) -> String { Prog::summary().to_string() }
}
pub fn make() -> Box<dyn Driven> { Box::new(D(Prog::default())) }
