#![allow(unused_imports, unused_variables, unused_mut, dead_code, non_snake_case, unused_parens, clippy::all)]
use ascent::lattice::bounded_set::BoundedSet;
use ascent::lattice::constant_propagation::ConstPropagation;
use ascent::lattice::set::Set;
use ascent::lattice::Product;
use ascent::{Dual, Lattice};
use vh_lite::{rows_json, Driven, Value};
ascent::ascent_par! {
   pub struct Prog;
   relation e(i32, i32);
   relation u(i32);
   relation c(i32, i32);
   relation none(i32);
   relation s(i32, i32);
   c(x, (n as i32)) <-- u(x), agg n = ascent::aggregators::count() in e(x, _);
   none(x) <-- u(x), agg () = ascent::aggregators::not() in e(x, _);
   s(x, t) <-- u(x), agg t = ascent::aggregators::sum(y) in e(x, y);
}

pub struct D(Prog);
impl Driven for D {
   fn push(&mut self, rel: &str, row: &Value) {
      match rel {
         "e" => { self.0.e.push((row[0].as_i64().unwrap() as i32, row[1].as_i64().unwrap() as i32,)); },
         "u" => { self.0.u.push((row[0].as_i64().unwrap() as i32,)); },
         "c" => { self.0.c.push((row[0].as_i64().unwrap() as i32, row[1].as_i64().unwrap() as i32,)); },
         "none" => { self.0.none.push((row[0].as_i64().unwrap() as i32,)); },
         "s" => { self.0.s.push((row[0].as_i64().unwrap() as i32, row[1].as_i64().unwrap() as i32,)); },
         _ => panic!("verif harness: unknown relation {}", rel),
      }
   }
   fn clear(&mut self, rel: &str) {
      match rel {
         "e" => { self.0.e = Default::default(); },
         "u" => { self.0.u = Default::default(); },
         "c" => { self.0.c = Default::default(); },
         "none" => { self.0.none = Default::default(); },
         "s" => { self.0.s = Default::default(); },
         _ => panic!("verif harness: unknown relation {}", rel),
      }
   }
   fn run(&mut self) { self.0.run(); }
   fn dump(&self) -> Value {
      let mut m: Vec<(String, Value)> = vec![];
      m.push(("e".to_string(), rows_json(self.0.e.iter())));
      m.push(("u".to_string(), rows_json(self.0.u.iter())));
      m.push(("c".to_string(), rows_json(self.0.c.iter())));
      m.push(("none".to_string(), rows_json(self.0.none.iter())));
      m.push(("s".to_string(), rows_json(self.0.s.iter())));
      Value::Obj(m)
   }
   fn summary(&self) -> String { Prog::summary().to_string() }
}
pub fn make() -> Box<dyn Driven> { Box::new(D(Prog::default())) }
