#![allow(unused_imports, unused_variables, unused_mut, dead_code, non_snake_case, unused_parens, clippy::all)]
use ascent::lattice::bounded_set::BoundedSet;
use ascent::lattice::constant_propagation::ConstPropagation;
use ascent::lattice::set::Set;
use ascent::lattice::Product;
use ascent::{Dual, Lattice};
use vh_lite::{rows_json, Driven, Value};

use vh_lite::{read_cases, drive, drive_group, quiet_panics, Out};

mod tc_left__pari;
mod tc_left__src2;
mod tc_left__perm2;
mod tc_nonlin__pari;
mod tc_nonlin__u64;
mod mutual__mrt;
mod mutual__init;
mod mutual__u64;
mod scc_chain__perm2;
mod diamond__pari;
mod repeated__perm2;
mod three_dyn__pari;
mod three_dyn__u64;
mod conds__run;
mod conds__redecl;
mod expr_args__ser;
mod multi_head__ser;
mod multi_head__permpar;
mod facts__src1;
mod facts__perm1;
mod opt_cols__par;
mod opt_cols__srcto;
mod cartesian__pari;
mod same_gen__ren;
mod not_reorderable__to;
mod pre_join_rec__pari;
mod two_inputs__par;
mod two_inputs__src1;
mod two_inputs__perm1;
mod wild__par;
mod ternary__permpar;
mod bound_mix__perm2;
mod join_chain__pari;
mod cond_simple_join__ser;
mod zero_arity__ser;
mod lag_right__pari;
mod lag_right__u64;
mod lag_three__par;
mod lag_mid__perm2;
mod lag_late_delta__pari;
mod multi_head_rec__exp;
mod sp_dual__mrt;
mod sp_dual__init;
mod sp_weighted__par;
mod longest_capped__topar;
mod set_reach__gen;
mod set_reach__runpar;
mod cp__par;
mod lat_tree__par;
mod lex_lat__par;
mod lat_multi_improve__ser;
mod lat_pre_join__to;
mod lat_input__ser;
mod lat_input__src0;
mod lat_input__srcpar;
mod count_paths__gen;
mod count_paths__runpar;
mod neg_basic__mrt;
mod neg_basic__init;
mod neg_basic__exppar;
mod agg_depth__topar;
mod agg_user__pari;
mod agg_bound_mix__pari;
mod agg_empty_rel__pari;
mod agg_pre_join__ser;
mod disj__run;
mod disj__redecl;
mod disj__exp;
mod pat_args__par;
mod rep_expr__exppar;
mod neg_in_disj__pari;
mod mac_basic__run;
mod mac_basic__redecl;
mod mac_capture__pari;
mod mac_gensym_disj__ser;
mod mac_local_names__exp;
mod mac_disj__par;
mod stress_set__par;
mod rnd_core_02__ser;
mod rnd_core_04__pari;
mod rnd_core_07__par;
mod rnd_core_10__ser;
mod rnd_core_12__pari;
mod rnd_core_15__par;
mod rnd_core_18__ser;
mod rnd_core_20__pari;
mod rnd_core_23__par;
mod rnd_core_26__ser;
mod rnd_core_28__pari;
mod rnd_agg_01__par;
mod rnd_agg_04__ser;
mod rnd_agg_06__pari;
mod rnd_agg_09__par;
mod rnd_agg_12__ser;
mod rnd_agg_14__pari;
mod rnd_prec_01__topar;
mod rnd_prec_03__pari;
mod rnd_prec_05__ser;
mod rnd_prec_06__to;
mod rnd_prec_08__par;
mod rnd_prea_02__par;
mod rnd_prea_05__ser;
mod rnd_prea_07__pari;

fn lookup(name: &str) -> fn() -> Box<dyn Driven> {
   match name {
      "tc_left__pari" => tc_left__pari::make,
      "tc_left__src2" => tc_left__src2::make,
      "tc_left__perm2" => tc_left__perm2::make,
      "tc_nonlin__pari" => tc_nonlin__pari::make,
      "tc_nonlin__u64" => tc_nonlin__u64::make,
      "mutual__mrt" => mutual__mrt::make,
      "mutual__init" => mutual__init::make,
      "mutual__u64" => mutual__u64::make,
      "scc_chain__perm2" => scc_chain__perm2::make,
      "diamond__pari" => diamond__pari::make,
      "repeated__perm2" => repeated__perm2::make,
      "three_dyn__pari" => three_dyn__pari::make,
      "three_dyn__u64" => three_dyn__u64::make,
      "conds__run" => conds__run::make,
      "conds__redecl" => conds__redecl::make,
      "expr_args__ser" => expr_args__ser::make,
      "multi_head__ser" => multi_head__ser::make,
      "multi_head__permpar" => multi_head__permpar::make,
      "facts__src1" => facts__src1::make,
      "facts__perm1" => facts__perm1::make,
      "opt_cols__par" => opt_cols__par::make,
      "opt_cols__srcto" => opt_cols__srcto::make,
      "cartesian__pari" => cartesian__pari::make,
      "same_gen__ren" => same_gen__ren::make,
      "not_reorderable__to" => not_reorderable__to::make,
      "pre_join_rec__pari" => pre_join_rec__pari::make,
      "two_inputs__par" => two_inputs__par::make,
      "two_inputs__src1" => two_inputs__src1::make,
      "two_inputs__perm1" => two_inputs__perm1::make,
      "wild__par" => wild__par::make,
      "ternary__permpar" => ternary__permpar::make,
      "bound_mix__perm2" => bound_mix__perm2::make,
      "join_chain__pari" => join_chain__pari::make,
      "cond_simple_join__ser" => cond_simple_join__ser::make,
      "zero_arity__ser" => zero_arity__ser::make,
      "lag_right__pari" => lag_right__pari::make,
      "lag_right__u64" => lag_right__u64::make,
      "lag_three__par" => lag_three__par::make,
      "lag_mid__perm2" => lag_mid__perm2::make,
      "lag_late_delta__pari" => lag_late_delta__pari::make,
      "multi_head_rec__exp" => multi_head_rec__exp::make,
      "sp_dual__mrt" => sp_dual__mrt::make,
      "sp_dual__init" => sp_dual__init::make,
      "sp_weighted__par" => sp_weighted__par::make,
      "longest_capped__topar" => longest_capped__topar::make,
      "set_reach__gen" => set_reach__gen::make,
      "set_reach__runpar" => set_reach__runpar::make,
      "cp__par" => cp__par::make,
      "lat_tree__par" => lat_tree__par::make,
      "lex_lat__par" => lex_lat__par::make,
      "lat_multi_improve__ser" => lat_multi_improve__ser::make,
      "lat_pre_join__to" => lat_pre_join__to::make,
      "lat_input__ser" => lat_input__ser::make,
      "lat_input__src0" => lat_input__src0::make,
      "lat_input__srcpar" => lat_input__srcpar::make,
      "count_paths__gen" => count_paths__gen::make,
      "count_paths__runpar" => count_paths__runpar::make,
      "neg_basic__mrt" => neg_basic__mrt::make,
      "neg_basic__init" => neg_basic__init::make,
      "neg_basic__exppar" => neg_basic__exppar::make,
      "agg_depth__topar" => agg_depth__topar::make,
      "agg_user__pari" => agg_user__pari::make,
      "agg_bound_mix__pari" => agg_bound_mix__pari::make,
      "agg_empty_rel__pari" => agg_empty_rel__pari::make,
      "agg_pre_join__ser" => agg_pre_join__ser::make,
      "disj__run" => disj__run::make,
      "disj__redecl" => disj__redecl::make,
      "disj__exp" => disj__exp::make,
      "pat_args__par" => pat_args__par::make,
      "rep_expr__exppar" => rep_expr__exppar::make,
      "neg_in_disj__pari" => neg_in_disj__pari::make,
      "mac_basic__run" => mac_basic__run::make,
      "mac_basic__redecl" => mac_basic__redecl::make,
      "mac_capture__pari" => mac_capture__pari::make,
      "mac_gensym_disj__ser" => mac_gensym_disj__ser::make,
      "mac_local_names__exp" => mac_local_names__exp::make,
      "mac_disj__par" => mac_disj__par::make,
      "stress_set__par" => stress_set__par::make,
      "rnd_core_02__ser" => rnd_core_02__ser::make,
      "rnd_core_04__pari" => rnd_core_04__pari::make,
      "rnd_core_07__par" => rnd_core_07__par::make,
      "rnd_core_10__ser" => rnd_core_10__ser::make,
      "rnd_core_12__pari" => rnd_core_12__pari::make,
      "rnd_core_15__par" => rnd_core_15__par::make,
      "rnd_core_18__ser" => rnd_core_18__ser::make,
      "rnd_core_20__pari" => rnd_core_20__pari::make,
      "rnd_core_23__par" => rnd_core_23__par::make,
      "rnd_core_26__ser" => rnd_core_26__ser::make,
      "rnd_core_28__pari" => rnd_core_28__pari::make,
      "rnd_agg_01__par" => rnd_agg_01__par::make,
      "rnd_agg_04__ser" => rnd_agg_04__ser::make,
      "rnd_agg_06__pari" => rnd_agg_06__pari::make,
      "rnd_agg_09__par" => rnd_agg_09__par::make,
      "rnd_agg_12__ser" => rnd_agg_12__ser::make,
      "rnd_agg_14__pari" => rnd_agg_14__pari::make,
      "rnd_prec_01__topar" => rnd_prec_01__topar::make,
      "rnd_prec_03__pari" => rnd_prec_03__pari::make,
      "rnd_prec_05__ser" => rnd_prec_05__ser::make,
      "rnd_prec_06__to" => rnd_prec_06__to::make,
      "rnd_prec_08__par" => rnd_prec_08__par::make,
      "rnd_prea_02__par" => rnd_prea_02__par::make,
      "rnd_prea_05__ser" => rnd_prea_05__ser::make,
      "rnd_prea_07__pari" => rnd_prea_07__pari::make,
      _ => panic!("no such program variant in this shard: {}", name),
   }
}

fn main() {
   quiet_panics();
   let mut out = Out::open();
   let cases = read_cases();
   let mut i = 0;
   while i < cases.len() {
      let case = &cases[i];
      let m = format!("{}__{}", case["prog"].as_str().unwrap(), case["var"].as_str().unwrap());
      if let Some(g) = case["group"].as_i64() {
         // cases of one group run simultaneously
         let mut grp = vec![];
         while i < cases.len() && cases[i]["group"].as_i64() == Some(g) {
            let m = format!("{}__{}", cases[i]["prog"].as_str().unwrap(), cases[i]["var"].as_str().unwrap());
            grp.push((cases[i].clone(), lookup(&m)));
            i += 1;
         }
         drive_group(&grp, &mut out);
      } else {
         drive(case, &mut out, lookup(&m));
         i += 1;
      }
   }
   out.flush();
}
