#![allow(unused_imports, unused_variables, unused_mut, dead_code, non_snake_case, unused_parens, clippy::all)]
use ascent::lattice::bounded_set::BoundedSet;
use ascent::lattice::constant_propagation::ConstPropagation;
use ascent::lattice::set::Set;
use ascent::lattice::Product;
use ascent::{Dual, Lattice};
use vh_lite::{rows_json, Driven, Value};

use vh_lite::{read_cases, drive, drive_group, quiet_panics, Out};

mod tc_left__pari;
mod tc_left__src2;
mod tc_left__ren;
mod tc_nonlin__to;
mod tc_nonlin__strpar;
mod mutual__gen;
mod mutual__srcpar;
mod scc_chain__ser;
mod scc_chain__permpar;
mod consts__par;
mod repeated__permpar;
mod three_dyn__topar;
mod four_dyn__ser;
mod conds__gen;
mod conds__srcpar;
mod count_up__ser;
mod multi_head__to;
mod facts__pari;
mod facts__redecl;
mod facts__str;
mod opt_cols__gen;
mod opt_cols__srcpar;
mod same_gen__topar;
mod not_reorderable__ser;
mod not_reorderable__permpar;
mod pre_join_rec__ren;
mod two_inputs__mrt;
mod two_inputs__runpar;
mod two_inputs__strpar;
mod ternary__perm2;
mod bound_mix__pari;
mod join_chain__ser;
mod join_chain__u64;
mod reach__to;
mod lag_right__ser;
mod lag_right__permpar;
mod lag_left__topar;
mod lag_mid__pari;
mod lag_late_delta__ser;
mod multi_head_rec__to;
mod sp_dual__topar;
mod sp_dual__redecl;
mod sp_weighted__ser;
mod longest_capped__to;
mod set_reach__mrt;
mod set_reach__runpar;
mod cp__par;
mod lex_lat__par;
mod lat_multi_improve__ser;
mod lat_pre_join__to;
mod lat_input__ser;
mod lat_input__src0;
mod count_paths__ser;
mod count_paths__src0;
mod neg_basic__ser;
mod neg_basic__src0;
mod neg_basic__perm1;
mod agg_minmaxsum__pari;
mod agg_lattice__pari;
mod neg_rec_after__pari;
mod agg_empty__pari;
mod agg_const_args__ser;
mod disj__ser;
mod disj__src0;
mod disj__perm1;
mod disj_nested__pari;
mod rep_expr__ser;
mod multi_head_disj__exp;
mod mac_basic__par;
mod mac_basic__src1;
mod mac_basic__exppar;
mod mac_nested__pari;
mod mac_disj__ser;
mod stress_rel__ser;
mod rnd_core_02__pari;
mod rnd_core_05__par;
mod rnd_core_08__ser;
mod rnd_core_10__pari;
mod rnd_core_13__par;
mod rnd_core_16__ser;
mod rnd_core_18__pari;
mod rnd_core_21__par;
mod rnd_core_24__ser;
mod rnd_core_26__pari;
mod rnd_core_29__par;
mod rnd_agg_02__ser;
mod rnd_agg_04__pari;
mod rnd_agg_07__par;
mod rnd_agg_10__ser;
mod rnd_agg_12__pari;
mod rnd_agg_15__par;
mod rnd_prec_02__par;
mod rnd_prec_03__topar;
mod rnd_prec_05__pari;
mod rnd_prec_07__ser;
mod rnd_prec_08__to;
mod rnd_prea_03__ser;
mod rnd_prea_05__pari;
mod rnd_prea_08__par;

fn lookup(name: &str) -> fn() -> Box<dyn Driven> {
   match name {
      "tc_left__pari" => tc_left__pari::make,
      "tc_left__src2" => tc_left__src2::make,
      "tc_left__ren" => tc_left__ren::make,
      "tc_nonlin__to" => tc_nonlin__to::make,
      "tc_nonlin__strpar" => tc_nonlin__strpar::make,
      "mutual__gen" => mutual__gen::make,
      "mutual__srcpar" => mutual__srcpar::make,
      "scc_chain__ser" => scc_chain__ser::make,
      "scc_chain__permpar" => scc_chain__permpar::make,
      "consts__par" => consts__par::make,
      "repeated__permpar" => repeated__permpar::make,
      "three_dyn__topar" => three_dyn__topar::make,
      "four_dyn__ser" => four_dyn__ser::make,
      "conds__gen" => conds__gen::make,
      "conds__srcpar" => conds__srcpar::make,
      "count_up__ser" => count_up__ser::make,
      "multi_head__to" => multi_head__to::make,
      "facts__pari" => facts__pari::make,
      "facts__redecl" => facts__redecl::make,
      "facts__str" => facts__str::make,
      "opt_cols__gen" => opt_cols__gen::make,
      "opt_cols__srcpar" => opt_cols__srcpar::make,
      "same_gen__topar" => same_gen__topar::make,
      "not_reorderable__ser" => not_reorderable__ser::make,
      "not_reorderable__permpar" => not_reorderable__permpar::make,
      "pre_join_rec__ren" => pre_join_rec__ren::make,
      "two_inputs__mrt" => two_inputs__mrt::make,
      "two_inputs__runpar" => two_inputs__runpar::make,
      "two_inputs__strpar" => two_inputs__strpar::make,
      "ternary__perm2" => ternary__perm2::make,
      "bound_mix__pari" => bound_mix__pari::make,
      "join_chain__ser" => join_chain__ser::make,
      "join_chain__u64" => join_chain__u64::make,
      "reach__to" => reach__to::make,
      "lag_right__ser" => lag_right__ser::make,
      "lag_right__permpar" => lag_right__permpar::make,
      "lag_left__topar" => lag_left__topar::make,
      "lag_mid__pari" => lag_mid__pari::make,
      "lag_late_delta__ser" => lag_late_delta__ser::make,
      "multi_head_rec__to" => multi_head_rec__to::make,
      "sp_dual__topar" => sp_dual__topar::make,
      "sp_dual__redecl" => sp_dual__redecl::make,
      "sp_weighted__ser" => sp_weighted__ser::make,
      "longest_capped__to" => longest_capped__to::make,
      "set_reach__mrt" => set_reach__mrt::make,
      "set_reach__runpar" => set_reach__runpar::make,
      "cp__par" => cp__par::make,
      "lex_lat__par" => lex_lat__par::make,
      "lat_multi_improve__ser" => lat_multi_improve__ser::make,
      "lat_pre_join__to" => lat_pre_join__to::make,
      "lat_input__ser" => lat_input__ser::make,
      "lat_input__src0" => lat_input__src0::make,
      "count_paths__ser" => count_paths__ser::make,
      "count_paths__src0" => count_paths__src0::make,
      "neg_basic__ser" => neg_basic__ser::make,
      "neg_basic__src0" => neg_basic__src0::make,
      "neg_basic__perm1" => neg_basic__perm1::make,
      "agg_minmaxsum__pari" => agg_minmaxsum__pari::make,
      "agg_lattice__pari" => agg_lattice__pari::make,
      "neg_rec_after__pari" => neg_rec_after__pari::make,
      "agg_empty__pari" => agg_empty__pari::make,
      "agg_const_args__ser" => agg_const_args__ser::make,
      "disj__ser" => disj__ser::make,
      "disj__src0" => disj__src0::make,
      "disj__perm1" => disj__perm1::make,
      "disj_nested__pari" => disj_nested__pari::make,
      "rep_expr__ser" => rep_expr__ser::make,
      "multi_head_disj__exp" => multi_head_disj__exp::make,
      "mac_basic__par" => mac_basic__par::make,
      "mac_basic__src1" => mac_basic__src1::make,
      "mac_basic__exppar" => mac_basic__exppar::make,
      "mac_nested__pari" => mac_nested__pari::make,
      "mac_disj__ser" => mac_disj__ser::make,
      "stress_rel__ser" => stress_rel__ser::make,
      "rnd_core_02__pari" => rnd_core_02__pari::make,
      "rnd_core_05__par" => rnd_core_05__par::make,
      "rnd_core_08__ser" => rnd_core_08__ser::make,
      "rnd_core_10__pari" => rnd_core_10__pari::make,
      "rnd_core_13__par" => rnd_core_13__par::make,
      "rnd_core_16__ser" => rnd_core_16__ser::make,
      "rnd_core_18__pari" => rnd_core_18__pari::make,
      "rnd_core_21__par" => rnd_core_21__par::make,
      "rnd_core_24__ser" => rnd_core_24__ser::make,
      "rnd_core_26__pari" => rnd_core_26__pari::make,
      "rnd_core_29__par" => rnd_core_29__par::make,
      "rnd_agg_02__ser" => rnd_agg_02__ser::make,
      "rnd_agg_04__pari" => rnd_agg_04__pari::make,
      "rnd_agg_07__par" => rnd_agg_07__par::make,
      "rnd_agg_10__ser" => rnd_agg_10__ser::make,
      "rnd_agg_12__pari" => rnd_agg_12__pari::make,
      "rnd_agg_15__par" => rnd_agg_15__par::make,
      "rnd_prec_02__par" => rnd_prec_02__par::make,
      "rnd_prec_03__topar" => rnd_prec_03__topar::make,
      "rnd_prec_05__pari" => rnd_prec_05__pari::make,
      "rnd_prec_07__ser" => rnd_prec_07__ser::make,
      "rnd_prec_08__to" => rnd_prec_08__to::make,
      "rnd_prea_03__ser" => rnd_prea_03__ser::make,
      "rnd_prea_05__pari" => rnd_prea_05__pari::make,
      "rnd_prea_08__par" => rnd_prea_08__par::make,
      _ => panic!("no such program variant in this shard: {}", name),
   }
}

fn main() {
   quiet_panics();
   let mut out = Out::open();
   let cases = read_cases();
   let mut i = 0;
   while i < cases.len() {
      let case = &cases[i];
      let m = format!("{}__{}", case["prog"].as_str().unwrap(), case["var"].as_str().unwrap());
      if let Some(g) = case["group"].as_i64() {
         // cases of one group run simultaneously
         let mut grp = vec![];
         while i < cases.len() && cases[i]["group"].as_i64() == Some(g) {
            let m = format!("{}__{}", cases[i]["prog"].as_str().unwrap(), cases[i]["var"].as_str().unwrap());
            grp.push((cases[i].clone(), lookup(&m)));
            i += 1;
         }
         drive_group(&grp, &mut out);
      } else {
         drive(case, &mut out, lookup(&m));
         i += 1;
      }
   }
   out.flush();
}
