#![allow(unused_imports, unused_variables, unused_mut, dead_code, non_snake_case, unused_parens, clippy::all)]
use ascent::lattice::bounded_set::BoundedSet;
use ascent::lattice::constant_propagation::ConstPropagation;
use ascent::lattice::set::Set;
use ascent::lattice::Product;
use ascent::{Dual, Lattice};
use vh_lite::{rows_json, Driven, Value};

use vh_lite::{read_cases, drive, drive_group, quiet_panics, Out};

mod tc_left__pari;
mod tc_left__src2;
mod tc_left__permpar;
mod tc_nonlin__topar;
mod mutual__ser;
mod mutual__src0;
mod mutual__perm2;
mod scc_chain__pari;
mod scc_chain__u64;
mod repeated__ser;
mod repeated__u64;
mod three_dyn__perm2;
mod four_dyn__pari;
mod conds__src1;
mod conds__ren;
mod count_up__to;
mod multi_head__perm2;
mod facts__gen;
mod facts__perm1;
mod opt_cols__par;
mod opt_cols__redecl;
mod same_gen__par;
mod same_gen__str;
mod two_inputs__pari;
mod two_inputs__src2;
mod two_inputs__permpar;
mod ternary__par;
mod ternary__strpar;
mod bound_mix__str;
mod join_chain__ren;
mod reach__ser;
mod self_join3__ser;
mod lag_right__perm1;
mod lag_left__par;
mod lag_three__topar;
mod lag_mid__str;
mod sp_dual__ser;
mod sp_dual__src0;
mod sp_dual__perm2;
mod longest_capped__ser;
mod set_reach__to;
mod set_reach__redecl;
mod bset__topar;
mod opt_lat__pari;
mod lat_two_keys__par;
mod lat_val_bound__par;
mod count_paths__mrt;
mod count_paths__srcpar;
mod neg_basic__gen;
mod neg_basic__perm1;
mod agg_minmaxsum__pari;
mod agg_lattice__pari;
mod neg_rec_after__pari;
mod agg_empty__pari;
mod agg_const_args__ser;
mod disj__to;
mod disj__redecl;
mod disj__exp;
mod pat_args__par;
mod rep_expr__exppar;
mod neg_in_disj__pari;
mod mac_basic__run;
mod mac_basic__runpar;
mod mac_capture__exppar;
mod mac_gensym_disj__pari;
mod rnd_core_01__ser;
mod rnd_core_03__pari;
mod rnd_core_06__par;
mod rnd_core_09__ser;
mod rnd_core_11__pari;
mod rnd_core_14__par;
mod rnd_core_17__ser;
mod rnd_core_19__pari;
mod rnd_core_22__par;
mod rnd_core_25__ser;
mod rnd_core_27__pari;
mod rnd_core_30__par;
mod rnd_agg_03__ser;
mod rnd_agg_05__pari;
mod rnd_agg_08__par;
mod rnd_agg_11__ser;
mod rnd_agg_13__pari;

fn lookup(name: &str) -> fn() -> Box<dyn Driven> {
   match name {
      "tc_left__pari" => tc_left__pari::make,
      "tc_left__src2" => tc_left__src2::make,
      "tc_left__permpar" => tc_left__permpar::make,
      "tc_nonlin__topar" => tc_nonlin__topar::make,
      "mutual__ser" => mutual__ser::make,
      "mutual__src0" => mutual__src0::make,
      "mutual__perm2" => mutual__perm2::make,
      "scc_chain__pari" => scc_chain__pari::make,
      "scc_chain__u64" => scc_chain__u64::make,
      "repeated__ser" => repeated__ser::make,
      "repeated__u64" => repeated__u64::make,
      "three_dyn__perm2" => three_dyn__perm2::make,
      "four_dyn__pari" => four_dyn__pari::make,
      "conds__src1" => conds__src1::make,
      "conds__ren" => conds__ren::make,
      "count_up__to" => count_up__to::make,
      "multi_head__perm2" => multi_head__perm2::make,
      "facts__gen" => facts__gen::make,
      "facts__perm1" => facts__perm1::make,
      "opt_cols__par" => opt_cols__par::make,
      "opt_cols__redecl" => opt_cols__redecl::make,
      "same_gen__par" => same_gen__par::make,
      "same_gen__str" => same_gen__str::make,
      "two_inputs__pari" => two_inputs__pari::make,
      "two_inputs__src2" => two_inputs__src2::make,
      "two_inputs__permpar" => two_inputs__permpar::make,
      "ternary__par" => ternary__par::make,
      "ternary__strpar" => ternary__strpar::make,
      "bound_mix__str" => bound_mix__str::make,
      "join_chain__ren" => join_chain__ren::make,
      "reach__ser" => reach__ser::make,
      "self_join3__ser" => self_join3__ser::make,
      "lag_right__perm1" => lag_right__perm1::make,
      "lag_left__par" => lag_left__par::make,
      "lag_three__topar" => lag_three__topar::make,
      "lag_mid__str" => lag_mid__str::make,
      "sp_dual__ser" => sp_dual__ser::make,
      "sp_dual__src0" => sp_dual__src0::make,
      "sp_dual__perm2" => sp_dual__perm2::make,
      "longest_capped__ser" => longest_capped__ser::make,
      "set_reach__to" => set_reach__to::make,
      "set_reach__redecl" => set_reach__redecl::make,
      "bset__topar" => bset__topar::make,
      "opt_lat__pari" => opt_lat__pari::make,
      "lat_two_keys__par" => lat_two_keys__par::make,
      "lat_val_bound__par" => lat_val_bound__par::make,
      "count_paths__mrt" => count_paths__mrt::make,
      "count_paths__srcpar" => count_paths__srcpar::make,
      "neg_basic__gen" => neg_basic__gen::make,
      "neg_basic__perm1" => neg_basic__perm1::make,
      "agg_minmaxsum__pari" => agg_minmaxsum__pari::make,
      "agg_lattice__pari" => agg_lattice__pari::make,
      "neg_rec_after__pari" => neg_rec_after__pari::make,
      "agg_empty__pari" => agg_empty__pari::make,
      "agg_const_args__ser" => agg_const_args__ser::make,
      "disj__to" => disj__to::make,
      "disj__redecl" => disj__redecl::make,
      "disj__exp" => disj__exp::make,
      "pat_args__par" => pat_args__par::make,
      "rep_expr__exppar" => rep_expr__exppar::make,
      "neg_in_disj__pari" => neg_in_disj__pari::make,
      "mac_basic__run" => mac_basic__run::make,
      "mac_basic__runpar" => mac_basic__runpar::make,
      "mac_capture__exppar" => mac_capture__exppar::make,
      "mac_gensym_disj__pari" => mac_gensym_disj__pari::make,
      "rnd_core_01__ser" => rnd_core_01__ser::make,
      "rnd_core_03__pari" => rnd_core_03__pari::make,
      "rnd_core_06__par" => rnd_core_06__par::make,
      "rnd_core_09__ser" => rnd_core_09__ser::make,
      "rnd_core_11__pari" => rnd_core_11__pari::make,
      "rnd_core_14__par" => rnd_core_14__par::make,
      "rnd_core_17__ser" => rnd_core_17__ser::make,
      "rnd_core_19__pari" => rnd_core_19__pari::make,
      "rnd_core_22__par" => rnd_core_22__par::make,
      "rnd_core_25__ser" => rnd_core_25__ser::make,
      "rnd_core_27__pari" => rnd_core_27__pari::make,
      "rnd_core_30__par" => rnd_core_30__par::make,
      "rnd_agg_03__ser" => rnd_agg_03__ser::make,
      "rnd_agg_05__pari" => rnd_agg_05__pari::make,
      "rnd_agg_08__par" => rnd_agg_08__par::make,
      "rnd_agg_11__ser" => rnd_agg_11__ser::make,
      "rnd_agg_13__pari" => rnd_agg_13__pari::make,
      _ => panic!("no such program variant in this shard: {}", name),
   }
}

fn main() {
   quiet_panics();
   let mut out = Out::open();
   let cases = read_cases();
   let mut i = 0;
   while i < cases.len() {
      let case = &cases[i];
      let m = format!("{}__{}", case["prog"].as_str().unwrap(), case["var"].as_str().unwrap());
      if let Some(g) = case["group"].as_i64() {
         // cases of one group run simultaneously
         let mut grp = vec![];
         while i < cases.len() && cases[i]["group"].as_i64() == Some(g) {
            let m = format!("{}__{}", cases[i]["prog"].as_str().unwrap(), cases[i]["var"].as_str().unwrap());
            grp.push((cases[i].clone(), lookup(&m)));
            i += 1;
         }
         drive_group(&grp, &mut out);
      } else {
         drive(case, &mut out, lookup(&m));
         i += 1;
      }
   }
   out.flush();
}
