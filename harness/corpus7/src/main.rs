#![allow(unused_imports, unused_variables, unused_mut, dead_code, non_snake_case, unused_parens, clippy::all)]
use ascent::lattice::bounded_set::BoundedSet;
use ascent::lattice::constant_propagation::ConstPropagation;
use ascent::lattice::set::Set;
use ascent::lattice::Product;
use ascent::{Dual, Lattice};
use vh_lite::{rows_json, Driven, Value};

use vh_lite::{read_cases, drive, drive_group, quiet_panics, Out};

mod tc_left__pari;
mod tc_left__src2;
mod tc_left__ren;
mod tc_nonlin__to;
mod tc_nonlin__strpar;
mod mutual__gen;
mod mutual__srcpar;
mod scc_chain__ser;
mod scc_chain__permpar;
mod consts__par;
mod repeated__permpar;
mod three_dyn__topar;
mod four_dyn__ser;
mod conds__gen;
mod conds__srcpar;
mod count_up__ser;
mod multi_head__to;
mod facts__pari;
mod facts__redecl;
mod facts__str;
mod opt_cols__gen;
mod opt_cols__srcpar;
mod same_gen__topar;
mod not_reorderable__ser;
mod two_inputs__run;
mod two_inputs__init;
mod two_inputs__u64;
mod ternary__perm1;
mod bound_mix__par;
mod bound_mix__strpar;
mod join_chain__str;
mod reach__pari;
mod self_join3__pari;
mod lag_right__ren;
mod lag_left__to;
mod lag_mid__par;
mod lag_mid__strpar;
mod multi_head_rec__pari;
mod sp_dual__to;
mod sp_dual__srcto;
mod sp_dual__permpar;
mod longest_capped__pari;
mod set_reach__run;
mod set_reach__init;
mod cp__ser;
mod lex_lat__ser;
mod lat_two_keys__pari;
mod lat_val_bound__pari;
mod lat_input__gen;
mod lat_input__srcpar;
mod count_paths__gen;
mod count_paths__srcpar;
mod neg_basic__gen;
mod neg_basic__srcpar;
mod agg_minmaxsum__par;
mod agg_lattice__par;
mod neg_rec_after__par;
mod agg_empty__par;
mod agg_empty_rel__topar;
mod disj__pari;
mod disj__src2;
mod disj__ren;
mod disj_nested__exppar;
mod rep_expr__pari;
mod neg_in_disj__ser;
mod mac_basic__to;
mod mac_basic__srcto;
mod mac_capture__par;
mod mac_nested__exppar;
mod mac_disj__pari;
mod rnd_core_02__pari;
mod rnd_core_05__par;
mod rnd_core_08__ser;
mod rnd_core_10__pari;
mod rnd_core_13__par;
mod rnd_core_16__ser;
mod rnd_core_18__pari;
mod rnd_core_21__par;
mod rnd_core_24__ser;
mod rnd_core_26__pari;
mod rnd_core_29__par;
mod rnd_agg_02__ser;
mod rnd_agg_04__pari;
mod rnd_agg_07__par;
mod rnd_agg_10__ser;
mod rnd_agg_12__pari;
mod rnd_agg_15__par;

fn lookup(name: &str) -> fn() -> Box<dyn Driven> {
   match name {
      "tc_left__pari" => tc_left__pari::make,
      "tc_left__src2" => tc_left__src2::make,
      "tc_left__ren" => tc_left__ren::make,
      "tc_nonlin__to" => tc_nonlin__to::make,
      "tc_nonlin__strpar" => tc_nonlin__strpar::make,
      "mutual__gen" => mutual__gen::make,
      "mutual__srcpar" => mutual__srcpar::make,
      "scc_chain__ser" => scc_chain__ser::make,
      "scc_chain__permpar" => scc_chain__permpar::make,
      "consts__par" => consts__par::make,
      "repeated__permpar" => repeated__permpar::make,
      "three_dyn__topar" => three_dyn__topar::make,
      "four_dyn__ser" => four_dyn__ser::make,
      "conds__gen" => conds__gen::make,
      "conds__srcpar" => conds__srcpar::make,
      "count_up__ser" => count_up__ser::make,
      "multi_head__to" => multi_head__to::make,
      "facts__pari" => facts__pari::make,
      "facts__redecl" => facts__redecl::make,
      "facts__str" => facts__str::make,
      "opt_cols__gen" => opt_cols__gen::make,
      "opt_cols__srcpar" => opt_cols__srcpar::make,
      "same_gen__topar" => same_gen__topar::make,
      "not_reorderable__ser" => not_reorderable__ser::make,
      "two_inputs__run" => two_inputs__run::make,
      "two_inputs__init" => two_inputs__init::make,
      "two_inputs__u64" => two_inputs__u64::make,
      "ternary__perm1" => ternary__perm1::make,
      "bound_mix__par" => bound_mix__par::make,
      "bound_mix__strpar" => bound_mix__strpar::make,
      "join_chain__str" => join_chain__str::make,
      "reach__pari" => reach__pari::make,
      "self_join3__pari" => self_join3__pari::make,
      "lag_right__ren" => lag_right__ren::make,
      "lag_left__to" => lag_left__to::make,
      "lag_mid__par" => lag_mid__par::make,
      "lag_mid__strpar" => lag_mid__strpar::make,
      "multi_head_rec__pari" => multi_head_rec__pari::make,
      "sp_dual__to" => sp_dual__to::make,
      "sp_dual__srcto" => sp_dual__srcto::make,
      "sp_dual__permpar" => sp_dual__permpar::make,
      "longest_capped__pari" => longest_capped__pari::make,
      "set_reach__run" => set_reach__run::make,
      "set_reach__init" => set_reach__init::make,
      "cp__ser" => cp__ser::make,
      "lex_lat__ser" => lex_lat__ser::make,
      "lat_two_keys__pari" => lat_two_keys__pari::make,
      "lat_val_bound__pari" => lat_val_bound__pari::make,
      "lat_input__gen" => lat_input__gen::make,
      "lat_input__srcpar" => lat_input__srcpar::make,
      "count_paths__gen" => count_paths__gen::make,
      "count_paths__srcpar" => count_paths__srcpar::make,
      "neg_basic__gen" => neg_basic__gen::make,
      "neg_basic__srcpar" => neg_basic__srcpar::make,
      "agg_minmaxsum__par" => agg_minmaxsum__par::make,
      "agg_lattice__par" => agg_lattice__par::make,
      "neg_rec_after__par" => neg_rec_after__par::make,
      "agg_empty__par" => agg_empty__par::make,
      "agg_empty_rel__topar" => agg_empty_rel__topar::make,
      "disj__pari" => disj__pari::make,
      "disj__src2" => disj__src2::make,
      "disj__ren" => disj__ren::make,
      "disj_nested__exppar" => disj_nested__exppar::make,
      "rep_expr__pari" => rep_expr__pari::make,
      "neg_in_disj__ser" => neg_in_disj__ser::make,
      "mac_basic__to" => mac_basic__to::make,
      "mac_basic__srcto" => mac_basic__srcto::make,
      "mac_capture__par" => mac_capture__par::make,
      "mac_nested__exppar" => mac_nested__exppar::make,
      "mac_disj__pari" => mac_disj__pari::make,
      "rnd_core_02__pari" => rnd_core_02__pari::make,
      "rnd_core_05__par" => rnd_core_05__par::make,
      "rnd_core_08__ser" => rnd_core_08__ser::make,
      "rnd_core_10__pari" => rnd_core_10__pari::make,
      "rnd_core_13__par" => rnd_core_13__par::make,
      "rnd_core_16__ser" => rnd_core_16__ser::make,
      "rnd_core_18__pari" => rnd_core_18__pari::make,
      "rnd_core_21__par" => rnd_core_21__par::make,
      "rnd_core_24__ser" => rnd_core_24__ser::make,
      "rnd_core_26__pari" => rnd_core_26__pari::make,
      "rnd_core_29__par" => rnd_core_29__par::make,
      "rnd_agg_02__ser" => rnd_agg_02__ser::make,
      "rnd_agg_04__pari" => rnd_agg_04__pari::make,
      "rnd_agg_07__par" => rnd_agg_07__par::make,
      "rnd_agg_10__ser" => rnd_agg_10__ser::make,
      "rnd_agg_12__pari" => rnd_agg_12__pari::make,
      "rnd_agg_15__par" => rnd_agg_15__par::make,
      _ => panic!("no such program variant in this shard: {}", name),
   }
}

fn main() {
   quiet_panics();
   let mut out = Out::open();
   let cases = read_cases();
   let mut i = 0;
   while i < cases.len() {
      let case = &cases[i];
      let m = format!("{}__{}", case["prog"].as_str().unwrap(), case["var"].as_str().unwrap());
      if let Some(g) = case["group"].as_i64() {
         // cases of one group run simultaneously
         let mut grp = vec![];
         while i < cases.len() && cases[i]["group"].as_i64() == Some(g) {
            let m = format!("{}__{}", cases[i]["prog"].as_str().unwrap(), cases[i]["var"].as_str().unwrap());
            grp.push((cases[i].clone(), lookup(&m)));
            i += 1;
         }
         drive_group(&grp, &mut out);
      } else {
         drive(case, &mut out, lookup(&m));
         i += 1;
      }
   }
   out.flush();
}
