#![allow(unused_imports, unused_variables, unused_mut, dead_code, non_snake_case, unused_parens, clippy::all)]
use ascent::lattice::bounded_set::BoundedSet;
use ascent::lattice::constant_propagation::ConstPropagation;
use ascent::lattice::set::Set;
use ascent::lattice::Product;
use ascent::{Dual, Lattice};
use vh_lite::{rows_json, Driven, Value};

use vh_lite::{read_cases, drive, drive_group, quiet_panics, Out};

mod tc_left__pari;
mod tc_left__src2;
mod tc_left__srcpar;
mod tc_nonlin__ser;
mod tc_nonlin__permpar;
mod mutual__topar;
mod mutual__srcred;
mod mutual__perm2;
mod scc_chain__pari;
mod scc_chain__u64;
mod repeated__ser;
mod repeated__u64;
mod three_dyn__perm2;
mod four_dyn__pari;
mod conds__src1;
mod conds__runpar;
mod expr_args__pari;
mod multi_head__pari;
mod facts__par;
mod facts__srcto;
mod facts__perm1;
mod opt_cols__par;
mod opt_cols__srcto;
mod cartesian__ser;
mod same_gen__perm1;
mod not_reorderable__par;
mod pre_join_rec__ser;
mod pre_join_rec__permpar;
mod two_inputs__gen;
mod two_inputs__init3;
mod two_inputs__str;
mod ternary__pari;
mod bound_mix__ser;
mod bound_mix__u64;
mod join_chain__permpar;
mod reach__par;
mod self_join3__par;
mod lag_right__perm2;
mod lag_left__pari;
mod lag_mid__ser;
mod lag_mid__u64;
mod multi_head_rec__par;
mod sp_dual__pari;
mod sp_dual__src2;
mod sp_dual__srcpar;
mod sp_weighted__to;
mod set_reach__par;
mod set_reach__src1;
mod set_reach__runpar;
mod cp__par;
mod lat_tree__par;
mod lex_lat__par;
mod lat_multi_improve__ser;
mod lat_pre_join__to;
mod lat_input__ser;
mod lat_input__src0;
mod lat_input__runhead;
mod count_paths__run;
mod count_paths__redecl;
mod neg_basic__pari;
mod neg_basic__src2;
mod neg_basic__srcpar;
mod agg_minmaxsum__par;
mod agg_lattice__par;
mod neg_rec_after__par;
mod agg_empty__par;
mod agg_empty_rel__topar;
mod agg_pre_join__pari;
mod disj__gen;
mod disj__init3;
mod disj__exp;
mod pat_args__par;
mod rep_expr__exppar;
mod neg_in_disj__pari;
mod mac_basic__run;
mod mac_basic__redecl;
mod mac_capture__ser;
mod mac_nested__exp;
mod mac_local_names__par;
mod mac_block__exppar;
mod stress_lat__pari;
mod rnd_core_01__par;
mod rnd_core_04__ser;
mod rnd_core_06__pari;
mod rnd_core_09__par;
mod rnd_core_12__ser;
mod rnd_core_14__pari;
mod rnd_core_17__par;
mod rnd_core_20__ser;
mod rnd_core_22__pari;
mod rnd_core_25__par;
mod rnd_core_28__ser;
mod rnd_core_30__pari;
mod rnd_agg_03__par;
mod rnd_agg_06__ser;
mod rnd_agg_08__pari;
mod rnd_agg_11__par;
mod rnd_agg_14__ser;
mod rnd_prec_01__pari;
mod rnd_prec_03__ser;
mod rnd_prec_04__to;
mod rnd_prec_06__par;
mod rnd_prec_07__topar;
mod rnd_prea_01__pari;
mod rnd_prea_04__par;
mod rnd_prea_07__ser;

fn lookup(name: &str) -> fn() -> Box<dyn Driven> {
   match name {
      "tc_left__pari" => tc_left__pari::make,
      "tc_left__src2" => tc_left__src2::make,
      "tc_left__srcpar" => tc_left__srcpar::make,
      "tc_nonlin__ser" => tc_nonlin__ser::make,
      "tc_nonlin__permpar" => tc_nonlin__permpar::make,
      "mutual__topar" => mutual__topar::make,
      "mutual__srcred" => mutual__srcred::make,
      "mutual__perm2" => mutual__perm2::make,
      "scc_chain__pari" => scc_chain__pari::make,
      "scc_chain__u64" => scc_chain__u64::make,
      "repeated__ser" => repeated__ser::make,
      "repeated__u64" => repeated__u64::make,
      "three_dyn__perm2" => three_dyn__perm2::make,
      "four_dyn__pari" => four_dyn__pari::make,
      "conds__src1" => conds__src1::make,
      "conds__runpar" => conds__runpar::make,
      "expr_args__pari" => expr_args__pari::make,
      "multi_head__pari" => multi_head__pari::make,
      "facts__par" => facts__par::make,
      "facts__srcto" => facts__srcto::make,
      "facts__perm1" => facts__perm1::make,
      "opt_cols__par" => opt_cols__par::make,
      "opt_cols__srcto" => opt_cols__srcto::make,
      "cartesian__ser" => cartesian__ser::make,
      "same_gen__perm1" => same_gen__perm1::make,
      "not_reorderable__par" => not_reorderable__par::make,
      "pre_join_rec__ser" => pre_join_rec__ser::make,
      "pre_join_rec__permpar" => pre_join_rec__permpar::make,
      "two_inputs__gen" => two_inputs__gen::make,
      "two_inputs__init3" => two_inputs__init3::make,
      "two_inputs__str" => two_inputs__str::make,
      "ternary__pari" => ternary__pari::make,
      "bound_mix__ser" => bound_mix__ser::make,
      "bound_mix__u64" => bound_mix__u64::make,
      "join_chain__permpar" => join_chain__permpar::make,
      "reach__par" => reach__par::make,
      "self_join3__par" => self_join3__par::make,
      "lag_right__perm2" => lag_right__perm2::make,
      "lag_left__pari" => lag_left__pari::make,
      "lag_mid__ser" => lag_mid__ser::make,
      "lag_mid__u64" => lag_mid__u64::make,
      "multi_head_rec__par" => multi_head_rec__par::make,
      "sp_dual__pari" => sp_dual__pari::make,
      "sp_dual__src2" => sp_dual__src2::make,
      "sp_dual__srcpar" => sp_dual__srcpar::make,
      "sp_weighted__to" => sp_weighted__to::make,
      "set_reach__par" => set_reach__par::make,
      "set_reach__src1" => set_reach__src1::make,
      "set_reach__runpar" => set_reach__runpar::make,
      "cp__par" => cp__par::make,
      "lat_tree__par" => lat_tree__par::make,
      "lex_lat__par" => lex_lat__par::make,
      "lat_multi_improve__ser" => lat_multi_improve__ser::make,
      "lat_pre_join__to" => lat_pre_join__to::make,
      "lat_input__ser" => lat_input__ser::make,
      "lat_input__src0" => lat_input__src0::make,
      "lat_input__runhead" => lat_input__runhead::make,
      "count_paths__run" => count_paths__run::make,
      "count_paths__redecl" => count_paths__redecl::make,
      "neg_basic__pari" => neg_basic__pari::make,
      "neg_basic__src2" => neg_basic__src2::make,
      "neg_basic__srcpar" => neg_basic__srcpar::make,
      "agg_minmaxsum__par" => agg_minmaxsum__par::make,
      "agg_lattice__par" => agg_lattice__par::make,
      "neg_rec_after__par" => neg_rec_after__par::make,
      "agg_empty__par" => agg_empty__par::make,
      "agg_empty_rel__topar" => agg_empty_rel__topar::make,
      "agg_pre_join__pari" => agg_pre_join__pari::make,
      "disj__gen" => disj__gen::make,
      "disj__init3" => disj__init3::make,
      "disj__exp" => disj__exp::make,
      "pat_args__par" => pat_args__par::make,
      "rep_expr__exppar" => rep_expr__exppar::make,
      "neg_in_disj__pari" => neg_in_disj__pari::make,
      "mac_basic__run" => mac_basic__run::make,
      "mac_basic__redecl" => mac_basic__redecl::make,
      "mac_capture__ser" => mac_capture__ser::make,
      "mac_nested__exp" => mac_nested__exp::make,
      "mac_local_names__par" => mac_local_names__par::make,
      "mac_block__exppar" => mac_block__exppar::make,
      "stress_lat__pari" => stress_lat__pari::make,
      "rnd_core_01__par" => rnd_core_01__par::make,
      "rnd_core_04__ser" => rnd_core_04__ser::make,
      "rnd_core_06__pari" => rnd_core_06__pari::make,
      "rnd_core_09__par" => rnd_core_09__par::make,
      "rnd_core_12__ser" => rnd_core_12__ser::make,
      "rnd_core_14__pari" => rnd_core_14__pari::make,
      "rnd_core_17__par" => rnd_core_17__par::make,
      "rnd_core_20__ser" => rnd_core_20__ser::make,
      "rnd_core_22__pari" => rnd_core_22__pari::make,
      "rnd_core_25__par" => rnd_core_25__par::make,
      "rnd_core_28__ser" => rnd_core_28__ser::make,
      "rnd_core_30__pari" => rnd_core_30__pari::make,
      "rnd_agg_03__par" => rnd_agg_03__par::make,
      "rnd_agg_06__ser" => rnd_agg_06__ser::make,
      "rnd_agg_08__pari" => rnd_agg_08__pari::make,
      "rnd_agg_11__par" => rnd_agg_11__par::make,
      "rnd_agg_14__ser" => rnd_agg_14__ser::make,
      "rnd_prec_01__pari" => rnd_prec_01__pari::make,
      "rnd_prec_03__ser" => rnd_prec_03__ser::make,
      "rnd_prec_04__to" => rnd_prec_04__to::make,
      "rnd_prec_06__par" => rnd_prec_06__par::make,
      "rnd_prec_07__topar" => rnd_prec_07__topar::make,
      "rnd_prea_01__pari" => rnd_prea_01__pari::make,
      "rnd_prea_04__par" => rnd_prea_04__par::make,
      "rnd_prea_07__ser" => rnd_prea_07__ser::make,
      _ => panic!("no such program variant in this shard: {}", name),
   }
}

fn main() {
   quiet_panics();
   let mut out = Out::open();
   let cases = read_cases();
   let mut i = 0;
   while i < cases.len() {
      let case = &cases[i];
      let m = format!("{}__{}", case["prog"].as_str().unwrap(), case["var"].as_str().unwrap());
      if let Some(g) = case["group"].as_i64() {
         // cases of one group run simultaneously
         let mut grp = vec![];
         while i < cases.len() && cases[i]["group"].as_i64() == Some(g) {
            let m = format!("{}__{}", cases[i]["prog"].as_str().unwrap(), cases[i]["var"].as_str().unwrap());
            grp.push((cases[i].clone(), lookup(&m)));
            i += 1;
         }
         drive_group(&grp, &mut out);
      } else {
         drive(case, &mut out, lookup(&m));
         i += 1;
      }
   }
   out.flush();
}
