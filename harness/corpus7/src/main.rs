#![allow(unused_imports, unused_variables, unused_mut, dead_code, non_snake_case, unused_parens, clippy::all)]
use ascent::lattice::bounded_set::BoundedSet;
use ascent::lattice::constant_propagation::ConstPropagation;
use ascent::lattice::set::Set;
use ascent::lattice::Product;
use ascent::{Dual, Lattice};
use vh_lite::{rows_json, Driven, Value};

use vh_lite::{read_cases, drive, drive_group, quiet_panics, Out};

mod tc_left__pari;
mod tc_left__src2;
mod tc_left__perm2;
mod tc_nonlin__pari;
mod tc_nonlin__u64;
mod mutual__mrt;
mod mutual__init;
mod mutual__u64;
mod scc_chain__perm2;
mod diamond__pari;
mod repeated__perm2;
mod three_dyn__pari;
mod three_dyn__u64;
mod conds__run;
mod conds__redecl;
mod expr_args__ser;
mod multi_head__ser;
mod multi_head__permpar;
mod facts__src1;
mod facts__perm1;
mod opt_cols__par;
mod opt_cols__srcto;
mod cartesian__pari;
mod same_gen__ren;
mod not_reorderable__to;
mod pre_join_rec__pari;
mod two_inputs__par;
mod two_inputs__src1;
mod two_inputs__perm1;
mod wild__par;
mod ternary__permpar;
mod bound_mix__perm2;
mod join_chain__pari;
mod cond_simple_join__ser;
mod zero_arity__ser;
mod lag_right__pari;
mod lag_right__u64;
mod lag_three__par;
mod lag_mid__perm2;
mod lag_late_delta__pari;
mod multi_head_rec__exp;
mod sp_dual__mrt;
mod sp_dual__init;
mod sp_weighted__par;
mod longest_capped__topar;
mod set_reach__gen;
mod set_reach__runpar;
mod cp__par;
mod lex_dual_lat__par;
mod lat_two_keys__ser;
mod lat_pre_join__ser;
mod lat_val_bound__ser;
mod lat_input__run;
mod lat_input__redecl;
mod count_paths__topar;
mod count_paths__srcred;
mod neg_basic__to;
mod neg_basic__srcto;
mod neg_basic__ren;
mod agg_depth__par;
mod agg_lattice__topar;
mod neg_rec_after__exppar;
mod agg_empty__topar;
mod agg_const_args__pari;
mod disj__pari;
mod disj__src2;
mod disj__perm2;
mod disj_nested__exp;
mod rep_expr__par;
mod multi_head_disj__exppar;
mod mac_basic__pari;
mod mac_basic__src2;
mod mac_basic__exppar;
mod mac_nested__pari;
mod mac_local_names__ser;
mod mac_block__exp;
mod stress_lat__par;
mod rnd_core_01__ser;
mod rnd_core_03__pari;
mod rnd_core_06__par;
mod rnd_core_09__ser;
mod rnd_core_11__pari;
mod rnd_core_14__par;
mod rnd_core_17__ser;
mod rnd_core_19__pari;
mod rnd_core_22__par;
mod rnd_core_25__ser;
mod rnd_core_27__pari;
mod rnd_core_30__par;
mod rnd_agg_03__ser;
mod rnd_agg_05__pari;
mod rnd_agg_08__par;
mod rnd_agg_11__ser;
mod rnd_agg_13__pari;
mod rnd_prec_01__par;
mod rnd_prec_02__topar;
mod rnd_prec_04__pari;
mod rnd_prec_06__ser;
mod rnd_prec_07__to;
mod rnd_prea_01__par;
mod rnd_prea_04__ser;
mod rnd_prea_06__pari;

fn lookup(name: &str) -> fn() -> Box<dyn Driven> {
   match name {
      "tc_left__pari" => tc_left__pari::make,
      "tc_left__src2" => tc_left__src2::make,
      "tc_left__perm2" => tc_left__perm2::make,
      "tc_nonlin__pari" => tc_nonlin__pari::make,
      "tc_nonlin__u64" => tc_nonlin__u64::make,
      "mutual__mrt" => mutual__mrt::make,
      "mutual__init" => mutual__init::make,
      "mutual__u64" => mutual__u64::make,
      "scc_chain__perm2" => scc_chain__perm2::make,
      "diamond__pari" => diamond__pari::make,
      "repeated__perm2" => repeated__perm2::make,
      "three_dyn__pari" => three_dyn__pari::make,
      "three_dyn__u64" => three_dyn__u64::make,
      "conds__run" => conds__run::make,
      "conds__redecl" => conds__redecl::make,
      "expr_args__ser" => expr_args__ser::make,
      "multi_head__ser" => multi_head__ser::make,
      "multi_head__permpar" => multi_head__permpar::make,
      "facts__src1" => facts__src1::make,
      "facts__perm1" => facts__perm1::make,
      "opt_cols__par" => opt_cols__par::make,
      "opt_cols__srcto" => opt_cols__srcto::make,
      "cartesian__pari" => cartesian__pari::make,
      "same_gen__ren" => same_gen__ren::make,
      "not_reorderable__to" => not_reorderable__to::make,
      "pre_join_rec__pari" => pre_join_rec__pari::make,
      "two_inputs__par" => two_inputs__par::make,
      "two_inputs__src1" => two_inputs__src1::make,
      "two_inputs__perm1" => two_inputs__perm1::make,
      "wild__par" => wild__par::make,
      "ternary__permpar" => ternary__permpar::make,
      "bound_mix__perm2" => bound_mix__perm2::make,
      "join_chain__pari" => join_chain__pari::make,
      "cond_simple_join__ser" => cond_simple_join__ser::make,
      "zero_arity__ser" => zero_arity__ser::make,
      "lag_right__pari" => lag_right__pari::make,
      "lag_right__u64" => lag_right__u64::make,
      "lag_three__par" => lag_three__par::make,
      "lag_mid__perm2" => lag_mid__perm2::make,
      "lag_late_delta__pari" => lag_late_delta__pari::make,
      "multi_head_rec__exp" => multi_head_rec__exp::make,
      "sp_dual__mrt" => sp_dual__mrt::make,
      "sp_dual__init" => sp_dual__init::make,
      "sp_weighted__par" => sp_weighted__par::make,
      "longest_capped__topar" => longest_capped__topar::make,
      "set_reach__gen" => set_reach__gen::make,
      "set_reach__runpar" => set_reach__runpar::make,
      "cp__par" => cp__par::make,
      "lex_dual_lat__par" => lex_dual_lat__par::make,
      "lat_two_keys__ser" => lat_two_keys__ser::make,
      "lat_pre_join__ser" => lat_pre_join__ser::make,
      "lat_val_bound__ser" => lat_val_bound__ser::make,
      "lat_input__run" => lat_input__run::make,
      "lat_input__redecl" => lat_input__redecl::make,
      "count_paths__topar" => count_paths__topar::make,
      "count_paths__srcred" => count_paths__srcred::make,
      "neg_basic__to" => neg_basic__to::make,
      "neg_basic__srcto" => neg_basic__srcto::make,
      "neg_basic__ren" => neg_basic__ren::make,
      "agg_depth__par" => agg_depth__par::make,
      "agg_lattice__topar" => agg_lattice__topar::make,
      "neg_rec_after__exppar" => neg_rec_after__exppar::make,
      "agg_empty__topar" => agg_empty__topar::make,
      "agg_const_args__pari" => agg_const_args__pari::make,
      "disj__pari" => disj__pari::make,
      "disj__src2" => disj__src2::make,
      "disj__perm2" => disj__perm2::make,
      "disj_nested__exp" => disj_nested__exp::make,
      "rep_expr__par" => rep_expr__par::make,
      "multi_head_disj__exppar" => multi_head_disj__exppar::make,
      "mac_basic__pari" => mac_basic__pari::make,
      "mac_basic__src2" => mac_basic__src2::make,
      "mac_basic__exppar" => mac_basic__exppar::make,
      "mac_nested__pari" => mac_nested__pari::make,
      "mac_local_names__ser" => mac_local_names__ser::make,
      "mac_block__exp" => mac_block__exp::make,
      "stress_lat__par" => stress_lat__par::make,
      "rnd_core_01__ser" => rnd_core_01__ser::make,
      "rnd_core_03__pari" => rnd_core_03__pari::make,
      "rnd_core_06__par" => rnd_core_06__par::make,
      "rnd_core_09__ser" => rnd_core_09__ser::make,
      "rnd_core_11__pari" => rnd_core_11__pari::make,
      "rnd_core_14__par" => rnd_core_14__par::make,
      "rnd_core_17__ser" => rnd_core_17__ser::make,
      "rnd_core_19__pari" => rnd_core_19__pari::make,
      "rnd_core_22__par" => rnd_core_22__par::make,
      "rnd_core_25__ser" => rnd_core_25__ser::make,
      "rnd_core_27__pari" => rnd_core_27__pari::make,
      "rnd_core_30__par" => rnd_core_30__par::make,
      "rnd_agg_03__ser" => rnd_agg_03__ser::make,
      "rnd_agg_05__pari" => rnd_agg_05__pari::make,
      "rnd_agg_08__par" => rnd_agg_08__par::make,
      "rnd_agg_11__ser" => rnd_agg_11__ser::make,
      "rnd_agg_13__pari" => rnd_agg_13__pari::make,
      "rnd_prec_01__par" => rnd_prec_01__par::make,
      "rnd_prec_02__topar" => rnd_prec_02__topar::make,
      "rnd_prec_04__pari" => rnd_prec_04__pari::make,
      "rnd_prec_06__ser" => rnd_prec_06__ser::make,
      "rnd_prec_07__to" => rnd_prec_07__to::make,
      "rnd_prea_01__par" => rnd_prea_01__par::make,
      "rnd_prea_04__ser" => rnd_prea_04__ser::make,
      "rnd_prea_06__pari" => rnd_prea_06__pari::make,
      _ => panic!("no such program variant in this shard: {}", name),
   }
}

fn main() {
   quiet_panics();
   let mut out = Out::open();
   let cases = read_cases();
   let mut i = 0;
   while i < cases.len() {
      let case = &cases[i];
      let m = format!("{}__{}", case["prog"].as_str().unwrap(), case["var"].as_str().unwrap());
      if let Some(g) = case["group"].as_i64() {
         // cases of one group run simultaneously
         let mut grp = vec![];
         while i < cases.len() && cases[i]["group"].as_i64() == Some(g) {
            let m = format!("{}__{}", cases[i]["prog"].as_str().unwrap(), cases[i]["var"].as_str().unwrap());
            grp.push((cases[i].clone(), lookup(&m)));
            i += 1;
         }
         drive_group(&grp, &mut out);
      } else {
         drive(case, &mut out, lookup(&m));
         i += 1;
      }
   }
   out.flush();
}
