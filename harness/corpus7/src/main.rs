#![allow(unused_imports, unused_variables, unused_mut, dead_code, non_snake_case, unused_parens, clippy::all)]
use ascent::lattice::bounded_set::BoundedSet;
use ascent::lattice::constant_propagation::ConstPropagation;
use ascent::lattice::set::Set;
use ascent::lattice::Product;
use ascent::{Dual, Lattice};
use vh_lite::{rows_json, Driven, Value};

use vh_lite::{read_cases, drive, drive_group, quiet_panics, Out};

mod tc_left__pari;
mod tc_left__src2;
mod tc_left__permpar;
mod tc_nonlin__topar;
mod mutual__ser;
mod mutual__src0;
mod mutual__perm2;
mod scc_chain__pari;
mod scc_chain__u64;
mod repeated__ser;
mod repeated__u64;
mod three_dyn__perm2;
mod four_dyn__pari;
mod conds__src1;
mod conds__ren;
mod count_up__to;
mod multi_head__perm2;
mod facts__gen;
mod facts__perm1;
mod opt_cols__par;
mod opt_cols__redecl;
mod same_gen__par;
mod same_gen__str;
mod two_inputs__pari;
mod two_inputs__src2;
mod two_inputs__permpar;
mod ternary__par;
mod ternary__strpar;
mod bound_mix__str;
mod join_chain__ren;
mod reach__ser;
mod self_join3__ser;
mod lag_right__perm1;
mod lag_left__par;
mod lag_three__topar;
mod lag_mid__str;
mod sp_dual__ser;
mod sp_dual__src0;
mod sp_dual__perm2;
mod longest_capped__ser;
mod set_reach__to;
mod set_reach__redecl;
mod cp__par;
mod lex_lat__par;
mod lat_multi_improve__ser;
mod count_paths__ser;
mod count_paths__src0;
mod neg_basic__par;
mod neg_basic__src1;
mod neg_basic__ren;
mod agg_depth__par;
mod agg_lattice__topar;
mod neg_rec_after__exppar;
mod agg_empty__topar;
mod agg_const_args__pari;
mod disj__run;
mod disj__runpar;
mod disj_nested__ser;
mod pat_args__exp;
mod multi_head_disj__par;
mod neg_in_disj__exppar;
mod mac_basic__gen;
mod mac_basic__exp;
mod mac_nested__par;
mod mac_gensym_disj__exppar;

fn lookup(name: &str) -> fn() -> Box<dyn Driven> {
   match name {
      "tc_left__pari" => tc_left__pari::make,
      "tc_left__src2" => tc_left__src2::make,
      "tc_left__permpar" => tc_left__permpar::make,
      "tc_nonlin__topar" => tc_nonlin__topar::make,
      "mutual__ser" => mutual__ser::make,
      "mutual__src0" => mutual__src0::make,
      "mutual__perm2" => mutual__perm2::make,
      "scc_chain__pari" => scc_chain__pari::make,
      "scc_chain__u64" => scc_chain__u64::make,
      "repeated__ser" => repeated__ser::make,
      "repeated__u64" => repeated__u64::make,
      "three_dyn__perm2" => three_dyn__perm2::make,
      "four_dyn__pari" => four_dyn__pari::make,
      "conds__src1" => conds__src1::make,
      "conds__ren" => conds__ren::make,
      "count_up__to" => count_up__to::make,
      "multi_head__perm2" => multi_head__perm2::make,
      "facts__gen" => facts__gen::make,
      "facts__perm1" => facts__perm1::make,
      "opt_cols__par" => opt_cols__par::make,
      "opt_cols__redecl" => opt_cols__redecl::make,
      "same_gen__par" => same_gen__par::make,
      "same_gen__str" => same_gen__str::make,
      "two_inputs__pari" => two_inputs__pari::make,
      "two_inputs__src2" => two_inputs__src2::make,
      "two_inputs__permpar" => two_inputs__permpar::make,
      "ternary__par" => ternary__par::make,
      "ternary__strpar" => ternary__strpar::make,
      "bound_mix__str" => bound_mix__str::make,
      "join_chain__ren" => join_chain__ren::make,
      "reach__ser" => reach__ser::make,
      "self_join3__ser" => self_join3__ser::make,
      "lag_right__perm1" => lag_right__perm1::make,
      "lag_left__par" => lag_left__par::make,
      "lag_three__topar" => lag_three__topar::make,
      "lag_mid__str" => lag_mid__str::make,
      "sp_dual__ser" => sp_dual__ser::make,
      "sp_dual__src0" => sp_dual__src0::make,
      "sp_dual__perm2" => sp_dual__perm2::make,
      "longest_capped__ser" => longest_capped__ser::make,
      "set_reach__to" => set_reach__to::make,
      "set_reach__redecl" => set_reach__redecl::make,
      "cp__par" => cp__par::make,
      "lex_lat__par" => lex_lat__par::make,
      "lat_multi_improve__ser" => lat_multi_improve__ser::make,
      "count_paths__ser" => count_paths__ser::make,
      "count_paths__src0" => count_paths__src0::make,
      "neg_basic__par" => neg_basic__par::make,
      "neg_basic__src1" => neg_basic__src1::make,
      "neg_basic__ren" => neg_basic__ren::make,
      "agg_depth__par" => agg_depth__par::make,
      "agg_lattice__topar" => agg_lattice__topar::make,
      "neg_rec_after__exppar" => neg_rec_after__exppar::make,
      "agg_empty__topar" => agg_empty__topar::make,
      "agg_const_args__pari" => agg_const_args__pari::make,
      "disj__run" => disj__run::make,
      "disj__runpar" => disj__runpar::make,
      "disj_nested__ser" => disj_nested__ser::make,
      "pat_args__exp" => pat_args__exp::make,
      "multi_head_disj__par" => multi_head_disj__par::make,
      "neg_in_disj__exppar" => neg_in_disj__exppar::make,
      "mac_basic__gen" => mac_basic__gen::make,
      "mac_basic__exp" => mac_basic__exp::make,
      "mac_nested__par" => mac_nested__par::make,
      "mac_gensym_disj__exppar" => mac_gensym_disj__exppar::make,
      _ => panic!("no such program variant in this shard: {}", name),
   }
}

fn main() {
   quiet_panics();
   let mut out = Out::open();
   let cases = read_cases();
   let mut i = 0;
   while i < cases.len() {
      let case = &cases[i];
      let m = format!("{}__{}", case["prog"].as_str().unwrap(), case["var"].as_str().unwrap());
      if let Some(g) = case["group"].as_i64() {
         // cases of one group run simultaneously
         let mut grp = vec![];
         while i < cases.len() && cases[i]["group"].as_i64() == Some(g) {
            let m = format!("{}__{}", cases[i]["prog"].as_str().unwrap(), cases[i]["var"].as_str().unwrap());
            grp.push((cases[i].clone(), lookup(&m)));
            i += 1;
         }
         drive_group(&grp, &mut out);
      } else {
         drive(case, &mut out, lookup(&m));
         i += 1;
      }
   }
   out.flush();
}
