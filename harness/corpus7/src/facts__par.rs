#![allow(unused_imports, unused_variables, unused_mut, dead_code, non_snake_case, unused_parens, clippy::all)]
use ascent::lattice::bounded_set::BoundedSet;
use ascent::lattice::constant_propagation::ConstPropagation;
use ascent::lattice::set::Set;
use ascent::lattice::Product;
use ascent::{Dual, Lattice};
use vh_lite::{rows_json, Driven, Value};
ascent::ascent_par! {
   pub struct Prog;
   relation f(i32, i32);
   relation e(i32, i32);
   relation g(i32, i32);
   relation h(i32);
   f(1, 2);
   f(2, 0);
   g(x, z) <-- f(x, y), e(y, z);
   g(x, z) <-- e(x, y), f(y, z);
   h(7);
   h(x) <-- g(x, _);
}

pub struct D(Prog);
impl Driven for D {
   fn push(&mut self, rel: &str, row: &Value) {
      match rel {
         "f" => { self.0.f.push((row[0].as_i64().unwrap() as i32, row[1].as_i64().unwrap() as i32,)); },
         "e" => { self.0.e.push((row[0].as_i64().unwrap() as i32, row[1].as_i64().unwrap() as i32,)); },
         "g" => { self.0.g.push((row[0].as_i64().unwrap() as i32, row[1].as_i64().unwrap() as i32,)); },
         "h" => { self.0.h.push((row[0].as_i64().unwrap() as i32,)); },
         _ => panic!("verif harness: unknown relation {}", rel),
      }
   }
   fn clear(&mut self, rel: &str) {
      match rel {
         "f" => { self.0.f = Default::default(); },
         "e" => { self.0.e = Default::default(); },
         "g" => { self.0.g = Default::default(); },
         "h" => { self.0.h = Default::default(); },
         _ => panic!("verif harness: unknown relation {}", rel),
      }
   }
   fn run(&mut self) { self.0.run(); }
   fn dump(&self) -> Value {
      let mut m: Vec<(String, Value)> = vec![];
      m.push(("f".to_string(), rows_json(self.0.f.iter())));
      m.push(("e".to_string(), rows_json(self.0.e.iter())));
      m.push(("g".to_string(), rows_json(self.0.g.iter())));
      m.push(("h".to_string(), rows_json(self.0.h.iter())));
      Value::Obj(m)
   }
   fn summary(&self) -> String { Prog::summary().to_string() }
}
pub fn make() -> Box<dyn Driven> { Box::new(D(Prog::default())) }
