#![allow(unused_imports, unused_variables, unused_mut, dead_code, non_snake_case, unused_parens, clippy::all)]
use ascent::lattice::bounded_set::BoundedSet;
use ascent::lattice::constant_propagation::ConstPropagation;
use ascent::lattice::set::Set;
use ascent::lattice::Product;
use ascent::{Dual, Lattice};
use vh_lite::{rows_json, Driven, Value};
ascent::ascent_par! {
   #![inter_rule_parallelism]
   pub struct Prog;
   relation e(i32, i32);
   relation u(i32);
   relation succ(i32);
   relation step(i32);
   relation d(i32, i32);
   succ(x) <-- u(x), u(((*x) + 1));
   step(x) <-- e(x, ((*x) + 1));
   d(x, y) <-- e(x, y), u(((*y) - (*x)));
}

pub struct D(Prog);
impl Driven for D {
   fn push(&mut self, rel: &str, row: &Value) {
      match rel {
         "e" => { self.0.e.push((row[0].as_i64().unwrap() as i32, row[1].as_i64().unwrap() as i32,)); },
         "u" => { self.0.u.push((row[0].as_i64().unwrap() as i32,)); },
         "succ" => { self.0.succ.push((row[0].as_i64().unwrap() as i32,)); },
         "step" => { self.0.step.push((row[0].as_i64().unwrap() as i32,)); },
         "d" => { self.0.d.push((row[0].as_i64().unwrap() as i32, row[1].as_i64().unwrap() as i32,)); },
         _ => panic!("verif harness: unknown relation {}", rel),
      }
   }
   fn clear(&mut self, rel: &str) {
      match rel {
         "e" => { self.0.e = Default::default(); },
         "u" => { self.0.u = Default::default(); },
         "succ" => { self.0.succ = Default::default(); },
         "step" => { self.0.step = Default::default(); },
         "d" => { self.0.d = Default::default(); },
         _ => panic!("verif harness: unknown relation {}", rel),
      }
   }
   fn run(&mut self) { self.0.run(); }
   fn dump(&self) -> Value {
      let mut m: Vec<(String, Value)> = vec![];
      m.push(("e".to_string(), rows_json(self.0.e.iter())));
      m.push(("u".to_string(), rows_json(self.0.u.iter())));
      m.push(("succ".to_string(), rows_json(self.0.succ.iter())));
      m.push(("step".to_string(), rows_json(self.0.step.iter())));
      m.push(("d".to_string(), rows_json(self.0.d.iter())));
      Value::Obj(m)
   }
   fn summary(&self) -> String { Prog::summary().to_string() }
}
pub fn make() -> Box<dyn Driven> { Box::new(D(Prog::default())) }
