//! Replays the vectors printed by TLC from spec/IndexProto.tla through the index building blocks of
//! `ascent::internal` (property C19), and hammers the concurrent ones from several threads.
//!
//! mode `seq` (env IDX_MODE, default): one vector per input line: {kind, hist:[[op,ver,k,v,r],..], ..}.
//!   For every concrete type (and write flavour) of the vector's kind the history is executed through the
//!   public traits the generated code uses -- RelIndexWrite / CRelIndexWrite::index_insert,
//!   RelFullIndexWrite / CRelFullIndexWrite::insert_if_not_present,
//!   RelIndexMerge::merge_delta_to_total_new_to_delta, Freezable::freeze / unfreeze -- and the final
//!   state is read through RelIndexRead, RelIndexReadAll, RelFullIndexRead, CRelIndexRead,
//!   CRelIndexReadAll, for the three versions and for RelIndexCombined::new(&total, &delta).
//!   Discipline for the concurrent types: writes to unfrozen objects only, reads from frozen ones only.
//!   With IDX_PERMS=1 a vector is executed under every renaming of its keys and values (the spec
//!   enumerates canonically named histories); observations are translated back to the vector's names
//!   and equal observations are grouped.  A panic is data.
//! mode `conc`: one configuration per input line {types, threads, rounds, seed, ..}; every round lets N
//!   pool threads insert into ONE shared index after a barrier, under seeded perturbation
//!   (`verif::perturb_arm`, `verif::point`), then freezes and reads back. One output line per round.
use ascent::internal::{
   verif, CLatIndex, CRelFullIndex, CRelFullIndexWrite, CRelIndex, CRelIndexRead, CRelIndexReadAll, CRelIndexWrite,
   CRelNoIndex, Freezable, LatticeIndexType, RelFullIndexRead, RelFullIndexType, RelFullIndexWrite, RelIndexCombined,
   RelIndexMerge, RelIndexRead, RelIndexReadAll, RelIndexType1, RelIndexWrite, RelNoIndexType,
};
use rayon::prelude::*;
use serde_json::{json, Map, Value};
use std::borrow::Borrow;
use std::cell::Cell;
use std::sync::atomic::{AtomicUsize, Ordering};
use vh_core::{guarded, quiet_panics, read_cases, Out};

/// keys of the harness: a 1-tuple (what generated code uses for a one-column index) or `()` (no index)
trait HKey: Clone {
   fn from_i(i: i32) -> Self;
   fn to_i(&self) -> i32;
}
impl HKey for (i32,) {
   fn from_i(i: i32) -> Self { (i,) }
   fn to_i(&self) -> i32 { self.0 }
}
impl HKey for () {
   fn from_i(_: i32) -> Self {}
   fn to_i(&self) -> i32 { 1 }
}

/// a renaming of the vector's keys and values (index 0 unused)
#[derive(Clone, Debug)]
struct Perm {
   k: Vec<i32>,
   v: Vec<usize>,
}
impl Perm {
   fn key(&self, a: i64) -> i32 { self.k[a as usize] }
   fn val(&self, a: i64) -> usize { self.v[a as usize] }
   fn key_back(&self, c: i32) -> i64 { self.k.iter().position(|&x| x == c).map(|p| p as i64).unwrap_or(1000 + c as i64) }
   fn val_back(&self, c: usize) -> i64 { self.v.iter().position(|&x| x == c).map(|p| p as i64).unwrap_or(1000 + c as i64) }
   fn json(&self) -> Value { json!({"k": self.k[1..], "v": self.v[1..]}) }
}

fn permutations(n: usize) -> Vec<Vec<usize>> {
   fn go(cur: &mut Vec<usize>, used: &mut Vec<bool>, n: usize, out: &mut Vec<Vec<usize>>) {
      if cur.len() == n {
         out.push(cur.clone());
         return;
      }
      for i in 1..=n {
         if !used[i] {
            used[i] = true;
            cur.push(i);
            go(cur, used, n, out);
            cur.pop();
            used[i] = false;
         }
      }
   }
   let mut out = vec![];
   go(&mut vec![], &mut vec![false; n + 1], n, &mut out);
   out
}

fn perms(nkeys: usize, nvals: usize, all: bool) -> Vec<Perm> {
   let ident = |n: usize| (1..=n).collect::<Vec<usize>>();
   let kp = if all { permutations(nkeys) } else { vec![ident(nkeys)] };
   let vp = if all { permutations(nvals) } else { vec![ident(nvals)] };
   let mut res = vec![];
   for k in &kp {
      for v in &vp {
         let mut kk = vec![0i32];
         kk.extend(k.iter().map(|&x| x as i32));
         let mut vv = vec![0usize];
         vv.extend(v.iter().copied());
         res.push(Perm { k: kk, v: vv });
      }
   }
   res
}

// ---------------------------------------------------------------------------------------------
// reads

macro_rules! sel {
   (yes, $a:block, $b:block) => { $a };
   (no, $a:block, $b:block) => { $b };
}

/// Everything the read traits say about `$ind` (a reference), in the names of the vector.
macro_rules! read_view {
   ($ind:expr, $K:ty, $akeys:expr, $perm:expr, full = $full:tt, par = $par:tt) => {{
      let ind = $ind;
      let perm: &Perm = $perm;
      let mut o = Map::new();
      let mut get = vec![];
      for &ak in $akeys.iter() {
         let key = <$K as HKey>::from_i(perm.key(ak));
         get.push(match RelIndexRead::index_get(ind, &key) {
            None => Value::Null,
            Some(it) => {
               let mut v: Vec<i64> = it.map(|x| perm.val_back(*Borrow::<usize>::borrow(&x))).collect();
               v.sort();
               json!(v)
            },
         });
      }
      o.insert("get".into(), Value::Array(get));
      let mut all: Vec<(i64, i64)> = vec![];
      for (k, vals) in RelIndexReadAll::iter_all(ind) {
         let ak = perm.key_back(HKey::to_i(Borrow::<$K>::borrow(&k)));
         for x in vals {
            all.push((ak, perm.val_back(*Borrow::<usize>::borrow(&x))));
         }
      }
      all.sort();
      o.insert("all".into(), json!(all));
      o.insert("empty".into(), json!(RelIndexRead::is_empty(ind)));
      o.insert("len".into(), json!(RelIndexRead::len_estimate(ind)));
      sel!($full, {
         let mut has = vec![];
         for &ak in $akeys.iter() {
            let key = <$K as HKey>::from_i(perm.key(ak));
            has.push(RelFullIndexRead::contains_key(ind, &key));
         }
         o.insert("has".into(), json!(has));
      }, {});
      sel!($par, {
         let mut get = vec![];
         for &ak in $akeys.iter() {
            let key = <$K as HKey>::from_i(perm.key(ak));
            get.push(match CRelIndexRead::c_index_get(ind, &key) {
               None => Value::Null,
               Some(it) => {
                  let mut v: Vec<i64> = it.map(|x| perm.val_back(*x)).collect();
                  v.sort();
                  json!(v)
               },
            });
         }
         o.insert("pget".into(), Value::Array(get));
         let mut all: Vec<(i64, i64)> = CRelIndexReadAll::c_iter_all(ind)
            .map(|(k, vals)| {
               let ak = perm.key_back(HKey::to_i(k));
               vals.map(|x| (ak, perm.val_back(*x))).collect::<Vec<(i64, i64)>>()
            })
            .collect::<Vec<_>>()
            .into_iter()
            .flatten()
            .collect();
         all.sort();
         o.insert("pall".into(), json!(all));
      }, {});
      Value::Object(o)
   }};
}

fn hist_of(case: &Value) -> Vec<(String, String, i64, i64)> {
   case["hist"]
      .as_array()
      .expect("hist")
      .iter()
      .map(|h| {
         (h[0].as_str().unwrap().to_string(), h[1].as_str().unwrap().to_string(), h[2].as_i64().unwrap(), h[3].as_i64().unwrap())
      })
      .collect()
}

/// One concrete index type with one write flavour: executes a history, returns the observations.
///   conc:   the type is one of the concurrent ones (Freezable matters)
///   shared: writes go through CRelIndexWrite / CRelFullIndexWrite (`&self`), else through the `&mut` traits
///   full:   the type implements the full-index traits
macro_rules! replay_fn {
   ($name:ident, $T:ty, $K:ty, conc = $conc:tt, shared = $shared:tt, full = $full:tt) => {
      #[allow(unused_mut, unused_variables, unused_assignments)]
      fn $name(hist: &[(String, String, i64, i64)], akeys: &[i64], perm: &Perm, step: &Cell<usize>) -> Value {
         let mut new: $T = Default::default();
         let mut delta: $T = Default::default();
         let mut total: $T = Default::default();
         let mut rets: Vec<bool> = vec![];
         let mut frozen = false;
         for (i, (op, ver, k, v)) in hist.iter().enumerate() {
            step.set(i);
            macro_rules! on_ver {
               ($m:ident) => {
                  match ver.as_str() {
                     "new" => $m!(new),
                     "delta" => $m!(delta),
                     "total" => $m!(total),
                     other => panic!("harness: unknown version {other}"),
                  }
               };
            }
            match op.as_str() {
               "ins" => {
                  let key = <$K as HKey>::from_i(perm.key(*k));
                  let val = perm.val(*v);
                  macro_rules! ins {
                     ($x:ident) => {
                        sel!($shared, { CRelIndexWrite::index_insert(&$x, key, val) }, {
                           RelIndexWrite::index_insert(&mut $x, key, val)
                        })
                     };
                  }
                  on_ver!(ins)
               },
               "iinp" => {
                  sel!($full, {
                     let key = <$K as HKey>::from_i(perm.key(*k));
                     let val = perm.val(*v);
                     macro_rules! iinp {
                        ($x:ident) => {
                           sel!($shared, { CRelFullIndexWrite::insert_if_not_present(&$x, &key, val) }, {
                              RelFullIndexWrite::insert_if_not_present(&mut $x, &key, val)
                           })
                        };
                     }
                     let r = on_ver!(iinp);
                     rets.push(r);
                  }, {
                     panic!("harness: insert_if_not_present on a type that is not a full index");
                  })
               },
               "merge" => RelIndexMerge::merge_delta_to_total_new_to_delta(&mut new, &mut delta, &mut total),
               "freeze" => {
                  frozen = true;
                  sel!($conc, {
                     Freezable::freeze(&mut total);
                     Freezable::freeze(&mut delta);
                  }, {})
               },
               "unfreeze" => {
                  frozen = false;
                  sel!($conc, {
                     Freezable::unfreeze(&mut total);
                     Freezable::unfreeze(&mut delta);
                  }, {})
               },
               other => panic!("harness: unknown operation {other}"),
            }
         }
         step.set(hist.len());
         let mut o = Map::new();
         o.insert("rets".into(), json!(rets));
         sel!($conc, {
            if !frozen {
               Freezable::freeze(&mut total);
               Freezable::freeze(&mut delta);
            }
            Freezable::freeze(&mut new);
         }, {});
         let _ = frozen;
         macro_rules! views {
            () => {{
               let mut w = Map::new();
               w.insert("total".into(), read_view!(&total, $K, akeys, perm, full = $full, par = $conc));
               w.insert("delta".into(), read_view!(&delta, $K, akeys, perm, full = $full, par = $conc));
               w.insert("new".into(), read_view!(&new, $K, akeys, perm, full = $full, par = $conc));
               let comb = RelIndexCombined::new(&total, &delta);
               w.insert("comb".into(), read_view!(&comb, $K, akeys, perm, full = no, par = $conc));
               Value::Object(w)
            }};
         }
         let first = views!();
         // freezing and unfreezing preserve contents: once around, read again
         sel!($conc, {
            step.set(hist.len() + 1);
            for x in [&mut total, &mut delta, &mut new] {
               Freezable::unfreeze(x);
            }
            for x in [&mut total, &mut delta, &mut new] {
               Freezable::freeze(x);
            }
            let second = views!();
            o.insert("stable".into(), json!(first == second));
            if first != second {
               o.insert("second".into(), second);
            }
         }, {});
         o.insert("views".into(), first);
         Value::Object(o)
      }
   };
}

type K1 = (i32,);
replay_fn!(run_rel_index_type1, RelIndexType1<K1, usize>, K1, conc = no, shared = no, full = no);
replay_fn!(run_c_rel_index_mut, CRelIndex<K1, usize>, K1, conc = yes, shared = no, full = no);
replay_fn!(run_c_rel_index_shared, CRelIndex<K1, usize>, K1, conc = yes, shared = yes, full = no);
replay_fn!(run_rel_index_type1_unit, RelIndexType1<(), usize>, (), conc = no, shared = no, full = no);
replay_fn!(run_c_rel_no_index_mut, CRelNoIndex<usize>, (), conc = yes, shared = no, full = no);
replay_fn!(run_c_rel_no_index_shared, CRelNoIndex<usize>, (), conc = yes, shared = yes, full = no);
replay_fn!(run_rel_full_index_type, RelFullIndexType<K1, usize>, K1, conc = no, shared = no, full = yes);
replay_fn!(run_c_rel_full_index_mut, CRelFullIndex<K1, usize>, K1, conc = yes, shared = no, full = yes);
replay_fn!(run_c_rel_full_index_shared, CRelFullIndex<K1, usize>, K1, conc = yes, shared = yes, full = yes);
replay_fn!(run_lattice_index_type, LatticeIndexType<K1, usize>, K1, conc = no, shared = no, full = no);
replay_fn!(run_c_lat_index_mut, CLatIndex<K1, usize>, K1, conc = yes, shared = no, full = no);
replay_fn!(run_c_lat_index_shared, CLatIndex<K1, usize>, K1, conc = yes, shared = yes, full = no);

/// RelNoIndexType = Vec<usize> implements RelIndexWrite and RelIndexMerge only; it is read as the
/// vector it is (no Combined view: RelIndexCombined needs the read traits).
fn run_rel_no_index_type(hist: &[(String, String, i64, i64)], _akeys: &[i64], perm: &Perm, step: &Cell<usize>) -> Value {
   let mut new: RelNoIndexType = Default::default();
   let mut delta: RelNoIndexType = Default::default();
   let mut total: RelNoIndexType = Default::default();
   for (i, (op, ver, _k, v)) in hist.iter().enumerate() {
      step.set(i);
      match op.as_str() {
         "ins" => {
            let x = match ver.as_str() {
               "new" => &mut new,
               "delta" => &mut delta,
               "total" => &mut total,
               other => panic!("harness: unknown version {other}"),
            };
            RelIndexWrite::index_insert(x, (), perm.val(*v));
         },
         "merge" => RelIndexMerge::merge_delta_to_total_new_to_delta(&mut new, &mut delta, &mut total),
         "freeze" | "unfreeze" => {},
         other => panic!("harness: operation {other} on RelNoIndexType"),
      }
   }
   step.set(hist.len());
   let view = |x: &RelNoIndexType| {
      let mut v: Vec<i64> = x.iter().map(|&c| perm.val_back(c)).collect();
      v.sort();
      let all: Vec<(i64, i64)> = v.iter().map(|&a| (1, a)).collect();
      json!({"get": [v], "all": all, "empty": x.is_empty(), "len": x.len()})
   };
   json!({"rets": [], "views": {"total": view(&total), "delta": view(&delta), "new": view(&new), "comb": null}})
}

type ReplayFn = fn(&[(String, String, i64, i64)], &[i64], &Perm, &Cell<usize>) -> Value;

fn types_of(kind: &str) -> Vec<(&'static str, ReplayFn)> {
   match kind {
      "multi" => vec![
         ("RelIndexType1", run_rel_index_type1 as ReplayFn),
         ("CRelIndex/mut", run_c_rel_index_mut),
         ("CRelIndex/shared", run_c_rel_index_shared),
      ],
      "noindex" => vec![
         ("RelNoIndexType", run_rel_no_index_type as ReplayFn),
         ("RelIndexType1<()>", run_rel_index_type1_unit),
         ("CRelNoIndex/mut", run_c_rel_no_index_mut),
         ("CRelNoIndex/shared", run_c_rel_no_index_shared),
      ],
      "full" => vec![
         ("RelFullIndexType", run_rel_full_index_type as ReplayFn),
         ("CRelFullIndex/mut", run_c_rel_full_index_mut),
         ("CRelFullIndex/shared", run_c_rel_full_index_shared),
      ],
      "latset" => vec![
         ("LatticeIndexType", run_lattice_index_type as ReplayFn),
         ("CLatIndex/mut", run_c_lat_index_mut),
         ("CLatIndex/shared", run_c_lat_index_shared),
      ],
      other => panic!("unknown kind {other}"),
   }
}

/// Splits an observation into its CORE (what the abstract content determines: results of
/// insert_if_not_present, index_get, iter_all, contains_key -- compared with the vector) and its
/// EXTRAS (is_empty / len_estimate answers, agreement of the parallel readers with the sequential
/// ones, stability under one more unfreeze / freeze).
fn split(obs: Value) -> (Value, Value) {
   if obs.get("panic").is_some() {
      return (obs, json!({}));
   }
   let mut core_views = Map::new();
   let mut empty = vec![];
   let mut len = vec![];
   let mut par = Map::new();
   let mut psame = true;
   let mut has_par = false;
   for name in VIEWS {
      let v = &obs["views"][name];
      if v.is_null() {
         core_views.insert(name.into(), Value::Null);
         empty.push(Value::Null);
         len.push(Value::Null);
         continue;
      }
      let mut c = Map::new();
      c.insert("get".into(), v["get"].clone());
      c.insert("all".into(), v["all"].clone());
      if let Some(h) = v.get("has") {
         c.insert("has".into(), h.clone());
      }
      core_views.insert(name.into(), Value::Object(c));
      empty.push(v["empty"].clone());
      len.push(v["len"].clone());
      if let Some(pg) = v.get("pget") {
         has_par = true;
         if *pg != v["get"] || v["pall"] != v["all"] {
            psame = false;
         }
         par.insert(name.into(), json!({"get": pg, "all": v["pall"]}));
      }
   }
   let core = json!({"rets": obs["rets"], "views": core_views});
   let mut x = Map::new();
   x.insert("empty".into(), Value::Array(empty));
   x.insert("len".into(), Value::Array(len));
   if has_par {
      x.insert("psame".into(), json!(psame));
      if !psame {
         x.insert("par".into(), Value::Object(par));
      }
   }
   if let Some(st) = obs.get("stable") {
      x.insert("stable".into(), st.clone());
      if let Some(sec) = obs.get("second") {
         x.insert("second".into(), sec.clone());
      }
   }
   (core, Value::Object(x))
}

/// the order of the per-view arrays of the extras
const VIEWS: [&str; 4] = ["total", "delta", "new", "comb"];

/// Output for one vector: {"cores": [distinct cores], "types": {type: [{"c": index of the core,
/// "n": number of renamings with this observation, "perm": the first of them, "x": extras}]}}
fn replay_vector(case: &Value, all_perms: bool, nkeys: usize, nvals: usize, only: Option<&str>) -> Value {
   let kind = case["kind"].as_str().expect("kind");
   let hist = hist_of(case);
   let nk = if kind == "noindex" { 1 } else { nkeys };
   let akeys: Vec<i64> = (1..=nk as i64).collect();
   let ps = perms(nk, nvals, all_perms);
   let mut cores: Vec<Value> = vec![];
   let mut res = Map::new();
   for (name, f) in types_of(kind) {
      if let Some(o) = only {
         if o != name {
            continue;
         }
      }
      let mut groups: Vec<(usize, Value, usize, Value)> = vec![];
      for p in &ps {
         let step = Cell::new(0usize);
         let obs = match guarded(|| f(&hist, &akeys, p, &step)) {
            Ok(v) => v,
            Err(m) => json!({"panic": m, "step": step.get()}),
         };
         let (core, x) = split(obs);
         let ci = match cores.iter().position(|c| *c == core) {
            Some(i) => i,
            None => {
               cores.push(core);
               cores.len() - 1
            },
         };
         match groups.iter_mut().find(|g| g.0 == ci && g.1 == x) {
            Some(g) => g.2 += 1,
            None => groups.push((ci, x, 1, p.json())),
         }
      }
      res.insert(
         name.to_string(),
         Value::Array(groups.into_iter().map(|(c, x, n, p)| json!({"c": c, "n": n, "perm": p, "x": x})).collect()),
      );
   }
   json!({"cores": cores, "types": res})
}

fn main_seq(out: &mut Out) {
   let all_perms = std::env::var("IDX_PERMS").map(|v| v == "1").unwrap_or(false);
   let nkeys: usize = std::env::var("IDX_NKEYS").ok().and_then(|v| v.parse().ok()).unwrap_or(2);
   let nvals: usize = std::env::var("IDX_NVALS").ok().and_then(|v| v.parse().ok()).unwrap_or(3);
   let only = std::env::var("IDX_ONLY_TYPE").ok();
   let threads: usize = std::env::var("IDX_THREADS").ok().and_then(|v| v.parse().ok()).unwrap_or(8);
   let cases = read_cases();
   // the replays run on a rayon pool: the merges of the concurrent types are rayon loops themselves,
   // and CRelNoIndex picks its shard by the pool thread it is called from
   let pool = rayon::ThreadPoolBuilder::new().num_threads(threads).build().expect("pool");
   let results: Vec<Value> = pool.install(|| {
      cases.par_iter().map(|case| replay_vector(case, all_perms, nkeys, nvals, only.as_deref())).collect()
   });
   for r in &results {
      out.line(r);
   }
}

// ---------------------------------------------------------------------------------------------
// concurrent rounds

struct Rng(u64);
impl Rng {
   fn next(&mut self) -> u64 {
      self.0 = self.0.wrapping_add(0x9E37_79B9_7F4A_7C15);
      let mut z = self.0;
      z = (z ^ (z >> 30)).wrapping_mul(0xBF58_476D_1CE4_E5B9);
      z = (z ^ (z >> 27)).wrapping_mul(0x94D0_49BB_1331_11EB);
      z ^ (z >> 31)
   }
   fn below(&mut self, n: u64) -> u64 { self.next() % n }
}

/// all threads leave together (spinning, so that they really start at the same time)
struct SpinBarrier {
   n: usize,
   arrived: AtomicUsize,
}
impl SpinBarrier {
   fn new(n: usize) -> Self { SpinBarrier { n, arrived: AtomicUsize::new(0) } }
   fn wait(&self) {
      self.arrived.fetch_add(1, Ordering::SeqCst);
      let mut spins = 0u32;
      while self.arrived.load(Ordering::SeqCst) < self.n {
         spins += 1;
         if spins % 1024 == 0 {
            std::thread::yield_now();
         } else {
            std::hint::spin_loop();
         }
      }
   }
}

/// the inserts of one thread in one round: keys from a small shared set; values partly private to
/// the thread (disjoint), partly from a small shared set (overlapping, also repeated by one thread)
fn plan(rng: &mut Rng, threads: usize, per_thread: usize, nkeys: u64) -> Vec<Vec<(i32, usize)>> {
   (0..threads)
      .map(|t| {
         (0..per_thread)
            .map(|j| {
               let k = rng.below(nkeys) as i32;
               let v = if rng.below(2) == 0 { 100 * (t + 1) + j } else { rng.below(3) as usize };
               (k, v)
            })
            .collect()
      })
      .collect()
}

macro_rules! insert_round {
   ($T:ty, $K:ty, $pool:expr, $plan:expr, $inside:expr, $seed:expr, $keys:expr) => {{
      let pool: &rayon::ThreadPool = $pool;
      let plan: &Vec<Vec<(i32, usize)>> = $plan;
      // where the index value is created decides how a thread-sharded index sizes itself: on the main thread (global
      // pool), on a thread of the inserting pool, or (mode 2) inside a ONE-thread pool, so that every inserting worker
      // maps to the same shard
      let mode: u64 = $inside;
      let mut ind: $T = match mode {
         1 => pool.install(|| Default::default()),
         2 => rayon::ThreadPoolBuilder::new().num_threads(1).build().expect("pool").install(|| Default::default()),
         _ => Default::default(),
      };
      let barrier = SpinBarrier::new(plan.len());
      verif::perturb_arm($seed);
      {
         let ind = &ind;
         pool.broadcast(|ctx| {
            let mine = &plan[ctx.index()];
            barrier.wait();
            for (j, &(k, v)) in mine.iter().enumerate() {
               verif::point(1900 + j as u32);
               CRelIndexWrite::index_insert(ind, <$K as HKey>::from_i(k), v);
            }
         });
      }
      verif::perturb_arm(0);
      Freezable::freeze(&mut ind);
      let ident = Perm { k: (0..64).collect(), v: (0..2048).collect() };
      let akeys: Vec<i64> = $keys;
      read_view!(&ind, $K, akeys, &ident, full = no, par = yes)
   }};
}

fn race_round(pool: &rayon::ThreadPool, threads: usize, race_keys: &[i32], inside: bool, seed: u64) -> Value {
   let mut ind: CRelFullIndex<K1, usize> = if inside { pool.install(Default::default) } else { Default::default() };
   let barrier = SpinBarrier::new(threads);
   verif::perturb_arm(seed);
   let rets: Vec<Vec<bool>> = {
      let ind = &ind;
      pool.broadcast(|ctx| {
         let t = ctx.index();
         let mut r = vec![];
         barrier.wait();
         for (j, &k) in race_keys.iter().enumerate() {
            verif::point(1950 + j as u32);
            // everybody races on key k; the value names the caller
            r.push(CRelFullIndexWrite::insert_if_not_present(ind, &(k,), t + 1));
         }
         // a key of its own: nobody else asks for it
         r.push(CRelFullIndexWrite::insert_if_not_present(ind, &(1000 + t as i32,), t + 1));
         r.push(CRelFullIndexWrite::insert_if_not_present(ind, &(1000 + t as i32,), t + 1));
         r
      })
   };
   verif::perturb_arm(0);
   let cloned_unfrozen: Vec<Option<usize>> = race_keys.iter().map(|&k| ind.get_cloned(&(k,))).collect();
   Freezable::freeze(&mut ind);
   let stored: Vec<Option<usize>> =
      race_keys.iter().map(|&k| RelIndexRead::index_get(&ind, &(k,)).and_then(|mut it| it.next().copied())).collect();
   let has: Vec<bool> = race_keys.iter().map(|&k| RelFullIndexRead::contains_key(&ind, &(k,))).collect();
   let cloned: Vec<Option<usize>> = race_keys.iter().map(|&k| ind.get_cloned(&(k,))).collect();
   let mut all: Vec<(i32, usize)> =
      RelIndexReadAll::iter_all(&ind).flat_map(|(k, vs)| vs.map(move |v| (k.0, v)).collect::<Vec<_>>()).collect();
   all.sort();
   let mut pall: Vec<(i32, usize)> = CRelIndexReadAll::c_iter_all(&ind)
      .map(|(k, vs)| vs.map(|v| (k.0, *v)).collect::<Vec<_>>())
      .collect::<Vec<_>>()
      .into_iter()
      .flatten()
      .collect();
   pall.sort();
   json!({"rets": rets, "stored": stored, "has": has, "cloned": cloned, "cloned_unfrozen": cloned_unfrozen,
          "all": all, "pall": pall, "len": ind.exact_len()})
}

fn main_conc(out: &mut Out) {
   for cfg in read_cases() {
      let rounds = cfg["rounds"].as_u64().expect("rounds");
      let seed = cfg["seed"].as_u64().expect("seed");
      let first_round = cfg["first_round"].as_u64().unwrap_or(0);
      let per_thread = cfg["per_thread"].as_u64().unwrap_or(4) as usize;
      let nkeys = cfg["keys"].as_u64().unwrap_or(3);
      let types: Vec<String> = cfg["types"].as_array().expect("types").iter().map(|v| v.as_str().unwrap().to_string()).collect();
      for n in cfg["threads"].as_array().expect("threads") {
         let n = n.as_u64().unwrap() as usize;
         let pool = rayon::ThreadPoolBuilder::new().num_threads(n).build().expect("pool");
         for ty in &types {
            for round in first_round..first_round + rounds {
               let mut h = 0u64;
               for b in ty.bytes() {
                  h = h.wrapping_mul(131).wrapping_add(b as u64);
               }
               let rseed = (seed.wrapping_mul(0x2545_F491_4F6C_DD1D) ^ h ^ ((n as u64) << 48) ^ round.wrapping_mul(0x9E37_79B9)) | 1;
               let mut rng = Rng(rseed);
               // creation mode of the index: 0 main thread, 1 a thread of the inserting pool, 2 a one-thread pool
               // (bulk round: many inserts per worker, no perturbation, all workers share one shard)
               let inside: u64 = if round % 10 == 9 { 2 } else { round % 2 };
               let per_thread = if inside == 2 { cfg["per_thread_big"].as_u64().unwrap_or(1000) as usize } else { per_thread };
               let rseed_p = if inside == 2 { 0 } else { rseed };
               let mut o = json!({"ty": ty, "threads": n, "round": round, "seed": rseed, "inside": inside});
               let r = match ty.as_str() {
                  "CRelFullIndex" => {
                     let race_keys: Vec<i32> = (0..3).map(|_| rng.below(4) as i32).collect::<std::collections::BTreeSet<_>>().into_iter().collect();
                     o["race_keys"] = json!(race_keys);
                     guarded(|| race_round(&pool, n, &race_keys, inside == 1, rseed))
                  },
                  _ => {
                     let pl = plan(&mut rng, n, per_thread, nkeys);
                     o["plan"] = json!(pl);
                     let keys: Vec<i64> = if ty == "CRelNoIndex" { vec![1] } else { (0..nkeys as i64).collect() };
                     match ty.as_str() {
                        "CRelIndex" => guarded(|| insert_round!(CRelIndex<K1, usize>, K1, &pool, &pl, inside, rseed_p, keys)),
                        "CLatIndex" => guarded(|| insert_round!(CLatIndex<K1, usize>, K1, &pool, &pl, inside, rseed_p, keys)),
                        "CRelNoIndex" => guarded(|| insert_round!(CRelNoIndex<usize>, (), &pool, &pl, inside, rseed_p, keys)),
                        other => panic!("unknown concurrent type {other}"),
                     }
                  },
               };
               verif::perturb_arm(0);
               match r {
                  Ok(v) => o["obs"] = v,
                  Err(m) => o["panic"] = json!(m),
               }
               out.line(&o);
            }
         }
      }
   }
}

fn main() {
   quiet_panics();
   let mut out = Out::open();
   match std::env::var("IDX_MODE").as_deref() {
      Ok("conc") => main_conc(&mut out),
      _ => main_seq(&mut out),
   }
   out.flush();
}
