//! Replays the vectors printed by TLC from spec/LatticeCell.tla through the lattice types shipped with
//! ascent_base. A vector names its type (the table at the bottom fixes the Rust type of each name) and
//! carries the operands in the JSON encoding of spec/Lattices.tla; results go back in the same encoding.
//! Every operation runs under `guarded`: a panic is data.
//!
//! pair vector   {ty,a,b,..}   -> join, meet, join_mut, meet_mut (value + changed flag; with shared and with
//!                                uniquely owned operands, which matters for Rc / Arc), partial_cmp, ==, <=,
//!                                >=, and top / bottom when the type implements BoundedLattice
//! triple vector {ty,a,b,c,..} -> history of a cell that starts at a: join_mut(b), meet_mut(c), join_mut(c);
//!                                join(join(a,b),c); meet(meet(a,b),c)
use ascent::lattice::bounded_set::BoundedSet;
use ascent::lattice::constant_propagation::ConstPropagation;
use ascent::lattice::ord_lattice::OrdLattice;
use ascent::lattice::set::Set;
use ascent::lattice::{BoundedLattice, Dual, Product};
use ascent::Lattice;
use serde_json::{json, Value};
use std::cmp::{Ordering, Reverse};
use std::collections::BTreeSet;
use std::marker::PhantomData;
use std::rc::Rc;
use std::sync::Arc;
use vh_core::{guarded, quiet_panics, read_cases, Out};

/// JSON codec of the value encoding of spec/Lattices.tla
trait J: Sized {
   fn dec(v: &Value) -> Self;
   fn enc(&self) -> Value;
}

impl J for i8 {
   fn dec(v: &Value) -> Self { i8::try_from(v.as_i64().expect("integer expected")).expect("i8 out of range") }
   fn enc(&self) -> Value { json!(*self) }
}
impl J for u8 {
   fn dec(v: &Value) -> Self { u8::try_from(v.as_i64().expect("integer expected")).expect("u8 out of range") }
   fn enc(&self) -> Value { json!(*self) }
}
impl J for bool {
   fn dec(v: &Value) -> Self { v.as_bool().expect("boolean expected") }
   fn enc(&self) -> Value { json!(*self) }
}
impl J for () {
   fn dec(v: &Value) -> Self { assert_eq!(v.as_str(), Some("unit"), "\"unit\" expected") }
   fn enc(&self) -> Value { json!("unit") }
}

impl<T: J> J for Dual<T> {
   fn dec(v: &Value) -> Self { Dual(T::dec(v)) }
   fn enc(&self) -> Value { self.0.enc() }
}
impl<T: J> J for Reverse<T> {
   fn dec(v: &Value) -> Self { Reverse(T::dec(v)) }
   fn enc(&self) -> Value { self.0.enc() }
}
impl<T: J> J for OrdLattice<T> {
   fn dec(v: &Value) -> Self { OrdLattice(T::dec(v)) }
   fn enc(&self) -> Value { self.0.enc() }
}
impl<T: J> J for Box<T> {
   fn dec(v: &Value) -> Self { Box::new(T::dec(v)) }
   fn enc(&self) -> Value { (**self).enc() }
}
impl<T: J> J for Rc<T> {
   fn dec(v: &Value) -> Self { Rc::new(T::dec(v)) }
   fn enc(&self) -> Value { (**self).enc() }
}
impl<T: J> J for Arc<T> {
   fn dec(v: &Value) -> Self { Arc::new(T::dec(v)) }
   fn enc(&self) -> Value { (**self).enc() }
}

impl<T: J> J for Option<T> {
   fn dec(v: &Value) -> Self {
      match v["tag"].as_str() {
         Some("none") => None,
         Some("some") => Some(T::dec(&v["v"])),
         _ => panic!("option expected: {v}"),
      }
   }
   fn enc(&self) -> Value {
      match self {
         None => json!({"tag": "none"}),
         Some(x) => json!({"tag": "some", "v": x.enc()}),
      }
   }
}

impl J for Set<i8> {
   fn dec(v: &Value) -> Self { Set(v.as_array().expect("set expected").iter().map(i8::dec).collect::<BTreeSet<i8>>()) }
   fn enc(&self) -> Value { Value::Array(self.0.iter().map(|x| x.enc()).collect()) }
}

impl<const N: usize> J for BoundedSet<N, i8> {
   fn dec(v: &Value) -> Self {
      if v["top"].as_bool().expect("bounded set expected") {
         BoundedSet::TOP
      } else {
         let s = BoundedSet::from_set(Set::<i8>::dec(&v["s"]));
         assert!(!s.is_top(), "carrier value exceeds the bound: {v}");
         s
      }
   }
   // the representation is private: observe it through is_top / contains / count
   fn enc(&self) -> Value {
      if self.is_top() {
         assert_eq!(self.count(), None);
         json!({"top": true, "s": []})
      } else {
         let elems: Vec<i8> = (i8::MIN..=i8::MAX).filter(|e| self.contains(e)).collect();
         assert_eq!(self.count(), Some(elems.len()));
         json!({"top": false, "s": elems})
      }
   }
}

impl J for ConstPropagation<i8> {
   fn dec(v: &Value) -> Self {
      match v["tag"].as_str() {
         Some("bot") => ConstPropagation::Bottom,
         Some("top") => ConstPropagation::Top,
         Some("const") => ConstPropagation::Constant(i8::dec(&v["v"])),
         _ => panic!("constant propagation value expected: {v}"),
      }
   }
   fn enc(&self) -> Value {
      match self {
         ConstPropagation::Bottom => json!({"tag": "bot"}),
         ConstPropagation::Top => json!({"tag": "top"}),
         ConstPropagation::Constant(x) => json!({"tag": "const", "v": x.enc()}),
      }
   }
}

fn arr(v: &Value, n: usize) -> &Vec<Value> {
   let a = v.as_array().expect("tuple expected");
   assert_eq!(a.len(), n, "tuple of length {n} expected: {v}");
   a
}

impl<A: J> J for (A,) {
   fn dec(v: &Value) -> Self { (A::dec(&arr(v, 1)[0]),) }
   fn enc(&self) -> Value { json!([self.0.enc()]) }
}
impl<A: J, B: J> J for (A, B) {
   fn dec(v: &Value) -> Self {
      let a = arr(v, 2);
      (A::dec(&a[0]), B::dec(&a[1]))
   }
   fn enc(&self) -> Value { json!([self.0.enc(), self.1.enc()]) }
}
impl<A: J, B: J, C: J> J for (A, B, C) {
   fn dec(v: &Value) -> Self {
      let a = arr(v, 3);
      (A::dec(&a[0]), B::dec(&a[1]), C::dec(&a[2]))
   }
   fn enc(&self) -> Value { json!([self.0.enc(), self.1.enc(), self.2.enc()]) }
}
impl<T: J, const N: usize> J for [T; N] {
   fn dec(v: &Value) -> Self {
      let a = arr(v, N);
      std::array::from_fn(|i| T::dec(&a[i]))
   }
   fn enc(&self) -> Value { Value::Array(self.iter().map(|x| x.enc()).collect()) }
}
impl<T: J> J for Product<T> {
   fn dec(v: &Value) -> Self { Product(T::dec(v)) }
   fn enc(&self) -> Value { self.0.enc() }
}

// ------------------------------------------------------------------------------------------------
// Does the type implement BoundedLattice?  Answered by the compiler, not by a table: the inherent
// function exists only under the bound and takes precedence over the blanket trait function.
struct Probe<T>(PhantomData<T>);
trait NotBounded {
   fn bounds() -> Option<(Value, Value)> { None }
}
impl<T> NotBounded for Probe<T> {}
impl<T: BoundedLattice + J> Probe<T> {
   fn bounds() -> Option<(Value, Value)> { Some((T::top().enc(), T::bottom().enc())) }
}

// ------------------------------------------------------------------------------------------------
fn res(r: Result<Value, String>) -> Value {
   match r {
      Ok(v) => json!({"ok": v}),
      Err(m) => json!({"panic": m}),
   }
}

fn step<T: J>(x: &T, changed: bool) -> Value { json!({"v": x.enc(), "changed": changed}) }

fn cmp_name(o: Option<Ordering>) -> &'static str {
   match o {
      Some(Ordering::Less) => "lt",
      Some(Ordering::Equal) => "eq",
      Some(Ordering::Greater) => "gt",
      None => "none",
   }
}

fn replay<T: J + Lattice + Clone + PartialEq>(case: &Value, bounds: fn() -> Option<(Value, Value)>) -> Value {
   let dec = |k: &str| T::dec(&case[k]);
   let (a, b) = (dec("a"), dec("b"));
   let mut o = json!({"ty": case["ty"]});
   if case.get("c").is_none() {
      o["join"] = res(guarded(|| a.clone().join(b.clone()).enc()));
      o["meet"] = res(guarded(|| a.clone().meet(b.clone()).enc()));
      // operands shared with other owners (for Rc / Arc: reference count 2)
      o["join_mut"] = res(guarded(|| {
         let mut x = a.clone();
         let ch = x.join_mut(b.clone());
         step(&x, ch)
      }));
      o["meet_mut"] = res(guarded(|| {
         let mut x = a.clone();
         let ch = x.meet_mut(b.clone());
         step(&x, ch)
      }));
      // uniquely owned operands
      o["join_mut_u"] = res(guarded(|| {
         let mut x = dec("a");
         let ch = x.join_mut(dec("b"));
         step(&x, ch)
      }));
      o["meet_mut_u"] = res(guarded(|| {
         let mut x = dec("a");
         let ch = x.meet_mut(dec("b"));
         step(&x, ch)
      }));
      o["cmp"] = res(guarded(|| json!(cmp_name(a.partial_cmp(&b)))));
      o["eq"] = res(guarded(|| json!(a == b)));
      o["le"] = res(guarded(|| json!(a <= b)));
      o["ge"] = res(guarded(|| json!(a >= b)));
      match guarded(bounds) {
         Ok(Some((top, bottom))) => {
            o["bounded"] = json!(true);
            o["top"] = json!({"ok": top});
            o["bottom"] = json!({"ok": bottom});
         },
         Ok(None) => o["bounded"] = json!(false),
         Err(m) => {
            o["bounded"] = json!(true);
            o["top"] = json!({"panic": m});
            o["bottom"] = json!({"panic": m});
         },
      }
   } else {
      let c = dec("c");
      o["hist"] = res(guarded(|| {
         let mut x = a.clone();
         let mut h = vec![];
         let ch = x.join_mut(b.clone());
         h.push(step(&x, ch));
         let ch = x.meet_mut(c.clone());
         h.push(step(&x, ch));
         let ch = x.join_mut(c.clone());
         h.push(step(&x, ch));
         Value::Array(h)
      }));
      o["jj"] = res(guarded(|| a.clone().join(b.clone()).join(c.clone()).enc()));
      o["mm"] = res(guarded(|| a.clone().meet(b.clone()).meet(c.clone()).enc()));
   }
   o
}

macro_rules! table {
   ($($name:literal => $t:ty),* $(,)?) => {
      fn dispatch(name: &str, case: &Value) -> Value {
         match name {
            $($name => replay::<$t>(case, Probe::<$t>::bounds),)*
            _ => json!({"ty": name, "error": "no Rust type of this name in lat-replay"}),
         }
      }
   };
}

type Cp = ConstPropagation<i8>;

// name (as in spec/LatticeCell.tla, operator Types) => Rust type
table! {
   "i8" => i8,
   "u8" => u8,
   "bool" => bool,
   "unit" => (),
   "dual_i8" => Dual<i8>,
   "rev_i8" => Reverse<i8>,
   "dual_dual_i8" => Dual<Dual<i8>>,
   "box_i8" => Box<i8>,
   "rc_i8" => Rc<i8>,
   "arc_i8" => Arc<i8>,
   "ordlat_i8" => OrdLattice<i8>,
   "rc_set" => Rc<Set<i8>>,
   "arc_prod" => Arc<Product<(i8, i8)>>,
   "box_set" => Box<Set<i8>>,
   "opt_i8" => Option<i8>,
   "opt_dual_i8" => Option<Dual<i8>>,
   "dual_opt_i8" => Dual<Option<i8>>,
   "opt_opt" => Option<Option<i8>>,
   "set_i8" => Set<i8>,
   "dual_set" => Dual<Set<i8>>,
   "rev_set" => Reverse<Set<i8>>,
   "bset2" => BoundedSet<2, i8>,
   "bset1" => BoundedSet<1, i8>,
   "bset0" => BoundedSet<0, i8>,
   "dual_bset2" => Dual<BoundedSet<2, i8>>,
   "cp_i8" => Cp,
   "dual_cp" => Dual<Cp>,
   "opt_cp" => Option<Cp>,
   "prod1" => Product<(i8,)>,
   "prod2" => Product<(i8, Dual<i8>)>,
   "prod3" => Product<(bool, i8, Option<i8>)>,
   "prod_set" => Product<(Set<i8>, BoundedSet<1, i8>)>,
   "prod_cp" => Product<(Cp, Cp)>,
   "parr2" => Product<[i8; 2]>,
   "parr3" => Product<[bool; 3]>,
   "lex1" => (i8,),
   "lex2" => (i8, Dual<i8>),
   "lex3" => (bool, i8, Option<i8>),
   "dual_opt_prod" => Dual<Option<Product<(i8, bool)>>>,
}

fn main() {
   quiet_panics();
   let mut out = Out::open();
   for case in read_cases() {
      let name = case["ty"].as_str().expect("vector without type name").to_string();
      out.line(&dispatch(&name, &case));
   }
   out.flush();
}
