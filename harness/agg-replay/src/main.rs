//! Replays the vectors printed by TLC from spec/Aggregators.tla through ascent::aggregators.
//! Each aggregator is called with iterators of exact, inexact and absent size hints; a panic is data.
use ascent::aggregators::*;
use serde_json::{json, Value};
use vh_core::{guarded, quiet_panics, read_cases, Out};

struct NoHint<I>(I);
impl<I: Iterator> Iterator for NoHint<I> {
   type Item = I::Item;
   fn next(&mut self) -> Option<I::Item> { self.0.next() }
   fn size_hint(&self) -> (usize, Option<usize>) { (0, None) }
}

fn res<T: serde::Serialize>(r: Result<Vec<T>, String>) -> Value {
   match r {
      Ok(v) => json!({"ok": v}),
      Err(m) => json!({"panic": m}),
   }
}

fn main() {
   quiet_panics();
   let mut out = Out::open();
   for case in read_cases() {
      let input: Vec<i64> = case["input"].as_array().unwrap().iter().map(|v| v.as_i64().unwrap()).collect();
      let input32: Vec<i32> = input.iter().map(|&v| v as i32).collect();
      // narrow columns for `mean`: the mean is defined on the rationals, so it may not depend on whether the SUM fits the
      // column type (i16: the values scaled by 10000, whenever they all fit) nor on the column's own rounding (f32: the value 3
      // stands for 2^24, next to which 1 is below the f32 resolution)
      let input16: Option<Vec<i16>> = input.iter().map(|&v| i16::try_from(v * 10000).ok()).collect();
      let inputf32: Vec<f32> = input.iter().map(|&v| if v == 3 { 16777216.0 } else { v as f32 }).collect();
      let mut o = json!({"input": input});
      // three iterator flavours
      for (flavour, name) in [(0, "exact"), (1, "inexact"), (2, "nohint")] {
         macro_rules! it {
            ($v:expr) => {{
               let b: Box<dyn Iterator<Item = (&_,)>> = match flavour {
                  0 => Box::new($v.iter().map(|x| (x,))),
                  1 => Box::new($v.iter().filter(|_| true).map(|x| (x,))),
                  _ => Box::new(NoHint($v.iter().map(|x| (x,)))),
               };
               b
            }};
         }
         macro_rules! unit_it {
            ($v:expr) => {{
               let b: Box<dyn Iterator<Item = ()>> = match flavour {
                  0 => Box::new($v.iter().map(|_| ())),
                  1 => Box::new($v.iter().filter(|_| true).map(|_| ())),
                  _ => Box::new(NoHint($v.iter().map(|_| ()))),
               };
               b
            }};
         }
         let mut r = json!({});
         r["min"] = res(guarded(|| min(it!(input)).collect::<Vec<i64>>()));
         r["max"] = res(guarded(|| max(it!(input)).collect::<Vec<i64>>()));
         r["sum"] = res(guarded(|| sum(it!(input)).collect::<Vec<i64>>()));
         r["count"] = res(guarded(|| count(unit_it!(input)).collect::<Vec<usize>>()));
         r["mean"] = res(guarded(|| mean(it!(input32)).collect::<Vec<f64>>()));
         r["mean16"] = match &input16 {
            Some(v) => res(guarded(|| mean(it!(v)).collect::<Vec<f64>>())),
            None => Value::Null,
         };
         r["meanf32"] = res(guarded(|| mean(it!(inputf32)).collect::<Vec<f64>>()));
         r["nott"] = res(guarded(|| not(unit_it!(input)).map(|_| 1).collect::<Vec<i32>>()));
         let mut pcts = vec![];
         for p in case["pct"].as_array().unwrap() {
            let pm = p["pm"].as_i64().unwrap();
            let pf = pm as f64 / 10.0;
            pcts.push(json!({"pm": pm, "r": res(guarded(|| percentile(pf)(it!(input)).collect::<Vec<i64>>()))}));
         }
         r["pct"] = Value::Array(pcts);
         o[name] = r;
      }
      out.line(&o);
   }
   out.flush();
}
