#![allow(unused_imports, unused_variables, unused_mut, dead_code, non_snake_case, unused_parens, clippy::all)]
use ascent::lattice::bounded_set::BoundedSet;
use ascent::lattice::constant_propagation::ConstPropagation;
use ascent::lattice::set::Set;
use ascent::lattice::Product;
use ascent::{Dual, Lattice};
use vh_lite::{rows_json, Driven, Value};
ascent::ascent! {
   pub struct Prog;
   relation e_rn(i32, i32);
   relation f_rn(i32, i32);
   relation dom_rn(i32);
   #[ds(ascent_byods_rels::trrel_uf)] relation r_rn(i32, i32);
   relation off_rn(i32, i32);
   relation obf_rn(i32, i32);
   relation ofb_rn(i32, i32);
   relation obb_rn(i32, i32);
   relation two_rn(i32, i32);
   dom_rn(v_x_q) <-- for v_x_q in (0)..(3);
   r_rn(v_x_q, v_y_q) <-- e_rn(v_x_q, v_y_q);
   r_rn(v_y_q, v_x_q) <-- f_rn(v_x_q, v_y_q), e_rn(v_x_q, _);
   off_rn(v_x_q, v_y_q) <-- r_rn(v_x_q, v_y_q);
   obf_rn(v_x_q, v_y_q) <-- dom_rn(v_x_q), r_rn(v_x_q, v_y_q);
   ofb_rn(v_x_q, v_y_q) <-- dom_rn(v_y_q), r_rn(v_x_q, v_y_q);
   obb_rn(v_x_q, v_y_q) <-- dom_rn(v_x_q), dom_rn(v_y_q), r_rn(v_x_q, v_y_q);
   two_rn(v_x_q, v_z_q) <-- r_rn(v_x_q, v_y_q), r_rn(v_y_q, v_z_q), if ((*v_x_q) < (*v_z_q));
}

pub struct D(Prog);
impl Driven for D {
   fn push(&mut self, rel: &str, row: &Value) {
      match rel {
         "e_rn" => { self.0.e_rn.push((row[0].as_i64().unwrap() as i32, row[1].as_i64().unwrap() as i32,)); },
         "f_rn" => { self.0.f_rn.push((row[0].as_i64().unwrap() as i32, row[1].as_i64().unwrap() as i32,)); },
         "dom_rn" => { self.0.dom_rn.push((row[0].as_i64().unwrap() as i32,)); },
         "off_rn" => { self.0.off_rn.push((row[0].as_i64().unwrap() as i32, row[1].as_i64().unwrap() as i32,)); },
         "obf_rn" => { self.0.obf_rn.push((row[0].as_i64().unwrap() as i32, row[1].as_i64().unwrap() as i32,)); },
         "ofb_rn" => { self.0.ofb_rn.push((row[0].as_i64().unwrap() as i32, row[1].as_i64().unwrap() as i32,)); },
         "obb_rn" => { self.0.obb_rn.push((row[0].as_i64().unwrap() as i32, row[1].as_i64().unwrap() as i32,)); },
         "two_rn" => { self.0.two_rn.push((row[0].as_i64().unwrap() as i32, row[1].as_i64().unwrap() as i32,)); },
         _ => panic!("verif harness: unknown relation {}", rel),
      }
   }
   fn clear(&mut self, rel: &str) {
      match rel {
         "e_rn" => { self.0.e_rn = Default::default(); },
         "f_rn" => { self.0.f_rn = Default::default(); },
         "dom_rn" => { self.0.dom_rn = Default::default(); },
         "off_rn" => { self.0.off_rn = Default::default(); },
         "obf_rn" => { self.0.obf_rn = Default::default(); },
         "ofb_rn" => { self.0.ofb_rn = Default::default(); },
         "obb_rn" => { self.0.obb_rn = Default::default(); },
         "two_rn" => { self.0.two_rn = Default::default(); },
         _ => panic!("verif harness: unknown relation {}", rel),
      }
   }
   fn run(&mut self) { self.0.run(); }
   fn dump(&self) -> Value {
      let mut m: Vec<(String, Value)> = vec![];
      m.push(("e_rn".to_string(), rows_json(self.0.e_rn.iter())));
      m.push(("f_rn".to_string(), rows_json(self.0.f_rn.iter())));
      m.push(("dom_rn".to_string(), rows_json(self.0.dom_rn.iter())));
      m.push(("off_rn".to_string(), rows_json(self.0.off_rn.iter())));
      m.push(("obf_rn".to_string(), rows_json(self.0.obf_rn.iter())));
      m.push(("ofb_rn".to_string(), rows_json(self.0.ofb_rn.iter())));
      m.push(("obb_rn".to_string(), rows_json(self.0.obb_rn.iter())));
      m.push(("two_rn".to_string(), rows_json(self.0.two_rn.iter())));
      Value::Obj(m)
   }
   fn summary(&self) -> String { Prog::summary().to_string() }
}
pub fn make() -> Box<dyn Driven> { Box::new(D(Prog::default())) }
