#![allow(unused_imports, unused_variables, unused_mut, dead_code, non_snake_case, unused_parens, clippy::all)]
use ascent::lattice::bounded_set::BoundedSet;
use ascent::lattice::constant_propagation::ConstPropagation;
use ascent::lattice::set::Set;
use ascent::lattice::Product;
use ascent::{Dual, Lattice};
use vh_lite::{rows_json, Driven, Value};
ascent::ascent! {
   pub struct Prog;
   relation obf(i32, i32);
   relation dom(i32);
   relation e(i32, i32);
   #[ds(ascent_byods_rels::trrel_uf)] relation r(i32, i32);
   relation obb(i32, i32);
   relation off(i32, i32);
   relation two(i32, i32);
   relation f(i32, i32);
   relation ofb(i32, i32);
   dom(x) <-- for x in (0)..(3);
   obb(x, y) <-- dom(x), dom(y), r(x, y);
   r(x, y) <-- e(x, y);
   off(x, y) <-- r(x, y);
   r(y, x) <-- e(x, _), f(x, y);
   two(x, z) <-- r(x, y), r(y, z), if ((*x) < (*z));
   ofb(x, y) <-- dom(y), r(x, y);
   obf(x, y) <-- dom(x), r(x, y);
}

pub struct D(Prog);
impl Driven for D {
   fn push(&mut self, rel: &str, row: &Value) {
      match rel {
         "obf" => { self.0.obf.push((row[0].as_i64().unwrap() as i32, row[1].as_i64().unwrap() as i32,)); },
         "dom" => { self.0.dom.push((row[0].as_i64().unwrap() as i32,)); },
         "e" => { self.0.e.push((row[0].as_i64().unwrap() as i32, row[1].as_i64().unwrap() as i32,)); },
         "obb" => { self.0.obb.push((row[0].as_i64().unwrap() as i32, row[1].as_i64().unwrap() as i32,)); },
         "off" => { self.0.off.push((row[0].as_i64().unwrap() as i32, row[1].as_i64().unwrap() as i32,)); },
         "two" => { self.0.two.push((row[0].as_i64().unwrap() as i32, row[1].as_i64().unwrap() as i32,)); },
         "f" => { self.0.f.push((row[0].as_i64().unwrap() as i32, row[1].as_i64().unwrap() as i32,)); },
         "ofb" => { self.0.ofb.push((row[0].as_i64().unwrap() as i32, row[1].as_i64().unwrap() as i32,)); },
         _ => panic!("verif harness: unknown relation {}", rel),
      }
   }
   fn clear(&mut self, rel: &str) {
      match rel {
         "obf" => { self.0.obf = Default::default(); },
         "dom" => { self.0.dom = Default::default(); },
         "e" => { self.0.e = Default::default(); },
         "obb" => { self.0.obb = Default::default(); },
         "off" => { self.0.off = Default::default(); },
         "two" => { self.0.two = Default::default(); },
         "f" => { self.0.f = Default::default(); },
         "ofb" => { self.0.ofb = Default::default(); },
         _ => panic!("verif harness: unknown relation {}", rel),
      }
   }
   fn run(&mut self) { self.0.run(); }
   fn dump(&self) -> Value {
      let mut m: Vec<(String, Value)> = vec![];
      m.push(("obf".to_string(), rows_json(self.0.obf.iter())));
      m.push(("dom".to_string(), rows_json(self.0.dom.iter())));
      m.push(("e".to_string(), rows_json(self.0.e.iter())));
      m.push(("obb".to_string(), rows_json(self.0.obb.iter())));
      m.push(("off".to_string(), rows_json(self.0.off.iter())));
      m.push(("two".to_string(), rows_json(self.0.two.iter())));
      m.push(("f".to_string(), rows_json(self.0.f.iter())));
      m.push(("ofb".to_string(), rows_json(self.0.ofb.iter())));
      Value::Obj(m)
   }
   fn summary(&self) -> String { Prog::summary().to_string() }
}
pub fn make() -> Box<dyn Driven> { Box::new(D(Prog::default())) }
