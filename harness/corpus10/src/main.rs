#![allow(unused_imports, unused_variables, unused_mut, dead_code, non_snake_case, unused_parens, clippy::all)]
use ascent::lattice::bounded_set::BoundedSet;
use ascent::lattice::constant_propagation::ConstPropagation;
use ascent::lattice::set::Set;
use ascent::lattice::Product;
use ascent::{Dual, Lattice};
use vh_lite::{rows_json, Driven, Value};

use vh_lite::{read_cases, drive, drive_group, quiet_panics, Out};

mod trrel_uf_order__ser;
mod trrel_uf_bin__ser;
mod trrel_uf_tern__ser;
mod trrel_uf_only010__ser;
mod trrel_uf_only001__ser;
mod trrel_uf_only011__ser;
mod trrel_uf_plain__ser;
mod trrel_uf_plain__perm1;
mod trrel_uf_plain__perm2;
mod trrel_uf_plain__ren;

fn lookup(name: &str) -> fn() -> Box<dyn Driven> {
   match name {
      "trrel_uf_order__ser" => trrel_uf_order__ser::make,
      "trrel_uf_bin__ser" => trrel_uf_bin__ser::make,
      "trrel_uf_tern__ser" => trrel_uf_tern__ser::make,
      "trrel_uf_only010__ser" => trrel_uf_only010__ser::make,
      "trrel_uf_only001__ser" => trrel_uf_only001__ser::make,
      "trrel_uf_only011__ser" => trrel_uf_only011__ser::make,
      "trrel_uf_plain__ser" => trrel_uf_plain__ser::make,
      "trrel_uf_plain__perm1" => trrel_uf_plain__perm1::make,
      "trrel_uf_plain__perm2" => trrel_uf_plain__perm2::make,
      "trrel_uf_plain__ren" => trrel_uf_plain__ren::make,
      _ => panic!("no such program variant in this shard: {}", name),
   }
}

fn main() {
   quiet_panics();
   let mut out = Out::open();
   let cases = read_cases();
   let mut i = 0;
   while i < cases.len() {
      let case = &cases[i];
      let m = format!("{}__{}", case["prog"].as_str().unwrap(), case["var"].as_str().unwrap());
      if let Some(g) = case["group"].as_i64() {
         // cases of one group run simultaneously
         let mut grp = vec![];
         while i < cases.len() && cases[i]["group"].as_i64() == Some(g) {
            let m = format!("{}__{}", cases[i]["prog"].as_str().unwrap(), cases[i]["var"].as_str().unwrap());
            grp.push((cases[i].clone(), lookup(&m)));
            i += 1;
         }
         drive_group(&grp, &mut out);
      } else {
         drive(case, &mut out, lookup(&m));
         i += 1;
      }
   }
   out.flush();
}
