//! Replays the vectors printed by TLC from spec/UnionFind.tla through the real union-find structures of
//! ascent-byods-rels (property C18).  A vector is one operation history plus what the specification
//! prescribes after it; here the history is applied op by op to a fresh structure, the structure's own
//! consistency checks are called after every step, and after the last step every query is dumped.
//! A panic is data: a panicking operation ends the replay of that history (step and message are
//! recorded); a failed self-check is recorded and the replay goes on.
//!
//! machine "trrel": `TrRelUnionFind<u64>`, two namings of the elements (identity / an order-reversing
//!    injective renaming) -- the renaming exercises the symmetry the canonical enumeration relies on.
//! machine "uf": `uf::UnionFind<u64>`, owned API (`add`, `union_add`) and by-reference API (`add_clone`,
//!    `union_add_clone`), each with `verif_ok()` after every step ("each") and only at the end ("last":
//!    `verif_ok` itself runs `find` with path halving, so calling it changes the forest).
use ascent_byods_rels::trrel_union_find::TrRelUnionFind;
use ascent_byods_rels::uf::UnionFind;
use serde_json::{json, Value};
use vh_core::{guarded, quiet_panics, read_cases, Out};

fn res<T: serde::Serialize>(r: Result<T, String>) -> Value {
   match r {
      Ok(v) => json!({"ok": v}),
      Err(m) => json!({"panic": m}),
   }
}

fn arg(op: &Value, i: usize) -> u64 { op[i].as_u64().expect("bad op argument") }

fn trrel(case: &Value, renamed: bool) -> Value {
   let n = case["n"].as_u64().unwrap();
   let enc = |x: u64| if renamed { (n - 1 - x) * 1_000_003 + 17 } else { x };
   let dec = |v: u64| if renamed { n - 1 - (v - 17) / 1_000_003 } else { v };
   let mut rel = TrRelUnionFind::<u64>::default();
   let mut rets = vec![];
   let mut fail = Value::Null;
   let mut selfchecks = vec![];
   for (i, op) in case["hist"].as_array().unwrap().iter().enumerate() {
      assert_eq!(op[0], "add");
      let (x, y) = (enc(arg(op, 1)), enc(arg(op, 2)));
      match guarded(|| rel.add(x, y)) {
         Ok(b) => rets.push(b),
         Err(m) => {
            fail = json!({"step": i, "what": "add", "msg": m});
            break;
         },
      }
      // a failed self-check is recorded and the replay goes on (the queries show what it means for the answers)
      if let Err(m) = guarded(|| rel.assert_disjoint_invariant()) {
         selfchecks.push(json!({"step": i, "what": "assert_disjoint_invariant", "msg": m}));
      }
      if let Err(m) = guarded(|| rel.assert_set_connections_dominant_sets()) {
         selfchecks.push(json!({"step": i, "what": "assert_set_connections_dominant_sets", "msg": m}));
      }
   }
   let mut o = json!({"fail": fail, "rets": rets, "selfchecks": selfchecks});
   if !o["fail"].is_null() {
      return o;
   }
   let sorted = |mut v: Vec<u64>| {
      v.sort();
      v
   };
   o["contains"] = res(guarded(|| {
      let mut t = vec![];
      for x in 0..n {
         for y in 0..n {
            if rel.contains(&enc(x), &enc(y)) {
               t.push((x, y));
            }
         }
      }
      t
   }));
   o["iter_all"] = res(guarded(|| {
      let mut t: Vec<(u64, u64)> = rel.iter_all().map(|(x, y)| (dec(*x), dec(*y))).collect();
      t.sort();
      t
   }));
   o["set_of"] = res(guarded(|| {
      (0..n).map(|x| rel.set_of(&enc(x)).map(|it| sorted(it.map(|y| dec(*y)).collect()))).collect::<Vec<_>>()
   }));
   o["rev_set_of"] = res(guarded(|| {
      (0..n).map(|x| rel.rev_set_of(&enc(x)).map(|it| sorted(it.map(|y| dec(*y)).collect()))).collect::<Vec<_>>()
   }));
   o["count_exact"] = res(guarded(|| rel.count_exact()));
   o["is_empty"] = res(guarded(|| rel.is_empty()));
   // the queries take &self; the self-checks must still hold afterwards
   o["checks_after_queries"] = res(guarded(|| {
      rel.assert_disjoint_invariant();
      rel.assert_set_connections_dominant_sets();
      true
   }));
   o
}

fn uf(case: &Value, by_ref: bool, check_each: bool) -> Value {
   let n = case["n"].as_u64().unwrap();
   let mut uf = UnionFind::<u64>::default();
   let mut rets = vec![];
   let mut fail = Value::Null;
   let mut selfchecks = vec![];
   for (i, op) in case["hist"].as_array().unwrap().iter().enumerate() {
      let kind = op[0].as_str().unwrap();
      let r = match kind {
         "add" => {
            let x = arg(op, 1);
            guarded(|| if by_ref { uf.add_clone(&x) } else { uf.add(x) })
               .map(|(new, id)| json!({"new": new, "id": format!("{:?}", id)}))
         },
         "find" => {
            let x = arg(op, 1);
            guarded(|| uf.find_item(&x)).map(|id| json!({"id": id.map(|id| format!("{:?}", id))}))
         },
         "union" => {
            let (x, y) = (arg(op, 1), arg(op, 2));
            guarded(|| if by_ref { uf.union_add_clone(&x, &y) } else { uf.union_add(x, y) })
               .map(|id| json!({"id": format!("{:?}", id)}))
         },
         _ => panic!("unknown op {kind}"),
      };
      match r {
         Ok(v) => rets.push(v),
         Err(m) => {
            fail = json!({"step": i, "what": kind, "msg": m});
            break;
         },
      }
      if check_each {
         // a failed self-check is recorded and the replay goes on
         match guarded(|| uf.verif_ok()) {
            Ok(true) => {},
            Ok(false) => selfchecks.push(json!({"step": i, "what": "verif_ok", "msg": "returned false"})),
            Err(m) => selfchecks.push(json!({"step": i, "what": "verif_ok", "msg": format!("panicked: {m}")})),
         }
      }
   }
   let mut o = json!({"fail": fail, "rets": rets, "selfchecks": selfchecks});
   if !o["fail"].is_null() {
      return o;
   }
   if !check_each {
      // the consistency check on the untouched forest this history left behind
      o["ok"] = res(guarded(|| uf.verif_ok()));
   }
   o["len"] = res(guarded(|| uf.len()));
   o["is_empty"] = res(guarded(|| uf.is_empty()));
   o["roots"] = res(guarded(|| {
      (0..n).map(|x| uf.find_item(&x).map(|id| format!("{:?}", id))).collect::<Vec<_>>()
   }));
   // asking again (find_item compresses paths) gives the same answers
   o["roots_again"] = res(guarded(|| {
      (0..n).map(|x| uf.find_item(&x).map(|id| format!("{:?}", id))).collect::<Vec<_>>()
   }));
   o["ok_after_queries"] = res(guarded(|| uf.verif_ok()));
   o
}

/// The id-based public API: `add` hands out ids, `unsafe union(Id, Id)` and `unsafe find(Id)` take them back.
/// The harness keeps the id an item got when it was FIRST added (it is not refreshed: after later unions it is
/// usually not a root any more) and drives unions and finds through those stale ids.
fn uf_ids(case: &Value, check_each: bool) -> Value {
   let n = case["n"].as_u64().unwrap();
   let mut uf = UnionFind::<u64>::default();
   let mut first = std::collections::HashMap::new();
   let mut rets = vec![];
   let mut fail = Value::Null;
   let mut selfchecks = vec![];
   for (i, op) in case["hist"].as_array().unwrap().iter().enumerate() {
      let kind = op[0].as_str().unwrap();
      let r = match kind {
         "add" => {
            let x = arg(op, 1);
            guarded(|| {
               let (new, id) = uf.add(x);
               first.entry(x).or_insert(id);
               (new, id)
            })
            .map(|(new, id)| json!({"new": new, "id": format!("{:?}", id)}))
         },
         "find" => {
            let x = arg(op, 1);
            guarded(|| first.get(&x).map(|id| unsafe { uf.find(*id) }))
               .map(|id| json!({"id": id.map(|id| format!("{:?}", id))}))
         },
         "union" => {
            let (x, y) = (arg(op, 1), arg(op, 2));
            guarded(|| {
               let (_, idx) = uf.add(x);
               let idx = *first.entry(x).or_insert(idx);
               let (_, idy) = uf.add(y);
               let idy = *first.entry(y).or_insert(idy);
               unsafe { uf.union(idx, idy) }
            })
            .map(|id| json!({"id": format!("{:?}", id)}))
         },
         _ => panic!("unknown op {kind}"),
      };
      match r {
         Ok(v) => rets.push(v),
         Err(m) => {
            fail = json!({"step": i, "what": kind, "msg": m});
            break;
         },
      }
      if check_each {
         match guarded(|| uf.verif_ok()) {
            Ok(true) => {},
            Ok(false) => selfchecks.push(json!({"step": i, "what": "verif_ok", "msg": "returned false"})),
            Err(m) => selfchecks.push(json!({"step": i, "what": "verif_ok", "msg": format!("panicked: {m}")})),
         }
      }
   }
   let mut o = json!({"fail": fail, "rets": rets, "selfchecks": selfchecks});
   if !o["fail"].is_null() {
      return o;
   }
   if !check_each {
      o["ok"] = res(guarded(|| uf.verif_ok()));
   }
   o["len"] = res(guarded(|| uf.len()));
   o["is_empty"] = res(guarded(|| uf.is_empty()));
   // classes seen through find(stale id) ...
   o["roots"] = res(guarded(|| {
      (0..n).map(|x| first.get(&x).map(|id| format!("{:?}", unsafe { uf.find(*id) }))).collect::<Vec<_>>()
   }));
   // ... and through the item index must be the same partition
   o["roots_again"] = res(guarded(|| {
      (0..n).map(|x| uf.find_item(&x).map(|id| format!("{:?}", id))).collect::<Vec<_>>()
   }));
   o["ok_after_queries"] = res(guarded(|| uf.verif_ok()));
   o
}

fn main() {
   quiet_panics();
   let mut out = Out::open();
   for case in read_cases() {
      let o = match case["m"].as_str() {
         Some("trrel") => json!({"m": "trrel", "flavours": {"plain": trrel(&case, false), "renamed": trrel(&case, true)}}),
         Some("uf") => json!({"m": "uf", "flavours": {
            "owned_each": uf(&case, false, true), "owned_last": uf(&case, false, false),
            "ref_each": uf(&case, true, true), "ref_last": uf(&case, true, false),
            "ids_each": uf_ids(&case, true), "ids_last": uf_ids(&case, false)}}),
         _ => json!({"error": "unknown machine"}),
      };
      out.line(&o);
   }
   out.flush();
}
