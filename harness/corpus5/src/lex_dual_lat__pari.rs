#![allow(unused_imports, unused_variables, unused_mut, dead_code, non_snake_case, unused_parens, clippy::all)]
use ascent::lattice::bounded_set::BoundedSet;
use ascent::lattice::constant_propagation::ConstPropagation;
use ascent::lattice::set::Set;
use ascent::lattice::Product;
use ascent::{Dual, Lattice};
use vh_lite::{rows_json, Driven, Value};
ascent::ascent_par! {
   #![inter_rule_parallelism]
   pub struct Prog;
   relation w(i32, i32, i32);
   lattice best(i32, (Dual<i32>, i32));
   relation via(i32, i32);
   best(0, (Dual(0), 0,));
   best(y, (Dual(((((*t)).0).0 + (*c))), (*x),)) <-- best(x, t), w(x, y, c), if (((((*t)).0).0 + (*c)) < 7);
   via(y, x) <-- best(y, t), let x = ((*t)).1;
}

pub struct D(Prog);
impl Driven for D {
   fn push(&mut self, rel: &str, row: &Value) {
      match rel {
         "w" => { self.0.w.push((row[0].as_i64().unwrap() as i32, row[1].as_i64().unwrap() as i32, row[2].as_i64().unwrap() as i32,)); },
         "best" => { self.0.best.push(std::sync::RwLock::new((row[0].as_i64().unwrap() as i32, panic!("verif harness: cannot push a value of lattice type lex_dual_pair"),))); },
         "via" => { self.0.via.push((row[0].as_i64().unwrap() as i32, row[1].as_i64().unwrap() as i32,)); },
         _ => panic!("verif harness: unknown relation {}", rel),
      }
   }
   fn clear(&mut self, rel: &str) {
      match rel {
         "w" => { self.0.w = Default::default(); },
         "best" => { self.0.best = Default::default(); },
         "via" => { self.0.via = Default::default(); },
         _ => panic!("verif harness: unknown relation {}", rel),
      }
   }
   fn run(&mut self) { self.0.run(); }
   fn dump(&self) -> Value {
      let mut m: Vec<(String, Value)> = vec![];
      m.push(("w".to_string(), rows_json(self.0.w.iter())));
      let __v: Vec<(i32, (Dual<i32>, i32),)> = self.0.best.iter().map(|r| r.read().unwrap().clone()).collect();
      m.push(("best".to_string(), rows_json(__v.iter())));
      m.push(("via".to_string(), rows_json(self.0.via.iter())));
      Value::Obj(m)
   }
   fn summary(&self) -> String { Prog::summary().to_string() }
}
pub fn make() -> Box<dyn Driven> { Box::new(D(Prog::default())) }
