#![allow(unused_imports, unused_variables, unused_mut, dead_code, non_snake_case, unused_parens, clippy::all)]
use ascent::lattice::bounded_set::BoundedSet;
use ascent::lattice::constant_propagation::ConstPropagation;
use ascent::lattice::set::Set;
use ascent::lattice::Product;
use ascent::{Dual, Lattice};
use vh_lite::{rows_json, Driven, Value};
ascent::ascent! {
   #![generate_run_timeout]
   pub struct Prog;
   relation e(i32, i32);
   relation sg(i32, i32);
   sg(x, y) <-- e(p, x), e(p, y);
   sg(x, y) <-- e(a, x), sg(a, b), e(b, y);
}

pub struct D(Prog);
impl Driven for D {
   fn push(&mut self, rel: &str, row: &Value) {
      match rel {
         "e" => { self.0.e.push((row[0].as_i64().unwrap() as i32, row[1].as_i64().unwrap() as i32,)); },
         "sg" => { self.0.sg.push((row[0].as_i64().unwrap() as i32, row[1].as_i64().unwrap() as i32,)); },
         _ => panic!("verif harness: unknown relation {}", rel),
      }
   }
   fn clear(&mut self, rel: &str) {
      match rel {
         "e" => { self.0.e = Default::default(); },
         "sg" => { self.0.sg = Default::default(); },
         _ => panic!("verif harness: unknown relation {}", rel),
      }
   }
   fn run(&mut self) { self.0.run(); }
   fn run_timeout(&mut self, nanos: u64) -> Option<bool> { Some(self.0.run_timeout(std::time::Duration::from_nanos(nanos))) }
   fn dump(&self) -> Value {
      let mut m: Vec<(String, Value)> = vec![];
      m.push(("e".to_string(), rows_json(self.0.e.iter())));
      m.push(("sg".to_string(), rows_json(self.0.sg.iter())));
      Value::Obj(m)
   }
   fn summary(&self) -> String { Prog::summary().to_string() }
}
pub fn make() -> Box<dyn Driven> { Box::new(D(Prog::default())) }
