#![allow(unused_imports, unused_variables, unused_mut, dead_code, non_snake_case, unused_parens, clippy::all)]
use ascent::lattice::bounded_set::BoundedSet;
use ascent::lattice::constant_propagation::ConstPropagation;
use ascent::lattice::set::Set;
use ascent::lattice::Product;
use ascent::{Dual, Lattice};
use vh_lite::{rows_json, Driven, Value};

use vh_lite::{read_cases, drive, drive_group, quiet_panics, Out};

mod tc_left__ser;
mod tc_left__src0;
mod tc_left__perm1;
mod tc_nonlin__par;
mod tc_nonlin__str;
mod mutual__run;
mod mutual__init;
mod mutual__u64;
mod scc_chain__perm2;
mod diamond__pari;
mod repeated__perm2;
mod three_dyn__pari;
mod three_dyn__u64;
mod conds__run;
mod conds__init;
mod expr_args__par;
mod multi_head__par;
mod facts__ser;
mod facts__src2;
mod facts__ren;
mod opt_cols__run;
mod opt_cols__init;
mod same_gen__pari;
mod same_gen__u64;
mod two_inputs__to;
mod two_inputs__srcto;
mod two_inputs__permpar;
mod ternary__par;
mod ternary__strpar;
mod bound_mix__str;
mod join_chain__ren;
mod reach__ser;
mod self_join3__ser;
mod lag_right__perm1;
mod lag_left__par;
mod lag_three__topar;
mod lag_mid__str;
mod multi_head_rec__ser;
mod sp_dual__par;
mod sp_dual__src1;
mod sp_dual__perm2;
mod longest_capped__ser;
mod set_reach__to;
mod set_reach__srcto;
mod bset__to;
mod opt_lat__par;
mod lat_two_keys__ser;
mod lat_val_bound__ser;
mod lat_input__run;
mod lat_input__init;
mod count_paths__run;
mod count_paths__init;
mod neg_basic__run;
mod neg_basic__init;
mod neg_basic__exppar;
mod agg_depth__topar;
mod agg_user__pari;
mod agg_bound_mix__pari;
mod agg_empty_rel__pari;
mod disj__ser;
mod disj__src0;
mod disj__perm1;
mod disj_nested__pari;
mod rep_expr__ser;
mod multi_head_disj__exp;
mod mac_basic__par;
mod mac_basic__src1;
mod mac_basic__exppar;
mod mac_nested__pari;
mod mac_disj__ser;
mod rnd_core_02__ser;
mod rnd_core_04__pari;
mod rnd_core_07__par;
mod rnd_core_10__ser;
mod rnd_core_12__pari;
mod rnd_core_15__par;
mod rnd_core_18__ser;
mod rnd_core_20__pari;
mod rnd_core_23__par;
mod rnd_core_26__ser;
mod rnd_core_28__pari;
mod rnd_agg_01__par;
mod rnd_agg_04__ser;
mod rnd_agg_06__pari;
mod rnd_agg_09__par;
mod rnd_agg_12__ser;
mod rnd_agg_14__pari;

fn lookup(name: &str) -> fn() -> Box<dyn Driven> {
   match name {
      "tc_left__ser" => tc_left__ser::make,
      "tc_left__src0" => tc_left__src0::make,
      "tc_left__perm1" => tc_left__perm1::make,
      "tc_nonlin__par" => tc_nonlin__par::make,
      "tc_nonlin__str" => tc_nonlin__str::make,
      "mutual__run" => mutual__run::make,
      "mutual__init" => mutual__init::make,
      "mutual__u64" => mutual__u64::make,
      "scc_chain__perm2" => scc_chain__perm2::make,
      "diamond__pari" => diamond__pari::make,
      "repeated__perm2" => repeated__perm2::make,
      "three_dyn__pari" => three_dyn__pari::make,
      "three_dyn__u64" => three_dyn__u64::make,
      "conds__run" => conds__run::make,
      "conds__init" => conds__init::make,
      "expr_args__par" => expr_args__par::make,
      "multi_head__par" => multi_head__par::make,
      "facts__ser" => facts__ser::make,
      "facts__src2" => facts__src2::make,
      "facts__ren" => facts__ren::make,
      "opt_cols__run" => opt_cols__run::make,
      "opt_cols__init" => opt_cols__init::make,
      "same_gen__pari" => same_gen__pari::make,
      "same_gen__u64" => same_gen__u64::make,
      "two_inputs__to" => two_inputs__to::make,
      "two_inputs__srcto" => two_inputs__srcto::make,
      "two_inputs__permpar" => two_inputs__permpar::make,
      "ternary__par" => ternary__par::make,
      "ternary__strpar" => ternary__strpar::make,
      "bound_mix__str" => bound_mix__str::make,
      "join_chain__ren" => join_chain__ren::make,
      "reach__ser" => reach__ser::make,
      "self_join3__ser" => self_join3__ser::make,
      "lag_right__perm1" => lag_right__perm1::make,
      "lag_left__par" => lag_left__par::make,
      "lag_three__topar" => lag_three__topar::make,
      "lag_mid__str" => lag_mid__str::make,
      "multi_head_rec__ser" => multi_head_rec__ser::make,
      "sp_dual__par" => sp_dual__par::make,
      "sp_dual__src1" => sp_dual__src1::make,
      "sp_dual__perm2" => sp_dual__perm2::make,
      "longest_capped__ser" => longest_capped__ser::make,
      "set_reach__to" => set_reach__to::make,
      "set_reach__srcto" => set_reach__srcto::make,
      "bset__to" => bset__to::make,
      "opt_lat__par" => opt_lat__par::make,
      "lat_two_keys__ser" => lat_two_keys__ser::make,
      "lat_val_bound__ser" => lat_val_bound__ser::make,
      "lat_input__run" => lat_input__run::make,
      "lat_input__init" => lat_input__init::make,
      "count_paths__run" => count_paths__run::make,
      "count_paths__init" => count_paths__init::make,
      "neg_basic__run" => neg_basic__run::make,
      "neg_basic__init" => neg_basic__init::make,
      "neg_basic__exppar" => neg_basic__exppar::make,
      "agg_depth__topar" => agg_depth__topar::make,
      "agg_user__pari" => agg_user__pari::make,
      "agg_bound_mix__pari" => agg_bound_mix__pari::make,
      "agg_empty_rel__pari" => agg_empty_rel__pari::make,
      "disj__ser" => disj__ser::make,
      "disj__src0" => disj__src0::make,
      "disj__perm1" => disj__perm1::make,
      "disj_nested__pari" => disj_nested__pari::make,
      "rep_expr__ser" => rep_expr__ser::make,
      "multi_head_disj__exp" => multi_head_disj__exp::make,
      "mac_basic__par" => mac_basic__par::make,
      "mac_basic__src1" => mac_basic__src1::make,
      "mac_basic__exppar" => mac_basic__exppar::make,
      "mac_nested__pari" => mac_nested__pari::make,
      "mac_disj__ser" => mac_disj__ser::make,
      "rnd_core_02__ser" => rnd_core_02__ser::make,
      "rnd_core_04__pari" => rnd_core_04__pari::make,
      "rnd_core_07__par" => rnd_core_07__par::make,
      "rnd_core_10__ser" => rnd_core_10__ser::make,
      "rnd_core_12__pari" => rnd_core_12__pari::make,
      "rnd_core_15__par" => rnd_core_15__par::make,
      "rnd_core_18__ser" => rnd_core_18__ser::make,
      "rnd_core_20__pari" => rnd_core_20__pari::make,
      "rnd_core_23__par" => rnd_core_23__par::make,
      "rnd_core_26__ser" => rnd_core_26__ser::make,
      "rnd_core_28__pari" => rnd_core_28__pari::make,
      "rnd_agg_01__par" => rnd_agg_01__par::make,
      "rnd_agg_04__ser" => rnd_agg_04__ser::make,
      "rnd_agg_06__pari" => rnd_agg_06__pari::make,
      "rnd_agg_09__par" => rnd_agg_09__par::make,
      "rnd_agg_12__ser" => rnd_agg_12__ser::make,
      "rnd_agg_14__pari" => rnd_agg_14__pari::make,
      _ => panic!("no such program variant in this shard: {}", name),
   }
}

fn main() {
   quiet_panics();
   let mut out = Out::open();
   let cases = read_cases();
   let mut i = 0;
   while i < cases.len() {
      let case = &cases[i];
      let m = format!("{}__{}", case["prog"].as_str().unwrap(), case["var"].as_str().unwrap());
      if let Some(g) = case["group"].as_i64() {
         // cases of one group run simultaneously
         let mut grp = vec![];
         while i < cases.len() && cases[i]["group"].as_i64() == Some(g) {
            let m = format!("{}__{}", cases[i]["prog"].as_str().unwrap(), cases[i]["var"].as_str().unwrap());
            grp.push((cases[i].clone(), lookup(&m)));
            i += 1;
         }
         drive_group(&grp, &mut out);
      } else {
         drive(case, &mut out, lookup(&m));
         i += 1;
      }
   }
   out.flush();
}
