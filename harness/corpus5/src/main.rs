#![allow(unused_imports, unused_variables, unused_mut, dead_code, non_snake_case, unused_parens, clippy::all)]
use ascent::lattice::bounded_set::BoundedSet;
use ascent::lattice::constant_propagation::ConstPropagation;
use ascent::lattice::set::Set;
use ascent::lattice::Product;
use ascent::{Dual, Lattice};
use vh_lite::{rows_json, Driven, Value};

use vh_lite::{read_cases, drive, drive_group, quiet_panics, Out};

mod tc_left__ser;
mod tc_left__src0;
mod tc_left__perm2;
mod tc_nonlin__pari;
mod tc_nonlin__u64;
mod mutual__mrt;
mod mutual__srcpar;
mod scc_chain__ser;
mod scc_chain__permpar;
mod consts__par;
mod repeated__permpar;
mod three_dyn__topar;
mod four_dyn__ser;
mod conds__gen;
mod conds__perm1;
mod count_up__par;
mod multi_head__topar;
mod facts__run;
mod facts__runpar;
mod facts__strpar;
mod opt_cols__src1;
mod cartesian__pari;
mod same_gen__ren;
mod two_inputs__ser;
mod two_inputs__src0;
mod two_inputs__perm2;
mod wild__pari;
mod ternary__str;
mod bound_mix__ren;
mod join_chain__perm1;
mod cond_simple_join__par;
mod zero_arity__par;
mod lag_right__to;
mod lag_right__strpar;
mod lag_three__pari;
mod lag_mid__ren;
mod lag_late_delta__to;
mod sp_dual__mrt;
mod sp_dual__srcpar;
mod sp_weighted__to;
mod set_reach__par;
mod set_reach__src1;
mod bset__pari;
mod opt_lat__pari;
mod lat_two_keys__par;
mod lat_val_bound__par;
mod count_paths__mrt;
mod count_paths__srcpar;
mod neg_basic__gen;
mod neg_basic__perm1;
mod agg_minmaxsum__pari;
mod agg_lattice__pari;
mod neg_rec_after__pari;
mod agg_empty__pari;
mod agg_const_args__ser;
mod disj__to;
mod disj__redecl;
mod disj__exp;
mod pat_args__par;
mod rep_expr__exppar;
mod neg_in_disj__pari;
mod mac_basic__run;
mod mac_basic__runpar;
mod mac_capture__exppar;
mod mac_gensym_disj__pari;

fn lookup(name: &str) -> fn() -> Box<dyn Driven> {
   match name {
      "tc_left__ser" => tc_left__ser::make,
      "tc_left__src0" => tc_left__src0::make,
      "tc_left__perm2" => tc_left__perm2::make,
      "tc_nonlin__pari" => tc_nonlin__pari::make,
      "tc_nonlin__u64" => tc_nonlin__u64::make,
      "mutual__mrt" => mutual__mrt::make,
      "mutual__srcpar" => mutual__srcpar::make,
      "scc_chain__ser" => scc_chain__ser::make,
      "scc_chain__permpar" => scc_chain__permpar::make,
      "consts__par" => consts__par::make,
      "repeated__permpar" => repeated__permpar::make,
      "three_dyn__topar" => three_dyn__topar::make,
      "four_dyn__ser" => four_dyn__ser::make,
      "conds__gen" => conds__gen::make,
      "conds__perm1" => conds__perm1::make,
      "count_up__par" => count_up__par::make,
      "multi_head__topar" => multi_head__topar::make,
      "facts__run" => facts__run::make,
      "facts__runpar" => facts__runpar::make,
      "facts__strpar" => facts__strpar::make,
      "opt_cols__src1" => opt_cols__src1::make,
      "cartesian__pari" => cartesian__pari::make,
      "same_gen__ren" => same_gen__ren::make,
      "two_inputs__ser" => two_inputs__ser::make,
      "two_inputs__src0" => two_inputs__src0::make,
      "two_inputs__perm2" => two_inputs__perm2::make,
      "wild__pari" => wild__pari::make,
      "ternary__str" => ternary__str::make,
      "bound_mix__ren" => bound_mix__ren::make,
      "join_chain__perm1" => join_chain__perm1::make,
      "cond_simple_join__par" => cond_simple_join__par::make,
      "zero_arity__par" => zero_arity__par::make,
      "lag_right__to" => lag_right__to::make,
      "lag_right__strpar" => lag_right__strpar::make,
      "lag_three__pari" => lag_three__pari::make,
      "lag_mid__ren" => lag_mid__ren::make,
      "lag_late_delta__to" => lag_late_delta__to::make,
      "sp_dual__mrt" => sp_dual__mrt::make,
      "sp_dual__srcpar" => sp_dual__srcpar::make,
      "sp_weighted__to" => sp_weighted__to::make,
      "set_reach__par" => set_reach__par::make,
      "set_reach__src1" => set_reach__src1::make,
      "bset__pari" => bset__pari::make,
      "opt_lat__pari" => opt_lat__pari::make,
      "lat_two_keys__par" => lat_two_keys__par::make,
      "lat_val_bound__par" => lat_val_bound__par::make,
      "count_paths__mrt" => count_paths__mrt::make,
      "count_paths__srcpar" => count_paths__srcpar::make,
      "neg_basic__gen" => neg_basic__gen::make,
      "neg_basic__perm1" => neg_basic__perm1::make,
      "agg_minmaxsum__pari" => agg_minmaxsum__pari::make,
      "agg_lattice__pari" => agg_lattice__pari::make,
      "neg_rec_after__pari" => neg_rec_after__pari::make,
      "agg_empty__pari" => agg_empty__pari::make,
      "agg_const_args__ser" => agg_const_args__ser::make,
      "disj__to" => disj__to::make,
      "disj__redecl" => disj__redecl::make,
      "disj__exp" => disj__exp::make,
      "pat_args__par" => pat_args__par::make,
      "rep_expr__exppar" => rep_expr__exppar::make,
      "neg_in_disj__pari" => neg_in_disj__pari::make,
      "mac_basic__run" => mac_basic__run::make,
      "mac_basic__runpar" => mac_basic__runpar::make,
      "mac_capture__exppar" => mac_capture__exppar::make,
      "mac_gensym_disj__pari" => mac_gensym_disj__pari::make,
      _ => panic!("no such program variant in this shard: {}", name),
   }
}

fn main() {
   quiet_panics();
   let mut out = Out::open();
   let cases = read_cases();
   let mut i = 0;
   while i < cases.len() {
      let case = &cases[i];
      let m = format!("{}__{}", case["prog"].as_str().unwrap(), case["var"].as_str().unwrap());
      if let Some(g) = case["group"].as_i64() {
         // cases of one group run simultaneously
         let mut grp = vec![];
         while i < cases.len() && cases[i]["group"].as_i64() == Some(g) {
            let m = format!("{}__{}", cases[i]["prog"].as_str().unwrap(), cases[i]["var"].as_str().unwrap());
            grp.push((cases[i].clone(), lookup(&m)));
            i += 1;
         }
         drive_group(&grp, &mut out);
      } else {
         drive(case, &mut out, lookup(&m));
         i += 1;
      }
   }
   out.flush();
}
