#![allow(unused_imports, unused_variables, unused_mut, dead_code, non_snake_case, unused_parens, clippy::all)]
use ascent::lattice::bounded_set::BoundedSet;
use ascent::lattice::constant_propagation::ConstPropagation;
use ascent::lattice::set::Set;
use ascent::lattice::Product;
use ascent::{Dual, Lattice};
use vh_lite::{rows_json, Driven, Value};

use vh_lite::{read_cases, drive, drive_group, quiet_panics, Out};

mod tc_left__ser;
mod tc_left__src0;
mod tc_left__perm2;
mod tc_nonlin__pari;
mod tc_nonlin__u64;
mod mutual__mrt;
mod mutual__srcpar;
mod scc_chain__ser;
mod scc_chain__permpar;
mod consts__par;
mod repeated__permpar;
mod three_dyn__topar;
mod four_dyn__ser;
mod conds__gen;
mod conds__perm1;
mod count_up__par;
mod multi_head__topar;
mod facts__run;
mod facts__runpar;
mod facts__strpar;
mod opt_cols__src1;
mod cartesian__pari;
mod same_gen__ren;
mod two_inputs__ser;
mod two_inputs__src0;
mod two_inputs__perm2;
mod wild__pari;
mod ternary__str;
mod bound_mix__ren;
mod join_chain__perm1;
mod cond_simple_join__par;
mod zero_arity__par;
mod lag_right__to;
mod lag_right__strpar;
mod lag_three__pari;
mod lag_mid__ren;
mod lag_late_delta__to;
mod sp_dual__mrt;
mod sp_dual__srcpar;
mod sp_weighted__to;
mod set_reach__par;
mod set_reach__src1;
mod bset__pari;
mod opt_lat__ser;
mod bool_lat__pari;
mod lat_multi_improve__topar;
mod count_paths__topar;
mod count_paths__init;
mod neg_basic__run;
mod neg_basic__runpar;
mod agg_minmaxsum__ser;
mod agg_lattice__ser;
mod neg_rec_after__ser;
mod agg_empty__ser;
mod agg_empty_rel__to;
mod disj__par;
mod disj__src1;
mod disj__ren;
mod disj_nested__exppar;
mod rep_expr__pari;
mod neg_in_disj__ser;
mod mac_basic__to;
mod mac_basic__redecl;
mod mac_capture__pari;
mod mac_gensym_disj__ser;
mod mac_disj__exp;
mod rnd_core_03__ser;
mod rnd_core_05__pari;
mod rnd_core_08__par;
mod rnd_core_11__ser;
mod rnd_core_13__pari;
mod rnd_core_16__par;
mod rnd_core_19__ser;
mod rnd_core_21__pari;
mod rnd_core_24__par;
mod rnd_core_27__ser;
mod rnd_core_29__pari;
mod rnd_agg_02__par;
mod rnd_agg_05__ser;
mod rnd_agg_07__pari;
mod rnd_agg_10__par;
mod rnd_agg_13__ser;
mod rnd_agg_15__pari;

fn lookup(name: &str) -> fn() -> Box<dyn Driven> {
   match name {
      "tc_left__ser" => tc_left__ser::make,
      "tc_left__src0" => tc_left__src0::make,
      "tc_left__perm2" => tc_left__perm2::make,
      "tc_nonlin__pari" => tc_nonlin__pari::make,
      "tc_nonlin__u64" => tc_nonlin__u64::make,
      "mutual__mrt" => mutual__mrt::make,
      "mutual__srcpar" => mutual__srcpar::make,
      "scc_chain__ser" => scc_chain__ser::make,
      "scc_chain__permpar" => scc_chain__permpar::make,
      "consts__par" => consts__par::make,
      "repeated__permpar" => repeated__permpar::make,
      "three_dyn__topar" => three_dyn__topar::make,
      "four_dyn__ser" => four_dyn__ser::make,
      "conds__gen" => conds__gen::make,
      "conds__perm1" => conds__perm1::make,
      "count_up__par" => count_up__par::make,
      "multi_head__topar" => multi_head__topar::make,
      "facts__run" => facts__run::make,
      "facts__runpar" => facts__runpar::make,
      "facts__strpar" => facts__strpar::make,
      "opt_cols__src1" => opt_cols__src1::make,
      "cartesian__pari" => cartesian__pari::make,
      "same_gen__ren" => same_gen__ren::make,
      "two_inputs__ser" => two_inputs__ser::make,
      "two_inputs__src0" => two_inputs__src0::make,
      "two_inputs__perm2" => two_inputs__perm2::make,
      "wild__pari" => wild__pari::make,
      "ternary__str" => ternary__str::make,
      "bound_mix__ren" => bound_mix__ren::make,
      "join_chain__perm1" => join_chain__perm1::make,
      "cond_simple_join__par" => cond_simple_join__par::make,
      "zero_arity__par" => zero_arity__par::make,
      "lag_right__to" => lag_right__to::make,
      "lag_right__strpar" => lag_right__strpar::make,
      "lag_three__pari" => lag_three__pari::make,
      "lag_mid__ren" => lag_mid__ren::make,
      "lag_late_delta__to" => lag_late_delta__to::make,
      "sp_dual__mrt" => sp_dual__mrt::make,
      "sp_dual__srcpar" => sp_dual__srcpar::make,
      "sp_weighted__to" => sp_weighted__to::make,
      "set_reach__par" => set_reach__par::make,
      "set_reach__src1" => set_reach__src1::make,
      "bset__pari" => bset__pari::make,
      "opt_lat__ser" => opt_lat__ser::make,
      "bool_lat__pari" => bool_lat__pari::make,
      "lat_multi_improve__topar" => lat_multi_improve__topar::make,
      "count_paths__topar" => count_paths__topar::make,
      "count_paths__init" => count_paths__init::make,
      "neg_basic__run" => neg_basic__run::make,
      "neg_basic__runpar" => neg_basic__runpar::make,
      "agg_minmaxsum__ser" => agg_minmaxsum__ser::make,
      "agg_lattice__ser" => agg_lattice__ser::make,
      "neg_rec_after__ser" => neg_rec_after__ser::make,
      "agg_empty__ser" => agg_empty__ser::make,
      "agg_empty_rel__to" => agg_empty_rel__to::make,
      "disj__par" => disj__par::make,
      "disj__src1" => disj__src1::make,
      "disj__ren" => disj__ren::make,
      "disj_nested__exppar" => disj_nested__exppar::make,
      "rep_expr__pari" => rep_expr__pari::make,
      "neg_in_disj__ser" => neg_in_disj__ser::make,
      "mac_basic__to" => mac_basic__to::make,
      "mac_basic__redecl" => mac_basic__redecl::make,
      "mac_capture__pari" => mac_capture__pari::make,
      "mac_gensym_disj__ser" => mac_gensym_disj__ser::make,
      "mac_disj__exp" => mac_disj__exp::make,
      "rnd_core_03__ser" => rnd_core_03__ser::make,
      "rnd_core_05__pari" => rnd_core_05__pari::make,
      "rnd_core_08__par" => rnd_core_08__par::make,
      "rnd_core_11__ser" => rnd_core_11__ser::make,
      "rnd_core_13__pari" => rnd_core_13__pari::make,
      "rnd_core_16__par" => rnd_core_16__par::make,
      "rnd_core_19__ser" => rnd_core_19__ser::make,
      "rnd_core_21__pari" => rnd_core_21__pari::make,
      "rnd_core_24__par" => rnd_core_24__par::make,
      "rnd_core_27__ser" => rnd_core_27__ser::make,
      "rnd_core_29__pari" => rnd_core_29__pari::make,
      "rnd_agg_02__par" => rnd_agg_02__par::make,
      "rnd_agg_05__ser" => rnd_agg_05__ser::make,
      "rnd_agg_07__pari" => rnd_agg_07__pari::make,
      "rnd_agg_10__par" => rnd_agg_10__par::make,
      "rnd_agg_13__ser" => rnd_agg_13__ser::make,
      "rnd_agg_15__pari" => rnd_agg_15__pari::make,
      _ => panic!("no such program variant in this shard: {}", name),
   }
}

fn main() {
   quiet_panics();
   let mut out = Out::open();
   let cases = read_cases();
   let mut i = 0;
   while i < cases.len() {
      let case = &cases[i];
      let m = format!("{}__{}", case["prog"].as_str().unwrap(), case["var"].as_str().unwrap());
      if let Some(g) = case["group"].as_i64() {
         // cases of one group run simultaneously
         let mut grp = vec![];
         while i < cases.len() && cases[i]["group"].as_i64() == Some(g) {
            let m = format!("{}__{}", cases[i]["prog"].as_str().unwrap(), cases[i]["var"].as_str().unwrap());
            grp.push((cases[i].clone(), lookup(&m)));
            i += 1;
         }
         drive_group(&grp, &mut out);
      } else {
         drive(case, &mut out, lookup(&m));
         i += 1;
      }
   }
   out.flush();
}
