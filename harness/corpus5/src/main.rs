#![allow(unused_imports, unused_variables, unused_mut, dead_code, non_snake_case, unused_parens, clippy::all)]
use ascent::lattice::bounded_set::BoundedSet;
use ascent::lattice::constant_propagation::ConstPropagation;
use ascent::lattice::set::Set;
use ascent::lattice::Product;
use ascent::{Dual, Lattice};
use vh_lite::{rows_json, Driven, Value};

use vh_lite::{read_cases, drive, drive_group, quiet_panics, Out};

mod tc_left__ser;
mod tc_left__src0;
mod tc_left__perm1;
mod tc_nonlin__par;
mod tc_nonlin__str;
mod mutual__run;
mod mutual__init;
mod mutual__u64;
mod scc_chain__perm2;
mod diamond__pari;
mod repeated__perm2;
mod three_dyn__pari;
mod three_dyn__u64;
mod conds__run;
mod conds__init;
mod expr_args__par;
mod multi_head__par;
mod facts__ser;
mod facts__src2;
mod facts__ren;
mod opt_cols__run;
mod opt_cols__init;
mod same_gen__pari;
mod same_gen__u64;
mod not_reorderable__perm2;
mod pre_join_rec__perm1;
mod two_inputs__topar;
mod two_inputs__redecl;
mod two_inputs__str;
mod ternary__pari;
mod bound_mix__ser;
mod bound_mix__u64;
mod join_chain__permpar;
mod reach__par;
mod self_join3__par;
mod lag_right__perm2;
mod lag_left__pari;
mod lag_mid__ser;
mod lag_mid__u64;
mod multi_head_rec__par;
mod sp_dual__pari;
mod sp_dual__src2;
mod sp_dual__ren;
mod longest_capped__par;
mod set_reach__topar;
mod set_reach__redecl;
mod bset__topar;
mod opt_lat__pari;
mod lat_two_keys__par;
mod lat_pre_join__par;
mod lat_val_bound__par;
mod lat_input__mrt;
mod lat_input__runpar;
mod count_paths__mrt;
mod count_paths__runpar;
mod neg_basic__mrt;
mod neg_basic__runpar;
mod agg_minmaxsum__ser;
mod agg_lattice__ser;
mod neg_rec_after__ser;
mod agg_empty__ser;
mod agg_empty_rel__to;
mod agg_pre_join__par;
mod disj__mrt;
mod disj__runpar;
mod disj_nested__ser;
mod pat_args__exp;
mod multi_head_disj__par;
mod neg_in_disj__exppar;
mod mac_basic__gen;
mod mac_basic__srcpar;
mod mac_nested__ser;
mod mac_gensym_disj__exp;
mod stress_lat__par;
mod rnd_core_02__ser;
mod rnd_core_04__pari;
mod rnd_core_07__par;
mod rnd_core_10__ser;
mod rnd_core_12__pari;
mod rnd_core_15__par;
mod rnd_core_18__ser;
mod rnd_core_20__pari;
mod rnd_core_23__par;
mod rnd_core_26__ser;
mod rnd_core_28__pari;
mod rnd_agg_01__par;
mod rnd_agg_04__ser;
mod rnd_agg_06__pari;
mod rnd_agg_09__par;
mod rnd_agg_12__ser;
mod rnd_agg_14__pari;
mod rnd_prec_01__topar;
mod rnd_prec_03__pari;
mod rnd_prec_05__ser;
mod rnd_prec_06__to;
mod rnd_prec_08__par;
mod rnd_prea_02__par;
mod rnd_prea_05__ser;
mod rnd_prea_07__pari;

fn lookup(name: &str) -> fn() -> Box<dyn Driven> {
   match name {
      "tc_left__ser" => tc_left__ser::make,
      "tc_left__src0" => tc_left__src0::make,
      "tc_left__perm1" => tc_left__perm1::make,
      "tc_nonlin__par" => tc_nonlin__par::make,
      "tc_nonlin__str" => tc_nonlin__str::make,
      "mutual__run" => mutual__run::make,
      "mutual__init" => mutual__init::make,
      "mutual__u64" => mutual__u64::make,
      "scc_chain__perm2" => scc_chain__perm2::make,
      "diamond__pari" => diamond__pari::make,
      "repeated__perm2" => repeated__perm2::make,
      "three_dyn__pari" => three_dyn__pari::make,
      "three_dyn__u64" => three_dyn__u64::make,
      "conds__run" => conds__run::make,
      "conds__init" => conds__init::make,
      "expr_args__par" => expr_args__par::make,
      "multi_head__par" => multi_head__par::make,
      "facts__ser" => facts__ser::make,
      "facts__src2" => facts__src2::make,
      "facts__ren" => facts__ren::make,
      "opt_cols__run" => opt_cols__run::make,
      "opt_cols__init" => opt_cols__init::make,
      "same_gen__pari" => same_gen__pari::make,
      "same_gen__u64" => same_gen__u64::make,
      "not_reorderable__perm2" => not_reorderable__perm2::make,
      "pre_join_rec__perm1" => pre_join_rec__perm1::make,
      "two_inputs__topar" => two_inputs__topar::make,
      "two_inputs__redecl" => two_inputs__redecl::make,
      "two_inputs__str" => two_inputs__str::make,
      "ternary__pari" => ternary__pari::make,
      "bound_mix__ser" => bound_mix__ser::make,
      "bound_mix__u64" => bound_mix__u64::make,
      "join_chain__permpar" => join_chain__permpar::make,
      "reach__par" => reach__par::make,
      "self_join3__par" => self_join3__par::make,
      "lag_right__perm2" => lag_right__perm2::make,
      "lag_left__pari" => lag_left__pari::make,
      "lag_mid__ser" => lag_mid__ser::make,
      "lag_mid__u64" => lag_mid__u64::make,
      "multi_head_rec__par" => multi_head_rec__par::make,
      "sp_dual__pari" => sp_dual__pari::make,
      "sp_dual__src2" => sp_dual__src2::make,
      "sp_dual__ren" => sp_dual__ren::make,
      "longest_capped__par" => longest_capped__par::make,
      "set_reach__topar" => set_reach__topar::make,
      "set_reach__redecl" => set_reach__redecl::make,
      "bset__topar" => bset__topar::make,
      "opt_lat__pari" => opt_lat__pari::make,
      "lat_two_keys__par" => lat_two_keys__par::make,
      "lat_pre_join__par" => lat_pre_join__par::make,
      "lat_val_bound__par" => lat_val_bound__par::make,
      "lat_input__mrt" => lat_input__mrt::make,
      "lat_input__runpar" => lat_input__runpar::make,
      "count_paths__mrt" => count_paths__mrt::make,
      "count_paths__runpar" => count_paths__runpar::make,
      "neg_basic__mrt" => neg_basic__mrt::make,
      "neg_basic__runpar" => neg_basic__runpar::make,
      "agg_minmaxsum__ser" => agg_minmaxsum__ser::make,
      "agg_lattice__ser" => agg_lattice__ser::make,
      "neg_rec_after__ser" => neg_rec_after__ser::make,
      "agg_empty__ser" => agg_empty__ser::make,
      "agg_empty_rel__to" => agg_empty_rel__to::make,
      "agg_pre_join__par" => agg_pre_join__par::make,
      "disj__mrt" => disj__mrt::make,
      "disj__runpar" => disj__runpar::make,
      "disj_nested__ser" => disj_nested__ser::make,
      "pat_args__exp" => pat_args__exp::make,
      "multi_head_disj__par" => multi_head_disj__par::make,
      "neg_in_disj__exppar" => neg_in_disj__exppar::make,
      "mac_basic__gen" => mac_basic__gen::make,
      "mac_basic__srcpar" => mac_basic__srcpar::make,
      "mac_nested__ser" => mac_nested__ser::make,
      "mac_gensym_disj__exp" => mac_gensym_disj__exp::make,
      "stress_lat__par" => stress_lat__par::make,
      "rnd_core_02__ser" => rnd_core_02__ser::make,
      "rnd_core_04__pari" => rnd_core_04__pari::make,
      "rnd_core_07__par" => rnd_core_07__par::make,
      "rnd_core_10__ser" => rnd_core_10__ser::make,
      "rnd_core_12__pari" => rnd_core_12__pari::make,
      "rnd_core_15__par" => rnd_core_15__par::make,
      "rnd_core_18__ser" => rnd_core_18__ser::make,
      "rnd_core_20__pari" => rnd_core_20__pari::make,
      "rnd_core_23__par" => rnd_core_23__par::make,
      "rnd_core_26__ser" => rnd_core_26__ser::make,
      "rnd_core_28__pari" => rnd_core_28__pari::make,
      "rnd_agg_01__par" => rnd_agg_01__par::make,
      "rnd_agg_04__ser" => rnd_agg_04__ser::make,
      "rnd_agg_06__pari" => rnd_agg_06__pari::make,
      "rnd_agg_09__par" => rnd_agg_09__par::make,
      "rnd_agg_12__ser" => rnd_agg_12__ser::make,
      "rnd_agg_14__pari" => rnd_agg_14__pari::make,
      "rnd_prec_01__topar" => rnd_prec_01__topar::make,
      "rnd_prec_03__pari" => rnd_prec_03__pari::make,
      "rnd_prec_05__ser" => rnd_prec_05__ser::make,
      "rnd_prec_06__to" => rnd_prec_06__to::make,
      "rnd_prec_08__par" => rnd_prec_08__par::make,
      "rnd_prea_02__par" => rnd_prea_02__par::make,
      "rnd_prea_05__ser" => rnd_prea_05__ser::make,
      "rnd_prea_07__pari" => rnd_prea_07__pari::make,
      _ => panic!("no such program variant in this shard: {}", name),
   }
}

fn main() {
   quiet_panics();
   let mut out = Out::open();
   let cases = read_cases();
   let mut i = 0;
   while i < cases.len() {
      let case = &cases[i];
      let m = format!("{}__{}", case["prog"].as_str().unwrap(), case["var"].as_str().unwrap());
      if let Some(g) = case["group"].as_i64() {
         // cases of one group run simultaneously
         let mut grp = vec![];
         while i < cases.len() && cases[i]["group"].as_i64() == Some(g) {
            let m = format!("{}__{}", cases[i]["prog"].as_str().unwrap(), cases[i]["var"].as_str().unwrap());
            grp.push((cases[i].clone(), lookup(&m)));
            i += 1;
         }
         drive_group(&grp, &mut out);
      } else {
         drive(case, &mut out, lookup(&m));
         i += 1;
      }
   }
   out.flush();
}
