#![allow(unused_imports, unused_variables, unused_mut, dead_code, non_snake_case, unused_parens, clippy::all)]
use ascent::lattice::bounded_set::BoundedSet;
use ascent::lattice::constant_propagation::ConstPropagation;
use ascent::lattice::set::Set;
use ascent::lattice::Product;
use ascent::{Dual, Lattice};
use vh_lite::{rows_json, Driven, Value};

use vh_lite::{read_cases, drive, drive_group, quiet_panics, Out};

mod tc_left__ser;
mod tc_left__src0;
mod tc_left__srcpar;
mod tc_nonlin__ser;
mod tc_nonlin__permpar;
mod mutual__topar;
mod mutual__srcred;
mod mutual__permpar;
mod scc_chain__topar;
mod diamond__ser;
mod repeated__pari;
mod three_dyn__ser;
mod three_dyn__permpar;
mod conds__par;
mod conds__srcto;
mod conds__ren;
mod count_up__to;
mod multi_head__perm2;
mod facts__gen;
mod facts__runpar;
mod facts__strpar;
mod opt_cols__src1;
mod cartesian__ser;
mod same_gen__perm1;
mod not_reorderable__par;
mod pre_join_rec__ser;
mod pre_join_rec__permpar;
mod two_inputs__gen;
mod two_inputs__runpar;
mod two_inputs__strpar;
mod ternary__perm2;
mod bound_mix__pari;
mod join_chain__ser;
mod join_chain__u64;
mod reach__to;
mod lag_right__ser;
mod lag_right__permpar;
mod lag_left__topar;
mod lag_mid__pari;
mod lag_late_delta__ser;
mod multi_head_rec__to;
mod sp_dual__topar;
mod sp_dual__srcred;
mod sp_dual__permpar;
mod longest_capped__pari;
mod set_reach__run;
mod set_reach__redecl;
mod bset__topar;
mod opt_lat__pari;
mod lex_dual_lat__pari;
mod lat_two_keys__par;
mod lat_pre_join__par;
mod lat_val_bound__par;
mod lat_input__mrt;
mod lat_input__init;
mod count_paths__run;
mod count_paths__redecl;
mod neg_basic__topar;
mod neg_basic__srcred;
mod neg_basic__permpar;
mod agg_depth__pari;
mod agg_user__ser;
mod agg_bound_mix__ser;
mod agg_empty_rel__ser;
mod agg_const_args__exp;
mod disj__to;
mod disj__srcto;
mod disj__ren;
mod disj_nested__exppar;
mod rep_expr__pari;
mod neg_in_disj__ser;
mod mac_basic__to;
mod mac_basic__srcto;
mod mac_capture__ser;
mod mac_nested__exp;
mod mac_local_names__par;
mod mac_block__exppar;
mod stress_lat__pari;
mod rnd_core_01__par;
mod rnd_core_04__ser;
mod rnd_core_06__pari;
mod rnd_core_09__par;
mod rnd_core_12__ser;
mod rnd_core_14__pari;
mod rnd_core_17__par;
mod rnd_core_20__ser;
mod rnd_core_22__pari;
mod rnd_core_25__par;
mod rnd_core_28__ser;
mod rnd_core_30__pari;
mod rnd_agg_03__par;
mod rnd_agg_06__ser;
mod rnd_agg_08__pari;
mod rnd_agg_11__par;
mod rnd_agg_14__ser;
mod rnd_prec_01__pari;
mod rnd_prec_03__ser;
mod rnd_prec_04__to;
mod rnd_prec_06__par;
mod rnd_prec_07__topar;
mod rnd_prea_01__pari;
mod rnd_prea_04__par;
mod rnd_prea_07__ser;

fn lookup(name: &str) -> fn() -> Box<dyn Driven> {
   match name {
      "tc_left__ser" => tc_left__ser::make,
      "tc_left__src0" => tc_left__src0::make,
      "tc_left__srcpar" => tc_left__srcpar::make,
      "tc_nonlin__ser" => tc_nonlin__ser::make,
      "tc_nonlin__permpar" => tc_nonlin__permpar::make,
      "mutual__topar" => mutual__topar::make,
      "mutual__srcred" => mutual__srcred::make,
      "mutual__permpar" => mutual__permpar::make,
      "scc_chain__topar" => scc_chain__topar::make,
      "diamond__ser" => diamond__ser::make,
      "repeated__pari" => repeated__pari::make,
      "three_dyn__ser" => three_dyn__ser::make,
      "three_dyn__permpar" => three_dyn__permpar::make,
      "conds__par" => conds__par::make,
      "conds__srcto" => conds__srcto::make,
      "conds__ren" => conds__ren::make,
      "count_up__to" => count_up__to::make,
      "multi_head__perm2" => multi_head__perm2::make,
      "facts__gen" => facts__gen::make,
      "facts__runpar" => facts__runpar::make,
      "facts__strpar" => facts__strpar::make,
      "opt_cols__src1" => opt_cols__src1::make,
      "cartesian__ser" => cartesian__ser::make,
      "same_gen__perm1" => same_gen__perm1::make,
      "not_reorderable__par" => not_reorderable__par::make,
      "pre_join_rec__ser" => pre_join_rec__ser::make,
      "pre_join_rec__permpar" => pre_join_rec__permpar::make,
      "two_inputs__gen" => two_inputs__gen::make,
      "two_inputs__runpar" => two_inputs__runpar::make,
      "two_inputs__strpar" => two_inputs__strpar::make,
      "ternary__perm2" => ternary__perm2::make,
      "bound_mix__pari" => bound_mix__pari::make,
      "join_chain__ser" => join_chain__ser::make,
      "join_chain__u64" => join_chain__u64::make,
      "reach__to" => reach__to::make,
      "lag_right__ser" => lag_right__ser::make,
      "lag_right__permpar" => lag_right__permpar::make,
      "lag_left__topar" => lag_left__topar::make,
      "lag_mid__pari" => lag_mid__pari::make,
      "lag_late_delta__ser" => lag_late_delta__ser::make,
      "multi_head_rec__to" => multi_head_rec__to::make,
      "sp_dual__topar" => sp_dual__topar::make,
      "sp_dual__srcred" => sp_dual__srcred::make,
      "sp_dual__permpar" => sp_dual__permpar::make,
      "longest_capped__pari" => longest_capped__pari::make,
      "set_reach__run" => set_reach__run::make,
      "set_reach__redecl" => set_reach__redecl::make,
      "bset__topar" => bset__topar::make,
      "opt_lat__pari" => opt_lat__pari::make,
      "lex_dual_lat__pari" => lex_dual_lat__pari::make,
      "lat_two_keys__par" => lat_two_keys__par::make,
      "lat_pre_join__par" => lat_pre_join__par::make,
      "lat_val_bound__par" => lat_val_bound__par::make,
      "lat_input__mrt" => lat_input__mrt::make,
      "lat_input__init" => lat_input__init::make,
      "count_paths__run" => count_paths__run::make,
      "count_paths__redecl" => count_paths__redecl::make,
      "neg_basic__topar" => neg_basic__topar::make,
      "neg_basic__srcred" => neg_basic__srcred::make,
      "neg_basic__permpar" => neg_basic__permpar::make,
      "agg_depth__pari" => agg_depth__pari::make,
      "agg_user__ser" => agg_user__ser::make,
      "agg_bound_mix__ser" => agg_bound_mix__ser::make,
      "agg_empty_rel__ser" => agg_empty_rel__ser::make,
      "agg_const_args__exp" => agg_const_args__exp::make,
      "disj__to" => disj__to::make,
      "disj__srcto" => disj__srcto::make,
      "disj__ren" => disj__ren::make,
      "disj_nested__exppar" => disj_nested__exppar::make,
      "rep_expr__pari" => rep_expr__pari::make,
      "neg_in_disj__ser" => neg_in_disj__ser::make,
      "mac_basic__to" => mac_basic__to::make,
      "mac_basic__srcto" => mac_basic__srcto::make,
      "mac_capture__ser" => mac_capture__ser::make,
      "mac_nested__exp" => mac_nested__exp::make,
      "mac_local_names__par" => mac_local_names__par::make,
      "mac_block__exppar" => mac_block__exppar::make,
      "stress_lat__pari" => stress_lat__pari::make,
      "rnd_core_01__par" => rnd_core_01__par::make,
      "rnd_core_04__ser" => rnd_core_04__ser::make,
      "rnd_core_06__pari" => rnd_core_06__pari::make,
      "rnd_core_09__par" => rnd_core_09__par::make,
      "rnd_core_12__ser" => rnd_core_12__ser::make,
      "rnd_core_14__pari" => rnd_core_14__pari::make,
      "rnd_core_17__par" => rnd_core_17__par::make,
      "rnd_core_20__ser" => rnd_core_20__ser::make,
      "rnd_core_22__pari" => rnd_core_22__pari::make,
      "rnd_core_25__par" => rnd_core_25__par::make,
      "rnd_core_28__ser" => rnd_core_28__ser::make,
      "rnd_core_30__pari" => rnd_core_30__pari::make,
      "rnd_agg_03__par" => rnd_agg_03__par::make,
      "rnd_agg_06__ser" => rnd_agg_06__ser::make,
      "rnd_agg_08__pari" => rnd_agg_08__pari::make,
      "rnd_agg_11__par" => rnd_agg_11__par::make,
      "rnd_agg_14__ser" => rnd_agg_14__ser::make,
      "rnd_prec_01__pari" => rnd_prec_01__pari::make,
      "rnd_prec_03__ser" => rnd_prec_03__ser::make,
      "rnd_prec_04__to" => rnd_prec_04__to::make,
      "rnd_prec_06__par" => rnd_prec_06__par::make,
      "rnd_prec_07__topar" => rnd_prec_07__topar::make,
      "rnd_prea_01__pari" => rnd_prea_01__pari::make,
      "rnd_prea_04__par" => rnd_prea_04__par::make,
      "rnd_prea_07__ser" => rnd_prea_07__ser::make,
      _ => panic!("no such program variant in this shard: {}", name),
   }
}

fn main() {
   quiet_panics();
   let mut out = Out::open();
   let cases = read_cases();
   let mut i = 0;
   while i < cases.len() {
      let case = &cases[i];
      let m = format!("{}__{}", case["prog"].as_str().unwrap(), case["var"].as_str().unwrap());
      if let Some(g) = case["group"].as_i64() {
         // cases of one group run simultaneously
         let mut grp = vec![];
         while i < cases.len() && cases[i]["group"].as_i64() == Some(g) {
            let m = format!("{}__{}", cases[i]["prog"].as_str().unwrap(), cases[i]["var"].as_str().unwrap());
            grp.push((cases[i].clone(), lookup(&m)));
            i += 1;
         }
         drive_group(&grp, &mut out);
      } else {
         drive(case, &mut out, lookup(&m));
         i += 1;
      }
   }
   out.flush();
}
