#![allow(unused_imports, unused_variables, unused_mut, dead_code, non_snake_case, unused_parens, clippy::all)]
use ascent::lattice::bounded_set::BoundedSet;
use ascent::lattice::constant_propagation::ConstPropagation;
use ascent::lattice::set::Set;
use ascent::lattice::Product;
use ascent::{Dual, Lattice};
use vh_lite::{rows_json, Driven, Value};

use vh_lite::{read_cases, drive, drive_group, quiet_panics, Out};

mod tc_left__ser;
mod tc_left__src0;
mod tc_left__srcpar;
mod tc_nonlin__ser;
mod tc_nonlin__permpar;
mod mutual__topar;
mod mutual__srcred;
mod mutual__permpar;
mod scc_chain__topar;
mod diamond__ser;
mod repeated__pari;
mod three_dyn__ser;
mod three_dyn__permpar;
mod conds__par;
mod conds__srcto;
mod conds__ren;
mod count_up__to;
mod multi_head__perm2;
mod facts__gen;
mod facts__runpar;
mod facts__strpar;
mod opt_cols__src1;
mod cartesian__ser;
mod same_gen__perm1;
mod not_reorderable__par;
mod pre_join_rec__ser;
mod pre_join_rec__permpar;
mod two_inputs__gen;
mod two_inputs__runpar;
mod two_inputs__strpar;
mod ternary__perm2;
mod bound_mix__pari;
mod join_chain__ser;
mod join_chain__u64;
mod reach__to;
mod lag_right__ser;
mod lag_right__permpar;
mod lag_left__topar;
mod lag_mid__pari;
mod lag_late_delta__ser;
mod multi_head_rec__to;
mod sp_dual__topar;
mod sp_dual__srcred;
mod sp_dual__permpar;
mod longest_capped__pari;
mod set_reach__run;
mod set_reach__redecl;
mod bset__topar;
mod opt_lat__pari;
mod bool_lat__par;
mod lat_multi_improve__to;
mod lat_count_all__par;
mod lat_input__to;
mod lat_input__srcto;
mod count_paths__pari;
mod count_paths__src2;
mod neg_basic__par;
mod neg_basic__src1;
mod neg_basic__perm1;
mod agg_minmaxsum__pari;
mod agg_lattice__pari;
mod neg_rec_after__pari;
mod agg_empty__pari;
mod agg_const_args__ser;
mod disj__ser;
mod disj__src0;
mod disj__srcpar;
mod disj_nested__par;
mod pat_args__exppar;
mod multi_head_disj__pari;
mod mac_basic__ser;
mod mac_basic__src0;
mod mac_basic__srcpar;
mod mac_nested__ser;
mod mac_gensym_disj__exp;
mod mac_block__par;
mod mac_disj__exppar;
mod stress_rel__par;
mod rnd_core_03__ser;
mod rnd_core_05__pari;
mod rnd_core_08__par;
mod rnd_core_11__ser;
mod rnd_core_13__pari;
mod rnd_core_16__par;
mod rnd_core_19__ser;
mod rnd_core_21__pari;
mod rnd_core_24__par;
mod rnd_core_27__ser;
mod rnd_core_29__pari;
mod rnd_agg_02__par;
mod rnd_agg_05__ser;
mod rnd_agg_07__pari;
mod rnd_agg_10__par;
mod rnd_agg_13__ser;
mod rnd_agg_15__pari;
mod rnd_prec_02__pari;
mod rnd_prec_04__ser;
mod rnd_prec_05__to;
mod rnd_prec_07__par;
mod rnd_prec_08__topar;
mod rnd_prea_03__par;
mod rnd_prea_06__ser;
mod rnd_prea_08__pari;

fn lookup(name: &str) -> fn() -> Box<dyn Driven> {
   match name {
      "tc_left__ser" => tc_left__ser::make,
      "tc_left__src0" => tc_left__src0::make,
      "tc_left__srcpar" => tc_left__srcpar::make,
      "tc_nonlin__ser" => tc_nonlin__ser::make,
      "tc_nonlin__permpar" => tc_nonlin__permpar::make,
      "mutual__topar" => mutual__topar::make,
      "mutual__srcred" => mutual__srcred::make,
      "mutual__permpar" => mutual__permpar::make,
      "scc_chain__topar" => scc_chain__topar::make,
      "diamond__ser" => diamond__ser::make,
      "repeated__pari" => repeated__pari::make,
      "three_dyn__ser" => three_dyn__ser::make,
      "three_dyn__permpar" => three_dyn__permpar::make,
      "conds__par" => conds__par::make,
      "conds__srcto" => conds__srcto::make,
      "conds__ren" => conds__ren::make,
      "count_up__to" => count_up__to::make,
      "multi_head__perm2" => multi_head__perm2::make,
      "facts__gen" => facts__gen::make,
      "facts__runpar" => facts__runpar::make,
      "facts__strpar" => facts__strpar::make,
      "opt_cols__src1" => opt_cols__src1::make,
      "cartesian__ser" => cartesian__ser::make,
      "same_gen__perm1" => same_gen__perm1::make,
      "not_reorderable__par" => not_reorderable__par::make,
      "pre_join_rec__ser" => pre_join_rec__ser::make,
      "pre_join_rec__permpar" => pre_join_rec__permpar::make,
      "two_inputs__gen" => two_inputs__gen::make,
      "two_inputs__runpar" => two_inputs__runpar::make,
      "two_inputs__strpar" => two_inputs__strpar::make,
      "ternary__perm2" => ternary__perm2::make,
      "bound_mix__pari" => bound_mix__pari::make,
      "join_chain__ser" => join_chain__ser::make,
      "join_chain__u64" => join_chain__u64::make,
      "reach__to" => reach__to::make,
      "lag_right__ser" => lag_right__ser::make,
      "lag_right__permpar" => lag_right__permpar::make,
      "lag_left__topar" => lag_left__topar::make,
      "lag_mid__pari" => lag_mid__pari::make,
      "lag_late_delta__ser" => lag_late_delta__ser::make,
      "multi_head_rec__to" => multi_head_rec__to::make,
      "sp_dual__topar" => sp_dual__topar::make,
      "sp_dual__srcred" => sp_dual__srcred::make,
      "sp_dual__permpar" => sp_dual__permpar::make,
      "longest_capped__pari" => longest_capped__pari::make,
      "set_reach__run" => set_reach__run::make,
      "set_reach__redecl" => set_reach__redecl::make,
      "bset__topar" => bset__topar::make,
      "opt_lat__pari" => opt_lat__pari::make,
      "bool_lat__par" => bool_lat__par::make,
      "lat_multi_improve__to" => lat_multi_improve__to::make,
      "lat_count_all__par" => lat_count_all__par::make,
      "lat_input__to" => lat_input__to::make,
      "lat_input__srcto" => lat_input__srcto::make,
      "count_paths__pari" => count_paths__pari::make,
      "count_paths__src2" => count_paths__src2::make,
      "neg_basic__par" => neg_basic__par::make,
      "neg_basic__src1" => neg_basic__src1::make,
      "neg_basic__perm1" => neg_basic__perm1::make,
      "agg_minmaxsum__pari" => agg_minmaxsum__pari::make,
      "agg_lattice__pari" => agg_lattice__pari::make,
      "neg_rec_after__pari" => neg_rec_after__pari::make,
      "agg_empty__pari" => agg_empty__pari::make,
      "agg_const_args__ser" => agg_const_args__ser::make,
      "disj__ser" => disj__ser::make,
      "disj__src0" => disj__src0::make,
      "disj__srcpar" => disj__srcpar::make,
      "disj_nested__par" => disj_nested__par::make,
      "pat_args__exppar" => pat_args__exppar::make,
      "multi_head_disj__pari" => multi_head_disj__pari::make,
      "mac_basic__ser" => mac_basic__ser::make,
      "mac_basic__src0" => mac_basic__src0::make,
      "mac_basic__srcpar" => mac_basic__srcpar::make,
      "mac_nested__ser" => mac_nested__ser::make,
      "mac_gensym_disj__exp" => mac_gensym_disj__exp::make,
      "mac_block__par" => mac_block__par::make,
      "mac_disj__exppar" => mac_disj__exppar::make,
      "stress_rel__par" => stress_rel__par::make,
      "rnd_core_03__ser" => rnd_core_03__ser::make,
      "rnd_core_05__pari" => rnd_core_05__pari::make,
      "rnd_core_08__par" => rnd_core_08__par::make,
      "rnd_core_11__ser" => rnd_core_11__ser::make,
      "rnd_core_13__pari" => rnd_core_13__pari::make,
      "rnd_core_16__par" => rnd_core_16__par::make,
      "rnd_core_19__ser" => rnd_core_19__ser::make,
      "rnd_core_21__pari" => rnd_core_21__pari::make,
      "rnd_core_24__par" => rnd_core_24__par::make,
      "rnd_core_27__ser" => rnd_core_27__ser::make,
      "rnd_core_29__pari" => rnd_core_29__pari::make,
      "rnd_agg_02__par" => rnd_agg_02__par::make,
      "rnd_agg_05__ser" => rnd_agg_05__ser::make,
      "rnd_agg_07__pari" => rnd_agg_07__pari::make,
      "rnd_agg_10__par" => rnd_agg_10__par::make,
      "rnd_agg_13__ser" => rnd_agg_13__ser::make,
      "rnd_agg_15__pari" => rnd_agg_15__pari::make,
      "rnd_prec_02__pari" => rnd_prec_02__pari::make,
      "rnd_prec_04__ser" => rnd_prec_04__ser::make,
      "rnd_prec_05__to" => rnd_prec_05__to::make,
      "rnd_prec_07__par" => rnd_prec_07__par::make,
      "rnd_prec_08__topar" => rnd_prec_08__topar::make,
      "rnd_prea_03__par" => rnd_prea_03__par::make,
      "rnd_prea_06__ser" => rnd_prea_06__ser::make,
      "rnd_prea_08__pari" => rnd_prea_08__pari::make,
      _ => panic!("no such program variant in this shard: {}", name),
   }
}

fn main() {
   quiet_panics();
   let mut out = Out::open();
   let cases = read_cases();
   let mut i = 0;
   while i < cases.len() {
      let case = &cases[i];
      let m = format!("{}__{}", case["prog"].as_str().unwrap(), case["var"].as_str().unwrap());
      if let Some(g) = case["group"].as_i64() {
         // cases of one group run simultaneously
         let mut grp = vec![];
         while i < cases.len() && cases[i]["group"].as_i64() == Some(g) {
            let m = format!("{}__{}", cases[i]["prog"].as_str().unwrap(), cases[i]["var"].as_str().unwrap());
            grp.push((cases[i].clone(), lookup(&m)));
            i += 1;
         }
         drive_group(&grp, &mut out);
      } else {
         drive(case, &mut out, lookup(&m));
         i += 1;
      }
   }
   out.flush();
}
