#![allow(unused_imports, unused_variables, unused_mut, dead_code, non_snake_case, unused_parens, clippy::all)]
use ascent::lattice::bounded_set::BoundedSet;
use ascent::lattice::constant_propagation::ConstPropagation;
use ascent::lattice::set::Set;
use ascent::lattice::Product;
use ascent::{Dual, Lattice};
use vh_lite::{rows_json, Driven, Value};

use vh_lite::{read_cases, drive, drive_group, quiet_panics, Out};

mod tc_left__ser;
mod tc_left__src0;
mod tc_left__runhead;
mod tc_left__u64;
mod tc_nonlin__perm2;
mod mutual__pari;
mod mutual__src2;
mod mutual__srcpar;
mod scc_chain__ser;
mod scc_chain__permpar;
mod consts__par;
mod repeated__permpar;
mod three_dyn__topar;
mod four_dyn__ser;
mod conds__gen;
mod conds__init3;
mod expr_args__ser;
mod multi_head__ser;
mod multi_head__permpar;
mod facts__src1;
mod facts__runpar;
mod facts__strpar;
mod opt_cols__src1;
mod opt_cols__runpar;
mod same_gen__to;
mod same_gen__strpar;
mod not_reorderable__ren;
mod pre_join_rec__perm2;
mod two_inputs__run;
mod two_inputs__redecl;
mod two_inputs__ren;
mod ternary__ser;
mod ternary__u64;
mod bound_mix__permpar;
mod join_chain__perm2;
mod cond_simple_join__pari;
mod zero_arity__pari;
mod lag_right__topar;
mod lag_left__ser;
mod lag_three__to;
mod lag_mid__permpar;
mod lag_late_delta__topar;
mod sp_dual__ser;
mod sp_dual__src0;
mod sp_dual__runhead;
mod sp_weighted__par;
mod longest_capped__topar;
mod set_reach__gen;
mod set_reach__init3;
mod bset__topar;
mod opt_lat__pari;
mod lex_dual_lat__pari;
mod lat_two_keys__par;
mod lat_pre_join__par;
mod lat_val_bound__par;
mod lat_input__mrt;
mod lat_input__init;
mod count_paths__to;
mod count_paths__srcto;
mod neg_basic__ser;
mod neg_basic__src0;
mod neg_basic__runhead;
mod neg_basic__exppar;
mod agg_depth__topar;
mod agg_user__pari;
mod agg_bound_mix__pari;
mod agg_empty_rel__pari;
mod agg_pre_join__ser;
mod disj__run;
mod disj__redecl;
mod disj__ren;
mod disj_nested__exppar;
mod rep_expr__pari;
mod neg_in_disj__ser;
mod mac_basic__to;
mod mac_basic__srcto;
mod mac_basic__exp;
mod mac_nested__par;
mod mac_gensym_disj__exppar;
mod mac_block__pari;
mod stress_lat__ser;
mod stress_rel__pari;
mod rnd_core_03__par;
mod rnd_core_06__ser;
mod rnd_core_08__pari;
mod rnd_core_11__par;
mod rnd_core_14__ser;
mod rnd_core_16__pari;
mod rnd_core_19__par;
mod rnd_core_22__ser;
mod rnd_core_24__pari;
mod rnd_core_27__par;
mod rnd_core_30__ser;
mod rnd_agg_02__pari;
mod rnd_agg_05__par;
mod rnd_agg_08__ser;
mod rnd_agg_10__pari;
mod rnd_agg_13__par;
mod rnd_prec_01__ser;
mod rnd_prec_02__to;
mod rnd_prec_04__par;
mod rnd_prec_05__topar;
mod rnd_prec_07__pari;
mod rnd_prea_01__ser;
mod rnd_prea_03__pari;
mod rnd_prea_06__par;

fn lookup(name: &str) -> fn() -> Box<dyn Driven> {
   match name {
      "tc_left__ser" => tc_left__ser::make,
      "tc_left__src0" => tc_left__src0::make,
      "tc_left__runhead" => tc_left__runhead::make,
      "tc_left__u64" => tc_left__u64::make,
      "tc_nonlin__perm2" => tc_nonlin__perm2::make,
      "mutual__pari" => mutual__pari::make,
      "mutual__src2" => mutual__src2::make,
      "mutual__srcpar" => mutual__srcpar::make,
      "scc_chain__ser" => scc_chain__ser::make,
      "scc_chain__permpar" => scc_chain__permpar::make,
      "consts__par" => consts__par::make,
      "repeated__permpar" => repeated__permpar::make,
      "three_dyn__topar" => three_dyn__topar::make,
      "four_dyn__ser" => four_dyn__ser::make,
      "conds__gen" => conds__gen::make,
      "conds__init3" => conds__init3::make,
      "expr_args__ser" => expr_args__ser::make,
      "multi_head__ser" => multi_head__ser::make,
      "multi_head__permpar" => multi_head__permpar::make,
      "facts__src1" => facts__src1::make,
      "facts__runpar" => facts__runpar::make,
      "facts__strpar" => facts__strpar::make,
      "opt_cols__src1" => opt_cols__src1::make,
      "opt_cols__runpar" => opt_cols__runpar::make,
      "same_gen__to" => same_gen__to::make,
      "same_gen__strpar" => same_gen__strpar::make,
      "not_reorderable__ren" => not_reorderable__ren::make,
      "pre_join_rec__perm2" => pre_join_rec__perm2::make,
      "two_inputs__run" => two_inputs__run::make,
      "two_inputs__redecl" => two_inputs__redecl::make,
      "two_inputs__ren" => two_inputs__ren::make,
      "ternary__ser" => ternary__ser::make,
      "ternary__u64" => ternary__u64::make,
      "bound_mix__permpar" => bound_mix__permpar::make,
      "join_chain__perm2" => join_chain__perm2::make,
      "cond_simple_join__pari" => cond_simple_join__pari::make,
      "zero_arity__pari" => zero_arity__pari::make,
      "lag_right__topar" => lag_right__topar::make,
      "lag_left__ser" => lag_left__ser::make,
      "lag_three__to" => lag_three__to::make,
      "lag_mid__permpar" => lag_mid__permpar::make,
      "lag_late_delta__topar" => lag_late_delta__topar::make,
      "sp_dual__ser" => sp_dual__ser::make,
      "sp_dual__src0" => sp_dual__src0::make,
      "sp_dual__runhead" => sp_dual__runhead::make,
      "sp_weighted__par" => sp_weighted__par::make,
      "longest_capped__topar" => longest_capped__topar::make,
      "set_reach__gen" => set_reach__gen::make,
      "set_reach__init3" => set_reach__init3::make,
      "bset__topar" => bset__topar::make,
      "opt_lat__pari" => opt_lat__pari::make,
      "lex_dual_lat__pari" => lex_dual_lat__pari::make,
      "lat_two_keys__par" => lat_two_keys__par::make,
      "lat_pre_join__par" => lat_pre_join__par::make,
      "lat_val_bound__par" => lat_val_bound__par::make,
      "lat_input__mrt" => lat_input__mrt::make,
      "lat_input__init" => lat_input__init::make,
      "count_paths__to" => count_paths__to::make,
      "count_paths__srcto" => count_paths__srcto::make,
      "neg_basic__ser" => neg_basic__ser::make,
      "neg_basic__src0" => neg_basic__src0::make,
      "neg_basic__runhead" => neg_basic__runhead::make,
      "neg_basic__exppar" => neg_basic__exppar::make,
      "agg_depth__topar" => agg_depth__topar::make,
      "agg_user__pari" => agg_user__pari::make,
      "agg_bound_mix__pari" => agg_bound_mix__pari::make,
      "agg_empty_rel__pari" => agg_empty_rel__pari::make,
      "agg_pre_join__ser" => agg_pre_join__ser::make,
      "disj__run" => disj__run::make,
      "disj__redecl" => disj__redecl::make,
      "disj__ren" => disj__ren::make,
      "disj_nested__exppar" => disj_nested__exppar::make,
      "rep_expr__pari" => rep_expr__pari::make,
      "neg_in_disj__ser" => neg_in_disj__ser::make,
      "mac_basic__to" => mac_basic__to::make,
      "mac_basic__srcto" => mac_basic__srcto::make,
      "mac_basic__exp" => mac_basic__exp::make,
      "mac_nested__par" => mac_nested__par::make,
      "mac_gensym_disj__exppar" => mac_gensym_disj__exppar::make,
      "mac_block__pari" => mac_block__pari::make,
      "stress_lat__ser" => stress_lat__ser::make,
      "stress_rel__pari" => stress_rel__pari::make,
      "rnd_core_03__par" => rnd_core_03__par::make,
      "rnd_core_06__ser" => rnd_core_06__ser::make,
      "rnd_core_08__pari" => rnd_core_08__pari::make,
      "rnd_core_11__par" => rnd_core_11__par::make,
      "rnd_core_14__ser" => rnd_core_14__ser::make,
      "rnd_core_16__pari" => rnd_core_16__pari::make,
      "rnd_core_19__par" => rnd_core_19__par::make,
      "rnd_core_22__ser" => rnd_core_22__ser::make,
      "rnd_core_24__pari" => rnd_core_24__pari::make,
      "rnd_core_27__par" => rnd_core_27__par::make,
      "rnd_core_30__ser" => rnd_core_30__ser::make,
      "rnd_agg_02__pari" => rnd_agg_02__pari::make,
      "rnd_agg_05__par" => rnd_agg_05__par::make,
      "rnd_agg_08__ser" => rnd_agg_08__ser::make,
      "rnd_agg_10__pari" => rnd_agg_10__pari::make,
      "rnd_agg_13__par" => rnd_agg_13__par::make,
      "rnd_prec_01__ser" => rnd_prec_01__ser::make,
      "rnd_prec_02__to" => rnd_prec_02__to::make,
      "rnd_prec_04__par" => rnd_prec_04__par::make,
      "rnd_prec_05__topar" => rnd_prec_05__topar::make,
      "rnd_prec_07__pari" => rnd_prec_07__pari::make,
      "rnd_prea_01__ser" => rnd_prea_01__ser::make,
      "rnd_prea_03__pari" => rnd_prea_03__pari::make,
      "rnd_prea_06__par" => rnd_prea_06__par::make,
      _ => panic!("no such program variant in this shard: {}", name),
   }
}

fn main() {
   quiet_panics();
   let mut out = Out::open();
   let cases = read_cases();
   let mut i = 0;
   while i < cases.len() {
      let case = &cases[i];
      let m = format!("{}__{}", case["prog"].as_str().unwrap(), case["var"].as_str().unwrap());
      if let Some(g) = case["group"].as_i64() {
         // cases of one group run simultaneously
         let mut grp = vec![];
         while i < cases.len() && cases[i]["group"].as_i64() == Some(g) {
            let m = format!("{}__{}", cases[i]["prog"].as_str().unwrap(), cases[i]["var"].as_str().unwrap());
            grp.push((cases[i].clone(), lookup(&m)));
            i += 1;
         }
         drive_group(&grp, &mut out);
      } else {
         drive(case, &mut out, lookup(&m));
         i += 1;
      }
   }
   out.flush();
}
