#![allow(unused_imports, unused_variables, unused_mut, dead_code, non_snake_case, unused_parens, clippy::all)]
use ascent::lattice::bounded_set::BoundedSet;
use ascent::lattice::constant_propagation::ConstPropagation;
use ascent::lattice::set::Set;
use ascent::lattice::Product;
use ascent::{Dual, Lattice};
use vh_lite::{rows_json, Driven, Value};
ascent::ascent! {
   pub struct Prog;
   relation src(i32, i32);
   relation link(i32, i32);
   lattice m(i32, i32);
   relation hot(i32);
   m(k, v) <-- src(k, v);
   m(k, v) <-- m(j, v), link(j, k);
   hot(k) <-- m(k, v), if ((*v) >= 6);
}

pub struct D(Prog);
impl Driven for D {
   fn push(&mut self, rel: &str, row: &Value) {
      match rel {
         "src" => { self.0.src.push((row[0].as_i64().unwrap() as i32, row[1].as_i64().unwrap() as i32,)); },
         "link" => { self.0.link.push((row[0].as_i64().unwrap() as i32, row[1].as_i64().unwrap() as i32,)); },
         "m" => { self.0.m.push((row[0].as_i64().unwrap() as i32, row[1].as_i64().unwrap() as i32,)); },
         "hot" => { self.0.hot.push((row[0].as_i64().unwrap() as i32,)); },
         _ => panic!("verif harness: unknown relation {}", rel),
      }
   }
   fn clear(&mut self, rel: &str) {
      match rel {
         "src" => { self.0.src = Default::default(); },
         "link" => { self.0.link = Default::default(); },
         "m" => { self.0.m = Default::default(); },
         "hot" => { self.0.hot = Default::default(); },
         _ => panic!("verif harness: unknown relation {}", rel),
      }
   }
   fn run(&mut self) { self.0.run(); }
   fn dump(&self) -> Value {
      let mut m: Vec<(String, Value)> = vec![];
      m.push(("src".to_string(), rows_json(self.0.src.iter())));
      m.push(("link".to_string(), rows_json(self.0.link.iter())));
      m.push(("m".to_string(), rows_json(self.0.m.iter())));
      m.push(("hot".to_string(), rows_json(self.0.hot.iter())));
      Value::Obj(m)
   }
   fn summary(&self) -> String { Prog::summary().to_string() }
}
pub fn make() -> Box<dyn Driven> { Box::new(D(Prog::default())) }
