#![allow(unused_imports, unused_variables, unused_mut, dead_code, non_snake_case, unused_parens, clippy::all)]
use ascent::lattice::bounded_set::BoundedSet;
use ascent::lattice::constant_propagation::ConstPropagation;
use ascent::lattice::set::Set;
use ascent::lattice::Product;
use ascent::{Dual, Lattice};
use vh_lite::{rows_json, Driven, Value};
ascent::ascent_par! {
   pub struct Prog;
   relation f(String, String);
   relation e(String, String);
   relation g(String, String);
   relation h(String);
   f("s1".to_string(), "s2".to_string());
   f("s2".to_string(), "s0".to_string());
   g(x, z) <-- f(x, y), e(y, z);
   g(x, z) <-- e(x, y), f(y, z);
   h("s7".to_string());
   h(x) <-- g(x, _);
}

pub struct D(Prog);
impl Driven for D {
   fn push(&mut self, rel: &str, row: &Value) {
      match rel {
         "f" => { self.0.f.push((format!("s{}", row[0].as_i64().unwrap()), format!("s{}", row[1].as_i64().unwrap()),)); },
         "e" => { self.0.e.push((format!("s{}", row[0].as_i64().unwrap()), format!("s{}", row[1].as_i64().unwrap()),)); },
         "g" => { self.0.g.push((format!("s{}", row[0].as_i64().unwrap()), format!("s{}", row[1].as_i64().unwrap()),)); },
         "h" => { self.0.h.push((format!("s{}", row[0].as_i64().unwrap()),)); },
         _ => panic!("verif harness: unknown relation {}", rel),
      }
   }
   fn clear(&mut self, rel: &str) {
      match rel {
         "f" => { self.0.f = Default::default(); },
         "e" => { self.0.e = Default::default(); },
         "g" => { self.0.g = Default::default(); },
         "h" => { self.0.h = Default::default(); },
         _ => panic!("verif harness: unknown relation {}", rel),
      }
   }
   fn run(&mut self) { self.0.run(); }
   fn dump(&self) -> Value {
      let mut m: Vec<(String, Value)> = vec![];
      m.push(("f".to_string(), rows_json(self.0.f.iter())));
      m.push(("e".to_string(), rows_json(self.0.e.iter())));
      m.push(("g".to_string(), rows_json(self.0.g.iter())));
      m.push(("h".to_string(), rows_json(self.0.h.iter())));
      Value::Obj(m)
   }
   fn summary(&self) -> String { Prog::summary().to_string() }
}
pub fn make() -> Box<dyn Driven> { Box::new(D(Prog::default())) }
