#![allow(unused_imports, unused_variables, unused_mut, dead_code, non_snake_case, unused_parens, clippy::all)]
use ascent::lattice::bounded_set::BoundedSet;
use ascent::lattice::constant_propagation::ConstPropagation;
use ascent::lattice::set::Set;
use ascent::lattice::Product;
use ascent::{Dual, Lattice};
use vh_lite::{rows_json, Driven, Value};
ascent::ascent_par! {
   pub struct Prog;
   relation f(i32, i32);
   relation c(i32, i32);
   relation b(i32, i32);
   relation r(i32, i32);
   relation e(i32, i32);
   relation a(i32, i32);
   a(x, y) <-- e(x, y);
   r(x, w) <-- b(y, z), c(z, w), a(x, y);
   c(x, y) <-- f(y, y), e(x, x), r(x, y);
   b(x, y) <-- f(x, y);
   b(x, z) <-- b(x, y), f(y, z);
   a(x, y) <-- r(x, y), f(x, x);
   b(x, y) <-- e(y, y), f(y, y), r(y, x);
   c(x, y) <-- e(y, x);
}

pub struct D(Prog);
impl Driven for D {
   fn push(&mut self, rel: &str, row: &Value) {
      match rel {
         "f" => { self.0.f.push((row[0].as_i64().unwrap() as i32, row[1].as_i64().unwrap() as i32,)); },
         "c" => { self.0.c.push((row[0].as_i64().unwrap() as i32, row[1].as_i64().unwrap() as i32,)); },
         "b" => { self.0.b.push((row[0].as_i64().unwrap() as i32, row[1].as_i64().unwrap() as i32,)); },
         "r" => { self.0.r.push((row[0].as_i64().unwrap() as i32, row[1].as_i64().unwrap() as i32,)); },
         "e" => { self.0.e.push((row[0].as_i64().unwrap() as i32, row[1].as_i64().unwrap() as i32,)); },
         "a" => { self.0.a.push((row[0].as_i64().unwrap() as i32, row[1].as_i64().unwrap() as i32,)); },
         _ => panic!("verif harness: unknown relation {}", rel),
      }
   }
   fn clear(&mut self, rel: &str) {
      match rel {
         "f" => { self.0.f = Default::default(); },
         "c" => { self.0.c = Default::default(); },
         "b" => { self.0.b = Default::default(); },
         "r" => { self.0.r = Default::default(); },
         "e" => { self.0.e = Default::default(); },
         "a" => { self.0.a = Default::default(); },
         _ => panic!("verif harness: unknown relation {}", rel),
      }
   }
   fn run(&mut self) { self.0.run(); }
   fn dump(&self) -> Value {
      let mut m: Vec<(String, Value)> = vec![];
      m.push(("f".to_string(), rows_json(self.0.f.iter())));
      m.push(("c".to_string(), rows_json(self.0.c.iter())));
      m.push(("b".to_string(), rows_json(self.0.b.iter())));
      m.push(("r".to_string(), rows_json(self.0.r.iter())));
      m.push(("e".to_string(), rows_json(self.0.e.iter())));
      m.push(("a".to_string(), rows_json(self.0.a.iter())));
      Value::Obj(m)
   }
   fn summary(&self) -> String { Prog::summary().to_string() }
}
pub fn make() -> Box<dyn Driven> { Box::new(D(Prog::default())) }
