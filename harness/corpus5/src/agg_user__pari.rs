#![allow(unused_imports, unused_variables, unused_mut, dead_code, non_snake_case, unused_parens, clippy::all)]
use ascent::lattice::bounded_set::BoundedSet;
use ascent::lattice::constant_propagation::ConstPropagation;
use ascent::lattice::set::Set;
use ascent::lattice::Product;
use ascent::{Dual, Lattice};
use vh_lite::{rows_json, Driven, Value};
ascent::ascent_par! {
   #![inter_rule_parallelism]
   pub struct Prog;
   relation w(i32, i32, i32);
   relation ext(i32, i32);
   relation sp(i32);
   relation cntk(i32, i32);
   ext(x, m) <-- w(x, _, _), agg m = vh_lite::aggs::minmax(c) in w(x, _, c);
   sp(s) <-- agg s = vh_lite::aggs::sumpairs(a, b) in w(a, b, _);
   cntk(y, (n as i32)) <-- w(_, y, _), agg n = ascent::aggregators::count() in w(_, y, _);
}

pub struct D(Prog);
impl Driven for D {
   fn push(&mut self, rel: &str, row: &Value) {
      match rel {
         "w" => { self.0.w.push((row[0].as_i64().unwrap() as i32, row[1].as_i64().unwrap() as i32, row[2].as_i64().unwrap() as i32,)); },
         "ext" => { self.0.ext.push((row[0].as_i64().unwrap() as i32, row[1].as_i64().unwrap() as i32,)); },
         "sp" => { self.0.sp.push((row[0].as_i64().unwrap() as i32,)); },
         "cntk" => { self.0.cntk.push((row[0].as_i64().unwrap() as i32, row[1].as_i64().unwrap() as i32,)); },
         _ => panic!("verif harness: unknown relation {}", rel),
      }
   }
   fn clear(&mut self, rel: &str) {
      match rel {
         "w" => { self.0.w = Default::default(); },
         "ext" => { self.0.ext = Default::default(); },
         "sp" => { self.0.sp = Default::default(); },
         "cntk" => { self.0.cntk = Default::default(); },
         _ => panic!("verif harness: unknown relation {}", rel),
      }
   }
   fn run(&mut self) { self.0.run(); }
   fn dump(&self) -> Value {
      let mut m: Vec<(String, Value)> = vec![];
      m.push(("w".to_string(), rows_json(self.0.w.iter())));
      m.push(("ext".to_string(), rows_json(self.0.ext.iter())));
      m.push(("sp".to_string(), rows_json(self.0.sp.iter())));
      m.push(("cntk".to_string(), rows_json(self.0.cntk.iter())));
      Value::Obj(m)
   }
   fn summary(&self) -> String { Prog::summary().to_string() }
}
pub fn make() -> Box<dyn Driven> { Box::new(D(Prog::default())) }
