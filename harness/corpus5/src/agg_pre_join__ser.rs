#![allow(unused_imports, unused_variables, unused_mut, dead_code, non_snake_case, unused_parens, clippy::all)]
use ascent::lattice::bounded_set::BoundedSet;
use ascent::lattice::constant_propagation::ConstPropagation;
use ascent::lattice::set::Set;
use ascent::lattice::Product;
use ascent::{Dual, Lattice};
use vh_lite::{rows_json, Driven, Value};
ascent::ascent! {
   pub struct Prog;
   relation score(i32);
   relation entry(i32, i32);
   relation level(i32, i32);
   relation winner(i32, i32);
   relation sized(i32, i32);
   winner(x, m) <-- agg m = ascent::aggregators::max(v) in score(v), entry(x, y), level(y, m);
   sized(x, n) <-- agg n = ascent::aggregators::sum(v) in score(v), entry(x, y), level(y, n);
}

pub struct D(Prog);
impl Driven for D {
   fn push(&mut self, rel: &str, row: &Value) {
      match rel {
         "score" => { self.0.score.push((row[0].as_i64().unwrap() as i32,)); },
         "entry" => { self.0.entry.push((row[0].as_i64().unwrap() as i32, row[1].as_i64().unwrap() as i32,)); },
         "level" => { self.0.level.push((row[0].as_i64().unwrap() as i32, row[1].as_i64().unwrap() as i32,)); },
         "winner" => { self.0.winner.push((row[0].as_i64().unwrap() as i32, row[1].as_i64().unwrap() as i32,)); },
         "sized" => { self.0.sized.push((row[0].as_i64().unwrap() as i32, row[1].as_i64().unwrap() as i32,)); },
         _ => panic!("verif harness: unknown relation {}", rel),
      }
   }
   fn clear(&mut self, rel: &str) {
      match rel {
         "score" => { self.0.score = Default::default(); },
         "entry" => { self.0.entry = Default::default(); },
         "level" => { self.0.level = Default::default(); },
         "winner" => { self.0.winner = Default::default(); },
         "sized" => { self.0.sized = Default::default(); },
         _ => panic!("verif harness: unknown relation {}", rel),
      }
   }
   fn run(&mut self) { self.0.run(); }
   fn dump(&self) -> Value {
      let mut m: Vec<(String, Value)> = vec![];
      m.push(("score".to_string(), rows_json(self.0.score.iter())));
      m.push(("entry".to_string(), rows_json(self.0.entry.iter())));
      m.push(("level".to_string(), rows_json(self.0.level.iter())));
      m.push(("winner".to_string(), rows_json(self.0.winner.iter())));
      m.push(("sized".to_string(), rows_json(self.0.sized.iter())));
      Value::Obj(m)
   }
   fn summary(&self) -> String { Prog::summary().to_string() }
}
pub fn make() -> Box<dyn Driven> { Box::new(D(Prog::default())) }
