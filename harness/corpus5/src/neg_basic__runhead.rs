#![allow(unused_imports, unused_variables, unused_mut, dead_code, non_snake_case, unused_parens, clippy::all)]
use ascent::lattice::bounded_set::BoundedSet;
use ascent::lattice::constant_propagation::ConstPropagation;
use ascent::lattice::set::Set;
use ascent::lattice::Product;
use ascent::{Dual, Lattice};
use vh_lite::{rows_json, Driven, Value};
#[derive(Default)]
pub struct D {
   e: Vec<(i32, i32,)>,
   p: Vec<(i32, i32,)>,
   node: Vec<(i32,)>,
   unreach: Vec<(i32, i32,)>,
   sink: Vec<(i32,)>,
   out: Option<Value>,
}
impl Driven for D {
   fn push(&mut self, rel: &str, row: &Value) {
      match rel {
         "e" => { self.e.push((row[0].as_i64().unwrap() as i32, row[1].as_i64().unwrap() as i32,)); },
         "p" => { self.p.push((row[0].as_i64().unwrap() as i32, row[1].as_i64().unwrap() as i32,)); },
         "node" => { self.node.push((row[0].as_i64().unwrap() as i32,)); },
         "unreach" => { self.unreach.push((row[0].as_i64().unwrap() as i32, row[1].as_i64().unwrap() as i32,)); },
         "sink" => { self.sink.push((row[0].as_i64().unwrap() as i32,)); },
         _ => panic!("verif harness: unknown relation {}", rel),
      }
   }
   fn run(&mut self) {
      let e_init = self.e.clone();
      let unreach_init = self.unreach.clone();
      let sink_init = self.sink.clone();
      let res = ascent::ascent_run! {
         relation e(i32, i32);
         relation p(i32, i32);
         relation node(i32);
         relation unreach(i32, i32) = unreach_init;
         relation sink(i32) = sink_init;
         e(a0.clone(), a1.clone()) <-- for (a0, a1, ) in e_init.iter();
         p(x, y) <-- e(x, y);
         p(x, z) <-- e(x, y), p(y, z);
         node(x) <-- e(x, _);
         node(x) <-- e(_, x);
         unreach(x, y) <-- node(x), node(y), !p(x, y);
         sink(x) <-- node(x), !e(x, _);
      };
      let mut m: Vec<(String, Value)> = vec![];
      m.push(("e".to_string(), rows_json(res.e.iter())));
      m.push(("p".to_string(), rows_json(res.p.iter())));
      m.push(("node".to_string(), rows_json(res.node.iter())));
      m.push(("unreach".to_string(), rows_json(res.unreach.iter())));
      m.push(("sink".to_string(), rows_json(res.sink.iter())));
      self.out = Some(Value::Obj(m));
   }
   fn dump(&self) -> Value { self.out.clone().unwrap_or(Value::Null) }
}
pub fn make() -> Box<dyn Driven> { Box::new(D::default()) }
