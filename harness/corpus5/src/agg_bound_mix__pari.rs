#![allow(unused_imports, unused_variables, unused_mut, dead_code, non_snake_case, unused_parens, clippy::all)]
use ascent::lattice::bounded_set::BoundedSet;
use ascent::lattice::constant_propagation::ConstPropagation;
use ascent::lattice::set::Set;
use ascent::lattice::Product;
use ascent::{Dual, Lattice};
use vh_lite::{rows_json, Driven, Value};
ascent::ascent_par! {
   #![inter_rule_parallelism]
   pub struct Prog;
   relation t(i32, i32, i32);
   relation u(i32);
   relation a1(i32, i32);
   relation a2(i32, i32, i32);
   relation a3(i32);
   a1(y, (n as i32)) <-- u(y), agg n = ascent::aggregators::count() in t(_, y, _);
   a2(x, z, m) <-- t(x, _, z), agg m = ascent::aggregators::max(y) in t(x, y, z);
   a3(s) <-- u(k), agg s = ascent::aggregators::sum(x) in t(x, k, k);
}

pub struct D(Prog);
impl Driven for D {
   fn push(&mut self, rel: &str, row: &Value) {
      match rel {
         "t" => { self.0.t.push((row[0].as_i64().unwrap() as i32, row[1].as_i64().unwrap() as i32, row[2].as_i64().unwrap() as i32,)); },
         "u" => { self.0.u.push((row[0].as_i64().unwrap() as i32,)); },
         "a1" => { self.0.a1.push((row[0].as_i64().unwrap() as i32, row[1].as_i64().unwrap() as i32,)); },
         "a2" => { self.0.a2.push((row[0].as_i64().unwrap() as i32, row[1].as_i64().unwrap() as i32, row[2].as_i64().unwrap() as i32,)); },
         "a3" => { self.0.a3.push((row[0].as_i64().unwrap() as i32,)); },
         _ => panic!("verif harness: unknown relation {}", rel),
      }
   }
   fn clear(&mut self, rel: &str) {
      match rel {
         "t" => { self.0.t = Default::default(); },
         "u" => { self.0.u = Default::default(); },
         "a1" => { self.0.a1 = Default::default(); },
         "a2" => { self.0.a2 = Default::default(); },
         "a3" => { self.0.a3 = Default::default(); },
         _ => panic!("verif harness: unknown relation {}", rel),
      }
   }
   fn run(&mut self) { self.0.run(); }
   fn dump(&self) -> Value {
      let mut m: Vec<(String, Value)> = vec![];
      m.push(("t".to_string(), rows_json(self.0.t.iter())));
      m.push(("u".to_string(), rows_json(self.0.u.iter())));
      m.push(("a1".to_string(), rows_json(self.0.a1.iter())));
      m.push(("a2".to_string(), rows_json(self.0.a2.iter())));
      m.push(("a3".to_string(), rows_json(self.0.a3.iter())));
      Value::Obj(m)
   }
   fn summary(&self) -> String { Prog::summary().to_string() }
}
pub fn make() -> Box<dyn Driven> { Box::new(D(Prog::default())) }
