#![allow(unused_imports, unused_variables, unused_mut, dead_code, non_snake_case, unused_parens, clippy::all)]
use ascent::lattice::bounded_set::BoundedSet;
use ascent::lattice::constant_propagation::ConstPropagation;
use ascent::lattice::set::Set;
use ascent::lattice::Product;
use ascent::{Dual, Lattice};
use vh_lite::{rows_json, Driven, Value};
#[derive(Default)]
pub struct D {
   o: Vec<(Option<i32>,)>,
   v: Vec<(i32,)>,
   w: Vec<(i32,)>,
   nn: Vec<()>,
   oo: Vec<(Option<i32>,)>,
   out: Option<Value>,
}
impl Driven for D {
   fn push(&mut self, rel: &str, row: &Value) {
      match rel {
         "o" => { self.o.push(((if row[0]["tag"].is_str("some") { Some(row[0]["v"].as_i64().unwrap() as i32) } else { None }),)); },
         "v" => { self.v.push((row[0].as_i64().unwrap() as i32,)); },
         "w" => { self.w.push((row[0].as_i64().unwrap() as i32,)); },
         "nn" => { self.nn.push(()); },
         "oo" => { self.oo.push(((if row[0]["tag"].is_str("some") { Some(row[0]["v"].as_i64().unwrap() as i32) } else { None }),)); },
         _ => panic!("verif harness: unknown relation {}", rel),
      }
   }
   fn run(&mut self) {
      let o_init = self.o.clone();
      let v_init = self.v.clone();
      let w_init = self.w.clone();
      let nn_init = self.nn.clone();
      let oo_init = self.oo.clone();
      let res = ascent::ascent_run_par! {
         relation o(Option<i32>) = o_init.into_iter().collect();
         relation v(i32) = v_init.into_iter().collect();
         relation w(i32) = w_init.into_iter().collect();
         relation nn() = nn_init.into_iter().collect();
         relation oo(Option<i32>) = oo_init.into_iter().collect();
         v(x) <-- o(ox), if let Some(x) = (*ox);
         w(x) <-- o(?Some(x));
         nn() <-- o(?None);
         oo(Some(((*x) + 1))) <-- v(x), if ((*x) < 2);
         oo(None::<i32>) <-- nn();
      };
      let mut m: Vec<(String, Value)> = vec![];
      m.push(("o".to_string(), rows_json(res.o.iter())));
      m.push(("v".to_string(), rows_json(res.v.iter())));
      m.push(("w".to_string(), rows_json(res.w.iter())));
      m.push(("nn".to_string(), rows_json(res.nn.iter())));
      m.push(("oo".to_string(), rows_json(res.oo.iter())));
      self.out = Some(Value::Obj(m));
   }
   fn dump(&self) -> Value { self.out.clone().unwrap_or(Value::Null) }
}
pub fn make() -> Box<dyn Driven> { Box::new(D::default()) }
