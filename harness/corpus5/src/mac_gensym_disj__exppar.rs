#![allow(unused_imports, unused_variables, unused_mut, dead_code, non_snake_case, unused_parens, clippy::all)]
use ascent::lattice::bounded_set::BoundedSet;
use ascent::lattice::constant_propagation::ConstPropagation;
use ascent::lattice::set::Set;
use ascent::lattice::Product;
use ascent::{Dual, Lattice};
use vh_lite::{rows_json, Driven, Value};
ascent::ascent_par! {
   pub struct Prog;
   relation score(i32, i32);
   relation vip(i32);
   relation cand(i32);
   relation okp(i32, i32);
   relation ok3(i32, i32, i32);
   cand(x) <-- score(x, w__x1);
   cand(x) <-- vip(x);
   okp(a, b) <-- cand(a), cand(b), score(a__x4, s__x2) if ((*a__x4) == (*a)), if ((*s__x2) >= 1), score(b__x5, s__x3) if ((*b__x5) == (*b)), if ((*s__x3) >= 1);
   okp(a, b) <-- cand(a), cand(b), vip(a__x6) if ((*a__x6) == (*a)), score(b__x7, s__x3) if ((*b__x7) == (*b)), if ((*s__x3) >= 1);
   ok3(a, b, c) <-- cand(a), cand(b), cand(c), score(a__x14, s__x8) if ((*a__x14) == (*a)), if ((*s__x8) >= 1), score(a__x15, s__x9) if ((*a__x15) == (*a)), score(b__x16, t__x10) if ((*b__x16) == (*b)), if ((*s__x9) > (*t__x10)), score(b__x17, s__x12) if ((*b__x17) == (*b)), score(c__x18, t__x13) if ((*c__x18) == (*c)), if ((*s__x12) > (*t__x13));
   ok3(a, b, c) <-- cand(a), cand(b), cand(c), score(a__x19, s__x8) if ((*a__x19) == (*a)), if ((*s__x8) >= 1), score(b__x20, s__x11) if ((*b__x20) == (*b)), if ((*s__x11) >= 1), score(b__x21, s__x12) if ((*b__x21) == (*b)), score(c__x22, t__x13) if ((*c__x22) == (*c)), if ((*s__x12) > (*t__x13));
}

pub struct D(Prog);
impl Driven for D {
   fn push(&mut self, rel: &str, row: &Value) {
      match rel {
         "score" => { self.0.score.push((row[0].as_i64().unwrap() as i32, row[1].as_i64().unwrap() as i32,)); },
         "vip" => { self.0.vip.push((row[0].as_i64().unwrap() as i32,)); },
         "cand" => { self.0.cand.push((row[0].as_i64().unwrap() as i32,)); },
         "okp" => { self.0.okp.push((row[0].as_i64().unwrap() as i32, row[1].as_i64().unwrap() as i32,)); },
         "ok3" => { self.0.ok3.push((row[0].as_i64().unwrap() as i32, row[1].as_i64().unwrap() as i32, row[2].as_i64().unwrap() as i32,)); },
         _ => panic!("verif harness: unknown relation {}", rel),
      }
   }
   fn clear(&mut self, rel: &str) {
      match rel {
         "score" => { self.0.score = Default::default(); },
         "vip" => { self.0.vip = Default::default(); },
         "cand" => { self.0.cand = Default::default(); },
         "okp" => { self.0.okp = Default::default(); },
         "ok3" => { self.0.ok3 = Default::default(); },
         _ => panic!("verif harness: unknown relation {}", rel),
      }
   }
   fn run(&mut self) { self.0.run(); }
   fn dump(&self) -> Value {
      let mut m: Vec<(String, Value)> = vec![];
      m.push(("score".to_string(), rows_json(self.0.score.iter())));
      m.push(("vip".to_string(), rows_json(self.0.vip.iter())));
      m.push(("cand".to_string(), rows_json(self.0.cand.iter())));
      m.push(("okp".to_string(), rows_json(self.0.okp.iter())));
      m.push(("ok3".to_string(), rows_json(self.0.ok3.iter())));
      Value::Obj(m)
   }
   fn summary(&self) -> String { Prog::summary().to_string() }
}
pub fn make() -> Box<dyn Driven> { Box::new(D(Prog::default())) }
