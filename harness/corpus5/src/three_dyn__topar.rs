#![allow(unused_imports, unused_variables, unused_mut, dead_code, non_snake_case, unused_parens, clippy::all)]
use ascent::lattice::bounded_set::BoundedSet;
use ascent::lattice::constant_propagation::ConstPropagation;
use ascent::lattice::set::Set;
use ascent::lattice::Product;
use ascent::{Dual, Lattice};
use vh_lite::{rows_json, Driven, Value};
ascent::ascent_par! {
   #![generate_run_timeout]
   pub struct Prog;
   relation e(i32, i32);
   relation p(i32, i32);
   p(x, y) <-- e(x, y);
   p(x, w) <-- p(x, y), p(y, z), p(z, w);
}

pub struct D(Prog);
impl Driven for D {
   fn push(&mut self, rel: &str, row: &Value) {
      match rel {
         "e" => { self.0.e.push((row[0].as_i64().unwrap() as i32, row[1].as_i64().unwrap() as i32,)); },
         "p" => { self.0.p.push((row[0].as_i64().unwrap() as i32, row[1].as_i64().unwrap() as i32,)); },
         _ => panic!("verif harness: unknown relation {}", rel),
      }
   }
   fn clear(&mut self, rel: &str) {
      match rel {
         "e" => { self.0.e = Default::default(); },
         "p" => { self.0.p = Default::default(); },
         _ => panic!("verif harness: unknown relation {}", rel),
      }
   }
   fn run(&mut self) { self.0.run(); }
   fn run_timeout(&mut self, nanos: u64) -> Option<bool> { Some(self.0.run_timeout(std::time::Duration::from_nanos(nanos))) }
   fn dump(&self) -> Value {
      let mut m: Vec<(String, Value)> = vec![];
      m.push(("e".to_string(), rows_json(self.0.e.iter())));
      m.push(("p".to_string(), rows_json(self.0.p.iter())));
      Value::Obj(m)
   }
   fn summary(&self) -> String { Prog::summary().to_string() }
}
pub fn make() -> Box<dyn Driven> { Box::new(D(Prog::default())) }
