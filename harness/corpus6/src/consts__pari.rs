#![allow(unused_imports, unused_variables, unused_mut, dead_code, non_snake_case, unused_parens, clippy::all)]
use ascent::lattice::bounded_set::BoundedSet;
use ascent::lattice::constant_propagation::ConstPropagation;
use ascent::lattice::set::Set;
use ascent::lattice::Product;
use ascent::{Dual, Lattice};
use vh_lite::{rows_json, Driven, Value};
ascent::ascent_par! {
   #![inter_rule_parallelism]
   pub struct Prog;
   relation e(i32, i32);
   relation c0(i32);
   relation c1(i32);
   relation c01(i32);
   relation both();
   c0(y) <-- e(0, y);
   c1(x) <-- e(x, 1);
   c01(2) <-- e(0, 1);
   both() <-- c0(x), c1(x);
}

pub struct D(Prog);
impl Driven for D {
   fn push(&mut self, rel: &str, row: &Value) {
      match rel {
         "e" => { self.0.e.push((row[0].as_i64().unwrap() as i32, row[1].as_i64().unwrap() as i32,)); },
         "c0" => { self.0.c0.push((row[0].as_i64().unwrap() as i32,)); },
         "c1" => { self.0.c1.push((row[0].as_i64().unwrap() as i32,)); },
         "c01" => { self.0.c01.push((row[0].as_i64().unwrap() as i32,)); },
         "both" => { self.0.both.push(()); },
         _ => panic!("verif harness: unknown relation {}", rel),
      }
   }
   fn clear(&mut self, rel: &str) {
      match rel {
         "e" => { self.0.e = Default::default(); },
         "c0" => { self.0.c0 = Default::default(); },
         "c1" => { self.0.c1 = Default::default(); },
         "c01" => { self.0.c01 = Default::default(); },
         "both" => { self.0.both = Default::default(); },
         _ => panic!("verif harness: unknown relation {}", rel),
      }
   }
   fn run(&mut self) { self.0.run(); }
   fn dump(&self) -> Value {
      let mut m: Vec<(String, Value)> = vec![];
      m.push(("e".to_string(), rows_json(self.0.e.iter())));
      m.push(("c0".to_string(), rows_json(self.0.c0.iter())));
      m.push(("c1".to_string(), rows_json(self.0.c1.iter())));
      m.push(("c01".to_string(), rows_json(self.0.c01.iter())));
      m.push(("both".to_string(), rows_json(self.0.both.iter())));
      Value::Obj(m)
   }
   fn summary(&self) -> String { Prog::summary().to_string() }
}
pub fn make() -> Box<dyn Driven> { Box::new(D(Prog::default())) }
