#![allow(unused_imports, unused_variables, unused_mut, dead_code, non_snake_case, unused_parens, clippy::all)]
use ascent::lattice::bounded_set::BoundedSet;
use ascent::lattice::constant_propagation::ConstPropagation;
use ascent::lattice::set::Set;
use ascent::lattice::Product;
use ascent::{Dual, Lattice};
use vh_lite::{rows_json, Driven, Value};
#[derive(Default)]
pub struct D {
   e: Vec<(i32, i32,)>,
   sp: Vec<(i32, i32, Dual<i32>,)>,
   out: Option<Value>,
}
impl Driven for D {
   fn push(&mut self, rel: &str, row: &Value) {
      match rel {
         "e" => { self.e.push((row[0].as_i64().unwrap() as i32, row[1].as_i64().unwrap() as i32,)); },
         "sp" => { self.sp.push((row[0].as_i64().unwrap() as i32, row[1].as_i64().unwrap() as i32, Dual(row[2].as_i64().unwrap() as i32),)); },
         _ => panic!("verif harness: unknown relation {}", rel),
      }
   }
   fn run(&mut self) {
      let e_init = self.e.clone();
      let res = ascent::ascent_run_par! {
         relation e(i32, i32) = e_init.into_iter().collect();
         lattice sp(i32, i32, Dual<i32>);
         sp(x, y, Dual(1)) <-- e(x, y);
         sp(x, z, Dual((((*l)).0 + 1))) <-- e(x, y), sp(y, z, l);
      };
      let mut m: Vec<(String, Value)> = vec![];
      m.push(("e".to_string(), rows_json(res.e.iter())));
      let __v: Vec<(i32, i32, Dual<i32>,)> = res.sp.iter().map(|r| r.read().unwrap().clone()).collect();
      m.push(("sp".to_string(), rows_json(__v.iter())));
      self.out = Some(Value::Obj(m));
   }
   fn dump(&self) -> Value { self.out.clone().unwrap_or(Value::Null) }
}
pub fn make() -> Box<dyn Driven> { Box::new(D::default()) }
