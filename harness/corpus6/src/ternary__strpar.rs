#![allow(unused_imports, unused_variables, unused_mut, dead_code, non_snake_case, unused_parens, clippy::all)]
use ascent::lattice::bounded_set::BoundedSet;
use ascent::lattice::constant_propagation::ConstPropagation;
use ascent::lattice::set::Set;
use ascent::lattice::Product;
use ascent::{Dual, Lattice};
use vh_lite::{rows_json, Driven, Value};
ascent::ascent_par! {
   pub struct Prog;
   relation t(String, String, String);
   relation a(String, String);
   relation b(String);
   relation c(String, String, String);
   a(x, z) <-- t(x, _, z);
   b(y) <-- t(x, y, x);
   c(x, y, z) <-- t(x, y, z), t(z, y, x);
   c(x, y, z) <-- c(y, x, z), t(x, _, _);
   a(x, y) <-- a(x, z), t(z, "s0".to_string(), y);
}

pub struct D(Prog);
impl Driven for D {
   fn push(&mut self, rel: &str, row: &Value) {
      match rel {
         "t" => { self.0.t.push((format!("s{}", row[0].as_i64().unwrap()), format!("s{}", row[1].as_i64().unwrap()), format!("s{}", row[2].as_i64().unwrap()),)); },
         "a" => { self.0.a.push((format!("s{}", row[0].as_i64().unwrap()), format!("s{}", row[1].as_i64().unwrap()),)); },
         "b" => { self.0.b.push((format!("s{}", row[0].as_i64().unwrap()),)); },
         "c" => { self.0.c.push((format!("s{}", row[0].as_i64().unwrap()), format!("s{}", row[1].as_i64().unwrap()), format!("s{}", row[2].as_i64().unwrap()),)); },
         _ => panic!("verif harness: unknown relation {}", rel),
      }
   }
   fn clear(&mut self, rel: &str) {
      match rel {
         "t" => { self.0.t = Default::default(); },
         "a" => { self.0.a = Default::default(); },
         "b" => { self.0.b = Default::default(); },
         "c" => { self.0.c = Default::default(); },
         _ => panic!("verif harness: unknown relation {}", rel),
      }
   }
   fn run(&mut self) { self.0.run(); }
   fn dump(&self) -> Value {
      let mut m: Vec<(String, Value)> = vec![];
      m.push(("t".to_string(), rows_json(self.0.t.iter())));
      m.push(("a".to_string(), rows_json(self.0.a.iter())));
      m.push(("b".to_string(), rows_json(self.0.b.iter())));
      m.push(("c".to_string(), rows_json(self.0.c.iter())));
      Value::Obj(m)
   }
   fn summary(&self) -> String { Prog::summary().to_string() }
}
pub fn make() -> Box<dyn Driven> { Box::new(D(Prog::default())) }
