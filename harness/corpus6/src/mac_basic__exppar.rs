#![allow(unused_imports, unused_variables, unused_mut, dead_code, non_snake_case, unused_parens, clippy::all)]
use ascent::lattice::bounded_set::BoundedSet;
use ascent::lattice::constant_propagation::ConstPropagation;
use ascent::lattice::set::Set;
use ascent::lattice::Product;
use ascent::{Dual, Lattice};
use vh_lite::{rows_json, Driven, Value};
ascent::ascent_par! {
   pub struct Prog;
   relation e(i32, i32);
   relation p2(i32, i32);
   relation p4(i32, i32);
   p2(x, y) <-- e(x, t__x1), e(t__x1__x2, y) if ((*t__x1__x2) == (*t__x1));
   p4(x, z) <-- e(x, t__x3), e(t__x3__x5, y) if ((*t__x3__x5) == (*t__x3)), e(y__x6, t__x4) if ((*y__x6) == (*y)), e(t__x4__x7, z) if ((*t__x4__x7) == (*t__x4));
}

pub struct D(Prog);
impl Driven for D {
   fn push(&mut self, rel: &str, row: &Value) {
      match rel {
         "e" => { self.0.e.push((row[0].as_i64().unwrap() as i32, row[1].as_i64().unwrap() as i32,)); },
         "p2" => { self.0.p2.push((row[0].as_i64().unwrap() as i32, row[1].as_i64().unwrap() as i32,)); },
         "p4" => { self.0.p4.push((row[0].as_i64().unwrap() as i32, row[1].as_i64().unwrap() as i32,)); },
         _ => panic!("verif harness: unknown relation {}", rel),
      }
   }
   fn clear(&mut self, rel: &str) {
      match rel {
         "e" => { self.0.e = Default::default(); },
         "p2" => { self.0.p2 = Default::default(); },
         "p4" => { self.0.p4 = Default::default(); },
         _ => panic!("verif harness: unknown relation {}", rel),
      }
   }
   fn run(&mut self) { self.0.run(); }
   fn dump(&self) -> Value {
      let mut m: Vec<(String, Value)> = vec![];
      m.push(("e".to_string(), rows_json(self.0.e.iter())));
      m.push(("p2".to_string(), rows_json(self.0.p2.iter())));
      m.push(("p4".to_string(), rows_json(self.0.p4.iter())));
      Value::Obj(m)
   }
   fn summary(&self) -> String { Prog::summary().to_string() }
}
pub fn make() -> Box<dyn Driven> { Box::new(D(Prog::default())) }
