#![allow(unused_imports, unused_variables, unused_mut, dead_code, non_snake_case, unused_parens, clippy::all)]
use ascent::lattice::bounded_set::BoundedSet;
use ascent::lattice::constant_propagation::ConstPropagation;
use ascent::lattice::set::Set;
use ascent::lattice::Product;
use ascent::{Dual, Lattice};
use vh_lite::{rows_json, Driven, Value};
ascent::ascent_source! {
   neg_basic__src1_src:
   p(x, y) <-- e(x, y);
   p(x, z) <-- e(x, y), p(y, z);
   node(x) <-- e(x, _);
}

ascent::ascent! {
   pub struct Prog;
   relation e(i32, i32);
   relation p(i32, i32);
   relation node(i32);
   relation unreach(i32, i32);
   relation sink(i32);
   include_source!(neg_basic__src1_src);
   node(x) <-- e(_, x);
   unreach(x, y) <-- node(x), node(y), !p(x, y);
   sink(x) <-- node(x), !e(x, _);
}

pub struct D(Prog);
impl Driven for D {
   fn push(&mut self, rel: &str, row: &Value) {
      match rel {
         "e" => { self.0.e.push((row[0].as_i64().unwrap() as i32, row[1].as_i64().unwrap() as i32,)); },
         "p" => { self.0.p.push((row[0].as_i64().unwrap() as i32, row[1].as_i64().unwrap() as i32,)); },
         "node" => { self.0.node.push((row[0].as_i64().unwrap() as i32,)); },
         "unreach" => { self.0.unreach.push((row[0].as_i64().unwrap() as i32, row[1].as_i64().unwrap() as i32,)); },
         "sink" => { self.0.sink.push((row[0].as_i64().unwrap() as i32,)); },
         _ => panic!("verif harness: unknown relation {}", rel),
      }
   }
   fn clear(&mut self, rel: &str) {
      match rel {
         "e" => { self.0.e = Default::default(); },
         "p" => { self.0.p = Default::default(); },
         "node" => { self.0.node = Default::default(); },
         "unreach" => { self.0.unreach = Default::default(); },
         "sink" => { self.0.sink = Default::default(); },
         _ => panic!("verif harness: unknown relation {}", rel),
      }
   }
   fn run(&mut self) { self.0.run(); }
   fn dump(&self) -> Value {
      let mut m: Vec<(String, Value)> = vec![];
      m.push(("e".to_string(), rows_json(self.0.e.iter())));
      m.push(("p".to_string(), rows_json(self.0.p.iter())));
      m.push(("node".to_string(), rows_json(self.0.node.iter())));
      m.push(("unreach".to_string(), rows_json(self.0.unreach.iter())));
      m.push(("sink".to_string(), rows_json(self.0.sink.iter())));
      Value::Obj(m)
   }
   fn summary(&self) -> String { Prog::summary().to_string() }
}
pub fn make() -> Box<dyn Driven> { Box::new(D(Prog::default())) }
