#![allow(unused_imports, unused_variables, unused_mut, dead_code, non_snake_case, unused_parens, clippy::all)]
use ascent::lattice::bounded_set::BoundedSet;
use ascent::lattice::constant_propagation::ConstPropagation;
use ascent::lattice::set::Set;
use ascent::lattice::Product;
use ascent::{Dual, Lattice};
use vh_lite::{rows_json, Driven, Value};
ascent::ascent! {
   pub struct Prog;
   relation e_rn(i32, i32);
   relation u_rn(i32);
   relation p3_rn(i32, i32);
   relation p4_rn(i32);
   p3_rn(v_x_q, v_w_q) <-- e_rn(v_x_q, v_y_q), e_rn(v_y_q, v_z_q), e_rn(v_z_q, v_w_q);
   p4_rn(v_x_q) <-- u_rn(v_x_q), e_rn(v_x_q, v_y_q), e_rn(v_y_q, v_z_q), u_rn(v_z_q);
}

pub struct D(Prog);
impl Driven for D {
   fn push(&mut self, rel: &str, row: &Value) {
      match rel {
         "e_rn" => { self.0.e_rn.push((row[0].as_i64().unwrap() as i32, row[1].as_i64().unwrap() as i32,)); },
         "u_rn" => { self.0.u_rn.push((row[0].as_i64().unwrap() as i32,)); },
         "p3_rn" => { self.0.p3_rn.push((row[0].as_i64().unwrap() as i32, row[1].as_i64().unwrap() as i32,)); },
         "p4_rn" => { self.0.p4_rn.push((row[0].as_i64().unwrap() as i32,)); },
         _ => panic!("verif harness: unknown relation {}", rel),
      }
   }
   fn clear(&mut self, rel: &str) {
      match rel {
         "e_rn" => { self.0.e_rn = Default::default(); },
         "u_rn" => { self.0.u_rn = Default::default(); },
         "p3_rn" => { self.0.p3_rn = Default::default(); },
         "p4_rn" => { self.0.p4_rn = Default::default(); },
         _ => panic!("verif harness: unknown relation {}", rel),
      }
   }
   fn run(&mut self) { self.0.run(); }
   fn dump(&self) -> Value {
      let mut m: Vec<(String, Value)> = vec![];
      m.push(("e_rn".to_string(), rows_json(self.0.e_rn.iter())));
      m.push(("u_rn".to_string(), rows_json(self.0.u_rn.iter())));
      m.push(("p3_rn".to_string(), rows_json(self.0.p3_rn.iter())));
      m.push(("p4_rn".to_string(), rows_json(self.0.p4_rn.iter())));
      Value::Obj(m)
   }
   fn summary(&self) -> String { Prog::summary().to_string() }
}
pub fn make() -> Box<dyn Driven> { Box::new(D(Prog::default())) }
