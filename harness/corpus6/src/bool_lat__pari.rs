#![allow(unused_imports, unused_variables, unused_mut, dead_code, non_snake_case, unused_parens, clippy::all)]
use ascent::lattice::bounded_set::BoundedSet;
use ascent::lattice::constant_propagation::ConstPropagation;
use ascent::lattice::set::Set;
use ascent::lattice::Product;
use ascent::{Dual, Lattice};
use vh_lite::{rows_json, Driven, Value};
ascent::ascent_par! {
   #![inter_rule_parallelism]
   pub struct Prog;
   relation e(i32, i32);
   relation mark(i32);
   lattice m(i32, bool);
   relation marked(i32);
   m(x, (0 == 1)) <-- e(x, _);
   m(x, (0 == 0)) <-- mark(x);
   m(y, b) <-- e(x, y), m(x, b);
   marked(x) <-- m(x, b), if (*b);
}

pub struct D(Prog);
impl Driven for D {
   fn push(&mut self, rel: &str, row: &Value) {
      match rel {
         "e" => { self.0.e.push((row[0].as_i64().unwrap() as i32, row[1].as_i64().unwrap() as i32,)); },
         "mark" => { self.0.mark.push((row[0].as_i64().unwrap() as i32,)); },
         "m" => { self.0.m.push(std::sync::RwLock::new((row[0].as_i64().unwrap() as i32, panic!("verif harness: cannot push a value of lattice type bool_or"),))); },
         "marked" => { self.0.marked.push((row[0].as_i64().unwrap() as i32,)); },
         _ => panic!("verif harness: unknown relation {}", rel),
      }
   }
   fn clear(&mut self, rel: &str) {
      match rel {
         "e" => { self.0.e = Default::default(); },
         "mark" => { self.0.mark = Default::default(); },
         "m" => { self.0.m = Default::default(); },
         "marked" => { self.0.marked = Default::default(); },
         _ => panic!("verif harness: unknown relation {}", rel),
      }
   }
   fn run(&mut self) { self.0.run(); }
   fn dump(&self) -> Value {
      let mut m: Vec<(String, Value)> = vec![];
      m.push(("e".to_string(), rows_json(self.0.e.iter())));
      m.push(("mark".to_string(), rows_json(self.0.mark.iter())));
      let __v: Vec<(i32, bool,)> = self.0.m.iter().map(|r| r.read().unwrap().clone()).collect();
      m.push(("m".to_string(), rows_json(__v.iter())));
      m.push(("marked".to_string(), rows_json(self.0.marked.iter())));
      Value::Obj(m)
   }
   fn summary(&self) -> String { Prog::summary().to_string() }
}
pub fn make() -> Box<dyn Driven> { Box::new(D(Prog::default())) }
