#![allow(unused_imports, unused_variables, unused_mut, dead_code, non_snake_case, unused_parens, clippy::all)]
use ascent::lattice::bounded_set::BoundedSet;
use ascent::lattice::constant_propagation::ConstPropagation;
use ascent::lattice::set::Set;
use ascent::lattice::Product;
use ascent::{Dual, Lattice};
use vh_lite::{rows_json, Driven, Value};
#[derive(Default)]
pub struct D {
   e: Vec<(i32, i32,)>,
   lt: Vec<(i32, i32,)>,
   n: Vec<(i32, i32,)>,
   s: Vec<(i32, i32,)>,
   m: Vec<(i32,)>,
   out: Option<Value>,
}
impl Driven for D {
   fn push(&mut self, rel: &str, row: &Value) {
      match rel {
         "e" => { self.e.push((row[0].as_i64().unwrap() as i32, row[1].as_i64().unwrap() as i32,)); },
         "lt" => { self.lt.push((row[0].as_i64().unwrap() as i32, row[1].as_i64().unwrap() as i32,)); },
         "n" => { self.n.push((row[0].as_i64().unwrap() as i32, row[1].as_i64().unwrap() as i32,)); },
         "s" => { self.s.push((row[0].as_i64().unwrap() as i32, row[1].as_i64().unwrap() as i32,)); },
         "m" => { self.m.push((row[0].as_i64().unwrap() as i32,)); },
         _ => panic!("verif harness: unknown relation {}", rel),
      }
   }
   fn run(&mut self) {
      let e_init = self.e.clone();
      let lt_init = self.lt.clone();
      let n_init = self.n.clone();
      let s_init = self.s.clone();
      let m_init = self.m.clone();
      let res = ascent::ascent_run! {
         relation e(i32, i32);
         relation lt(i32, i32) = lt_init;
         relation n(i32, i32) = n_init;
         relation s(i32, i32) = s_init;
         relation m(i32) = m_init;
         e(a0.clone(), a1.clone()) <-- for (a0, a1, ) in e_init.iter();
         lt(x, y) <-- e(x, y), if ((*x) < (*y));
         n(x, y) <-- e(x, _), let y = ((*x) + 1), if (y < 3);
         s(x, k) <-- e(x, _), for k in (0)..((*x));
         m(z) <-- e(x, y) if ((*x) != (*y)), let z = (((*x) * 2) + (*y)), if (((z % 2) == 0) || (z > 4));
      };
      let mut m: Vec<(String, Value)> = vec![];
      m.push(("e".to_string(), rows_json(res.e.iter())));
      m.push(("lt".to_string(), rows_json(res.lt.iter())));
      m.push(("n".to_string(), rows_json(res.n.iter())));
      m.push(("s".to_string(), rows_json(res.s.iter())));
      m.push(("m".to_string(), rows_json(res.m.iter())));
      self.out = Some(Value::Obj(m));
   }
   fn dump(&self) -> Value { self.out.clone().unwrap_or(Value::Null) }
}
pub fn make() -> Box<dyn Driven> { Box::new(D::default()) }
