#![allow(unused_imports, unused_variables, unused_mut, dead_code, non_snake_case, unused_parens, clippy::all)]
use ascent::lattice::bounded_set::BoundedSet;
use ascent::lattice::constant_propagation::ConstPropagation;
use ascent::lattice::set::Set;
use ascent::lattice::Product;
use ascent::{Dual, Lattice};
use vh_lite::{rows_json, Driven, Value};
#[derive(Default)]
pub struct D {
   e: Vec<(i32, i32,)>,
   p: Vec<(i32, i32,)>,
   out: Option<Value>,
}
impl Driven for D {
   fn push(&mut self, rel: &str, row: &Value) {
      match rel {
         "e" => { self.e.push((row[0].as_i64().unwrap() as i32, row[1].as_i64().unwrap() as i32,)); },
         "p" => { self.p.push((row[0].as_i64().unwrap() as i32, row[1].as_i64().unwrap() as i32,)); },
         _ => panic!("verif harness: unknown relation {}", rel),
      }
   }
   fn run(&mut self) {
      let e_init = self.e.clone();
      let p_init = self.p.clone();
      let res = ascent::ascent_run_par! {
         relation e(i32, i32) = e_init.into_iter().collect();
         relation p(i32, i32) = p_init.into_iter().collect();
         p(x, y) <-- e(x, y);
         p(x, z) <-- e(x, y), p(y, z);
      };
      let mut m: Vec<(String, Value)> = vec![];
      m.push(("e".to_string(), rows_json(res.e.iter())));
      m.push(("p".to_string(), rows_json(res.p.iter())));
      self.out = Some(Value::Obj(m));
   }
   fn dump(&self) -> Value { self.out.clone().unwrap_or(Value::Null) }
}
pub fn make() -> Box<dyn Driven> { Box::new(D::default()) }
