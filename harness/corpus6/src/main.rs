#![allow(unused_imports, unused_variables, unused_mut, dead_code, non_snake_case, unused_parens, clippy::all)]
use ascent::lattice::bounded_set::BoundedSet;
use ascent::lattice::constant_propagation::ConstPropagation;
use ascent::lattice::set::Set;
use ascent::lattice::Product;
use ascent::{Dual, Lattice};
use vh_lite::{rows_json, Driven, Value};

use vh_lite::{read_cases, drive, drive_group, quiet_panics, Out};

mod tc_left__par;
mod tc_left__src1;
mod tc_left__perm1;
mod tc_nonlin__par;
mod tc_nonlin__str;
mod mutual__run;
mod mutual__redecl;
mod mutual__str;
mod scc_chain__perm1;
mod diamond__par;
mod repeated__perm1;
mod three_dyn__par;
mod three_dyn__str;
mod conds__pari;
mod conds__srcred;
mod conds__permpar;
mod count_up__topar;
mod multi_head__ren;
mod facts__src0;
mod facts__srcpar;
mod opt_cols__ser;
mod opt_cols__src2;
mod cartesian__par;
mod same_gen__perm2;
mod not_reorderable__pari;
mod pre_join_rec__par;
mod two_inputs__ser;
mod two_inputs__src0;
mod two_inputs__srcpar;
mod wild__ser;
mod ternary__ren;
mod bound_mix__perm1;
mod join_chain__par;
mod join_chain__strpar;
mod reach__topar;
mod lag_right__par;
mod lag_right__str;
mod lag_three__ser;
mod lag_mid__perm1;
mod lag_late_delta__par;
mod multi_head_rec__topar;
mod sp_dual__run;
mod sp_dual__redecl;
mod sp_weighted__ser;
mod longest_capped__to;
mod set_reach__mrt;
mod set_reach__init;
mod cp__ser;
mod lex_dual_lat__ser;
mod bool_lat__pari;
mod lat_multi_improve__topar;
mod lat_count_all__pari;
mod lat_input__topar;
mod lat_input__srcred;
mod count_paths__to;
mod count_paths__srcto;
mod neg_basic__pari;
mod neg_basic__src2;
mod neg_basic__perm2;
mod agg_depth__ser;
mod agg_lattice__to;
mod neg_rec_after__exp;
mod agg_empty__to;
mod agg_const_args__par;
mod disj__par;
mod disj__src1;
mod disj__perm1;
mod disj_nested__pari;
mod rep_expr__ser;
mod multi_head_disj__exp;
mod mac_basic__par;
mod mac_basic__src1;
mod mac_basic__exp;
mod mac_nested__par;
mod mac_gensym_disj__exppar;
mod mac_block__pari;
mod stress_lat__ser;
mod stress_rel__pari;
mod rnd_core_03__par;
mod rnd_core_06__ser;
mod rnd_core_08__pari;
mod rnd_core_11__par;
mod rnd_core_14__ser;
mod rnd_core_16__pari;
mod rnd_core_19__par;
mod rnd_core_22__ser;
mod rnd_core_24__pari;
mod rnd_core_27__par;
mod rnd_core_30__ser;
mod rnd_agg_02__pari;
mod rnd_agg_05__par;
mod rnd_agg_08__ser;
mod rnd_agg_10__pari;
mod rnd_agg_13__par;
mod rnd_prec_01__ser;
mod rnd_prec_02__to;
mod rnd_prec_04__par;
mod rnd_prec_05__topar;
mod rnd_prec_07__pari;
mod rnd_prea_01__ser;
mod rnd_prea_03__pari;
mod rnd_prea_06__par;

fn lookup(name: &str) -> fn() -> Box<dyn Driven> {
   match name {
      "tc_left__par" => tc_left__par::make,
      "tc_left__src1" => tc_left__src1::make,
      "tc_left__perm1" => tc_left__perm1::make,
      "tc_nonlin__par" => tc_nonlin__par::make,
      "tc_nonlin__str" => tc_nonlin__str::make,
      "mutual__run" => mutual__run::make,
      "mutual__redecl" => mutual__redecl::make,
      "mutual__str" => mutual__str::make,
      "scc_chain__perm1" => scc_chain__perm1::make,
      "diamond__par" => diamond__par::make,
      "repeated__perm1" => repeated__perm1::make,
      "three_dyn__par" => three_dyn__par::make,
      "three_dyn__str" => three_dyn__str::make,
      "conds__pari" => conds__pari::make,
      "conds__srcred" => conds__srcred::make,
      "conds__permpar" => conds__permpar::make,
      "count_up__topar" => count_up__topar::make,
      "multi_head__ren" => multi_head__ren::make,
      "facts__src0" => facts__src0::make,
      "facts__srcpar" => facts__srcpar::make,
      "opt_cols__ser" => opt_cols__ser::make,
      "opt_cols__src2" => opt_cols__src2::make,
      "cartesian__par" => cartesian__par::make,
      "same_gen__perm2" => same_gen__perm2::make,
      "not_reorderable__pari" => not_reorderable__pari::make,
      "pre_join_rec__par" => pre_join_rec__par::make,
      "two_inputs__ser" => two_inputs__ser::make,
      "two_inputs__src0" => two_inputs__src0::make,
      "two_inputs__srcpar" => two_inputs__srcpar::make,
      "wild__ser" => wild__ser::make,
      "ternary__ren" => ternary__ren::make,
      "bound_mix__perm1" => bound_mix__perm1::make,
      "join_chain__par" => join_chain__par::make,
      "join_chain__strpar" => join_chain__strpar::make,
      "reach__topar" => reach__topar::make,
      "lag_right__par" => lag_right__par::make,
      "lag_right__str" => lag_right__str::make,
      "lag_three__ser" => lag_three__ser::make,
      "lag_mid__perm1" => lag_mid__perm1::make,
      "lag_late_delta__par" => lag_late_delta__par::make,
      "multi_head_rec__topar" => multi_head_rec__topar::make,
      "sp_dual__run" => sp_dual__run::make,
      "sp_dual__redecl" => sp_dual__redecl::make,
      "sp_weighted__ser" => sp_weighted__ser::make,
      "longest_capped__to" => longest_capped__to::make,
      "set_reach__mrt" => set_reach__mrt::make,
      "set_reach__init" => set_reach__init::make,
      "cp__ser" => cp__ser::make,
      "lex_dual_lat__ser" => lex_dual_lat__ser::make,
      "bool_lat__pari" => bool_lat__pari::make,
      "lat_multi_improve__topar" => lat_multi_improve__topar::make,
      "lat_count_all__pari" => lat_count_all__pari::make,
      "lat_input__topar" => lat_input__topar::make,
      "lat_input__srcred" => lat_input__srcred::make,
      "count_paths__to" => count_paths__to::make,
      "count_paths__srcto" => count_paths__srcto::make,
      "neg_basic__pari" => neg_basic__pari::make,
      "neg_basic__src2" => neg_basic__src2::make,
      "neg_basic__perm2" => neg_basic__perm2::make,
      "agg_depth__ser" => agg_depth__ser::make,
      "agg_lattice__to" => agg_lattice__to::make,
      "neg_rec_after__exp" => neg_rec_after__exp::make,
      "agg_empty__to" => agg_empty__to::make,
      "agg_const_args__par" => agg_const_args__par::make,
      "disj__par" => disj__par::make,
      "disj__src1" => disj__src1::make,
      "disj__perm1" => disj__perm1::make,
      "disj_nested__pari" => disj_nested__pari::make,
      "rep_expr__ser" => rep_expr__ser::make,
      "multi_head_disj__exp" => multi_head_disj__exp::make,
      "mac_basic__par" => mac_basic__par::make,
      "mac_basic__src1" => mac_basic__src1::make,
      "mac_basic__exp" => mac_basic__exp::make,
      "mac_nested__par" => mac_nested__par::make,
      "mac_gensym_disj__exppar" => mac_gensym_disj__exppar::make,
      "mac_block__pari" => mac_block__pari::make,
      "stress_lat__ser" => stress_lat__ser::make,
      "stress_rel__pari" => stress_rel__pari::make,
      "rnd_core_03__par" => rnd_core_03__par::make,
      "rnd_core_06__ser" => rnd_core_06__ser::make,
      "rnd_core_08__pari" => rnd_core_08__pari::make,
      "rnd_core_11__par" => rnd_core_11__par::make,
      "rnd_core_14__ser" => rnd_core_14__ser::make,
      "rnd_core_16__pari" => rnd_core_16__pari::make,
      "rnd_core_19__par" => rnd_core_19__par::make,
      "rnd_core_22__ser" => rnd_core_22__ser::make,
      "rnd_core_24__pari" => rnd_core_24__pari::make,
      "rnd_core_27__par" => rnd_core_27__par::make,
      "rnd_core_30__ser" => rnd_core_30__ser::make,
      "rnd_agg_02__pari" => rnd_agg_02__pari::make,
      "rnd_agg_05__par" => rnd_agg_05__par::make,
      "rnd_agg_08__ser" => rnd_agg_08__ser::make,
      "rnd_agg_10__pari" => rnd_agg_10__pari::make,
      "rnd_agg_13__par" => rnd_agg_13__par::make,
      "rnd_prec_01__ser" => rnd_prec_01__ser::make,
      "rnd_prec_02__to" => rnd_prec_02__to::make,
      "rnd_prec_04__par" => rnd_prec_04__par::make,
      "rnd_prec_05__topar" => rnd_prec_05__topar::make,
      "rnd_prec_07__pari" => rnd_prec_07__pari::make,
      "rnd_prea_01__ser" => rnd_prea_01__ser::make,
      "rnd_prea_03__pari" => rnd_prea_03__pari::make,
      "rnd_prea_06__par" => rnd_prea_06__par::make,
      _ => panic!("no such program variant in this shard: {}", name),
   }
}

fn main() {
   quiet_panics();
   let mut out = Out::open();
   let cases = read_cases();
   let mut i = 0;
   while i < cases.len() {
      let case = &cases[i];
      let m = format!("{}__{}", case["prog"].as_str().unwrap(), case["var"].as_str().unwrap());
      if let Some(g) = case["group"].as_i64() {
         // cases of one group run simultaneously
         let mut grp = vec![];
         while i < cases.len() && cases[i]["group"].as_i64() == Some(g) {
            let m = format!("{}__{}", cases[i]["prog"].as_str().unwrap(), cases[i]["var"].as_str().unwrap());
            grp.push((cases[i].clone(), lookup(&m)));
            i += 1;
         }
         drive_group(&grp, &mut out);
      } else {
         drive(case, &mut out, lookup(&m));
         i += 1;
      }
   }
   out.flush();
}
