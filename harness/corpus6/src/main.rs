#![allow(unused_imports, unused_variables, unused_mut, dead_code, non_snake_case, unused_parens, clippy::all)]
use ascent::lattice::bounded_set::BoundedSet;
use ascent::lattice::constant_propagation::ConstPropagation;
use ascent::lattice::set::Set;
use ascent::lattice::Product;
use ascent::{Dual, Lattice};
use vh_lite::{rows_json, Driven, Value};

use vh_lite::{read_cases, drive, drive_group, quiet_panics, Out};

mod tc_left__par;
mod tc_left__src1;
mod tc_left__perm1;
mod tc_nonlin__par;
mod tc_nonlin__str;
mod mutual__run;
mod mutual__redecl;
mod mutual__str;
mod scc_chain__perm1;
mod diamond__par;
mod repeated__perm1;
mod three_dyn__par;
mod three_dyn__str;
mod conds__pari;
mod conds__srcred;
mod conds__permpar;
mod count_up__topar;
mod multi_head__ren;
mod facts__src0;
mod facts__srcpar;
mod opt_cols__ser;
mod opt_cols__src2;
mod cartesian__par;
mod same_gen__perm2;
mod not_reorderable__pari;
mod pre_join_rec__par;
mod two_inputs__ser;
mod two_inputs__src0;
mod two_inputs__srcpar;
mod wild__ser;
mod ternary__ren;
mod bound_mix__perm1;
mod join_chain__par;
mod join_chain__strpar;
mod reach__topar;
mod lag_right__par;
mod lag_right__str;
mod lag_three__ser;
mod lag_mid__perm1;
mod lag_late_delta__par;
mod multi_head_rec__topar;
mod sp_dual__run;
mod sp_dual__redecl;
mod sp_weighted__ser;
mod longest_capped__to;
mod set_reach__mrt;
mod set_reach__init;
mod cp__ser;
mod lat_tree__ser;
mod lex_lat__ser;
mod lat_two_keys__pari;
mod lat_pre_join__pari;
mod lat_val_bound__pari;
mod lat_input__gen;
mod lat_input__runpar;
mod count_paths__mrt;
mod count_paths__init;
mod neg_basic__run;
mod neg_basic__redecl;
mod neg_basic__exp;
mod agg_depth__to;
mod agg_user__par;
mod agg_bound_mix__par;
mod agg_empty_rel__par;
mod agg_const_args__exppar;
mod disj__topar;
mod disj__srcred;
mod disj__permpar;
mod pat_args__ser;
mod rep_expr__exp;
mod neg_in_disj__par;
mod mac_basic__topar;
mod mac_basic__srcred;
mod mac_capture__par;
mod mac_nested__exppar;
mod mac_local_names__pari;
mod mac_disj__ser;
mod stress_set__ser;
mod rnd_core_01__pari;
mod rnd_core_04__par;
mod rnd_core_07__ser;
mod rnd_core_09__pari;
mod rnd_core_12__par;
mod rnd_core_15__ser;
mod rnd_core_17__pari;
mod rnd_core_20__par;
mod rnd_core_23__ser;
mod rnd_core_25__pari;
mod rnd_core_28__par;
mod rnd_agg_01__ser;
mod rnd_agg_03__pari;
mod rnd_agg_06__par;
mod rnd_agg_09__ser;
mod rnd_agg_11__pari;
mod rnd_agg_14__par;
mod rnd_prec_01__to;
mod rnd_prec_03__par;
mod rnd_prec_04__topar;
mod rnd_prec_06__pari;
mod rnd_prec_08__ser;
mod rnd_prea_02__ser;
mod rnd_prea_04__pari;
mod rnd_prea_07__par;

fn lookup(name: &str) -> fn() -> Box<dyn Driven> {
   match name {
      "tc_left__par" => tc_left__par::make,
      "tc_left__src1" => tc_left__src1::make,
      "tc_left__perm1" => tc_left__perm1::make,
      "tc_nonlin__par" => tc_nonlin__par::make,
      "tc_nonlin__str" => tc_nonlin__str::make,
      "mutual__run" => mutual__run::make,
      "mutual__redecl" => mutual__redecl::make,
      "mutual__str" => mutual__str::make,
      "scc_chain__perm1" => scc_chain__perm1::make,
      "diamond__par" => diamond__par::make,
      "repeated__perm1" => repeated__perm1::make,
      "three_dyn__par" => three_dyn__par::make,
      "three_dyn__str" => three_dyn__str::make,
      "conds__pari" => conds__pari::make,
      "conds__srcred" => conds__srcred::make,
      "conds__permpar" => conds__permpar::make,
      "count_up__topar" => count_up__topar::make,
      "multi_head__ren" => multi_head__ren::make,
      "facts__src0" => facts__src0::make,
      "facts__srcpar" => facts__srcpar::make,
      "opt_cols__ser" => opt_cols__ser::make,
      "opt_cols__src2" => opt_cols__src2::make,
      "cartesian__par" => cartesian__par::make,
      "same_gen__perm2" => same_gen__perm2::make,
      "not_reorderable__pari" => not_reorderable__pari::make,
      "pre_join_rec__par" => pre_join_rec__par::make,
      "two_inputs__ser" => two_inputs__ser::make,
      "two_inputs__src0" => two_inputs__src0::make,
      "two_inputs__srcpar" => two_inputs__srcpar::make,
      "wild__ser" => wild__ser::make,
      "ternary__ren" => ternary__ren::make,
      "bound_mix__perm1" => bound_mix__perm1::make,
      "join_chain__par" => join_chain__par::make,
      "join_chain__strpar" => join_chain__strpar::make,
      "reach__topar" => reach__topar::make,
      "lag_right__par" => lag_right__par::make,
      "lag_right__str" => lag_right__str::make,
      "lag_three__ser" => lag_three__ser::make,
      "lag_mid__perm1" => lag_mid__perm1::make,
      "lag_late_delta__par" => lag_late_delta__par::make,
      "multi_head_rec__topar" => multi_head_rec__topar::make,
      "sp_dual__run" => sp_dual__run::make,
      "sp_dual__redecl" => sp_dual__redecl::make,
      "sp_weighted__ser" => sp_weighted__ser::make,
      "longest_capped__to" => longest_capped__to::make,
      "set_reach__mrt" => set_reach__mrt::make,
      "set_reach__init" => set_reach__init::make,
      "cp__ser" => cp__ser::make,
      "lat_tree__ser" => lat_tree__ser::make,
      "lex_lat__ser" => lex_lat__ser::make,
      "lat_two_keys__pari" => lat_two_keys__pari::make,
      "lat_pre_join__pari" => lat_pre_join__pari::make,
      "lat_val_bound__pari" => lat_val_bound__pari::make,
      "lat_input__gen" => lat_input__gen::make,
      "lat_input__runpar" => lat_input__runpar::make,
      "count_paths__mrt" => count_paths__mrt::make,
      "count_paths__init" => count_paths__init::make,
      "neg_basic__run" => neg_basic__run::make,
      "neg_basic__redecl" => neg_basic__redecl::make,
      "neg_basic__exp" => neg_basic__exp::make,
      "agg_depth__to" => agg_depth__to::make,
      "agg_user__par" => agg_user__par::make,
      "agg_bound_mix__par" => agg_bound_mix__par::make,
      "agg_empty_rel__par" => agg_empty_rel__par::make,
      "agg_const_args__exppar" => agg_const_args__exppar::make,
      "disj__topar" => disj__topar::make,
      "disj__srcred" => disj__srcred::make,
      "disj__permpar" => disj__permpar::make,
      "pat_args__ser" => pat_args__ser::make,
      "rep_expr__exp" => rep_expr__exp::make,
      "neg_in_disj__par" => neg_in_disj__par::make,
      "mac_basic__topar" => mac_basic__topar::make,
      "mac_basic__srcred" => mac_basic__srcred::make,
      "mac_capture__par" => mac_capture__par::make,
      "mac_nested__exppar" => mac_nested__exppar::make,
      "mac_local_names__pari" => mac_local_names__pari::make,
      "mac_disj__ser" => mac_disj__ser::make,
      "stress_set__ser" => stress_set__ser::make,
      "rnd_core_01__pari" => rnd_core_01__pari::make,
      "rnd_core_04__par" => rnd_core_04__par::make,
      "rnd_core_07__ser" => rnd_core_07__ser::make,
      "rnd_core_09__pari" => rnd_core_09__pari::make,
      "rnd_core_12__par" => rnd_core_12__par::make,
      "rnd_core_15__ser" => rnd_core_15__ser::make,
      "rnd_core_17__pari" => rnd_core_17__pari::make,
      "rnd_core_20__par" => rnd_core_20__par::make,
      "rnd_core_23__ser" => rnd_core_23__ser::make,
      "rnd_core_25__pari" => rnd_core_25__pari::make,
      "rnd_core_28__par" => rnd_core_28__par::make,
      "rnd_agg_01__ser" => rnd_agg_01__ser::make,
      "rnd_agg_03__pari" => rnd_agg_03__pari::make,
      "rnd_agg_06__par" => rnd_agg_06__par::make,
      "rnd_agg_09__ser" => rnd_agg_09__ser::make,
      "rnd_agg_11__pari" => rnd_agg_11__pari::make,
      "rnd_agg_14__par" => rnd_agg_14__par::make,
      "rnd_prec_01__to" => rnd_prec_01__to::make,
      "rnd_prec_03__par" => rnd_prec_03__par::make,
      "rnd_prec_04__topar" => rnd_prec_04__topar::make,
      "rnd_prec_06__pari" => rnd_prec_06__pari::make,
      "rnd_prec_08__ser" => rnd_prec_08__ser::make,
      "rnd_prea_02__ser" => rnd_prea_02__ser::make,
      "rnd_prea_04__pari" => rnd_prea_04__pari::make,
      "rnd_prea_07__par" => rnd_prea_07__par::make,
      _ => panic!("no such program variant in this shard: {}", name),
   }
}

fn main() {
   quiet_panics();
   let mut out = Out::open();
   let cases = read_cases();
   let mut i = 0;
   while i < cases.len() {
      let case = &cases[i];
      let m = format!("{}__{}", case["prog"].as_str().unwrap(), case["var"].as_str().unwrap());
      if let Some(g) = case["group"].as_i64() {
         // cases of one group run simultaneously
         let mut grp = vec![];
         while i < cases.len() && cases[i]["group"].as_i64() == Some(g) {
            let m = format!("{}__{}", cases[i]["prog"].as_str().unwrap(), cases[i]["var"].as_str().unwrap());
            grp.push((cases[i].clone(), lookup(&m)));
            i += 1;
         }
         drive_group(&grp, &mut out);
      } else {
         drive(case, &mut out, lookup(&m));
         i += 1;
      }
   }
   out.flush();
}
