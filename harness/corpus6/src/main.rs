#![allow(unused_imports, unused_variables, unused_mut, dead_code, non_snake_case, unused_parens, clippy::all)]
use ascent::lattice::bounded_set::BoundedSet;
use ascent::lattice::constant_propagation::ConstPropagation;
use ascent::lattice::set::Set;
use ascent::lattice::Product;
use ascent::{Dual, Lattice};
use vh_lite::{rows_json, Driven, Value};

use vh_lite::{read_cases, drive, drive_group, quiet_panics, Out};

mod tc_left__par;
mod tc_left__src1;
mod tc_left__perm2;
mod tc_nonlin__pari;
mod tc_nonlin__u64;
mod mutual__mrt;
mod mutual__runpar;
mod mutual__strpar;
mod scc_chain__ren;
mod consts__ser;
mod repeated__ren;
mod three_dyn__to;
mod three_dyn__strpar;
mod conds__mrt;
mod conds__runpar;
mod expr_args__pari;
mod multi_head__pari;
mod facts__par;
mod facts__srcto;
mod facts__permpar;
mod opt_cols__mrt;
mod opt_cols__runpar;
mod same_gen__to;
mod same_gen__strpar;
mod two_inputs__topar;
mod two_inputs__redecl;
mod two_inputs__str;
mod ternary__pari;
mod bound_mix__ser;
mod bound_mix__u64;
mod join_chain__permpar;
mod reach__par;
mod self_join3__par;
mod lag_right__perm2;
mod lag_left__pari;
mod lag_mid__ser;
mod lag_mid__u64;
mod multi_head_rec__par;
mod sp_dual__pari;
mod sp_dual__src2;
mod sp_dual__ren;
mod longest_capped__par;
mod set_reach__topar;
mod set_reach__redecl;
mod bset__topar;
mod opt_lat__pari;
mod lat_two_keys__par;
mod lat_val_bound__par;
mod lat_input__mrt;
mod lat_input__runpar;
mod count_paths__mrt;
mod count_paths__runpar;
mod neg_basic__mrt;
mod neg_basic__runpar;
mod agg_minmaxsum__ser;
mod agg_lattice__ser;
mod neg_rec_after__ser;
mod agg_empty__ser;
mod agg_empty_rel__to;
mod disj__par;
mod disj__src1;
mod disj__perm2;
mod disj_nested__exp;
mod rep_expr__par;
mod multi_head_disj__exppar;
mod mac_basic__pari;
mod mac_basic__src2;
mod mac_capture__ser;
mod mac_nested__exp;
mod mac_disj__par;
mod rnd_core_02__par;
mod rnd_core_05__ser;
mod rnd_core_07__pari;
mod rnd_core_10__par;
mod rnd_core_13__ser;
mod rnd_core_15__pari;
mod rnd_core_18__par;
mod rnd_core_21__ser;
mod rnd_core_23__pari;
mod rnd_core_26__par;
mod rnd_core_29__ser;
mod rnd_agg_01__pari;
mod rnd_agg_04__par;
mod rnd_agg_07__ser;
mod rnd_agg_09__pari;
mod rnd_agg_12__par;
mod rnd_agg_15__ser;

fn lookup(name: &str) -> fn() -> Box<dyn Driven> {
   match name {
      "tc_left__par" => tc_left__par::make,
      "tc_left__src1" => tc_left__src1::make,
      "tc_left__perm2" => tc_left__perm2::make,
      "tc_nonlin__pari" => tc_nonlin__pari::make,
      "tc_nonlin__u64" => tc_nonlin__u64::make,
      "mutual__mrt" => mutual__mrt::make,
      "mutual__runpar" => mutual__runpar::make,
      "mutual__strpar" => mutual__strpar::make,
      "scc_chain__ren" => scc_chain__ren::make,
      "consts__ser" => consts__ser::make,
      "repeated__ren" => repeated__ren::make,
      "three_dyn__to" => three_dyn__to::make,
      "three_dyn__strpar" => three_dyn__strpar::make,
      "conds__mrt" => conds__mrt::make,
      "conds__runpar" => conds__runpar::make,
      "expr_args__pari" => expr_args__pari::make,
      "multi_head__pari" => multi_head__pari::make,
      "facts__par" => facts__par::make,
      "facts__srcto" => facts__srcto::make,
      "facts__permpar" => facts__permpar::make,
      "opt_cols__mrt" => opt_cols__mrt::make,
      "opt_cols__runpar" => opt_cols__runpar::make,
      "same_gen__to" => same_gen__to::make,
      "same_gen__strpar" => same_gen__strpar::make,
      "two_inputs__topar" => two_inputs__topar::make,
      "two_inputs__redecl" => two_inputs__redecl::make,
      "two_inputs__str" => two_inputs__str::make,
      "ternary__pari" => ternary__pari::make,
      "bound_mix__ser" => bound_mix__ser::make,
      "bound_mix__u64" => bound_mix__u64::make,
      "join_chain__permpar" => join_chain__permpar::make,
      "reach__par" => reach__par::make,
      "self_join3__par" => self_join3__par::make,
      "lag_right__perm2" => lag_right__perm2::make,
      "lag_left__pari" => lag_left__pari::make,
      "lag_mid__ser" => lag_mid__ser::make,
      "lag_mid__u64" => lag_mid__u64::make,
      "multi_head_rec__par" => multi_head_rec__par::make,
      "sp_dual__pari" => sp_dual__pari::make,
      "sp_dual__src2" => sp_dual__src2::make,
      "sp_dual__ren" => sp_dual__ren::make,
      "longest_capped__par" => longest_capped__par::make,
      "set_reach__topar" => set_reach__topar::make,
      "set_reach__redecl" => set_reach__redecl::make,
      "bset__topar" => bset__topar::make,
      "opt_lat__pari" => opt_lat__pari::make,
      "lat_two_keys__par" => lat_two_keys__par::make,
      "lat_val_bound__par" => lat_val_bound__par::make,
      "lat_input__mrt" => lat_input__mrt::make,
      "lat_input__runpar" => lat_input__runpar::make,
      "count_paths__mrt" => count_paths__mrt::make,
      "count_paths__runpar" => count_paths__runpar::make,
      "neg_basic__mrt" => neg_basic__mrt::make,
      "neg_basic__runpar" => neg_basic__runpar::make,
      "agg_minmaxsum__ser" => agg_minmaxsum__ser::make,
      "agg_lattice__ser" => agg_lattice__ser::make,
      "neg_rec_after__ser" => neg_rec_after__ser::make,
      "agg_empty__ser" => agg_empty__ser::make,
      "agg_empty_rel__to" => agg_empty_rel__to::make,
      "disj__par" => disj__par::make,
      "disj__src1" => disj__src1::make,
      "disj__perm2" => disj__perm2::make,
      "disj_nested__exp" => disj_nested__exp::make,
      "rep_expr__par" => rep_expr__par::make,
      "multi_head_disj__exppar" => multi_head_disj__exppar::make,
      "mac_basic__pari" => mac_basic__pari::make,
      "mac_basic__src2" => mac_basic__src2::make,
      "mac_capture__ser" => mac_capture__ser::make,
      "mac_nested__exp" => mac_nested__exp::make,
      "mac_disj__par" => mac_disj__par::make,
      "rnd_core_02__par" => rnd_core_02__par::make,
      "rnd_core_05__ser" => rnd_core_05__ser::make,
      "rnd_core_07__pari" => rnd_core_07__pari::make,
      "rnd_core_10__par" => rnd_core_10__par::make,
      "rnd_core_13__ser" => rnd_core_13__ser::make,
      "rnd_core_15__pari" => rnd_core_15__pari::make,
      "rnd_core_18__par" => rnd_core_18__par::make,
      "rnd_core_21__ser" => rnd_core_21__ser::make,
      "rnd_core_23__pari" => rnd_core_23__pari::make,
      "rnd_core_26__par" => rnd_core_26__par::make,
      "rnd_core_29__ser" => rnd_core_29__ser::make,
      "rnd_agg_01__pari" => rnd_agg_01__pari::make,
      "rnd_agg_04__par" => rnd_agg_04__par::make,
      "rnd_agg_07__ser" => rnd_agg_07__ser::make,
      "rnd_agg_09__pari" => rnd_agg_09__pari::make,
      "rnd_agg_12__par" => rnd_agg_12__par::make,
      "rnd_agg_15__ser" => rnd_agg_15__ser::make,
      _ => panic!("no such program variant in this shard: {}", name),
   }
}

fn main() {
   quiet_panics();
   let mut out = Out::open();
   let cases = read_cases();
   let mut i = 0;
   while i < cases.len() {
      let case = &cases[i];
      let m = format!("{}__{}", case["prog"].as_str().unwrap(), case["var"].as_str().unwrap());
      if let Some(g) = case["group"].as_i64() {
         // cases of one group run simultaneously
         let mut grp = vec![];
         while i < cases.len() && cases[i]["group"].as_i64() == Some(g) {
            let m = format!("{}__{}", cases[i]["prog"].as_str().unwrap(), cases[i]["var"].as_str().unwrap());
            grp.push((cases[i].clone(), lookup(&m)));
            i += 1;
         }
         drive_group(&grp, &mut out);
      } else {
         drive(case, &mut out, lookup(&m));
         i += 1;
      }
   }
   out.flush();
}
