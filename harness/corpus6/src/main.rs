#![allow(unused_imports, unused_variables, unused_mut, dead_code, non_snake_case, unused_parens, clippy::all)]
use ascent::lattice::bounded_set::BoundedSet;
use ascent::lattice::constant_propagation::ConstPropagation;
use ascent::lattice::set::Set;
use ascent::lattice::Product;
use ascent::{Dual, Lattice};
use vh_lite::{rows_json, Driven, Value};

use vh_lite::{read_cases, drive, drive_group, quiet_panics, Out};

mod tc_left__par;
mod tc_left__src1;
mod tc_left__ren;
mod tc_nonlin__to;
mod tc_nonlin__strpar;
mod mutual__gen;
mod mutual__perm1;
mod scc_chain__par;
mod scc_chain__str;
mod consts__pari;
mod repeated__str;
mod three_dyn__perm1;
mod four_dyn__par;
mod conds__src0;
mod conds__perm2;
mod count_up__pari;
mod multi_head__perm1;
mod facts__mrt;
mod facts__srcpar;
mod opt_cols__ser;
mod opt_cols__src2;
mod same_gen__ser;
mod same_gen__permpar;
mod two_inputs__par;
mod two_inputs__src1;
mod two_inputs__ren;
mod ternary__ser;
mod ternary__u64;
mod bound_mix__permpar;
mod join_chain__perm2;
mod cond_simple_join__pari;
mod zero_arity__pari;
mod lag_right__topar;
mod lag_left__ser;
mod lag_three__to;
mod lag_mid__permpar;
mod lag_late_delta__topar;
mod sp_dual__gen;
mod sp_dual__perm1;
mod sp_weighted__topar;
mod set_reach__pari;
mod set_reach__src2;
mod cp__ser;
mod lex_lat__ser;
mod lat_two_keys__pari;
mod lat_val_bound__pari;
mod count_paths__gen;
mod neg_basic__ser;
mod neg_basic__src0;
mod neg_basic__perm2;
mod agg_depth__ser;
mod agg_lattice__to;
mod neg_rec_after__exp;
mod agg_empty__to;
mod agg_const_args__par;
mod disj__topar;
mod disj__init;
mod disj__exppar;
mod pat_args__pari;
mod multi_head_disj__ser;
mod neg_in_disj__exp;
mod mac_basic__mrt;
mod mac_basic__srcpar;
mod mac_nested__ser;
mod mac_gensym_disj__exp;

fn lookup(name: &str) -> fn() -> Box<dyn Driven> {
   match name {
      "tc_left__par" => tc_left__par::make,
      "tc_left__src1" => tc_left__src1::make,
      "tc_left__ren" => tc_left__ren::make,
      "tc_nonlin__to" => tc_nonlin__to::make,
      "tc_nonlin__strpar" => tc_nonlin__strpar::make,
      "mutual__gen" => mutual__gen::make,
      "mutual__perm1" => mutual__perm1::make,
      "scc_chain__par" => scc_chain__par::make,
      "scc_chain__str" => scc_chain__str::make,
      "consts__pari" => consts__pari::make,
      "repeated__str" => repeated__str::make,
      "three_dyn__perm1" => three_dyn__perm1::make,
      "four_dyn__par" => four_dyn__par::make,
      "conds__src0" => conds__src0::make,
      "conds__perm2" => conds__perm2::make,
      "count_up__pari" => count_up__pari::make,
      "multi_head__perm1" => multi_head__perm1::make,
      "facts__mrt" => facts__mrt::make,
      "facts__srcpar" => facts__srcpar::make,
      "opt_cols__ser" => opt_cols__ser::make,
      "opt_cols__src2" => opt_cols__src2::make,
      "same_gen__ser" => same_gen__ser::make,
      "same_gen__permpar" => same_gen__permpar::make,
      "two_inputs__par" => two_inputs__par::make,
      "two_inputs__src1" => two_inputs__src1::make,
      "two_inputs__ren" => two_inputs__ren::make,
      "ternary__ser" => ternary__ser::make,
      "ternary__u64" => ternary__u64::make,
      "bound_mix__permpar" => bound_mix__permpar::make,
      "join_chain__perm2" => join_chain__perm2::make,
      "cond_simple_join__pari" => cond_simple_join__pari::make,
      "zero_arity__pari" => zero_arity__pari::make,
      "lag_right__topar" => lag_right__topar::make,
      "lag_left__ser" => lag_left__ser::make,
      "lag_three__to" => lag_three__to::make,
      "lag_mid__permpar" => lag_mid__permpar::make,
      "lag_late_delta__topar" => lag_late_delta__topar::make,
      "sp_dual__gen" => sp_dual__gen::make,
      "sp_dual__perm1" => sp_dual__perm1::make,
      "sp_weighted__topar" => sp_weighted__topar::make,
      "set_reach__pari" => set_reach__pari::make,
      "set_reach__src2" => set_reach__src2::make,
      "cp__ser" => cp__ser::make,
      "lex_lat__ser" => lex_lat__ser::make,
      "lat_two_keys__pari" => lat_two_keys__pari::make,
      "lat_val_bound__pari" => lat_val_bound__pari::make,
      "count_paths__gen" => count_paths__gen::make,
      "neg_basic__ser" => neg_basic__ser::make,
      "neg_basic__src0" => neg_basic__src0::make,
      "neg_basic__perm2" => neg_basic__perm2::make,
      "agg_depth__ser" => agg_depth__ser::make,
      "agg_lattice__to" => agg_lattice__to::make,
      "neg_rec_after__exp" => neg_rec_after__exp::make,
      "agg_empty__to" => agg_empty__to::make,
      "agg_const_args__par" => agg_const_args__par::make,
      "disj__topar" => disj__topar::make,
      "disj__init" => disj__init::make,
      "disj__exppar" => disj__exppar::make,
      "pat_args__pari" => pat_args__pari::make,
      "multi_head_disj__ser" => multi_head_disj__ser::make,
      "neg_in_disj__exp" => neg_in_disj__exp::make,
      "mac_basic__mrt" => mac_basic__mrt::make,
      "mac_basic__srcpar" => mac_basic__srcpar::make,
      "mac_nested__ser" => mac_nested__ser::make,
      "mac_gensym_disj__exp" => mac_gensym_disj__exp::make,
      _ => panic!("no such program variant in this shard: {}", name),
   }
}

fn main() {
   quiet_panics();
   let mut out = Out::open();
   let cases = read_cases();
   let mut i = 0;
   while i < cases.len() {
      let case = &cases[i];
      let m = format!("{}__{}", case["prog"].as_str().unwrap(), case["var"].as_str().unwrap());
      if let Some(g) = case["group"].as_i64() {
         // cases of one group run simultaneously
         let mut grp = vec![];
         while i < cases.len() && cases[i]["group"].as_i64() == Some(g) {
            let m = format!("{}__{}", cases[i]["prog"].as_str().unwrap(), cases[i]["var"].as_str().unwrap());
            grp.push((cases[i].clone(), lookup(&m)));
            i += 1;
         }
         drive_group(&grp, &mut out);
      } else {
         drive(case, &mut out, lookup(&m));
         i += 1;
      }
   }
   out.flush();
}
