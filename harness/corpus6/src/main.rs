#![allow(unused_imports, unused_variables, unused_mut, dead_code, non_snake_case, unused_parens, clippy::all)]
use ascent::lattice::bounded_set::BoundedSet;
use ascent::lattice::constant_propagation::ConstPropagation;
use ascent::lattice::set::Set;
use ascent::lattice::Product;
use ascent::{Dual, Lattice};
use vh_lite::{rows_json, Driven, Value};

use vh_lite::{read_cases, drive, drive_group, quiet_panics, Out};

mod tc_left__par;
mod tc_left__src1;
mod tc_left__runpar;
mod tc_left__strpar;
mod tc_nonlin__ren;
mod mutual__to;
mod mutual__srcto;
mod mutual__perm1;
mod scc_chain__par;
mod scc_chain__str;
mod consts__pari;
mod repeated__str;
mod three_dyn__perm1;
mod four_dyn__par;
mod conds__src0;
mod conds__runhead;
mod expr_args__par;
mod multi_head__par;
mod facts__ser;
mod facts__src2;
mod facts__srcpar;
mod opt_cols__ser;
mod opt_cols__src2;
mod opt_cols__srcpar;
mod same_gen__topar;
mod not_reorderable__ser;
mod not_reorderable__permpar;
mod pre_join_rec__ren;
mod two_inputs__mrt;
mod two_inputs__init;
mod two_inputs__permpar;
mod ternary__par;
mod ternary__strpar;
mod bound_mix__str;
mod join_chain__ren;
mod reach__ser;
mod self_join3__ser;
mod lag_right__perm1;
mod lag_left__par;
mod lag_three__topar;
mod lag_mid__str;
mod multi_head_rec__ser;
mod sp_dual__par;
mod sp_dual__src1;
mod sp_dual__runpar;
mod sp_weighted__pari;
mod set_reach__ser;
mod set_reach__src0;
mod set_reach__runhead;
mod cp__ser;
mod lat_tree__ser;
mod lex_lat__ser;
mod lat_two_keys__pari;
mod lat_pre_join__pari;
mod lat_val_bound__pari;
mod lat_input__gen;
mod lat_input__init3;
mod count_paths__topar;
mod count_paths__srcred;
mod neg_basic__par;
mod neg_basic__src1;
mod neg_basic__runpar;
mod agg_minmaxsum__ser;
mod agg_lattice__ser;
mod neg_rec_after__ser;
mod agg_empty__ser;
mod agg_empty_rel__to;
mod agg_pre_join__par;
mod disj__mrt;
mod disj__init;
mod disj__permpar;
mod pat_args__ser;
mod rep_expr__exp;
mod neg_in_disj__par;
mod mac_basic__topar;
mod mac_basic__srcred;
mod mac_basic__exppar;
mod mac_nested__pari;
mod mac_local_names__ser;
mod mac_block__exp;
mod stress_lat__par;
mod rnd_core_01__ser;
mod rnd_core_03__pari;
mod rnd_core_06__par;
mod rnd_core_09__ser;
mod rnd_core_11__pari;
mod rnd_core_14__par;
mod rnd_core_17__ser;
mod rnd_core_19__pari;
mod rnd_core_22__par;
mod rnd_core_25__ser;
mod rnd_core_27__pari;
mod rnd_core_30__par;
mod rnd_agg_03__ser;
mod rnd_agg_05__pari;
mod rnd_agg_08__par;
mod rnd_agg_11__ser;
mod rnd_agg_13__pari;
mod rnd_prec_01__par;
mod rnd_prec_02__topar;
mod rnd_prec_04__pari;
mod rnd_prec_06__ser;
mod rnd_prec_07__to;
mod rnd_prea_01__par;
mod rnd_prea_04__ser;
mod rnd_prea_06__pari;

fn lookup(name: &str) -> fn() -> Box<dyn Driven> {
   match name {
      "tc_left__par" => tc_left__par::make,
      "tc_left__src1" => tc_left__src1::make,
      "tc_left__runpar" => tc_left__runpar::make,
      "tc_left__strpar" => tc_left__strpar::make,
      "tc_nonlin__ren" => tc_nonlin__ren::make,
      "mutual__to" => mutual__to::make,
      "mutual__srcto" => mutual__srcto::make,
      "mutual__perm1" => mutual__perm1::make,
      "scc_chain__par" => scc_chain__par::make,
      "scc_chain__str" => scc_chain__str::make,
      "consts__pari" => consts__pari::make,
      "repeated__str" => repeated__str::make,
      "three_dyn__perm1" => three_dyn__perm1::make,
      "four_dyn__par" => four_dyn__par::make,
      "conds__src0" => conds__src0::make,
      "conds__runhead" => conds__runhead::make,
      "expr_args__par" => expr_args__par::make,
      "multi_head__par" => multi_head__par::make,
      "facts__ser" => facts__ser::make,
      "facts__src2" => facts__src2::make,
      "facts__srcpar" => facts__srcpar::make,
      "opt_cols__ser" => opt_cols__ser::make,
      "opt_cols__src2" => opt_cols__src2::make,
      "opt_cols__srcpar" => opt_cols__srcpar::make,
      "same_gen__topar" => same_gen__topar::make,
      "not_reorderable__ser" => not_reorderable__ser::make,
      "not_reorderable__permpar" => not_reorderable__permpar::make,
      "pre_join_rec__ren" => pre_join_rec__ren::make,
      "two_inputs__mrt" => two_inputs__mrt::make,
      "two_inputs__init" => two_inputs__init::make,
      "two_inputs__permpar" => two_inputs__permpar::make,
      "ternary__par" => ternary__par::make,
      "ternary__strpar" => ternary__strpar::make,
      "bound_mix__str" => bound_mix__str::make,
      "join_chain__ren" => join_chain__ren::make,
      "reach__ser" => reach__ser::make,
      "self_join3__ser" => self_join3__ser::make,
      "lag_right__perm1" => lag_right__perm1::make,
      "lag_left__par" => lag_left__par::make,
      "lag_three__topar" => lag_three__topar::make,
      "lag_mid__str" => lag_mid__str::make,
      "multi_head_rec__ser" => multi_head_rec__ser::make,
      "sp_dual__par" => sp_dual__par::make,
      "sp_dual__src1" => sp_dual__src1::make,
      "sp_dual__runpar" => sp_dual__runpar::make,
      "sp_weighted__pari" => sp_weighted__pari::make,
      "set_reach__ser" => set_reach__ser::make,
      "set_reach__src0" => set_reach__src0::make,
      "set_reach__runhead" => set_reach__runhead::make,
      "cp__ser" => cp__ser::make,
      "lat_tree__ser" => lat_tree__ser::make,
      "lex_lat__ser" => lex_lat__ser::make,
      "lat_two_keys__pari" => lat_two_keys__pari::make,
      "lat_pre_join__pari" => lat_pre_join__pari::make,
      "lat_val_bound__pari" => lat_val_bound__pari::make,
      "lat_input__gen" => lat_input__gen::make,
      "lat_input__init3" => lat_input__init3::make,
      "count_paths__topar" => count_paths__topar::make,
      "count_paths__srcred" => count_paths__srcred::make,
      "neg_basic__par" => neg_basic__par::make,
      "neg_basic__src1" => neg_basic__src1::make,
      "neg_basic__runpar" => neg_basic__runpar::make,
      "agg_minmaxsum__ser" => agg_minmaxsum__ser::make,
      "agg_lattice__ser" => agg_lattice__ser::make,
      "neg_rec_after__ser" => neg_rec_after__ser::make,
      "agg_empty__ser" => agg_empty__ser::make,
      "agg_empty_rel__to" => agg_empty_rel__to::make,
      "agg_pre_join__par" => agg_pre_join__par::make,
      "disj__mrt" => disj__mrt::make,
      "disj__init" => disj__init::make,
      "disj__permpar" => disj__permpar::make,
      "pat_args__ser" => pat_args__ser::make,
      "rep_expr__exp" => rep_expr__exp::make,
      "neg_in_disj__par" => neg_in_disj__par::make,
      "mac_basic__topar" => mac_basic__topar::make,
      "mac_basic__srcred" => mac_basic__srcred::make,
      "mac_basic__exppar" => mac_basic__exppar::make,
      "mac_nested__pari" => mac_nested__pari::make,
      "mac_local_names__ser" => mac_local_names__ser::make,
      "mac_block__exp" => mac_block__exp::make,
      "stress_lat__par" => stress_lat__par::make,
      "rnd_core_01__ser" => rnd_core_01__ser::make,
      "rnd_core_03__pari" => rnd_core_03__pari::make,
      "rnd_core_06__par" => rnd_core_06__par::make,
      "rnd_core_09__ser" => rnd_core_09__ser::make,
      "rnd_core_11__pari" => rnd_core_11__pari::make,
      "rnd_core_14__par" => rnd_core_14__par::make,
      "rnd_core_17__ser" => rnd_core_17__ser::make,
      "rnd_core_19__pari" => rnd_core_19__pari::make,
      "rnd_core_22__par" => rnd_core_22__par::make,
      "rnd_core_25__ser" => rnd_core_25__ser::make,
      "rnd_core_27__pari" => rnd_core_27__pari::make,
      "rnd_core_30__par" => rnd_core_30__par::make,
      "rnd_agg_03__ser" => rnd_agg_03__ser::make,
      "rnd_agg_05__pari" => rnd_agg_05__pari::make,
      "rnd_agg_08__par" => rnd_agg_08__par::make,
      "rnd_agg_11__ser" => rnd_agg_11__ser::make,
      "rnd_agg_13__pari" => rnd_agg_13__pari::make,
      "rnd_prec_01__par" => rnd_prec_01__par::make,
      "rnd_prec_02__topar" => rnd_prec_02__topar::make,
      "rnd_prec_04__pari" => rnd_prec_04__pari::make,
      "rnd_prec_06__ser" => rnd_prec_06__ser::make,
      "rnd_prec_07__to" => rnd_prec_07__to::make,
      "rnd_prea_01__par" => rnd_prea_01__par::make,
      "rnd_prea_04__ser" => rnd_prea_04__ser::make,
      "rnd_prea_06__pari" => rnd_prea_06__pari::make,
      _ => panic!("no such program variant in this shard: {}", name),
   }
}

fn main() {
   quiet_panics();
   let mut out = Out::open();
   let cases = read_cases();
   let mut i = 0;
   while i < cases.len() {
      let case = &cases[i];
      let m = format!("{}__{}", case["prog"].as_str().unwrap(), case["var"].as_str().unwrap());
      if let Some(g) = case["group"].as_i64() {
         // cases of one group run simultaneously
         let mut grp = vec![];
         while i < cases.len() && cases[i]["group"].as_i64() == Some(g) {
            let m = format!("{}__{}", cases[i]["prog"].as_str().unwrap(), cases[i]["var"].as_str().unwrap());
            grp.push((cases[i].clone(), lookup(&m)));
            i += 1;
         }
         drive_group(&grp, &mut out);
      } else {
         drive(case, &mut out, lookup(&m));
         i += 1;
      }
   }
   out.flush();
}
