#![allow(unused_imports, unused_variables, unused_mut, dead_code, non_snake_case, unused_parens, clippy::all)]
use ascent::lattice::bounded_set::BoundedSet;
use ascent::lattice::constant_propagation::ConstPropagation;
use ascent::lattice::set::Set;
use ascent::lattice::Product;
use ascent::{Dual, Lattice};
use vh_lite::{rows_json, Driven, Value};

use vh_lite::{read_cases, drive, drive_group, quiet_panics, Out};

mod tc_left__par;
mod tc_left__src1;
mod tc_left__perm2;
mod tc_nonlin__pari;
mod tc_nonlin__u64;
mod mutual__mrt;
mod mutual__runpar;
mod mutual__strpar;
mod scc_chain__ren;
mod consts__ser;
mod repeated__ren;
mod three_dyn__to;
mod three_dyn__strpar;
mod conds__mrt;
mod conds__runpar;
mod expr_args__pari;
mod multi_head__pari;
mod facts__par;
mod facts__srcto;
mod facts__permpar;
mod opt_cols__mrt;
mod opt_cols__runpar;
mod same_gen__to;
mod same_gen__strpar;
mod not_reorderable__ren;
mod pre_join_rec__perm2;
mod two_inputs__run;
mod two_inputs__init;
mod two_inputs__u64;
mod ternary__perm1;
mod bound_mix__par;
mod bound_mix__strpar;
mod join_chain__str;
mod reach__pari;
mod self_join3__pari;
mod lag_right__ren;
mod lag_left__to;
mod lag_mid__par;
mod lag_mid__strpar;
mod multi_head_rec__pari;
mod sp_dual__to;
mod sp_dual__srcto;
mod sp_dual__permpar;
mod longest_capped__pari;
mod set_reach__run;
mod set_reach__init;
mod cp__ser;
mod lex_lat__ser;
mod lat_two_keys__pari;
mod lat_pre_join__pari;
mod lat_val_bound__pari;
mod lat_input__gen;
mod lat_input__srcpar;
mod count_paths__gen;
mod count_paths__srcpar;
mod neg_basic__gen;
mod neg_basic__srcpar;
mod agg_minmaxsum__par;
mod agg_lattice__par;
mod neg_rec_after__par;
mod agg_empty__par;
mod agg_empty_rel__topar;
mod agg_pre_join__pari;
mod disj__gen;
mod disj__srcpar;
mod disj_nested__par;
mod pat_args__exppar;
mod multi_head_disj__pari;
mod mac_basic__ser;
mod mac_basic__src0;
mod mac_basic__exp;
mod mac_nested__par;
mod mac_gensym_disj__exppar;
mod stress_lat__pari;
mod rnd_core_02__par;
mod rnd_core_05__ser;
mod rnd_core_07__pari;
mod rnd_core_10__par;
mod rnd_core_13__ser;
mod rnd_core_15__pari;
mod rnd_core_18__par;
mod rnd_core_21__ser;
mod rnd_core_23__pari;
mod rnd_core_26__par;
mod rnd_core_29__ser;
mod rnd_agg_01__pari;
mod rnd_agg_04__par;
mod rnd_agg_07__ser;
mod rnd_agg_09__pari;
mod rnd_agg_12__par;
mod rnd_agg_15__ser;
mod rnd_prec_02__ser;
mod rnd_prec_03__to;
mod rnd_prec_05__par;
mod rnd_prec_06__topar;
mod rnd_prec_08__pari;
mod rnd_prea_02__pari;
mod rnd_prea_05__par;
mod rnd_prea_08__ser;

fn lookup(name: &str) -> fn() -> Box<dyn Driven> {
   match name {
      "tc_left__par" => tc_left__par::make,
      "tc_left__src1" => tc_left__src1::make,
      "tc_left__perm2" => tc_left__perm2::make,
      "tc_nonlin__pari" => tc_nonlin__pari::make,
      "tc_nonlin__u64" => tc_nonlin__u64::make,
      "mutual__mrt" => mutual__mrt::make,
      "mutual__runpar" => mutual__runpar::make,
      "mutual__strpar" => mutual__strpar::make,
      "scc_chain__ren" => scc_chain__ren::make,
      "consts__ser" => consts__ser::make,
      "repeated__ren" => repeated__ren::make,
      "three_dyn__to" => three_dyn__to::make,
      "three_dyn__strpar" => three_dyn__strpar::make,
      "conds__mrt" => conds__mrt::make,
      "conds__runpar" => conds__runpar::make,
      "expr_args__pari" => expr_args__pari::make,
      "multi_head__pari" => multi_head__pari::make,
      "facts__par" => facts__par::make,
      "facts__srcto" => facts__srcto::make,
      "facts__permpar" => facts__permpar::make,
      "opt_cols__mrt" => opt_cols__mrt::make,
      "opt_cols__runpar" => opt_cols__runpar::make,
      "same_gen__to" => same_gen__to::make,
      "same_gen__strpar" => same_gen__strpar::make,
      "not_reorderable__ren" => not_reorderable__ren::make,
      "pre_join_rec__perm2" => pre_join_rec__perm2::make,
      "two_inputs__run" => two_inputs__run::make,
      "two_inputs__init" => two_inputs__init::make,
      "two_inputs__u64" => two_inputs__u64::make,
      "ternary__perm1" => ternary__perm1::make,
      "bound_mix__par" => bound_mix__par::make,
      "bound_mix__strpar" => bound_mix__strpar::make,
      "join_chain__str" => join_chain__str::make,
      "reach__pari" => reach__pari::make,
      "self_join3__pari" => self_join3__pari::make,
      "lag_right__ren" => lag_right__ren::make,
      "lag_left__to" => lag_left__to::make,
      "lag_mid__par" => lag_mid__par::make,
      "lag_mid__strpar" => lag_mid__strpar::make,
      "multi_head_rec__pari" => multi_head_rec__pari::make,
      "sp_dual__to" => sp_dual__to::make,
      "sp_dual__srcto" => sp_dual__srcto::make,
      "sp_dual__permpar" => sp_dual__permpar::make,
      "longest_capped__pari" => longest_capped__pari::make,
      "set_reach__run" => set_reach__run::make,
      "set_reach__init" => set_reach__init::make,
      "cp__ser" => cp__ser::make,
      "lex_lat__ser" => lex_lat__ser::make,
      "lat_two_keys__pari" => lat_two_keys__pari::make,
      "lat_pre_join__pari" => lat_pre_join__pari::make,
      "lat_val_bound__pari" => lat_val_bound__pari::make,
      "lat_input__gen" => lat_input__gen::make,
      "lat_input__srcpar" => lat_input__srcpar::make,
      "count_paths__gen" => count_paths__gen::make,
      "count_paths__srcpar" => count_paths__srcpar::make,
      "neg_basic__gen" => neg_basic__gen::make,
      "neg_basic__srcpar" => neg_basic__srcpar::make,
      "agg_minmaxsum__par" => agg_minmaxsum__par::make,
      "agg_lattice__par" => agg_lattice__par::make,
      "neg_rec_after__par" => neg_rec_after__par::make,
      "agg_empty__par" => agg_empty__par::make,
      "agg_empty_rel__topar" => agg_empty_rel__topar::make,
      "agg_pre_join__pari" => agg_pre_join__pari::make,
      "disj__gen" => disj__gen::make,
      "disj__srcpar" => disj__srcpar::make,
      "disj_nested__par" => disj_nested__par::make,
      "pat_args__exppar" => pat_args__exppar::make,
      "multi_head_disj__pari" => multi_head_disj__pari::make,
      "mac_basic__ser" => mac_basic__ser::make,
      "mac_basic__src0" => mac_basic__src0::make,
      "mac_basic__exp" => mac_basic__exp::make,
      "mac_nested__par" => mac_nested__par::make,
      "mac_gensym_disj__exppar" => mac_gensym_disj__exppar::make,
      "stress_lat__pari" => stress_lat__pari::make,
      "rnd_core_02__par" => rnd_core_02__par::make,
      "rnd_core_05__ser" => rnd_core_05__ser::make,
      "rnd_core_07__pari" => rnd_core_07__pari::make,
      "rnd_core_10__par" => rnd_core_10__par::make,
      "rnd_core_13__ser" => rnd_core_13__ser::make,
      "rnd_core_15__pari" => rnd_core_15__pari::make,
      "rnd_core_18__par" => rnd_core_18__par::make,
      "rnd_core_21__ser" => rnd_core_21__ser::make,
      "rnd_core_23__pari" => rnd_core_23__pari::make,
      "rnd_core_26__par" => rnd_core_26__par::make,
      "rnd_core_29__ser" => rnd_core_29__ser::make,
      "rnd_agg_01__pari" => rnd_agg_01__pari::make,
      "rnd_agg_04__par" => rnd_agg_04__par::make,
      "rnd_agg_07__ser" => rnd_agg_07__ser::make,
      "rnd_agg_09__pari" => rnd_agg_09__pari::make,
      "rnd_agg_12__par" => rnd_agg_12__par::make,
      "rnd_agg_15__ser" => rnd_agg_15__ser::make,
      "rnd_prec_02__ser" => rnd_prec_02__ser::make,
      "rnd_prec_03__to" => rnd_prec_03__to::make,
      "rnd_prec_05__par" => rnd_prec_05__par::make,
      "rnd_prec_06__topar" => rnd_prec_06__topar::make,
      "rnd_prec_08__pari" => rnd_prec_08__pari::make,
      "rnd_prea_02__pari" => rnd_prea_02__pari::make,
      "rnd_prea_05__par" => rnd_prea_05__par::make,
      "rnd_prea_08__ser" => rnd_prea_08__ser::make,
      _ => panic!("no such program variant in this shard: {}", name),
   }
}

fn main() {
   quiet_panics();
   let mut out = Out::open();
   let cases = read_cases();
   let mut i = 0;
   while i < cases.len() {
      let case = &cases[i];
      let m = format!("{}__{}", case["prog"].as_str().unwrap(), case["var"].as_str().unwrap());
      if let Some(g) = case["group"].as_i64() {
         // cases of one group run simultaneously
         let mut grp = vec![];
         while i < cases.len() && cases[i]["group"].as_i64() == Some(g) {
            let m = format!("{}__{}", cases[i]["prog"].as_str().unwrap(), cases[i]["var"].as_str().unwrap());
            grp.push((cases[i].clone(), lookup(&m)));
            i += 1;
         }
         drive_group(&grp, &mut out);
      } else {
         drive(case, &mut out, lookup(&m));
         i += 1;
      }
   }
   out.flush();
}
