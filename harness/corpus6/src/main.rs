#![allow(unused_imports, unused_variables, unused_mut, dead_code, non_snake_case, unused_parens, clippy::all)]
use ascent::lattice::bounded_set::BoundedSet;
use ascent::lattice::constant_propagation::ConstPropagation;
use ascent::lattice::set::Set;
use ascent::lattice::Product;
use ascent::{Dual, Lattice};
use vh_lite::{rows_json, Driven, Value};

use vh_lite::{read_cases, drive, drive_group, quiet_panics, Out};

mod tc_left__par;
mod tc_left__src1;
mod tc_left__ren;
mod tc_nonlin__to;
mod tc_nonlin__strpar;
mod mutual__gen;
mod mutual__perm1;
mod scc_chain__par;
mod scc_chain__str;
mod consts__pari;
mod repeated__str;
mod three_dyn__perm1;
mod four_dyn__par;
mod conds__src0;
mod conds__perm2;
mod count_up__pari;
mod multi_head__perm1;
mod facts__mrt;
mod facts__srcpar;
mod opt_cols__ser;
mod opt_cols__src2;
mod same_gen__ser;
mod same_gen__permpar;
mod two_inputs__par;
mod two_inputs__src1;
mod two_inputs__ren;
mod ternary__ser;
mod ternary__u64;
mod bound_mix__permpar;
mod join_chain__perm2;
mod cond_simple_join__pari;
mod zero_arity__pari;
mod lag_right__topar;
mod lag_left__ser;
mod lag_three__to;
mod lag_mid__permpar;
mod lag_late_delta__topar;
mod sp_dual__gen;
mod sp_dual__perm1;
mod sp_weighted__topar;
mod set_reach__pari;
mod set_reach__src2;
mod bset__to;
mod opt_lat__par;
mod lat_two_keys__ser;
mod lat_val_bound__ser;
mod count_paths__run;
mod count_paths__runpar;
mod neg_basic__mrt;
mod neg_basic__srcpar;
mod agg_minmaxsum__par;
mod agg_lattice__par;
mod neg_rec_after__par;
mod agg_empty__par;
mod agg_empty_rel__topar;
mod disj__pari;
mod disj__src2;
mod disj__permpar;
mod pat_args__ser;
mod rep_expr__exp;
mod neg_in_disj__par;
mod mac_basic__topar;
mod mac_basic__init;
mod mac_capture__exp;
mod mac_gensym_disj__par;
mod mac_disj__exppar;
mod rnd_core_03__par;
mod rnd_core_06__ser;
mod rnd_core_08__pari;
mod rnd_core_11__par;
mod rnd_core_14__ser;
mod rnd_core_16__pari;
mod rnd_core_19__par;
mod rnd_core_22__ser;
mod rnd_core_24__pari;
mod rnd_core_27__par;
mod rnd_core_30__ser;
mod rnd_agg_02__pari;
mod rnd_agg_05__par;
mod rnd_agg_08__ser;
mod rnd_agg_10__pari;
mod rnd_agg_13__par;

fn lookup(name: &str) -> fn() -> Box<dyn Driven> {
   match name {
      "tc_left__par" => tc_left__par::make,
      "tc_left__src1" => tc_left__src1::make,
      "tc_left__ren" => tc_left__ren::make,
      "tc_nonlin__to" => tc_nonlin__to::make,
      "tc_nonlin__strpar" => tc_nonlin__strpar::make,
      "mutual__gen" => mutual__gen::make,
      "mutual__perm1" => mutual__perm1::make,
      "scc_chain__par" => scc_chain__par::make,
      "scc_chain__str" => scc_chain__str::make,
      "consts__pari" => consts__pari::make,
      "repeated__str" => repeated__str::make,
      "three_dyn__perm1" => three_dyn__perm1::make,
      "four_dyn__par" => four_dyn__par::make,
      "conds__src0" => conds__src0::make,
      "conds__perm2" => conds__perm2::make,
      "count_up__pari" => count_up__pari::make,
      "multi_head__perm1" => multi_head__perm1::make,
      "facts__mrt" => facts__mrt::make,
      "facts__srcpar" => facts__srcpar::make,
      "opt_cols__ser" => opt_cols__ser::make,
      "opt_cols__src2" => opt_cols__src2::make,
      "same_gen__ser" => same_gen__ser::make,
      "same_gen__permpar" => same_gen__permpar::make,
      "two_inputs__par" => two_inputs__par::make,
      "two_inputs__src1" => two_inputs__src1::make,
      "two_inputs__ren" => two_inputs__ren::make,
      "ternary__ser" => ternary__ser::make,
      "ternary__u64" => ternary__u64::make,
      "bound_mix__permpar" => bound_mix__permpar::make,
      "join_chain__perm2" => join_chain__perm2::make,
      "cond_simple_join__pari" => cond_simple_join__pari::make,
      "zero_arity__pari" => zero_arity__pari::make,
      "lag_right__topar" => lag_right__topar::make,
      "lag_left__ser" => lag_left__ser::make,
      "lag_three__to" => lag_three__to::make,
      "lag_mid__permpar" => lag_mid__permpar::make,
      "lag_late_delta__topar" => lag_late_delta__topar::make,
      "sp_dual__gen" => sp_dual__gen::make,
      "sp_dual__perm1" => sp_dual__perm1::make,
      "sp_weighted__topar" => sp_weighted__topar::make,
      "set_reach__pari" => set_reach__pari::make,
      "set_reach__src2" => set_reach__src2::make,
      "bset__to" => bset__to::make,
      "opt_lat__par" => opt_lat__par::make,
      "lat_two_keys__ser" => lat_two_keys__ser::make,
      "lat_val_bound__ser" => lat_val_bound__ser::make,
      "count_paths__run" => count_paths__run::make,
      "count_paths__runpar" => count_paths__runpar::make,
      "neg_basic__mrt" => neg_basic__mrt::make,
      "neg_basic__srcpar" => neg_basic__srcpar::make,
      "agg_minmaxsum__par" => agg_minmaxsum__par::make,
      "agg_lattice__par" => agg_lattice__par::make,
      "neg_rec_after__par" => neg_rec_after__par::make,
      "agg_empty__par" => agg_empty__par::make,
      "agg_empty_rel__topar" => agg_empty_rel__topar::make,
      "disj__pari" => disj__pari::make,
      "disj__src2" => disj__src2::make,
      "disj__permpar" => disj__permpar::make,
      "pat_args__ser" => pat_args__ser::make,
      "rep_expr__exp" => rep_expr__exp::make,
      "neg_in_disj__par" => neg_in_disj__par::make,
      "mac_basic__topar" => mac_basic__topar::make,
      "mac_basic__init" => mac_basic__init::make,
      "mac_capture__exp" => mac_capture__exp::make,
      "mac_gensym_disj__par" => mac_gensym_disj__par::make,
      "mac_disj__exppar" => mac_disj__exppar::make,
      "rnd_core_03__par" => rnd_core_03__par::make,
      "rnd_core_06__ser" => rnd_core_06__ser::make,
      "rnd_core_08__pari" => rnd_core_08__pari::make,
      "rnd_core_11__par" => rnd_core_11__par::make,
      "rnd_core_14__ser" => rnd_core_14__ser::make,
      "rnd_core_16__pari" => rnd_core_16__pari::make,
      "rnd_core_19__par" => rnd_core_19__par::make,
      "rnd_core_22__ser" => rnd_core_22__ser::make,
      "rnd_core_24__pari" => rnd_core_24__pari::make,
      "rnd_core_27__par" => rnd_core_27__par::make,
      "rnd_core_30__ser" => rnd_core_30__ser::make,
      "rnd_agg_02__pari" => rnd_agg_02__pari::make,
      "rnd_agg_05__par" => rnd_agg_05__par::make,
      "rnd_agg_08__ser" => rnd_agg_08__ser::make,
      "rnd_agg_10__pari" => rnd_agg_10__pari::make,
      "rnd_agg_13__par" => rnd_agg_13__par::make,
      _ => panic!("no such program variant in this shard: {}", name),
   }
}

fn main() {
   quiet_panics();
   let mut out = Out::open();
   let cases = read_cases();
   let mut i = 0;
   while i < cases.len() {
      let case = &cases[i];
      let m = format!("{}__{}", case["prog"].as_str().unwrap(), case["var"].as_str().unwrap());
      if let Some(g) = case["group"].as_i64() {
         // cases of one group run simultaneously
         let mut grp = vec![];
         while i < cases.len() && cases[i]["group"].as_i64() == Some(g) {
            let m = format!("{}__{}", cases[i]["prog"].as_str().unwrap(), cases[i]["var"].as_str().unwrap());
            grp.push((cases[i].clone(), lookup(&m)));
            i += 1;
         }
         drive_group(&grp, &mut out);
      } else {
         drive(case, &mut out, lookup(&m));
         i += 1;
      }
   }
   out.flush();
}
