#![allow(unused_imports, unused_variables, unused_mut, dead_code, non_snake_case, unused_parens, clippy::all)]
use ascent::lattice::bounded_set::BoundedSet;
use ascent::lattice::constant_propagation::ConstPropagation;
use ascent::lattice::set::Set;
use ascent::lattice::Product;
use ascent::{Dual, Lattice};
use vh_lite::{rows_json, Driven, Value};
ascent::ascent_source! {
   conds__src0_src:
   relation e(i32, i32);
   relation lt(i32, i32);
   relation n(i32, i32);
   relation s(i32, i32);
   relation m(i32);
   lt(x, y) <-- e(x, y), if ((*x) < (*y));
   n(x, y) <-- e(x, _), let y = ((*x) + 1), if (y < 3);
}

ascent::ascent! {
   pub struct Prog;
   include_source!(conds__src0_src);
   s(x, k) <-- e(x, _), for k in (0)..((*x));
   m(z) <-- e(x, y) if ((*x) != (*y)), let z = (((*x) * 2) + (*y)), if (((z % 2) == 0) || (z > 4));
}

pub struct D(Prog);
impl Driven for D {
   fn push(&mut self, rel: &str, row: &Value) {
      match rel {
         "e" => { self.0.e.push((row[0].as_i64().unwrap() as i32, row[1].as_i64().unwrap() as i32,)); },
         "lt" => { self.0.lt.push((row[0].as_i64().unwrap() as i32, row[1].as_i64().unwrap() as i32,)); },
         "n" => { self.0.n.push((row[0].as_i64().unwrap() as i32, row[1].as_i64().unwrap() as i32,)); },
         "s" => { self.0.s.push((row[0].as_i64().unwrap() as i32, row[1].as_i64().unwrap() as i32,)); },
         "m" => { self.0.m.push((row[0].as_i64().unwrap() as i32,)); },
         _ => panic!("verif harness: unknown relation {}", rel),
      }
   }
   fn clear(&mut self, rel: &str) {
      match rel {
         "e" => { self.0.e = Default::default(); },
         "lt" => { self.0.lt = Default::default(); },
         "n" => { self.0.n = Default::default(); },
         "s" => { self.0.s = Default::default(); },
         "m" => { self.0.m = Default::default(); },
         _ => panic!("verif harness: unknown relation {}", rel),
      }
   }
   fn run(&mut self) { self.0.run(); }
   fn dump(&self) -> Value {
      let mut m: Vec<(String, Value)> = vec![];
      m.push(("e".to_string(), rows_json(self.0.e.iter())));
      m.push(("lt".to_string(), rows_json(self.0.lt.iter())));
      m.push(("n".to_string(), rows_json(self.0.n.iter())));
      m.push(("s".to_string(), rows_json(self.0.s.iter())));
      m.push(("m".to_string(), rows_json(self.0.m.iter())));
      Value::Obj(m)
   }
   fn summary(&self) -> String { Prog::summary().to_string() }
}
pub fn make() -> Box<dyn Driven> { Box::new(D(Prog::default())) }
