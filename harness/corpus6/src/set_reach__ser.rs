#![allow(unused_imports, unused_variables, unused_mut, dead_code, non_snake_case, unused_parens, clippy::all)]
use ascent::lattice::bounded_set::BoundedSet;
use ascent::lattice::constant_propagation::ConstPropagation;
use ascent::lattice::set::Set;
use ascent::lattice::Product;
use ascent::{Dual, Lattice};
use vh_lite::{rows_json, Driven, Value};
ascent::ascent! {
   pub struct Prog;
   relation e(i32, i32);
   lattice rs(i32, Set<i32>);
   relation has(i32, i32);
   relation both(i32);
   rs(x, Set::singleton((*y))) <-- e(x, y);
   rs(x, s) <-- e(x, y), rs(y, s);
   has(x, y) <-- rs(x, s), for y in (0)..(3), if ((*s).clone()).contains(&(y));
   both(x) <-- rs(x, s), if ((*s).clone()).contains(&(0)), if ((*s).clone()).contains(&(1));
}

pub struct D(Prog);
impl Driven for D {
   fn push(&mut self, rel: &str, row: &Value) {
      match rel {
         "e" => { self.0.e.push((row[0].as_i64().unwrap() as i32, row[1].as_i64().unwrap() as i32,)); },
         "rs" => { self.0.rs.push((row[0].as_i64().unwrap() as i32, Set(row[1].as_array().unwrap().iter().map(|v| v.as_i64().unwrap() as i32).collect()),)); },
         "has" => { self.0.has.push((row[0].as_i64().unwrap() as i32, row[1].as_i64().unwrap() as i32,)); },
         "both" => { self.0.both.push((row[0].as_i64().unwrap() as i32,)); },
         _ => panic!("verif harness: unknown relation {}", rel),
      }
   }
   fn clear(&mut self, rel: &str) {
      match rel {
         "e" => { self.0.e = Default::default(); },
         "rs" => { self.0.rs = Default::default(); },
         "has" => { self.0.has = Default::default(); },
         "both" => { self.0.both = Default::default(); },
         _ => panic!("verif harness: unknown relation {}", rel),
      }
   }
   fn run(&mut self) { self.0.run(); }
   fn dump(&self) -> Value {
      let mut m: Vec<(String, Value)> = vec![];
      m.push(("e".to_string(), rows_json(self.0.e.iter())));
      m.push(("rs".to_string(), rows_json(self.0.rs.iter())));
      m.push(("has".to_string(), rows_json(self.0.has.iter())));
      m.push(("both".to_string(), rows_json(self.0.both.iter())));
      Value::Obj(m)
   }
   fn summary(&self) -> String { Prog::summary().to_string() }
}
pub fn make() -> Box<dyn Driven> { Box::new(D(Prog::default())) }
